/-
  C01 — every input is answered with a value or a diagnosed error, never a crash.
  `pipeline_never_panics`, split per component: this file restates, under C01_*
  names, the no-panic / totality results of the component models (the proofs live
  with their properties).  What is NOT covered by a theorem is named at the end.
-/
import RsjProps.C16
import RsjProps.C14
import RsjProps.C15
import RsjProps.C20
import RsjProps.C19
import RsjProps.C10
import RsjProps.C06
import RsjProps.C12
import RsjProps.C17
import RsjProps.C18
import RsjProps.C03
import RsjProps.C09
import RsjProps.C07
import RsjProps.C04Eval
import RsjModel.PanicSites
namespace Rsj.C01

/-- Lexer: any byte sequence yields tokens or one error — never a panic at an `unwrap`
    / slice site, never out of fuel (each token consumes at least one byte). -/
theorem C01_lex_never_panics (input : List Nat) (flag : Bool) :
    (∃ toks, Rsj.Lexer.lexAll input flag = .ok toks) ∨ (∃ e, Rsj.Lexer.lexAll input flag = .err e) :=
  Rsj.Lexer.C14_lex_total input flag

/-- Span manager: `intern_span` fires no assertion for an in-range request (the lexer
    and parser only make in-range requests: C14_lex_tiles, C15_spans_nested). -/
theorem C01_span_no_panic {m : Rsj.Span.Mgr} {c s e lo hi : Nat}
    (hc : m.contextOffsets c = some (lo, hi)) (hse : s ≤ e) (he : lo + e < hi) :
    ∃ m' id, m.internSpan c s e = .ok (m', id) :=
  Rsj.Span.internSpan_total hc hse he

/-- `--max-trace` cropping never slices out of range (every size, incl. 0). -/
theorem C01_trace_crop_no_panic (n m : Nat) (h : m < n) :
    ∃ fs fl hid sl, Rsj.Span.traceCrop n m = some (fs, fl, hid, sl) ∧
      fs + fl = n ∧ sl ≤ fs ∧ fl + sl = m ∧ hid = n - m ∧ 0 < hid ∧ fl + hid + sl = n :=
  Rsj.Span.C16_trace_crop_total n m h

/-- Parser: a syntax error is located on a token of the input (so rendering it cannot
    index outside the source). -/
theorem C01_parse_error_located {toks : List Rsj.Parser.Token} {sp : Rsj.Parser.Span} {ex : List Rsj.Parser.Expected}
    {act : Rsj.Parser.Actual} (h : Rsj.Parser.parse toks = .expected sp ex act) :
    ∃ t ∈ toks, t.span = sp ∧ Rsj.Parser.Actual.ofKind t.kind = act :=
  Rsj.Parser.C15_error_points_at_token h

/-- Static analysis is total: accepted or rejected with one error (no third outcome). -/
theorem C01_analyze_total (e : Rsj.Core.Expr) (env : Rsj.Analyze.AEnv) :
    Rsj.Analyze.analyze e env = .ok () ∨ ∃ err, Rsj.Analyze.analyze e env = .error err := by
  cases h : Rsj.Analyze.analyze e env with
  | ok u => cases u; exact Or.inl rfl
  | error err => exact Or.inr ⟨err, rfl⟩

/-- Trace counter: with bracketed handlers (proved for the handlers extracted from the
    sources, C10_handlers_bracketed) a run never ends in any of the three panic sites
    (`checked_sub(1).unwrap()`, `get_stack_trace`'s `pop().unwrap()`, the final assert). -/
theorem C01_trace_counter_no_panic {σ : Type} {H : σ → List Rsj.TraceStack.Act × Option σ} (max : Nat)
    (hB : Rsj.TraceStack.HandlersBracketed H) (fuel : Nat) (h0 : σ) {s0 : Rsj.TraceStack.St}
    (hinit : Rsj.TraceStack.Init s0) (p : Rsj.TraceStack.Panic) :
    Rsj.TraceStack.run H max fuel h0 s0 ≠ .panic p :=
  Rsj.TraceStack.C10_no_panic max hB fuel h0 hinit p

/-- Radix parsing never slices inside a character nor overflows its 128-bit window. -/
theorem C01_radix_no_panic (r : Rsj.Codec.Radix) (s : List Nat) :
    Rsj.Codec.parseNumRadix r s ≠ .error .panic :=
  Rsj.Codec.C20_radix_no_panic r s

/-- Comparison of numbers never sees a NaN (`partial_cmp().unwrap()`). -/
theorem C01_compare_no_panic {F : Type} (alg : Rsj.Num.FloatAlg F) (hl : Rsj.Num.Lawful alg) {x y : F}
    (hx : Rsj.Num.Reach alg x) (hy : Rsj.Num.Reach alg y) : ∃ o, Rsj.Num.compareNumbers alg x y = some o :=
  Rsj.Num.C06_no_nan_reaches_compare alg hl hx hy

/-- The format-string parser is total: parts or one of the listed errors. -/
theorem C01_format_parse_total (s : List Char) :
    (∃ parts, Rsj.Format.parseFormat s = .ok parts) ∨ Rsj.Format.parseFormat s = .error .truncated ∨
      Rsj.Format.parseFormat s = .error .widthTooLarge ∨ Rsj.Format.parseFormat s = .error .precTooLarge ∨
      Rsj.Format.parseFormat s = .error .missingPrecDigits ∨ ∃ c, Rsj.Format.parseFormat s = .error (.invalidConv c) :=
  Rsj.Format.C19_parse_total s

/-- The CLI's exit status is 0, 1 or 2. -/
theorem C01_exit_code_range (args : Rsj.Cli.Args) (w : Rsj.Cli.World) :
    (Rsj.Cli.mainInner args w).exit = 0 ∨ (Rsj.Cli.mainInner args w).exit = 1 ∨ (Rsj.Cli.mainInner args w).exit = 2 :=
  Rsj.Cli.C12_exit_range args w

/-- Collector scripts never reach "attempted to access destroyed object". -/
theorem C01_gc_no_destroyed_access (ops : List Rsj.Gc.Op) :
    ∃ out, Rsj.Gc.runScript ops { heap := [], held := [] } [] = some out ∧ out.getLast? = some "end#0" :=
  Rsj.Gc.C03_script_valid ops

/-- What no theorem here covers (decided by the fault search of checks/c01.py and recorded
    in the evidence): the evaluator's nine explicit stacks are modelled as a recursive
    interpreter (their balance is covered by the correspondence run), native-stack
    exhaustion of the recursive parser/analyzer (known finding c01:native-stack), allocator
    exhaustion, and the opaque crates (saphyr-parser, sourceannot, RustCrypto, clap). -/
def C01_pipeline_never_panics_full : Prop :=
  ∀ (runPipeline : List Nat → Option String), ∀ src, (runPipeline src).isSome

end Rsj.C01

open Rsj.C01 in
#print axioms C01_lex_never_panics
open Rsj.C01 in
#print axioms C01_span_no_panic
open Rsj.C01 in
#print axioms C01_trace_crop_no_panic
open Rsj.C01 in
#print axioms C01_parse_error_located
open Rsj.C01 in
#print axioms C01_analyze_total
open Rsj.C01 in
#print axioms C01_trace_counter_no_panic
open Rsj.C01 in
#print axioms C01_radix_no_panic
open Rsj.C01 in
#print axioms C01_compare_no_panic
open Rsj.C01 in
#print axioms C01_format_parse_total
open Rsj.C01 in
#print axioms C01_exit_code_range
open Rsj.C01 in
#print axioms C01_gc_no_destroyed_access

/-! ### The inventory of panic-capable sites (generated table `RsjModel/PanicSites.lean`)

`tools/extract_panic_sites.py` lists every `.unwrap()` / `.expect(..)` / `panic!` /
`unreachable!` / `assert*!` / `unimplemented!` / `todo!` / print macro / `x[i]` / `x[a..b]` /
non-literal `/` `%` / RefCell borrow / `split_at` … of `rsjsonnet-lang/src`,
`rsjsonnet-front/src` and `rsjsonnet/src` under a key that is stable under line shifts, and
`tools/panic_sites.toml` gives every key a class with a justification.  The theorems below
are the obligation: a NEW site (or one whose text changed) has the class `UNMAPPED`, a
vanished one leaves a stale entry, a new member of a bulk class moves a count — each of
them makes one of these `decide`d statements false, so the build of this file fails. -/
namespace Rsj.C01

/-- The fixed vocabulary of classes (justifications: header of `RsjModel/PanicSites.lean`
    and `tools/panic_sites.toml`).  `UNMAPPED` is not a class. -/
def panicClasses : List String :=
  [ "explicit-stack-pop", "guarded-locally", "type-guarded", "state-invariant", "construction-invariant",
    "startup-invariant", "interner/arena-invariant", "refcell-scoped-borrow", "float-arith",
    "infallible-by-type", "host-io", "host-api-contract", "external-crate-protocol", "unclassified-reviewed" ]

/-- Theorems that a class `proved:<name>` may cite.  Hand-maintained; every name is tied to
    the constant of that name by the `example`s below (a renamed or removed theorem breaks
    the build). -/
def provedTheorems : List String :=
  [ "C01_lex_never_panics", "C01_span_no_panic", "C01_trace_crop_no_panic", "C01_trace_counter_no_panic",
    "C01_radix_no_panic", "C01_compare_no_panic", "C01_gc_no_destroyed_access",
    "C01_eval_set_done_assertion_never_fails", "C07_views_agree", "C14_drop_trivia", "C15_spans_nested",
    "C09_eval_no_unbound_at_runtime", "C01_eval_no_internal_error_except_nan", "C15_parse_never_faults" ]

example := @Rsj.C01.C01_lex_never_panics
example := @Rsj.C01.C01_span_no_panic
example := @Rsj.C01.C01_trace_crop_no_panic
example := @Rsj.C01.C01_trace_counter_no_panic
example := @Rsj.C01.C01_radix_no_panic
example := @Rsj.C01.C01_compare_no_panic
example := @Rsj.C01.C01_gc_no_destroyed_access
example := @Rsj.Eval.C01_eval_set_done_assertion_never_fails
example := @Rsj.Object.C07_views_agree
example := @Rsj.Lexer.C14_drop_trivia
example := @Rsj.Parser.C15_spans_nested
example := @Rsj.Parser.C15_parse_never_faults
-- `C09_eval_no_unbound_at_runtime` lives in RsjProps/C09Eval.lean and `C01_eval_no_internal_error_except_nan` in RsjProps/C01Eval.lean, which cannot be imported next to RsjProps.C04Eval
-- (both elaborate equation lemmas of the same evaluator matchers; Lean refuses the duplicate auxiliary declarations).
-- Their existence is checked by the builds of RsjProps.C09Eval and RsjProps.C01Eval, which checks/c01.py builds and audits with this module.

def provedClasses : List String := provedTheorems.map (fun t => "proved:" ++ t)

/-- **C01 panic_sites_all_classified** (generated obligation).  Every panic-capable site of
    the sources has a class of the fixed vocabulary or `proved:<T>` for a listed theorem `T`;
    in particular none is `UNMAPPED`. -/
theorem C01_panic_sites_all_classified :
    ∀ s ∈ Rsj.PanicSites.sites, s.2 ∈ panicClasses ∨ s.2 ∈ provedClasses := by decide +kernel

/-- **C01 panic_sites_proved_exist.**  Every class of the form `proved:<name>` names a theorem
    of `provedTheorems` (each of which exists: the `example`s above). -/
theorem C01_panic_sites_proved_exist :
    ∀ s ∈ Rsj.PanicSites.sites, s.2.startsWith "proved:" = true → s.2 ∈ provedClasses := by decide +kernel

/-- **C01 panic_sites_no_stale.**  No entry of the classification names a vanished site, no
    rule is dead, and every pinned rule count is met. -/
theorem C01_panic_sites_no_stale : Rsj.PanicSites.stale = [] := by decide

def panicSiteCount (c : String) : Nat := (Rsj.PanicSites.sites.filter (fun s => s.2 == c)).length

/-- **C01 panic_sites_counts.**  The size of the inventory and of every class (quoted by the
    evidence).  771 sites: 394 pops / peeks / swaps of the evaluator's explicit stacks, 56 covered by
    a theorem, none left that is only "reviewed" without a guard in sight or a theorem. -/
theorem C01_panic_sites_counts :
    Rsj.PanicSites.sites.length = 771 ∧
    (panicClasses ++ provedClasses).map (fun c => (c, panicSiteCount c)) =
      [ ("explicit-stack-pop", 394), ("guarded-locally", 133), ("type-guarded", 7), ("state-invariant", 69),
        ("construction-invariant", 21), ("startup-invariant", 6), ("interner/arena-invariant", 5),
        ("refcell-scoped-borrow", 13), ("float-arith", 9), ("infallible-by-type", 12), ("host-io", 24),
        ("host-api-contract", 4), ("external-crate-protocol", 18), ("unclassified-reviewed", 0),
        ("proved:C01_lex_never_panics", 6), ("proved:C01_span_no_panic", 6), ("proved:C01_trace_crop_no_panic", 2),
        ("proved:C01_trace_counter_no_panic", 3), ("proved:C01_radix_no_panic", 0), ("proved:C01_compare_no_panic", 1),
        ("proved:C01_gc_no_destroyed_access", 1), ("proved:C01_eval_set_done_assertion_never_fails", 1),
        ("proved:C07_views_agree", 23), ("proved:C14_drop_trivia", 2), ("proved:C15_spans_nested", 1),
        ("proved:C09_eval_no_unbound_at_runtime", 4),
        ("proved:C01_eval_no_internal_error_except_nan", 3), ("proved:C15_parse_never_faults", 3) ] := by
  decide +kernel

/-- The obligation is not vacuous: the table is not empty, and the class the extractor gives
    to an unclassified site is rejected by the test `C01_panic_sites_all_classified` applies. -/
example : Rsj.PanicSites.sites ≠ [] ∧ ¬ ("UNMAPPED" ∈ panicClasses ∨ "UNMAPPED" ∈ provedClasses) ∧
    ¬ ("proved:C01_no_such_theorem" ∈ panicClasses ∨ "proved:C01_no_such_theorem" ∈ provedClasses) := by
  decide +kernel

end Rsj.C01

open Rsj.C01 in
#print axioms C01_panic_sites_all_classified
open Rsj.C01 in
#print axioms C01_panic_sites_proved_exist
open Rsj.C01 in
#print axioms C01_panic_sites_no_stale
open Rsj.C01 in
#print axioms C01_panic_sites_counts
