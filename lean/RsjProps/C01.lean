/-
  C01 — never a crash.  This file is completed once the component theorems exist;
  it restates, under C01_* names, the no-panic results of the component models.
-/
import RsjProps.C16
namespace Rsj.C01

/-- `intern_span` never fires an assertion for an in-range request (see C16). -/
theorem C01_span_no_panic {m : Rsj.Span.Mgr} {c s e lo hi : Nat}
    (hc : m.contextOffsets c = some (lo, hi)) (hse : s ≤ e) (he : lo + e < hi) :
    ∃ m' id, m.internSpan c s e = .ok (m', id) :=
  Rsj.Span.internSpan_total hc hse he

end Rsj.C01

open Rsj.C01 in
#print axioms C01_span_no_panic
