/-
  C13 — imports resolve deterministically, load once, deliver exact content.
  Property theorems only (helper lemmas live in RsjProofs/Import.lean; the
  lossy-UTF-8 specification is RsjProofs/Utf8Lossy.lean).

  Reading guide.  `findImport fs s fromSrc path` is `SessionInner::find_import`
  for an import expression located in source `fromSrc`; `s.searchPaths` is the
  vector filled by `add_search_path`; main.rs calls it for
  `args.jpath.iter().rev()`, i.e. `Session.ofJpaths jl` has
  `searchPaths = jl.reverse`.  `doImport` / `doImportStr` / `doImportBin` are the
  three callbacks, `loadRealFile` is `load_real_file` with its cache keyed by the
  canonical path.  The file system `fs` is fixed during a run.
-/
import RsjProofs.Import
import RsjProofs.ImportOnce
import RsjProofs.Utf8Lossy
namespace Rsj.Import

/-! ## Search order -/

/-- **C13 search_order.** For a relative path the result is the *first existing*
    candidate of `[dir(importer)/path] ++ [J/path | J in search order]`
    (`dir(importer)` is absent for `-e`, stdin and `--ext-code`/`--tla-code` sources). -/
theorem C13_search_order (fs : FS) (s : Session) (fromSrc : Nat) (path full : String)
    (hrel : isAbs path = false) :
    findImport fs s fromSrc path = some full ↔
      fs.exists full = true ∧
      ∃ pre post, ((fromDir s fromSrc).toList ++ s.searchPaths).map (fun b => pathJoin b path)
          = pre ++ full :: post ∧ ∀ c ∈ pre, fs.exists c = false := by
  rw [findImport_rel _ _ _ _ hrel, List.find?_eq_some_iff_append]
  unfold baseDirs
  constructor
  · rintro ⟨h1, pre, post, h2, h3⟩
    exact ⟨h1, pre, post, h2, fun c hc => by simpa using h3 c hc⟩
  · rintro ⟨h1, pre, post, h2, h3⟩
    exact ⟨h1, pre, post, h2, fun c hc => by simpa using h3 c hc⟩

/-- No candidate exists ⇔ nothing is found. -/
theorem C13_search_none (fs : FS) (s : Session) (fromSrc : Nat) (path : String) :
    findImport fs s fromSrc path = none ↔ ∀ c ∈ candidates s fromSrc path, fs.exists c = false := by
  rw [findImport_eq_candidates, List.find?_eq_none]
  constructor
  · intro h c hc; simpa using h c hc
  · intro h c hc; simpa using h c hc

theorem find?_skip {α : Type} (p : α → Bool) (A : List α) (x : α) (B : List α) (hA : ∀ a ∈ A, p a = false)
    (hx : p x = true) : (A ++ x :: B).find? p = some x := by
  induction A with
  | nil => simp [hx]
  | cons a rest ih =>
    have ha : p a = false := hA a (by simp)
    simp only [List.cons_append, List.find?_cons, ha]
    exact ih (fun b hb => hA b (List.mem_cons_of_mem _ hb))

/-- **C13 importer's directory first.** If the file exists next to the importing
    file, that one is taken, whatever the `-J` directories contain. -/
theorem C13_importer_dir_first (fs : FS) (s : Session) (fromSrc : Nat) (path d : String)
    (hrel : isAbs path = false) (hd : fromDir s fromSrc = some d) (he : fs.exists (pathJoin d path) = true) :
    findImport fs s fromSrc path = some (pathJoin d path) := by
  rw [findImport_rel _ _ _ _ hrel]
  unfold baseDirs
  rw [hd]
  simp [he]

/-- **C13 rightmost_J_wins.** With `-J` options `pre ++ [J] ++ post` (command-line
    order), if the file is not next to the importer, exists under `J` and under no
    directory given *after* `J`, then `J/path` is taken — also when directories
    given before `J` contain the file too. -/
theorem C13_rightmost_J_wins (fs : FS) (s : Session) (fromSrc : Nat) (path J : String) (pre post : List String)
    (hs : s.searchPaths = (pre ++ J :: post).reverse) (hrel : isAbs path = false)
    (hdir : ∀ d, fromDir s fromSrc = some d → fs.exists (pathJoin d path) = false)
    (hJ : fs.exists (pathJoin J path) = true)
    (hpost : ∀ J' ∈ post, fs.exists (pathJoin J' path) = false) :
    findImport fs s fromSrc path = some (pathJoin J path) := by
  rw [findImport_rel _ _ _ _ hrel]
  unfold baseDirs
  rw [hs]
  have : ((fromDir s fromSrc).toList ++ (pre ++ J :: post).reverse).map (fun b => pathJoin b path) =
      (((fromDir s fromSrc).toList ++ post.reverse).map (fun b => pathJoin b path)) ++
        pathJoin J path :: (pre.reverse.map (fun b => pathJoin b path)) := by
    simp [List.reverse_append, List.map_append]
  rw [this]
  apply find?_skip _ _ _ _ _ hJ
  intro c hc
  obtain ⟨b, hb, rfl⟩ := List.mem_map.mp hc
  rcases List.mem_append.mp hb with hb | hb
  · cases hfd : fromDir s fromSrc with
    | none => rw [hfd] at hb; simp at hb
    | some d =>
      rw [hfd] at hb
      simp only [Option.toList_some, List.mem_singleton] at hb
      subst hb
      exact hdir _ hfd
  · exact hpost b (List.mem_reverse.mp hb)

/-- The search paths are those registered by main.rs, for the whole run. -/
theorem C13_search_paths_registered (fs : FS) (parses : List Nat → Bool) (jl : List String) (ops : List ImportOp) :
    (runImports fs parses (Session.ofJpaths jl) ops).searchPaths = jl.reverse := by
  rw [runImports_searchPaths]; rfl

/-- **C13 absolute_bypasses.** An absolute path is looked up as it is: neither the
    importing file nor the `-J` directories matter. -/
theorem C13_absolute_bypasses (fs : FS) (s s' : Session) (fromSrc fromSrc' : Nat) (path : String)
    (h : isAbs path = true) :
    findImport fs s fromSrc path = (if fs.exists path then some path else none) ∧
    findImport fs s fromSrc path = findImport fs s' fromSrc' path := by
  rw [findImport_abs _ _ _ _ h, findImport_abs _ _ _ _ h]
  exact ⟨rfl, rfl⟩

/-! ## Load once -/

/-- What a session can do with the file system: load a real file (the root or an
    `--ext-code-file`), load a virtual file, perform an `import`. -/
inductive Step (fs : FS) (parses : List Nat → Bool) : Session → Session → Prop
  | loadReal (s : Session) (path : String) : Step fs parses s (loadRealFile fs parses s path).1
  | loadVirt (s : Session) (repr : String) (data : List Nat) : Step fs parses s (loadVirtFile parses s repr data).1
  | imp (s : Session) (fromSrc : Nat) (path : String) : Step fs parses s (doImport fs parses s fromSrc path).1

inductive Steps (fs : FS) (parses : List Nat → Bool) (s : Session) : Session → Prop
  | refl : Steps fs parses s s
  | tail {s' s'' : Session} : Steps fs parses s s' → Step fs parses s' s'' → Steps fs parses s s''

theorem loadVirtFile_cache (parses : List Nat → Bool) (s : Session) (repr : String) (data : List Nat) :
    (loadVirtFile parses s repr data).1.cache = s.cache ∧ (loadVirtFile parses s repr data).1.loads = s.loads := by
  unfold loadVirtFile
  simp only
  split <;> exact ⟨rfl, rfl⟩

theorem step_inv {fs : FS} {parses : List Nat → Bool} {s s' : Session} (st : Step fs parses s s') (h : Inv s) :
    Inv s' := by
  cases st with
  | loadReal path => exact loadRealFile_inv _ _ _ _ h
  | loadVirt repr data =>
    obtain ⟨h1, h2⟩ := loadVirtFile_cache parses s repr data
    exact ⟨by rw [h2]; exact h.nodup, fun c => by rw [h1, h2]; exact h.keys c⟩
  | imp fromSrc path => exact doImport_inv _ _ _ _ _ h

theorem steps_inv {fs : FS} {parses : List Nat → Bool} {s s' : Session} (st : Steps fs parses s s') (h : Inv s) :
    Inv s' := by
  induction st with
  | refl => exact h
  | tail _ st ih => exact step_inv st ih

theorem steps_cache_mono {fs : FS} {parses : List Nat → Bool} {s s' : Session} (st : Steps fs parses s s')
    {c : String} {t : Nat} (h : cacheGet s.cache c = some t) : cacheGet s'.cache c = some t := by
  induction st with
  | refl => exact h
  | tail _ st ih =>
    cases st with
    | loadReal path => exact loadRealFile_cache_mono _ _ _ _ ih
    | loadVirt repr data => rw [(loadVirtFile_cache parses _ repr data).1]; exact ih
    | imp fromSrc path => exact doImport_cache_mono _ _ _ _ _ ih

/-- **C13 load_once.** In every state a run can reach (any sequence of root /
    ext-file loads, virtual loads and imports, from `Session::new` with any `-J`
    list), each canonical path has been loaded successfully at most once. -/
theorem C13_load_once (fs : FS) (parses : List Nat → Bool) (jl : List String) (s : Session)
    (h : Steps fs parses (Session.ofJpaths jl) s) (c : String) : loadCount s c ≤ 1 :=
  loadCount_le_one (steps_inv h (inv_ofJpaths jl)) c

/-- **C13 several spellings, one thunk.** Once an `import` has delivered thunk `t`
    for a file, every later `import` (from any file, by any spelling, after any
    further activity) whose resolved path has the same canonical path delivers the
    same thunk `t` without loading anything: the session is unchanged.  (A thunk is
    evaluated at most once — C11 — so the file is evaluated once.) -/
theorem C13_same_file_same_thunk (fs : FS) (parses : List Nat → Bool) (s s1 s2 : Session)
    (f1 f2 : Nat) (p1 p2 full1 full2 : String) (t : Nat)
    (h1 : doImport fs parses s f1 p1 = (s1, .ok t))
    (hf1 : findImport fs s f1 p1 = some full1)
    (hsteps : Steps fs parses s1 s2)
    (hf2 : findImport fs s2 f2 p2 = some full2)
    (hcanon : fs.canonicalize full1 = fs.canonicalize full2) :
    doImport fs parses s2 f2 p2 = (s2, .ok t) := by
  unfold doImport at h1 ⊢
  rw [hf1] at h1
  rw [hf2]
  simp only at h1 ⊢
  have hs1 : (loadRealFile fs parses s full1).1 = s1 := by rw [h1]
  have ht : (loadRealFile fs parses s full1).2 = .ok t := by rw [h1]
  obtain ⟨c, hc, hg⟩ := loadRealFile_ok fs parses s full1 ht
  rw [hs1] at hg
  exact loadRealFile_hit fs parses s2 full2 (hcanon ▸ hc) (steps_cache_mono hsteps hg)

/-- Source records are never changed once created. -/
theorem loadRealFile_sources_mono (fs : FS) (parses : List Nat → Bool) (s : Session) (path : String)
    {i : Nat} {src : Source} (h : s.sources[i]? = some src) :
    (loadRealFile fs parses s path).1.sources[i]? = some src := by
  have hi : i < s.sources.length := (List.getElem?_eq_some_iff.mp h).1
  unfold loadRealFile
  split
  · exact h
  · exact h
  · split
    · exact h
    · split
      · exact h
      · simp only
        split
        · simp only; rw [List.getElem?_append_left hi]; exact h
        · simp only; rw [List.getElem?_append_left hi]; exact h

/-- **C13 thisFile.** When a file is actually loaded (cache miss), its source
    record — hence `std.thisFile`, and the directory its own relative imports are
    resolved against — is the path it was *found by* (the joined candidate, not
    the canonical path); later loads of the same file through other spellings hit
    the cache (`C13_same_file_same_thunk`) and leave the record untouched
    (`loadRealFile_sources_mono`). -/
theorem C13_thisFile_is_load_path (fs : FS) (parses : List Nat → Bool) (s : Session) (path c : String) (t : Nat)
    (hc : fs.canonicalize path = .ok c) (hmiss : cacheGet s.cache c = none)
    (h : (loadRealFile fs parses s path).2 = .ok t) :
    (loadRealFile fs parses s path).1.sources[t]? = some { reprPath := path, realPath := some path } := by
  unfold loadRealFile at h ⊢
  simp only [hc, hmiss] at h ⊢
  cases hr : fs.read path with
  | error e => simp [hr] at h
  | ok data =>
    simp only [hr] at h ⊢
    cases hp : parses data with
    | false => simp [hp] at h
    | true =>
      simp only [hp, if_true] at h ⊢
      cases h
      simp

/-- **C13 evaluated once — the statement as first written: FALSE for the model**
    (kept for the record; refuted by `C13_evaluated_once_full_false`).  It asks that
    the ids *listed in `progs`* be distinct, but `progs` is keyed by the *bytes* of a
    file (`progOf`): two files at different canonical locations with identical bytes
    are different files (two cache keys, two thunks) that share one `Prog`, hence one
    id, and that id is traced once per file.  The hypothesis therefore does not say
    "different files carry different ids".  The corrected statement is
    `C13_evaluated_once` below. -/
def C13_evaluated_once_full : Prop :=
  ∀ (fs : FS) (progs : List (List Nat × Prog)) (jl : List String) (root : String),
    (progs.map (fun p => p.2.id)).Nodup → (runRoot fs progs jl root).1.traces.Nodup

/-- Witness: `/r` imports `/a` and `/b`, two distinct files with the same bytes. -/
def onceFS : FS :=
  { cwd := [], entries := [(["r"], .file [0] true), (["a"], .file [1] true), (["b"], .file [1] true)] }
def onceProgs : List (List Nat × Prog) :=
  [([0], { id := "r", ops := [(.code, "/a"), (.code, "/b")] }), ([1], { id := "x", ops := [] })]

/-- The statement as first written does not hold: on the witness the trace is `["r", "x", "x"]`. -/
theorem C13_evaluated_once_full_false : ¬ C13_evaluated_once_full := by
  intro h
  exact absurd (h onceFS onceProgs [] "/r" (by decide)) (by decide)

/-- **C13 evaluated_once (corrected, proved in full).** On the whole-run evaluator of
    the tie (`runRoot`: deep, depth-first evaluation of "node" files with thunk
    memoisation), when *files at different real locations carry different ids*
    (`DistinctIds`: any two readable files of the tree that are node files with the
    same id are stored at the same location), no id is traced twice: every file is
    evaluated at most once however many spellings, symlinks, `-J` directories and
    importers reach it, on every run — successful, failing, cyclic, or out of fuel.
    (Proof: `RsjProofs/ImportOnce.lean`, invariant "every traced id belongs to a
    cached thunk that is memoised or on the stack" through `evalThunk`'s fold.) -/
theorem C13_evaluated_once (fs : FS) (progs : List (List Nat × Prog)) (jl : List String) (root : String)
    (hdistinct : ∀ (loc1 loc2 : List String) (b1 b2 : List Nat) (p1 p2 : Prog),
      fs.lookup loc1 = some (.file b1 true) → fs.lookup loc2 = some (.file b2 true) →
      progOf progs b1 = some p1 → progOf progs b2 = some p2 → p1.id = p2.id → loc1 = loc2) :
    (runRoot fs progs jl root).1.traces.Nodup :=
  runRoot_traces_nodup fs progs jl root hdistinct

/-- The same with the hypothesis of the first statement plus what it was missing:
    the listed ids are distinct *and* node files at different locations have
    different bytes (true of every generated tree: the id is part of the bytes). -/
theorem C13_evaluated_once_of_nodup_ids (fs : FS) (progs : List (List Nat × Prog)) (jl : List String)
    (root : String) (hid : (progs.map (fun p => p.2.id)).Nodup)
    (hbytes : ∀ (loc1 loc2 : List String) (b : List Nat), fs.lookup loc1 = some (.file b true) →
      fs.lookup loc2 = some (.file b true) → (progOf progs b).isSome → loc1 = loc2) :
    (runRoot fs progs jl root).1.traces.Nodup :=
  runRoot_traces_nodup fs progs jl root (distinctIds_of_nodup hid hbytes)

/-- Non-vacuity: a tree in which `/t/w/root` reaches `/t/j/x` by three spellings (a
    symlink, a `-J` hit, an absolute path); the hypothesis holds (checked with the
    executable criterion `distinctIdsB`, sound by `distinctIds_of_check`) and the run
    traces `["root", "x"]`. -/
def onceFS2 : FS :=
  { cwd := ["t", "w"]
    entries := [(["t"], .dir), (["t", "w"], .dir), (["t", "j"], .dir),
      (["t", "w", "root"], .file [0] true), (["t", "j", "x"], .file [1] true),
      (["t", "w", "ln"], .link "../j/x"), (["t", "w", "copy"], .file [2] true)] }
def onceProgs2 : List (List Nat × Prog) :=
  [([0], { id := "root", ops := [(.code, "ln"), (.code, "x"), (.code, "/t/j/x"), (.bin, "copy")] }),
   ([1], { id := "x", ops := [] })]
example : DistinctIds onceFS2 onceProgs2 := distinctIds_of_check (by decide)
example : (runRoot onceFS2 onceProgs2 ["../j"] "root").1.traces = ["root", "x"] := by decide
/-- ... and the witness of the refutation violates the corrected hypothesis, as it must. -/
example : ¬ DistinctIds onceFS onceProgs := by
  intro h
  exact absurd (h ["a"] ["b"] [1] [1] _ _ rfl rfl rfl rfl rfl) (by decide)

/-- **C13 evaluated once — session part** (superseded by `C13_evaluated_once`, kept
    because it speaks about arbitrary `parses`).  The session hands out *one thunk* per
    canonical file (this is `C13_same_file_same_thunk`, restated for two imports in
    direct succession) and loads it once (`C13_load_once`).  The number of TRACE
    lines per file is checked on the real binary by checks/c13.py. -/
theorem C13_evaluated_once_partial (fs : FS) (parses : List Nat → Bool) (s s1 : Session)
    (f1 f2 : Nat) (p1 p2 full1 full2 : String) (t : Nat)
    (h1 : doImport fs parses s f1 p1 = (s1, .ok t))
    (hf1 : findImport fs s f1 p1 = some full1)
    (hf2 : findImport fs s1 f2 p2 = some full2)
    (hcanon : fs.canonicalize full1 = fs.canonicalize full2) :
    doImport fs parses s1 f2 p2 = (s1, .ok t) :=
  C13_same_file_same_thunk fs parses s s1 s1 f1 f2 p1 p2 full1 full2 t h1 hf1 Steps.refl hf2 hcanon

/-! ## Content -/

/-- **C13 importbin_exact.** `importbin` yields exactly the bytes of the file found. -/
theorem C13_importbin_exact (fs : FS) (s : Session) (fromSrc : Nat) (path : String) (bytes : List Nat) :
    doImportBin fs s fromSrc path = .ok bytes ↔
      ∃ full, findImport fs s fromSrc path = some full ∧ fs.read full = .ok bytes := by
  unfold doImportBin
  cases hf : findImport fs s fromSrc path with
  | none => simp
  | some full =>
    simp only [Option.some.injEq, exists_eq_left']
    cases hr : fs.read full with
    | error e => simp
    | ok data =>
      simp only [Except.ok.injEq]

/-- **C13 importstr_lossy.** `importstr` yields the lossy UTF-8 decoding of exactly
    those bytes: never a failure because of the content, and the text is related to
    the bytes by the Unicode "maximal subpart" replacement specification
    (`Rsj.Utf8.Lossy`: well-formed sequences decode to their scalar value, every
    maximal ill-formed subpart becomes one U+FFFD). -/
theorem C13_importstr_lossy (fs : FS) (s : Session) (fromSrc : Nat) (path full : String) (bytes : List Nat)
    (hf : findImport fs s fromSrc path = some full) (hr : fs.read full = .ok bytes)
    (hb : Rsj.Utf8.IsBytes bytes) :
    ∃ cs, doImportStr fs s fromSrc path = .ok cs ∧ Rsj.Utf8.Lossy bytes cs := by
  obtain ⟨cs, h1, h2⟩ := Rsj.Utf8.lossyModel_spec bytes hb
  refine ⟨cs, ?_, h2⟩
  have hbin : doImportBin fs s fromSrc path = .ok bytes := (C13_importbin_exact _ _ _ _ _).mpr ⟨full, hf, hr⟩
  unfold doImportStr
  rw [hbin]
  simp only [h1]

/-- `importstr` does not go through the cache of `import` and never changes the
    session: it is a function of the file system and the resolution alone, and it
    fails exactly when `importbin` fails. -/
theorem C13_importstr_fails_iff (fs : FS) (s : Session) (fromSrc : Nat) (path : String) (e : ImpErr) :
    doImportStr fs s fromSrc path = .err e ↔ doImportBin fs s fromSrc path = .error e := by
  unfold doImportStr
  cases hb : doImportBin fs s fromSrc path with
  | error e' => simp
  | ok data =>
    simp only
    cases Rsj.Utf8.lossyModel data <;> simp

/-! ## Errors -/

/-- **C13 missing_is_error.** If no candidate exists, `import`, `importstr` and
    `importbin` all fail with "not found in search path" (and `import` leaves the
    session unchanged); the evaluator turns the failure into `ImportFailed` at the
    span of the import expression (`evalThunk`: `.imp e <importing file> <op index>`). -/
theorem C13_missing_is_error (fs : FS) (parses : List Nat → Bool) (s : Session) (fromSrc : Nat) (path : String)
    (h : ∀ c ∈ candidates s fromSrc path, fs.exists c = false) :
    doImport fs parses s fromSrc path = (s, .error .notFound) ∧
    doImportStr fs s fromSrc path = .err .notFound ∧
    doImportBin fs s fromSrc path = .error .notFound := by
  have hn := (C13_search_none fs s fromSrc path).mpr h
  refine ⟨by simp [doImport, hn], by simp [doImportStr, doImportBin, hn], by simp [doImportBin, hn]⟩

/-- A directory in place of a file, or an unreadable file, is found (it exists) and
    then fails at the read: an error, never a silent fallback to a later candidate. -/
theorem C13_unreadable_is_error (fs : FS) (s : Session) (fromSrc : Nat) (path full : String) (e : IoErr)
    (hf : findImport fs s fromSrc path = some full) (hr : fs.read full = .error e) :
    doImportBin fs s fromSrc path = .error (.read e) ∧ doImportStr fs s fromSrc path = .err (.read e) := by
  have : doImportBin fs s fromSrc path = .error (.read e) := by simp [doImportBin, hf, hr]
  exact ⟨this, (C13_importstr_fails_iff _ _ _ _ _).mpr this⟩

theorem C13_unreadable_import_is_error (fs : FS) (parses : List Nat → Bool) (s : Session) (fromSrc : Nat)
    (path full c : String) (e : IoErr)
    (hf : findImport fs s fromSrc path = some full) (hc : fs.canonicalize full = .ok c)
    (hmiss : cacheGet s.cache c = none) (hr : fs.read full = .error e) :
    doImport fs parses s fromSrc path = (s, .error (.read e)) := by
  simp [doImport, hf, loadRealFile, hc, hmiss, hr]

theorem FS.read_dir (fs : FS) (p : String) (loc : List String) (h : fs.resolve p = .ok (loc, .dir)) :
    fs.read p = .error .isDir := by
  simp [FS.read, h]

theorem FS.read_unreadable (fs : FS) (p : String) (loc : List String) (b : List Nat)
    (h : fs.resolve p = .ok (loc, .file b false)) : fs.read p = .error .denied := by
  simp [FS.read, h]

/-! ## Non-vacuity: a concrete tree

  `/t/w/root.jsonnet`, `x.libsonnet` in `/t/j1` and `/t/j2`, a symlink
  `/t/w/ln -> ../j2/x.libsonnet`, a directory `/t/j3/x.libsonnet`, binary data. -/

def demoFS : FS :=
  { cwd := ["t", "w"]
    entries := [(["t"], .dir), (["t", "w"], .dir), (["t", "j1"], .dir), (["t", "j2"], .dir), (["t", "j3"], .dir),
      (["t", "w", "root.jsonnet"], .file [49] true),
      (["t", "j1", "x.libsonnet"], .file [50] true),
      (["t", "j2", "x.libsonnet"], .file [51] true),
      (["t", "j3", "x.libsonnet"], .dir),
      (["t", "w", "ln"], .link "../j2/x.libsonnet"),
      (["t", "w", "d.bin"], .file [97, 255, 195, 169] true),
      (["t", "w", "secret"], .file [1] false)] }

def demoSession (jl : List String) : Session :=
  (loadRealFile demoFS (fun _ => true) (Session.ofJpaths jl) "root.jsonnet").1

/-- `-J ../j1 -J ../j2`: the right-most wins; `-J ../j2 -J ../j1`: the other one. -/
example : findImport demoFS (demoSession ["../j1", "../j2"]) 0 "x.libsonnet" = some "../j2/x.libsonnet" ∧
    findImport demoFS (demoSession ["../j2", "../j1"]) 0 "x.libsonnet" = some "../j1/x.libsonnet" := by
  decide

/-- A directory under the right-most `-J` shadows the file under the other one and is an error. -/
example : doImportBin demoFS (demoSession ["../j1", "../j3"]) 0 "x.libsonnet" = .error (.read .isDir) := by
  rfl

/-- Two spellings (a symlink and a `-J` hit) of one file: one load, one thunk. -/
def demoR1 := doImport demoFS (fun _ => true) (demoSession ["../j2"]) 0 "ln"
def demoR2 := doImport demoFS (fun _ => true) demoR1.1 0 "x.libsonnet"
example : demoR1.2 = .ok 1 ∧ demoR2.2 = .ok 1 ∧ demoR2.1.loads = ["/t/w/root.jsonnet", "/t/j2/x.libsonnet"] ∧
    demoR2.1.sources[1]? = some { reprPath := "ln", realPath := some "ln" } :=
  ⟨rfl, rfl, by decide, by decide⟩

/-- importstr / importbin of bytes with an invalid sequence; an unreadable file. -/
example : doImportBin demoFS (demoSession []) 0 "d.bin" = .ok [97, 255, 195, 169] ∧
    doImportStr demoFS (demoSession []) 0 "./d.bin" = .ok [97, 0xFFFD, 0xE9] ∧
    doImportStr demoFS (demoSession []) 0 "secret" = .err (.read .denied) ∧
    doImportStr demoFS (demoSession []) 0 "nothing" = .err .notFound :=
  ⟨rfl, by decide, by decide, by decide⟩

end Rsj.Import

open Rsj.Import in
#print axioms C13_search_order
open Rsj.Import in
#print axioms C13_search_none
open Rsj.Import in
#print axioms C13_importer_dir_first
open Rsj.Import in
#print axioms C13_rightmost_J_wins
open Rsj.Import in
#print axioms C13_search_paths_registered
open Rsj.Import in
#print axioms C13_absolute_bypasses
open Rsj.Import in
#print axioms C13_load_once
open Rsj.Import in
#print axioms C13_same_file_same_thunk
open Rsj.Import in
#print axioms C13_evaluated_once_partial
open Rsj.Import in
#print axioms C13_evaluated_once_full_false
open Rsj.Import in
#print axioms C13_evaluated_once
open Rsj.Import in
#print axioms C13_evaluated_once_of_nodup_ids
open Rsj.Import in
#print axioms C13_thisFile_is_load_path
open Rsj.Import in
#print axioms C13_importbin_exact
open Rsj.Import in
#print axioms C13_importstr_lossy
open Rsj.Import in
#print axioms C13_importstr_fails_iff
open Rsj.Import in
#print axioms C13_missing_is_error
open Rsj.Import in
#print axioms C13_unreadable_is_error
open Rsj.Import in
#print axioms C13_unreadable_import_is_error
