/-
  C17 — sorting and set functions meet their mathematical contracts.
  Property theorems only (helper lemmas live in RsjProofs/Sort*.lean).

  All theorems are about the model `RsjModel/Sort.lean` of `do_std_sort*`,
  `do_std_uniq*`, `do_std_set*`, `do_std_min_array*`, `do_std_max_array*`; they hold
  for every array length, every merge/quick threshold `thr ≥ 1` (the code has 30; with
  0 the code itself would not terminate, see `C17_sort_threshold_zero_diverges`), and
  every key order `O` satisfying `Lawful` (total preorder given as a three-way
  comparison; `EqualsValue` agreeing with `CompareValue`).  `.ok` results mean: no
  `assert!`, no slice-index panic, no `usize` underflow, and the state machine
  terminates.
-/
import RsjProofs.SortAll
namespace Rsj.Sort

variable {α κ : Type} {O : KeyOrd κ}

/-! ### std.sort -/

/-- **C17 sort, general form.** For any elements carrying their input position `pos`
    (input slice position-increasing): `std.sort` terminates without failure, returns a
    permutation of the input, and the output is ordered by
    `key x < key y ∨ (key x ≈ key y ∧ pos x < pos y)`: by key, equal keys in input order. -/
theorem C17_sort_spec (h : Lawful O) {thr : Nat} (hthr : 1 ≤ thr) (key : α → κ) (pos : α → Nat)
    (arr : List α) (hp : PosSorted pos arr) :
    ∃ r, sort O key thr arr = .ok r ∧ r.Perm arr ∧ r.Pairwise (Before O key pos) :=
  sort_spec h hthr arr hp

/-- **C17 sort of an arbitrary array** (elements need not be distinct, no position
    information in the elements): the output is the input elements, each tagged with its
    input position `arr.zipIdx`, rearranged so that keys ascend and equal keys keep
    ascending input positions. -/
theorem C17_sort_array (h : Lawful O) {thr : Nat} (hthr : 1 ≤ thr) (key : α → κ) (arr : List α) :
    ∃ r : List (α × Nat), sort O key thr arr = .ok (r.map Prod.fst) ∧ r.Perm arr.zipIdx ∧
      r.Pairwise (fun x y => O.cmp (key x.1) (key y.1) = .lt ∨
        (O.cmp (key x.1) (key y.1) = .eq ∧ x.2 < y.2)) :=
  sort_array h hthr arr

/-- **C17_sort_perm.** The output is a permutation of the indices `0..n-1`
    (in particular: defined for every length `n`). -/
theorem C17_sort_perm (h : Lawful O) {thr : Nat} (hthr : 1 ≤ thr) (key : Nat → κ) (n : Nat) :
    ∃ r, sortIdx O key thr n = .ok r ∧ r.Perm (List.range n) := by
  obtain ⟨r, e, p, _⟩ := sort_spec (key := key) h hthr (List.range n) (posSorted_range n)
  exact ⟨r, e, p⟩

/-- **C17_sort_sorted.** Keys are non-decreasing along the output. -/
theorem C17_sort_sorted (h : Lawful O) {thr : Nat} (hthr : 1 ≤ thr) (key : Nat → κ) (n : Nat)
    (r : List Nat) (hr : sortIdx O key thr n = .ok r) :
    r.Pairwise (fun i j => O.cmp (key i) (key j) ≠ .gt) := by
  obtain ⟨r', e, _, s⟩ := sort_spec (key := key) h hthr (List.range n) (posSorted_range n)
  unfold sortIdx at hr
  rw [e] at hr; cases hr
  exact before_pairwise_sorted s

/-- **C17_sort_stable.** The output is ordered by key, and elements with equal keys
    keep their input order. -/
theorem C17_sort_stable (h : Lawful O) {thr : Nat} (hthr : 1 ≤ thr) (key : Nat → κ) (n : Nat)
    (r : List Nat) (hr : sortIdx O key thr n = .ok r) :
    r.Pairwise (fun i j =>
      O.cmp (key i) (key j) = .lt ∨ (O.cmp (key i) (key j) = .eq ∧ i < j)) := by
  obtain ⟨r', e, _, s⟩ := sort_spec (key := key) h hthr (List.range n) (posSorted_range n)
  unfold sortIdx at hr
  rw [e] at hr; cases hr
  exact s

/-- **C17_sort_unique.** Permutation + ordered + stable determine the output: any list
    with these properties *is* what `std.sort` returns. -/
theorem C17_sort_unique (h : Lawful O) {thr : Nat} (hthr : 1 ≤ thr) (key : Nat → κ) (n : Nat)
    (r' : List Nat) (hp : r'.Perm (List.range n))
    (hs : r'.Pairwise (fun i j =>
      O.cmp (key i) (key j) = .lt ∨ (O.cmp (key i) (key j) = .eq ∧ i < j))) :
    sortIdx O key thr n = .ok r' := by
  obtain ⟨r, e, p, s⟩ := sort_spec (key := key) h hthr (List.range n) (posSorted_range n)
  unfold sortIdx
  rw [e, before_unique (pos := fun i => i) h s hs (p.trans hp.symm)]

/-- The threshold between merge and quick sort does not influence the result. -/
theorem C17_sort_threshold_irrelevant (h : Lawful O) {thr thr' : Nat} (hthr : 1 ≤ thr)
    (hthr' : 1 ≤ thr') (key : Nat → κ) (n : Nat) :
    sortIdx O key thr n = sortIdx O key thr' n := by
  obtain ⟨r, e, p, s⟩ := sort_spec (key := key) h hthr' (List.range n) (posSorted_range n)
  rw [show sortIdx O key thr' n = .ok r from e]
  exact C17_sort_unique h hthr key n r p s

/-- Why `1 ≤ thr` is needed: with threshold 0 a one-element slice is split into an
    empty slice and itself for ever (in the model: no amount of fuel suffices). -/
theorem C17_sort_threshold_zero_diverges (key : α → κ) :
    ∀ (fuel : Nat) (l : List α), 1 ≤ l.length → sortSlice O key 0 fuel l = .error .fuel := by
  intro fuel
  induction fuel with
  | zero => intro l _; rfl
  | succ fuel ih =>
    intro l hl
    simp only [sortSlice]
    rw [if_pos (by omega)]
    by_cases hm : 1 ≤ l.length / 2
    · rw [ih (l.take (l.length / 2)) (by rw [List.length_take]; omega)]
    · have h0 : l.length / 2 = 0 := by omega
      rw [h0, List.drop_zero, ih l hl, List.take_zero]
      cases fuel with
      | zero => rfl
      | succ k => simp [sortSlice]

/-! ### std.uniq -/

/-- **C17_uniq_spec.** `std.uniq` keeps the first element and exactly those elements
    whose key differs from the key of their predecessor in the input, i.e. it drops
    exactly the adjacent key-duplicates. -/
theorem C17_uniq_spec (key : α → κ) (arr : List α) :
    uniq O key arr =
      match arr with
      | [] => []
      | x :: rest =>
        x :: ((arr.zip rest).filter (fun pc => !O.eqv (key pc.1) (key pc.2))).map Prod.snd :=
  uniq_zip arr

/-- The other reading of the same contract: an element is kept iff its key differs from
    the key of the last *kept* element (`uniqKept`), i.e. the first element of every run
    of equal adjacent keys is kept.  (The code compares with the previous *item*; for a
    lawful equality the two coincide.) -/
theorem C17_uniq_kept (h : Lawful O) (key : α → κ) (arr : List α) :
    uniq O key arr =
      match arr with
      | [] => []
      | x :: rest => x :: uniqKept O key (key x) rest :=
  uniq_eq_kept h arr

/-- The result of `std.uniq` is a sub-sequence of the input. -/
theorem C17_uniq_sublist (key : α → κ) (arr : List α) : (uniq O key arr).Sublist arr :=
  uniq_sublist arr

/-- On a key-sorted input the result is strictly key-sorted (a set), and every input
    element is represented by the first element of its run: one with an equal key that is
    the element itself or precedes it (`R` = any relation the input is pairwise in). -/
theorem C17_uniq_sorted (h : Lawful O) (key : α → κ) (arr : List α)
    (hs : arr.Pairwise (fun x y => O.cmp (key x) (key y) ≠ .gt)) :
    (uniq O key arr).Pairwise (fun x y => O.cmp (key x) (key y) = .lt) :=
  uniq_strict h arr hs

theorem C17_uniq_cover (h : Lawful O) (key : α → κ) {R : α → α → Prop} (arr : List α)
    (hs : arr.Pairwise R) :
    ∀ x ∈ arr, ∃ y ∈ uniq O key arr, O.cmp (key y) (key x) = .eq ∧ (y = x ∨ R y x) :=
  uniq_cover h arr hs

/-! ### std.set -/

/-- **C17_set_def.** `std.set` (which re-uses the cached keys and walks the sorted
    index vector) equals `std.uniq` of `std.sort` — for every input and threshold,
    including the failure outcomes. -/
theorem C17_set_def (key : α → κ) (thr : Nat) (arr : List α) :
    set O key thr arr = (sort O key thr arr).map (uniq O key) :=
  set_def thr arr

/-- `std.set` returns a set (strictly key-sorted) of input elements that represents
    every input key, by the *first* input element carrying that key. -/
theorem C17_set_spec (h : Lawful O) {thr : Nat} (hthr : 1 ≤ thr) (key : α → κ) (pos : α → Nat)
    (arr : List α) (hp : PosSorted pos arr) :
    ∃ r, set O key thr arr = .ok r ∧
      r.Pairwise (fun x y => O.cmp (key x) (key y) = .lt) ∧
      (∀ y ∈ r, y ∈ arr) ∧
      ∀ x ∈ arr, ∃ y ∈ r, O.cmp (key y) (key x) = .eq ∧ pos y ≤ pos x := by
  obtain ⟨s, e, p, pw⟩ := sort_spec (key := key) h hthr arr hp
  refine ⟨uniq O key s, ?_, uniq_strict h s (before_pairwise_sorted pw), ?_, ?_⟩
  · rw [set_def, e]; rfl
  · intro y hy; exact p.subset ((uniq_sublist s).subset hy)
  · intro x hx
    obtain ⟨y, hy, e1, hr⟩ := uniq_cover h s pw x (p.symm.subset hx)
    refine ⟨y, hy, e1, ?_⟩
    rcases hr with rfl | hb | ⟨_, hlt⟩
    · exact Nat.le_refl _
    · rw [e1] at hb; cases hb
    · exact Nat.le_of_lt hlt

/-! ### std.setInter / std.setUnion / std.setDiff on sets -/

/-- **C17_inter_spec.** On strictly key-sorted `a`, `b`: `std.setInter` returns exactly
    the elements *of `a`* whose key occurs in `b`, in order (hence strictly sorted). -/
theorem C17_inter_spec (h : Lawful O) (key : α → κ) (a b : List α)
    (ha : StrictSorted O key a) (hb : StrictSorted O key b) :
    ∃ r, setInter O key a b = .ok r ∧
      r = a.filter (fun x => b.any (fun y => O.cmp (key x) (key y) == .eq)) ∧
      StrictSorted O key r ∧
      ∀ z, z ∈ r ↔ z ∈ a ∧ ∃ y ∈ b, O.cmp (key z) (key y) = .eq := by
  refine ⟨_, setInter_eq a b, interL_spec h a b ha hb, ?_, ?_⟩
  · rw [interL_spec h a b ha hb]; exact ha.sublist List.filter_sublist
  · intro z
    rw [interL_spec h a b ha hb, List.mem_filter, inB_eq_true]

/-- **C17_diff_spec.** `std.setDiff` returns exactly the elements of `a` whose key does
    not occur in `b`, in order. -/
theorem C17_diff_spec (h : Lawful O) (key : α → κ) (a b : List α)
    (ha : StrictSorted O key a) (hb : StrictSorted O key b) :
    ∃ r, setDiff O key a b = .ok r ∧
      r = a.filter (fun x => !b.any (fun y => O.cmp (key x) (key y) == .eq)) ∧
      StrictSorted O key r ∧
      ∀ z, z ∈ r ↔ z ∈ a ∧ ¬ ∃ y ∈ b, O.cmp (key z) (key y) = .eq := by
  refine ⟨_, setDiff_eq a b, diffL_spec h a b ha hb, ?_, ?_⟩
  · rw [diffL_spec h a b ha hb]; exact ha.sublist List.filter_sublist
  · intro z
    rw [diffL_spec h a b ha hb, List.mem_filter, ← inB_eq_true]
    simp

/-- **C17_union_spec.** `std.setUnion` returns a strictly key-sorted list consisting of
    all elements of `a` and exactly those elements of `b` whose key does not occur in
    `a` (on ties the element of `a` is taken); hence every key of `a` or `b` occurs. -/
theorem C17_union_spec (h : Lawful O) (key : α → κ) (a b : List α)
    (ha : StrictSorted O key a) (hb : StrictSorted O key b) :
    ∃ r, setUnion O key a b = .ok r ∧
      StrictSorted O key r ∧
      (∀ z, z ∈ r ↔ z ∈ a ∨ (z ∈ b ∧ ¬ ∃ y ∈ a, O.cmp (key z) (key y) = .eq)) ∧
      ∀ z, z ∈ a ∨ z ∈ b → ∃ w ∈ r, O.cmp (key z) (key w) = .eq := by
  have hmem : ∀ z, z ∈ unionL O key a b ↔
      z ∈ a ∨ (z ∈ b ∧ ¬ ∃ y ∈ a, O.cmp (key z) (key y) = .eq) := by
    intro z
    rw [mem_unionL h a b ha hb z, ← inB_eq_true]
    simp
  refine ⟨_, setUnion_eq a b, unionL_sorted h a b ha hb, hmem, ?_⟩
  intro z hz
  rcases hz with hz | hz
  · exact ⟨z, (hmem z).mpr (.inl hz), h.cmp_self _⟩
  · by_cases hex : ∃ y ∈ a, O.cmp (key z) (key y) = .eq
    · obtain ⟨y, hy, e⟩ := hex
      exact ⟨y, (hmem y).mpr (.inl hy), e⟩
    · exact ⟨z, (hmem z).mpr (.inr ⟨hz, hex⟩), h.cmp_self _⟩

/-! ### std.setMember -/

/-- **C17_member_spec.** On a key-sorted array the binary search terminates without
    index underflow / out-of-range access and answers whether some element has a key
    equal to `keyF(x)`. -/
theorem C17_member_spec (h : Lawful O) (key : α → κ) (x : α) (arr : List α)
    (hs : arr.Pairwise (fun a b => O.cmp (key a) (key b) ≠ .gt)) :
    setMember O key x arr = .ok (arr.any (fun y => O.cmp (key x) (key y) == .eq)) :=
  setMember_spec h x arr hs

theorem C17_member_iff (h : Lawful O) (key : α → κ) (x : α) (arr : List α)
    (hs : arr.Pairwise (fun a b => O.cmp (key a) (key b) ≠ .gt)) :
    (setMember O key x arr = .ok true ↔ ∃ y ∈ arr, O.cmp (key x) (key y) = .eq) ∧
    (setMember O key x arr = .ok false ↔ ¬ ∃ y ∈ arr, O.cmp (key x) (key y) = .eq) := by
  rw [setMember_spec h x arr hs]
  cases hk : hasKey O key (key x) arr
  · have : ¬ ∃ y ∈ arr, O.cmp (key x) (key y) = .eq := by
      intro ⟨y, hy, e⟩
      have : hasKey O key (key x) arr = true := by
        simp only [hasKey, List.any_eq_true, beq_iff_eq]; exact ⟨y, hy, e⟩
      rw [hk] at this; cases this
    simp [this]
  · have : ∃ y ∈ arr, O.cmp (key x) (key y) = .eq := by
      simpa [hasKey] using hk
    simp [this]

/-! ### std.minArray / std.maxArray -/

/-- **C17_min_first_minimal.** `std.minArray` evaluates `onEmpty` exactly on the empty
    array; otherwise it returns `arr[i]` where `i` is the *first* index with a minimal key. -/
theorem C17_min_first_minimal (h : Lawful O) (key : α → κ) (arr : List α) :
    (arr = [] ∧ minArray O key arr = .ok none) ∨
    ∃ i, ∃ (hi : i < arr.length), minArray O key arr = .ok (some arr[i]) ∧
      (∀ j (hj : j < arr.length), O.cmp (key arr[i]) (key arr[j]) ≠ .gt) ∧
      (∀ j (hj : j < arr.length), j < i → O.cmp (key arr[j]) (key arr[i]) = .gt) :=
  minArray_spec h arr

/-- **C17_max_first_maximal.** Likewise the *first* index with a maximal key. -/
theorem C17_max_first_maximal (h : Lawful O) (key : α → κ) (arr : List α) :
    (arr = [] ∧ maxArray O key arr = .ok none) ∨
    ∃ i, ∃ (hi : i < arr.length), maxArray O key arr = .ok (some arr[i]) ∧
      (∀ j (hj : j < arr.length), O.cmp (key arr[i]) (key arr[j]) ≠ .lt) ∧
      (∀ j (hj : j < arr.length), j < i → O.cmp (key arr[j]) (key arr[i]) = .lt) :=
  maxArray_spec h arr

/-! ### Non-vacuity -/

/-- The laws are satisfiable: the driver's integer order. -/
example : Lawful intOrd := intOrd_lawful

/-- The driver's arrays `[(0,k0),(1,k1),..]` with `pos = fst` satisfy `PosSorted`. -/
example (ks : List Int) : PosSorted (fun p : Nat × Int => p.1) (tagFrom 0 ks) :=
  (posSorted_tagFrom ks 0).1

/-- A concrete run with duplicated keys through both the merge (threshold 2) and the
    quick path: keys `3,1,2,1,3,1` give indices `1,3,5,2,0,4`. -/
example : sortIdx intOrd (fun i => [3, 1, 2, 1, 3, 1].getD i 0) 2 6 = .ok [1, 3, 5, 2, 0, 4] :=
  C17_sort_unique intOrd_lawful (by decide) _ 6 _ (by decide) (by decide)

/-- Two concrete sets with a common and a non-common key. -/
example : StrictSorted intOrd Prod.snd [(0, (1 : Int)), (1, 3), (2, 5)] ∧
    StrictSorted intOrd Prod.snd [(3, (2 : Int)), (4, 3), (5, 6)] := by
  unfold StrictSorted; decide

end Rsj.Sort

open Rsj.Sort in
#print axioms C17_sort_spec
open Rsj.Sort in
#print axioms C17_sort_array
open Rsj.Sort in
#print axioms C17_sort_perm
open Rsj.Sort in
#print axioms C17_sort_sorted
open Rsj.Sort in
#print axioms C17_sort_stable
open Rsj.Sort in
#print axioms C17_sort_unique
open Rsj.Sort in
#print axioms C17_sort_threshold_irrelevant
open Rsj.Sort in
#print axioms C17_sort_threshold_zero_diverges
open Rsj.Sort in
#print axioms C17_uniq_spec
open Rsj.Sort in
#print axioms C17_uniq_kept
open Rsj.Sort in
#print axioms C17_uniq_sublist
open Rsj.Sort in
#print axioms C17_uniq_sorted
open Rsj.Sort in
#print axioms C17_uniq_cover
open Rsj.Sort in
#print axioms C17_set_def
open Rsj.Sort in
#print axioms C17_set_spec
open Rsj.Sort in
#print axioms C17_inter_spec
open Rsj.Sort in
#print axioms C17_diff_spec
open Rsj.Sort in
#print axioms C17_union_spec
open Rsj.Sort in
#print axioms C17_member_spec
open Rsj.Sort in
#print axioms C17_member_iff
open Rsj.Sort in
#print axioms C17_min_first_minimal
open Rsj.Sort in
#print axioms C17_max_first_maximal
