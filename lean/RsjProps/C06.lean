/-
  C06 — numbers are always finite doubles, read and printed exactly.
  Property theorems only (helper lemmas live in RsjProofs/Num.lean, RsjProofs/Dec*.lean).

  What is proved here is about the model (`RsjModel/Num.lean`, `RsjModel/Dec.lean`); that the
  model's producers gate exactly where /repo does is tied by `C06_every_site_modelled`
  (generated from the source on every run) and by the differential run of checks/c06.py.
  That Rust's `str::parse::<f64>` / `Display for f64` satisfy the specifications
  `isNearestEven` / `isShortestRT`, and that binary64 arithmetic satisfies `Lawful`, is
  validated by the check, not proved (trusted base).
-/
import RsjModel.NumberSites
import RsjProofs.Num
import RsjProofs.Dec
import RsjProofs.DecRound
namespace Rsj.Num

/-! ### producers -/

/-- **C06 producers_finite.** For every float algebra satisfying the laws, every producer
    of the model applied to finite operands either reports an error or yields a finite
    value: no operator or builtin hands out NaN or an infinity.  (`sum` / `avg` are folds
    with the gate applied after every addition — the statement failed for the ungated fold
    that /repo had before the `std.sum` / `std.avg` fix.) -/
theorem C06_producers_finite {F : Type} (alg : FloatAlg F) (hl : Lawful alg)
    (p : Producer) (args : List F) (hfin : ∀ x ∈ args, Finite alg x)
    (r : F) (h : run alg p args = .ok r) : Finite alg r :=
  producers_finite alg hl p args hfin r h

/-- **C06 gated_sites_unconditional.** The producers whose construction site must carry the
    gate (`siteGated`, see `C06_every_site_modelled`) yield finite values for arbitrary
    operands and without any law: the gate alone is sufficient. -/
theorem C06_gated_sites_unconditional {F : Type} (alg : FloatAlg F)
    (name : String) (hn : name ∈ siteGated) (p : Producer) (hp : producerOfName name = some p)
    (args : List F) (hs : p = .sum → args ≠ []) (r : F) (h : run alg p args = .ok r) :
    Finite alg r := by
  have : name = p.name := producerOfName_some hp
  exact gated_unconditional alg p (this ▸ hn) args hs r h

/-- Numbers that can exist in an evaluation: results of producers applied to such numbers
    (literals, constants, conversions and parsed numbers are producers without operands). -/
inductive Reach {F : Type} (alg : FloatAlg F) : F → Prop
  | prod (p : Producer) (args : List F) (r : F) :
      (∀ x ∈ args, Reach alg x) → run alg p args = .ok r → Reach alg r

theorem C06_reachable_finite {F : Type} (alg : FloatAlg F) (hl : Lawful alg) {x : F}
    (h : Reach alg x) : Finite alg x := by
  induction h with
  | prod p args r _ hrun ih => exact producers_finite alg hl p args ih r hrun

/-- **C06 no_nan_reaches_compare.** `lhs.partial_cmp(&rhs).unwrap()` of `State::CompareValue`
    cannot panic on numbers that come from producers: the comparison is always defined. -/
theorem C06_no_nan_reaches_compare {F : Type} (alg : FloatAlg F) (hl : Lawful alg) {x y : F}
    (hx : Reach alg x) (hy : Reach alg y) : ∃ o, compareNumbers alg x y = some o := by
  have h := hl.partialCmp_some x y (C06_reachable_finite alg hl hx).1 (C06_reachable_finite alg hl hy).1
  unfold compareNumbers
  cases hc : alg.partialCmp x y with
  | none => rw [hc] at h; cases h
  | some o => exact ⟨o, rfl⟩

/-- **C06 every_site_modelled** (generated obligation). Every place of
    rsjsonnet-lang/src/program/**/*.rs that constructs a `ValueData::Number` is mapped
    (tools/number_sites.toml) to a producer of the model or to a justified class, and every
    site mapped to a producer that must be gated at the site is gated in the source. -/
theorem C06_every_site_modelled :
    ∀ s ∈ NumberSites.sites,
      (s.mapped ∈ producerNames ∨ s.mapped ∈ siteClasses) ∧
      (s.mapped ∈ siteGated → s.gated = true) := by decide

/-! ### non-vacuity: a lawful algebra with overflow (bounded integers) -/

inductive Toy where
  | fin (i : Int)
  | inf
  | nan
deriving DecidableEq, Repr

def toyMk (i : Int) : Toy := if -1000 ≤ i ∧ i ≤ 1000 then .fin i else .inf

def toyBin (f : Int → Int → Int) : Toy → Toy → Toy
  | .fin a, .fin b => toyMk (f a b)
  | .nan, _ => .nan
  | _, .nan => .nan
  | _, _ => .inf

def toyAlg : FloatAlg Toy where
  add := toyBin (· + ·)
  sub := toyBin (· - ·)
  mul := toyBin (· * ·)
  div := fun a b => match a, b with
    | .fin a, .fin b => if b = 0 then .nan else .fin (a / b)
    | _, _ => .nan
  rem := fun a b => match a, b with
    | .fin a, .fin b => if b = 0 then .nan else .fin (a % b)
    | _, _ => .nan
  neg := fun a => match a with | .fin a => .fin (-a) | x => x
  floor := id
  ceil := id
  sqrt := fun _ => .nan
  exp := fun _ => .inf
  log := fun _ => .nan
  log2 := fun _ => .nan
  log10 := fun _ => .nan
  sin := fun _ => .fin 0
  cos := fun _ => .fin 1
  tan := fun _ => .fin 0
  asin := fun _ => .nan
  acos := fun _ => .nan
  atan := fun _ => .fin 0
  pow := fun _ _ => .inf
  atan2 := fun _ _ => .fin 0
  hypot := toyBin (fun a b => a.natAbs + b.natAbs)
  toRadians := id
  toDegrees := toyBin (· * ·) (.fin 57)
  mantissa := id
  exponent := fun _ => 0
  ofInt := .fin
  ofDec := fun neg n e => toyMk ((if neg then -1 else 1) * (n : Int) * 10 ^ e.toNat)
  toInt := fun a => match a with | .fin a => a | _ => 0
  lt := fun a b => match a, b with | .fin a, .fin b => decide (a < b) | _, _ => false
  partialCmp := fun a b => match a, b with
    | .fin a, .fin b => some (compare a b)
    | .nan, _ => none
    | _, .nan => none
    | .inf, .inf => some .eq
    | .inf, _ => some .gt
    | _, .inf => some .lt
  eqZero := fun a => a == .fin 0
  signNeg := fun a => match a with | .fin a => decide (a < 0) | _ => false
  isNaN := fun a => a == .nan
  isInf := fun a => a == .inf
  pi := .fin 3

theorem toy_fin_of_finite {x : Toy} (h : Finite toyAlg x) : ∃ i, x = .fin i := by
  cases x with
  | fin i => exact ⟨i, rfl⟩
  | inf => exact absurd h.2 (by decide)
  | nan => exact absurd h.1 (by decide)

theorem toy_lawful : Lawful toyAlg where
  neg_finite := by
    intro x hx; obtain ⟨i, rfl⟩ := toy_fin_of_finite hx; exact ⟨rfl, rfl⟩
  floor_finite := fun _ h => h
  ceil_finite := fun _ h => h
  mantissa_finite := fun _ h => h
  exponent_i16 := by
    intro x
    show (-32768 : Int) ≤ 0 ∧ (0 : Int) ≤ 32767
    omega
  ofInt_finite := fun _ _ _ => ⟨rfl, rfl⟩
  div_count_finite := by
    intro x n hx h1 _
    obtain ⟨i, rfl⟩ := toy_fin_of_finite hx
    show Finite toyAlg (if (n : Int) = 0 then Toy.nan else Toy.fin (i / n))
    have : (n : Int) ≠ 0 := by omega
    rw [if_neg this]; exact ⟨rfl, rfl⟩
  pi_finite := ⟨rfl, rfl⟩
  partialCmp_some := by
    intro x y hx hy
    cases x <;> cases y <;> first | rfl | exact absurd hx (by decide) | exact absurd hy (by decide)

deriving instance DecidableEq for Except

/-- The hypotheses of `C06_producers_finite` are satisfiable, and the gate matters: in the
    lawful toy algebra a fold over finite values overflows in the middle and is reported,
    although the total is in range. -/
example : Lawful toyAlg ∧
    run toyAlg .sum [.fin 1000, .fin 1, .fin (-5)] = .error .numberOverflow ∧
    run toyAlg .sum [.fin 1, .fin 2, .fin 4] = .ok (.fin 7) ∧
    run toyAlg .avg [.fin 1, .fin 2, .fin 4] = .ok (.fin 2) ∧
    run toyAlg .div [.fin 1, .fin 0] = .error .divByZero ∧
    run toyAlg .sqrt [.fin 4] = .error .numberNan ∧
    run toyAlg .shl [.fin 1, .fin 62] = .ok (.fin (2 ^ 62)) ∧
    run toyAlg .shl [.fin 1, .fin 63] = .error .notBitwiseSafe ∧
    run toyAlg .bnot [.fin 5] = .ok (.fin (-6)) ∧
    Reach toyAlg (.fin 7) := by
  refine ⟨toy_lawful, by decide, by decide, by decide, by decide, by decide, by decide,
    by decide, by decide, ?_⟩
  exact Reach.prod .sum [.fin 1, .fin 2, .fin 4] _
    (fun x hx => by
      have h : x = .fin 1 ∨ x = .fin 2 ∨ x = .fin 4 := by simpa using hx
      rcases h with rfl | rfl | rfl
      · exact Reach.prod (.intConv 1) [] _ (fun _ h => by cases h) rfl
      · exact Reach.prod (.intConv 2) [] _ (fun _ h => by cases h) rfl
      · exact Reach.prod (.intConv 4) [] _ (fun _ h => by cases h) rfl)
    rfl

end Rsj.Num

namespace Rsj.Dec
open Rsj.Dec

-- (theorems about literals and rounding are appended below)

end Rsj.Dec

open Rsj.Num in
#print axioms C06_producers_finite
open Rsj.Num in
#print axioms C06_gated_sites_unconditional
open Rsj.Num in
#print axioms C06_reachable_finite
open Rsj.Num in
#print axioms C06_no_nan_reaches_compare
open Rsj.Num in
#print axioms C06_every_site_modelled
