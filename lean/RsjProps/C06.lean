/-
  C06 — numbers are always finite doubles, read and printed exactly.
  Property theorems only (helper lemmas live in RsjProofs/Num.lean, RsjProofs/Dec*.lean).

  What is proved here is about the model (`RsjModel/Num.lean`, `RsjModel/Dec.lean`); that the
  model's producers gate exactly where /repo does is tied by `C06_every_site_modelled`
  (generated from the source on every run) and by the differential run of checks/c06.py.
  That Rust's `str::parse::<f64>` / `Display for f64` satisfy the specifications
  `isNearestEven` / `isShortestRT`, and that binary64 arithmetic satisfies `Lawful`, is
  validated by the check, not proved (trusted base).
-/
import RsjModel.NumberSites
import RsjProofs.Num
import RsjProofs.Dec
import RsjProofs.DecRound
namespace Rsj.Num

/-! ### producers -/

/-- **C06 producers_finite.** For every float algebra satisfying the laws, every producer
    of the model applied to finite operands either reports an error or yields a finite
    value: no operator or builtin hands out NaN or an infinity.  (`sum` / `avg` are folds
    with the gate applied after every addition — the statement failed for the ungated fold
    that /repo had before the `std.sum` / `std.avg` fix.) -/
theorem C06_producers_finite {F : Type} (alg : FloatAlg F) (hl : Lawful alg)
    (p : Producer) (args : List F) (hfin : ∀ x ∈ args, Finite alg x)
    (r : F) (h : run alg p args = .ok r) : Finite alg r :=
  producers_finite alg hl p args hfin r h

/-- **C06 gated_sites_unconditional.** The producers whose construction site must carry the
    gate (`siteGated`, see `C06_every_site_modelled`) yield finite values for arbitrary
    operands and without any law: the gate alone is sufficient. -/
theorem C06_gated_sites_unconditional {F : Type} (alg : FloatAlg F)
    (name : String) (hn : name ∈ siteGated) (p : Producer) (hp : producerOfName name = some p)
    (args : List F) (hs : p = .sum → args ≠ []) (r : F) (h : run alg p args = .ok r) :
    Finite alg r := by
  have : name = p.name := producerOfName_some hp
  exact gated_unconditional alg p (this ▸ hn) args hs r h

/-- Numbers that can exist in an evaluation: results of producers applied to such numbers
    (literals, constants, conversions and parsed numbers are producers without operands). -/
inductive Reach {F : Type} (alg : FloatAlg F) : F → Prop
  | prod (p : Producer) (args : List F) (r : F) :
      (∀ x ∈ args, Reach alg x) → run alg p args = .ok r → Reach alg r

theorem C06_reachable_finite {F : Type} (alg : FloatAlg F) (hl : Lawful alg) {x : F}
    (h : Reach alg x) : Finite alg x := by
  induction h with
  | prod p args r _ hrun ih => exact producers_finite alg hl p args ih r hrun

/-- **C06 no_nan_reaches_compare.** `lhs.partial_cmp(&rhs).unwrap()` of `State::CompareValue`
    cannot panic on numbers that come from producers: the comparison is always defined. -/
theorem C06_no_nan_reaches_compare {F : Type} (alg : FloatAlg F) (hl : Lawful alg) {x y : F}
    (hx : Reach alg x) (hy : Reach alg y) : ∃ o, compareNumbers alg x y = some o := by
  have h := hl.partialCmp_some x y (C06_reachable_finite alg hl hx).1 (C06_reachable_finite alg hl hy).1
  unfold compareNumbers
  cases hc : alg.partialCmp x y with
  | none => rw [hc] at h; cases h
  | some o => exact ⟨o, rfl⟩

/-- **C06 every_site_modelled** (generated obligation). Every place of
    rsjsonnet-lang/src/program/**/*.rs that constructs a `ValueData::Number` is mapped
    (tools/number_sites.toml) to a producer of the model or to a justified class, and every
    site mapped to a producer that must be gated at the site is gated in the source. -/
theorem C06_every_site_modelled :
    ∀ s ∈ NumberSites.sites,
      (s.mapped ∈ producerNames ∨ s.mapped ∈ siteClasses) ∧
      (s.mapped ∈ siteGated → s.gated = true) := by decide

/-! ### non-vacuity: a lawful algebra with overflow (bounded integers) -/

inductive Toy where
  | fin (i : Int)
  | inf
  | nan
deriving DecidableEq, Repr

def toyMk (i : Int) : Toy := if -1000 ≤ i ∧ i ≤ 1000 then .fin i else .inf

def toyBin (f : Int → Int → Int) : Toy → Toy → Toy
  | .fin a, .fin b => toyMk (f a b)
  | .nan, _ => .nan
  | _, .nan => .nan
  | _, _ => .inf

def toyAlg : FloatAlg Toy where
  add := toyBin (· + ·)
  sub := toyBin (· - ·)
  mul := toyBin (· * ·)
  div := fun a b => match a, b with
    | .fin a, .fin b => if b = 0 then .nan else .fin (a / b)
    | _, _ => .nan
  rem := fun a b => match a, b with
    | .fin a, .fin b => if b = 0 then .nan else .fin (a % b)
    | _, _ => .nan
  neg := fun a => match a with | .fin a => .fin (-a) | x => x
  floor := id
  ceil := id
  sqrt := fun _ => .nan
  exp := fun _ => .inf
  log := fun _ => .nan
  log2 := fun _ => .nan
  log10 := fun _ => .nan
  sin := fun _ => .fin 0
  cos := fun _ => .fin 1
  tan := fun _ => .fin 0
  asin := fun _ => .nan
  acos := fun _ => .nan
  atan := fun _ => .fin 0
  pow := fun _ _ => .inf
  atan2 := fun _ _ => .fin 0
  hypot := toyBin (fun a b => a.natAbs + b.natAbs)
  toRadians := id
  toDegrees := toyBin (· * ·) (.fin 57)
  mantissa := id
  exponent := fun _ => 0
  ofInt := .fin
  ofDec := fun neg n e => toyMk ((if neg then -1 else 1) * (n : Int) * 10 ^ e.toNat)
  toInt := fun a => match a with | .fin a => a | _ => 0
  lt := fun a b => match a, b with | .fin a, .fin b => decide (a < b) | _, _ => false
  partialCmp := fun a b => match a, b with
    | .fin a, .fin b => some (compare a b)
    | .nan, _ => none
    | _, .nan => none
    | .inf, .inf => some .eq
    | .inf, _ => some .gt
    | _, .inf => some .lt
  eqZero := fun a => a == .fin 0
  signNeg := fun a => match a with | .fin a => decide (a < 0) | _ => false
  isNaN := fun a => a == .nan
  isInf := fun a => a == .inf
  pi := .fin 3

theorem toy_fin_of_finite {x : Toy} (h : Finite toyAlg x) : ∃ i, x = .fin i := by
  cases x with
  | fin i => exact ⟨i, rfl⟩
  | inf => exact absurd h.2 (by decide)
  | nan => exact absurd h.1 (by decide)

theorem toy_lawful : Lawful toyAlg where
  neg_finite := by
    intro x hx; obtain ⟨i, rfl⟩ := toy_fin_of_finite hx; exact ⟨rfl, rfl⟩
  floor_finite := fun _ h => h
  ceil_finite := fun _ h => h
  mantissa_finite := fun _ h => h
  exponent_i16 := by
    intro x
    show (-32768 : Int) ≤ 0 ∧ (0 : Int) ≤ 32767
    omega
  ofInt_finite := fun _ _ _ => ⟨rfl, rfl⟩
  div_count_finite := by
    intro x n hx h1 _
    obtain ⟨i, rfl⟩ := toy_fin_of_finite hx
    show Finite toyAlg (if (n : Int) = 0 then Toy.nan else Toy.fin (i / n))
    have : (n : Int) ≠ 0 := by omega
    rw [if_neg this]; exact ⟨rfl, rfl⟩
  pi_finite := ⟨rfl, rfl⟩
  partialCmp_some := by
    intro x y hx hy
    cases x <;> cases y <;> first | rfl | exact absurd hx (by decide) | exact absurd hy (by decide)

deriving instance DecidableEq for Except

/-- The hypotheses of `C06_producers_finite` are satisfiable, and the gate matters: in the
    lawful toy algebra a fold over finite values overflows in the middle and is reported,
    although the total is in range. -/
example : Lawful toyAlg ∧
    run toyAlg .sum [.fin 1000, .fin 1, .fin (-5)] = .error .numberOverflow ∧
    run toyAlg .sum [.fin 1, .fin 2, .fin 4] = .ok (.fin 7) ∧
    run toyAlg .avg [.fin 1, .fin 2, .fin 4] = .ok (.fin 2) ∧
    run toyAlg .div [.fin 1, .fin 0] = .error .divByZero ∧
    run toyAlg .sqrt [.fin 4] = .error .numberNan ∧
    run toyAlg .shl [.fin 1, .fin 62] = .ok (.fin (2 ^ 62)) ∧
    run toyAlg .shl [.fin 1, .fin 63] = .error .notBitwiseSafe ∧
    run toyAlg .bnot [.fin 5] = .ok (.fin (-6)) ∧
    Reach toyAlg (.fin 7) := by
  refine ⟨toy_lawful, by decide, by decide, by decide, by decide, by decide, by decide,
    by decide, by decide, ?_⟩
  exact Reach.prod .sum [.fin 1, .fin 2, .fin 4] _
    (fun x hx => by
      have h : x = .fin 1 ∨ x = .fin 2 ∨ x = .fin 4 := by simpa using hx
      rcases h with rfl | rfl | rfl
      · exact Reach.prod (.intConv 1) [] _ (fun _ h => by cases h) rfl
      · exact Reach.prod (.intConv 2) [] _ (fun _ h => by cases h) rfl
      · exact Reach.prod (.intConv 4) [] _ (fun _ h => by cases h) rfl)
    rfl

end Rsj.Num

namespace Rsj.Dec

/-! ### literals -/

/-- **C06 lex_number_value.** Whenever `lex_number` accepts a text as one number token, the
    token `(digits, exp)` is exactly the pair `(n, e)` of the specification `literalValue`
    (`n · 10^e`: underscores ignored, integer and fraction digits read as one integer, scaled
    by the explicit exponent minus the number of fraction digits) — for every literal shape. -/
theorem C06_lex_number_value {text : List Char} {ds : List Nat} {e : Int}
    (h : lexNumber text = .ok (ds, e, [])) : (ofDigits ds, e) = literalValue text :=
  lexNumber_value h

/-- **C06 reassembly_value.** The text `format!("{}e{}", digits, exp)` that the analyzer hands
    to `str::parse::<f64>` is a well-formed decimal denoting the same `n · 10^e`. -/
theorem C06_reassembly_value {text : List Char} {ds : List Nat} {e : Int} {rest : List Char}
    (h : lexNumber text = .ok (ds, e, rest)) :
    sciValue (reassemble ds e) = some (false, ofDigits ds, e) := by
  obtain ⟨h1, h2⟩ := lexNumber_digits h
  exact reassemble_value ds e h2 h1

/-- Both together: what reaches `parse::<f64>` denotes the rational of the literal. -/
theorem C06_literal_denotes {text : List Char} {ds : List Nat} {e : Int}
    (h : lexNumber text = .ok (ds, e, [])) :
    sciValue (reassemble ds e) = some (false, (literalValue text).1, (literalValue text).2) := by
  rw [C06_reassembly_value h, ← C06_lex_number_value h]

/-- **C06 exp_overflow.** After the digits have been accepted, `ExpOverflow` is reported
    exactly when the explicit exponent does not fit `u64` (`none`), does not fit `i64`, or the
    effective exponent `implicit ± explicit` leaves `i64`. (Note: an explicit exponent
    `≥ 2^63` is rejected even when the effective exponent would fit, e.g. `0.1e9223372036854775808`.) -/
theorem C06_exp_overflow_iff (acc : Acc) :
    finish acc = .error .expOverflow ↔
      (acc.explicitExp = none ∨ ∃ E : Nat, acc.explicitExp = some E ∧
        (E > 2 ^ 63 - 1 ∨
         (if acc.expNeg then acc.implicitExp - (E : Int) else acc.implicitExp + (E : Int)) < -(2 ^ 63) ∨
         (if acc.expNeg then acc.implicitExp - (E : Int) else acc.implicitExp + (E : Int)) > 2 ^ 63 - 1)) := by
  unfold finish I64_MAX
  cases hE : acc.explicitExp with
  | none => simp
  | some E =>
    simp only [Option.some.injEq, exists_eq_left', false_or, reduceCtorEq]
    by_cases h1 : E > 2 ^ 63 - 1
    · simp [h1]
    · simp only [h1, if_false, false_or]
      cases hn : acc.expNeg
      · simp only [Bool.false_eq_true, if_false]
        by_cases hP : acc.implicitExp + (E : Int) < -(2 ^ 63) ∨ acc.implicitExp + (E : Int) > 2 ^ 63 - 1
        · rw [if_pos hP]; exact ⟨fun _ => hP, fun _ => rfl⟩
        · rw [if_neg hP]; exact ⟨fun h => (by cases h), fun h => absurd h hP⟩
      · simp only [if_true]
        by_cases hP : acc.implicitExp - (E : Int) < -(2 ^ 63) ∨ acc.implicitExp - (E : Int) > 2 ^ 63 - 1
        · rw [if_pos hP]; exact ⟨fun _ => hP, fun _ => rfl⟩
        · rw [if_neg hP]; exact ⟨fun h => (by cases h), fun h => absurd h hP⟩

/-- The only error `finish` can report is `ExpOverflow`. -/
theorem C06_finish_errors (acc : Acc) (e : LexErr) (h : finish acc = .error e) : e = .expOverflow := by
  unfold finish at h
  split at h
  · cases h; rfl
  · next E hE =>
    by_cases hgt : E > I64_MAX
    · simp only [hgt, if_true] at h; cases h; rfl
    · simp only [hgt, if_false] at h
      cases hn : acc.expNeg
      · simp only [hn, Bool.false_eq_true, if_false] at h
        split at h
        · cases h; rfl
        · cases h
      · simp only [hn, if_true] at h
        split at h
        · cases h; rfl
        · cases h

/-! ### rounding -/

/-- **C06 nearest_even_unique.** At most one binary64 bit pattern (or the overflow marker)
    is the round-to-nearest-even image of a rational `num / den`. -/
theorem C06_nearest_even_unique {num den b1 b2 : Nat}
    (h1 : isNearestEven num den b1 = true) (h2 : isNearestEven num den b2 = true) : b1 = b2 :=
  nearestEven_unique h1 h2

/-- Consequently a decimal that is the nearest-even pre-image of two different doubles does
    not exist: "reads back as the same double" in `isShortestRT` is well defined. -/
theorem C06_round_functional {num den b : Nat} (h : isNearestEven num den b = true)
    (hr : isNearestEven num den (roundNE num den) = true) : roundNE num den = b :=
  nearestEven_unique hr h

/-- NOT PROVED (validated by checks/c06.py against Python's correctly rounded
    `Fraction -> float` on random rationals, midpoints and decimal literals): the executable
    `roundNE` always satisfies the specification.  Missing: correctness of `floorBits`
    (`Nat.log2` bracket) — only needed for the driver, no theorem above depends on it. -/
def C06_roundNE_correct_full : Prop :=
  ∀ num den : Nat, 0 < den → isNearestEven num den (roundNE num den) = true

/-- Proved part: if either candidate of `roundNE` is the nearest-even image, `roundNE` returns it. -/
theorem C06_roundNE_correct_partial {num den b : Nat} (h : isNearestEven num den b = true)
    (hb : b = floorBits num den ∨ b = floorBits num den + 1) : roundNE num den = b := by
  unfold roundNE
  dsimp only
  split
  · next hf => exact nearestEven_unique hf h
  · next hf =>
    rcases hb with rfl | rfl
    · exact absurd h hf
    · rfl

/-! ### non-vacuity -/

deriving instance DecidableEq for Except

example : lexNumber "1_000.5e-3".toList = .ok ([1, 0, 0, 0, 5], -4, []) := by decide
example : literalValue "1_000.5e-3".toList = (10005, -4) := by decide
example : lexNumber "0.001+x".toList = .ok ([0, 0, 0, 1], -3, ['+', 'x']) := by decide
example : lexNumber "01".toList = .error .leadingZero := by decide
example : lexNumber "1_.5".toList = .error .missingDigitAfterUnderscore := by decide
example : lexNumber "1e99999999999999999999".toList = .error .expOverflow := by decide
example : lexNumber "0.1e9223372036854775808".toList = .error .expOverflow := by decide
example : sciValue (reassemble [0, 0, 0, 1] (-3)) = some (false, 1, -3) := by decide
-- 0.1 rounds to 0x3FB999999999999A and to nothing else; 2^1024 - 2^970 is the overflow tie
set_option exponentiation.threshold 4096 in
example : isNearestEven 1 10 0x3FB999999999999A = true := by decide
set_option exponentiation.threshold 4096 in
example : isNearestEven 1 10 0x3FB9999999999999 = false := by decide
set_option exponentiation.threshold 4096 in
example : isNearestEven (2 ^ 1024 - 2 ^ 970) 1 INF_BITS = true := by decide
set_option exponentiation.threshold 4096 in
example : isNearestEven (2 ^ 1024 - 2 ^ 970 - 1) 1 0x7FEFFFFFFFFFFFFF = true := by decide
set_option maxRecDepth 20000 in
set_option exponentiation.threshold 4096 in
example : isShortestRT 0x3FB999999999999A "0.1".toList = true := by decide
set_option maxRecDepth 20000 in
set_option exponentiation.threshold 4096 in
example : isShortestRT 0x3FB999999999999A "0.10000000000000001".toList = false := by decide

end Rsj.Dec

open Rsj.Num in
#print axioms C06_producers_finite
open Rsj.Num in
#print axioms C06_gated_sites_unconditional
open Rsj.Num in
#print axioms C06_reachable_finite
open Rsj.Num in
#print axioms C06_no_nan_reaches_compare
open Rsj.Num in
#print axioms C06_every_site_modelled
open Rsj.Dec in
#print axioms C06_lex_number_value
open Rsj.Dec in
#print axioms C06_reassembly_value
open Rsj.Dec in
#print axioms C06_literal_denotes
open Rsj.Dec in
#print axioms C06_exp_overflow_iff
open Rsj.Dec in
#print axioms C06_finish_errors
open Rsj.Dec in
#print axioms C06_nearest_even_unique
open Rsj.Dec in
#print axioms C06_round_functional
open Rsj.Dec in
#print axioms C06_roundNE_correct_partial
