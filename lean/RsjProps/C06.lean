/-
  C06 — numbers are always finite doubles, read and printed exactly.
  Property theorems only (helper lemmas live in RsjProofs/Num.lean, RsjProofs/Dec*.lean).

  What is proved here is about the model (`RsjModel/Num.lean`, `RsjModel/Dec.lean`); that the
  model's producers gate exactly where /repo does is tied by `C06_every_site_modelled` /
  `C06_gate_arms` (generated from the source on every run) and by the differential run of
  checks/c06.py.  The model's own rounding (`roundNE`) is proved to be the unique
  nearest-even rounding (`C06_roundNE_correct`, `C06_nearest_even_unique`).  That Rust's
  `str::parse::<f64>` / `Display for f64` satisfy the specifications `isNearestEven` /
  `isShortestRT`, and that binary64 arithmetic satisfies `Lawful`, is validated by the
  check (against the proved `roundNE` and against Python), not proved (trusted base).
-/
import RsjModel.NumberSites
import RsjProofs.Num
import RsjProofs.NumToy
import RsjProofs.Dec
import RsjProofs.DecRound
import RsjProofs.DecShortcut
namespace Rsj.Num

/-! ### producers -/

/-- **C06 producers_finite.** For every float algebra satisfying the laws, every producer
    of the model applied to finite operands either reports an error or yields a finite
    value: no operator or builtin hands out NaN or an infinity.  (`sum` / `avg` are folds
    with the gate applied after every addition — the statement failed for the ungated fold
    that /repo had before the `std.sum` / `std.avg` fix.) -/
theorem C06_producers_finite {F : Type} (alg : FloatAlg F) (hl : Lawful alg)
    (p : Producer) (args : List F) (hfin : ∀ x ∈ args, Finite alg x)
    (r : F) (h : run alg p args = .ok r) : Finite alg r :=
  producers_finite alg hl p args hfin r h

/-- **C06 gated_sites_unconditional.** The producers whose construction site must carry the
    gate (`siteGated`, see `C06_every_site_modelled`) yield finite values for arbitrary
    operands and without any law: the gate alone is sufficient. -/
theorem C06_gated_sites_unconditional {F : Type} (alg : FloatAlg F)
    (name : String) (hn : name ∈ siteGated) (p : Producer) (hp : producerOfName name = some p)
    (args : List F) (hs : p = .sum → args ≠ []) (r : F) (h : run alg p args = .ok r) :
    Finite alg r := by
  have : name = p.name := producerOfName_some hp
  exact gated_unconditional alg p (this ▸ hn) args hs r h

/-- Numbers that can exist in an evaluation: results of producers applied to such numbers
    (literals, constants, conversions and parsed numbers are producers without operands). -/
inductive Reach {F : Type} (alg : FloatAlg F) : F → Prop
  | prod (p : Producer) (args : List F) (r : F) :
      (∀ x ∈ args, Reach alg x) → run alg p args = .ok r → Reach alg r

theorem C06_reachable_finite {F : Type} (alg : FloatAlg F) (hl : Lawful alg) {x : F}
    (h : Reach alg x) : Finite alg x := by
  induction h with
  | prod p args r _ hrun ih => exact producers_finite alg hl p args ih r hrun

/-- **C06 no_nan_reaches_compare.** `lhs.partial_cmp(&rhs).unwrap()` of `State::CompareValue`
    cannot panic on numbers that come from producers: the comparison is always defined. -/
theorem C06_no_nan_reaches_compare {F : Type} (alg : FloatAlg F) (hl : Lawful alg) {x y : F}
    (hx : Reach alg x) (hy : Reach alg y) : ∃ o, compareNumbers alg x y = some o := by
  have h := hl.partialCmp_some x y (C06_reachable_finite alg hl hx).1 (C06_reachable_finite alg hl hy).1
  unfold compareNumbers
  cases hc : alg.partialCmp x y with
  | none => rw [hc] at h; cases h
  | some o => exact ⟨o, rfl⟩

/-- **C06 every_site_modelled** (generated obligation). Every place of
    rsjsonnet-lang/src/program/**/*.rs that constructs a `ValueData::Number` is mapped
    (tools/number_sites.toml) to a producer of the model or to a justified class, and every
    site mapped to a producer that must be gated at the site is gated in the source. -/
theorem C06_every_site_modelled :
    ∀ s ∈ NumberSites.sites,
      (s.mapped ∈ producerNames ∨ s.mapped ∈ siteClasses) ∧
      (s.mapped ∈ siteGated → s.gated = true) := by decide

/-- The gate of the source has exactly the arms the model's `gate` implements: NaN ↦
    `NumberNan`, infinite ↦ `NumberOverflow`, zero / subnormal / normal ↦ accepted. -/
theorem C06_gate_arms : NumberSites.gateArms = gateSpec := by decide

/-! ### non-vacuity: a lawful algebra with overflow (bounded integers) -/

/-- The hypotheses of `C06_producers_finite` are satisfiable, and the gate matters: in the
    lawful toy algebra a fold over finite values overflows in the middle and is reported,
    although the total is in range. -/
example : Lawful toyAlg ∧
    run toyAlg .sum [.fin 1000, .fin 1, .fin (-5)] = .error .numberOverflow ∧
    run toyAlg .sum [.fin 1, .fin 2, .fin 4] = .ok (.fin 7) ∧
    run toyAlg .avg [.fin 1, .fin 2, .fin 4] = .ok (.fin 2) ∧
    run toyAlg .div [.fin 1, .fin 0] = .error .divByZero ∧
    run toyAlg .sqrt [.fin 4] = .error .numberNan ∧
    run toyAlg .shl [.fin 1, .fin 62] = .ok (.fin (2 ^ 62)) ∧
    run toyAlg .shl [.fin 1, .fin 63] = .error .notBitwiseSafe ∧
    run toyAlg .bnot [.fin 5] = .ok (.fin (-6)) ∧
    Reach toyAlg (.fin 7) := by
  refine ⟨toy_lawful, by decide, by decide, by decide, by decide, by decide, by decide,
    by decide, by decide, ?_⟩
  exact Reach.prod .sum [.fin 1, .fin 2, .fin 4] _
    (fun x hx => by
      have h : x = .fin 1 ∨ x = .fin 2 ∨ x = .fin 4 := by simpa using hx
      rcases h with rfl | rfl | rfl
      · exact Reach.prod (.intConv 1) [] _ (fun _ h => by cases h) rfl
      · exact Reach.prod (.intConv 2) [] _ (fun _ h => by cases h) rfl
      · exact Reach.prod (.intConv 4) [] _ (fun _ h => by cases h) rfl)
    rfl

end Rsj.Num

namespace Rsj.Dec

/-! ### literals -/

/-- **C06 lex_number_value.** Whenever `lex_number` accepts a text as one number token, the
    token `(digits, exp)` is exactly the pair `(n, e)` of the specification `literalValue`
    (`n · 10^e`: underscores ignored, integer and fraction digits read as one integer, scaled
    by the explicit exponent minus the number of fraction digits) — for every literal shape. -/
theorem C06_lex_number_value {text : List Char} {ds : List Nat} {e : Int}
    (h : lexNumber text = .ok (ds, e, [])) : (ofDigits ds, e) = literalValue text :=
  lexNumber_value h

/-- **C06 reassembly_value.** The text `format!("{}e{}", digits, exp)` that the analyzer hands
    to `str::parse::<f64>` is a well-formed decimal denoting the same `n · 10^e`. -/
theorem C06_reassembly_value {text : List Char} {ds : List Nat} {e : Int} {rest : List Char}
    (h : lexNumber text = .ok (ds, e, rest)) :
    sciValue (reassemble ds e) = some (false, ofDigits ds, e) := by
  obtain ⟨h1, h2⟩ := lexNumber_digits h
  exact reassemble_value ds e h2 h1

/-- Both together: what reaches `parse::<f64>` denotes the rational of the literal. -/
theorem C06_literal_denotes {text : List Char} {ds : List Nat} {e : Int}
    (h : lexNumber text = .ok (ds, e, [])) :
    sciValue (reassemble ds e) = some (false, (literalValue text).1, (literalValue text).2) := by
  rw [C06_reassembly_value h, ← C06_lex_number_value h]

/-- **C06 exp_overflow.** After the digits have been accepted, `ExpOverflow` is reported
    exactly when the explicit exponent does not fit `u64` (`none`), does not fit `i64`, or the
    effective exponent `implicit ± explicit` leaves `i64`. (Note: an explicit exponent
    `≥ 2^63` is rejected even when the effective exponent would fit, e.g. `0.1e9223372036854775808`.) -/
theorem C06_exp_overflow_iff (acc : Acc) :
    finish acc = .error .expOverflow ↔
      (acc.explicitExp = none ∨ ∃ E : Nat, acc.explicitExp = some E ∧
        (E > 2 ^ 63 - 1 ∨
         (if acc.expNeg then acc.implicitExp - (E : Int) else acc.implicitExp + (E : Int)) < -(2 ^ 63) ∨
         (if acc.expNeg then acc.implicitExp - (E : Int) else acc.implicitExp + (E : Int)) > 2 ^ 63 - 1)) :=
  finish_expOverflow_iff acc

/-- The only error `finish` can report is `ExpOverflow`. -/
theorem C06_finish_errors (acc : Acc) (e : LexErr) (h : finish acc = .error e) : e = .expOverflow :=
  finish_errors acc e h

/-! ### rounding -/

/-- **C06 nearest_even_unique.** At most one binary64 bit pattern (or the overflow marker)
    is the round-to-nearest-even image of a rational `num / den`. -/
theorem C06_nearest_even_unique {num den b1 b2 : Nat}
    (h1 : isNearestEven num den b1 = true) (h2 : isNearestEven num den b2 = true) : b1 = b2 :=
  nearestEven_unique h1 h2

/-- **C06 roundNE_correct.** The executable rounding function of the model satisfies the
    specification, for every rational: together with uniqueness, `roundNE num den` is *the*
    correctly rounded double of `num / den` (or the overflow marker). -/
theorem C06_roundNE_correct (num den : Nat) (hden : 0 < den) :
    isNearestEven num den (roundNE num den) = true :=
  roundNE_spec num den hden

/-- Hence `isNearestEven num den ·` holds for exactly one bit pattern, the computed one:
    "the correctly rounded double of a decimal text" and "reads back as the same double"
    (`isShortestRT`) are well defined. -/
theorem C06_nearest_even_iff (num den b : Nat) (hden : 0 < den) :
    isNearestEven num den b = true ↔ b = roundNE num den :=
  ⟨fun h => nearestEven_unique h (roundNE_spec num den hden),
   fun h => h ▸ roundNE_spec num den hden⟩

/-- **C06 roundDec_correct.** `roundDec n e` is the round-to-nearest-even image of the
    rational `n · 10^e` for *every* `n` and `e` — including `n = 0` and the two shortcuts
    taken for exponents beyond ±400 so that the driver never builds `10^(10^18)`:
    `n ≥ 1, e > 400 ⇒ n·10^e ≥ 10^401 ≥ 2^1203 ≥ 2^1024` (the overflow marker), and
    `e + numDigits n < -400 ⇒ n·10^e < 10^-401 ≤ 2^-1203 < 2^-1075` (rounds to 0).
    Proof: `RsjProofs/DecShortcut.lean` (`8^k ≤ 10^k` and monotonicity; no large power is
    evaluated). -/
theorem C06_roundDec_correct (n : Nat) (e : Int) :
    isNearestEven (decFrac n e).1 (decFrac n e).2 (roundDec n e) = true :=
  roundDec_spec n e

/-- With uniqueness: `roundDec n e` is *the* correctly rounded double of `n · 10^e`. -/
theorem C06_roundDec_iff (n : Nat) (e : Int) (b : Nat) :
    isNearestEven (decFrac n e).1 (decFrac n e).2 b = true ↔ b = roundDec n e :=
  ⟨fun h => nearestEven_unique h (roundDec_spec n e), fun h => h ▸ roundDec_spec n e⟩

/-- The overflow shortcut on its own: anything `≥ 2^1024` rounds to the overflow marker
    (in particular every `n · 10^e` with `n ≥ 1`, `e > 400`). -/
theorem C06_huge_overflows (n : Nat) (e : Int) (hn : n ≠ 0) (he : e > 400) :
    roundDec n e = INF_BITS ∧ isNearestEven (n * 10 ^ e.toNat) 1 INF_BITS = true := by
  have h : roundDec n e = INF_BITS := by unfold roundDec; simp only [hn, he, if_false, if_true]
  refine ⟨h, ?_⟩
  have := roundDec_spec n e
  rw [h] at this
  unfold decFrac at this
  have hge : e ≥ 0 := by omega
  simpa only [hge, if_true] using this

/-- The underflow shortcut on its own. -/
theorem C06_tiny_rounds_to_zero (n : Nat) (e : Int) (he : e + (numDigits n : Int) < -400) :
    roundDec n e = 0 ∧ isNearestEven n (10 ^ (-e).toNat) 0 = true := by
  have h : roundDec n e = 0 := by
    unfold roundDec
    by_cases hn : n = 0
    · simp only [hn, if_true]
    · have c1 : ¬ e > 400 := by omega
      simp only [hn, c1, he, if_false, if_true]
  refine ⟨h, ?_⟩
  have := roundDec_spec n e
  rw [h] at this
  unfold decFrac at this
  have hge : ¬ e ≥ 0 := by omega
  simpa only [hge, if_false] using this

/-- Outside the two shortcuts `roundDec` is literally `roundNE` of the exact fraction. -/
theorem C06_roundDec_eq_roundNE (n : Nat) (e : Int) (hn : n ≠ 0) (h1 : e ≤ 400)
    (h2 : -400 ≤ e + (numDigits n : Int)) :
    roundDec n e = roundNE (decFrac n e).1 (decFrac n e).2 := by
  unfold roundDec decFrac
  have c1 : ¬ e > 400 := by omega
  have c2 : ¬ e + (numDigits n : Int) < -400 := by omega
  simp only [hn, c1, c2, if_false]
  by_cases he : e ≥ 0
  · simp only [he, if_true]
  · simp only [he, if_false]

/-- Former proved part (statement unchanged; now a special case of `C06_roundDec_correct`). -/
theorem C06_roundDec_correct_partial (n : Nat) (e : Int) (_hn : n ≠ 0) (_h1 : e ≤ 400)
    (_h2 : -400 ≤ e + (numDigits n : Int)) :
    isNearestEven (decFrac n e).1 (decFrac n e).2 (roundDec n e) = true :=
  roundDec_spec n e

/-! ### non-vacuity -/

-- the shortcut boundaries: `1e401` overflows, `1e-402` (one digit: -402 + 1 < -400) rounds to 0,
-- `1e-401` and `1e400` still go through `roundNE`
example : roundDec 1 401 = INF_BITS ∧ roundDec 1 (-402) = 0 ∧ roundDec 0 (10 ^ 18) = 0 := by decide
example : (401 : Int) > 400 ∧ (-402 : Int) + (numDigits 1 : Int) < -400 ∧
    ¬ ((-401 : Int) + (numDigits 1 : Int) < -400) := by decide
example : lexNumber "1_000.5e-3".toList = .ok ([1, 0, 0, 0, 5], -4, []) := by decide
example : literalValue "1_000.5e-3".toList = (10005, -4) := by decide
example : lexNumber "0.001+x".toList = .ok ([0, 0, 0, 1], -3, ['+', 'x']) := by decide
example : lexNumber "01".toList = .error .leadingZero := by decide
example : lexNumber "1_.5".toList = .error .missingDigitAfterUnderscore := by decide
example : lexNumber "1e99999999999999999999".toList = .error .expOverflow := by decide
example : lexNumber "0.1e9223372036854775808".toList = .error .expOverflow := by decide
example : sciValue (reassemble [0, 0, 0, 1] (-3)) = some (false, 1, -3) := by decide
-- 0.1 rounds to 0x3FB999999999999A and to nothing else; 2^1024 - 2^970 is the overflow tie
set_option exponentiation.threshold 4096 in
example : isNearestEven 1 10 0x3FB999999999999A = true := by decide
set_option exponentiation.threshold 4096 in
example : isNearestEven 1 10 0x3FB9999999999999 = false := by decide
set_option exponentiation.threshold 4096 in
example : isNearestEven (2 ^ 1024 - 2 ^ 970) 1 INF_BITS = true := by decide
set_option exponentiation.threshold 4096 in
example : isNearestEven (2 ^ 1024 - 2 ^ 970 - 1) 1 0x7FEFFFFFFFFFFFFF = true := by decide
set_option maxRecDepth 20000 in
set_option exponentiation.threshold 4096 in
example : isShortestRT 0x3FB999999999999A "0.1".toList = true := by decide
set_option maxRecDepth 20000 in
set_option exponentiation.threshold 4096 in
example : isShortestRT 0x3FB999999999999A "0.10000000000000001".toList = false := by decide

end Rsj.Dec

open Rsj.Num in
#print axioms C06_producers_finite
open Rsj.Num in
#print axioms C06_gated_sites_unconditional
open Rsj.Num in
#print axioms C06_reachable_finite
open Rsj.Num in
#print axioms C06_no_nan_reaches_compare
open Rsj.Num in
#print axioms C06_every_site_modelled
open Rsj.Num in
#print axioms C06_gate_arms
open Rsj.Dec in
#print axioms C06_lex_number_value
open Rsj.Dec in
#print axioms C06_reassembly_value
open Rsj.Dec in
#print axioms C06_literal_denotes
open Rsj.Dec in
#print axioms C06_exp_overflow_iff
open Rsj.Dec in
#print axioms C06_finish_errors
open Rsj.Dec in
#print axioms C06_nearest_even_unique
open Rsj.Dec in
#print axioms C06_roundNE_correct
open Rsj.Dec in
#print axioms C06_nearest_even_iff
open Rsj.Dec in
#print axioms C06_roundDec_correct
open Rsj.Dec in
#print axioms C06_roundDec_iff
open Rsj.Dec in
#print axioms C06_huge_overflows
open Rsj.Dec in
#print axioms C06_tiny_rounds_to_zero
open Rsj.Dec in
#print axioms C06_roundDec_eq_roundNE
open Rsj.Dec in
#print axioms C06_roundDec_correct_partial
