/-
  C09, run-time half — programs accepted by the static analysis never hit an unbound variable or a
  missing object context at run time, on the evaluator model `RsjModel/Eval.lean` (the model the
  correspondence checks C02, C04, C09, C10, C11 run against the implementation).

  In Rust these failures are panics of the evaluator: `expect("variable not found")`
  (`ThunkEnv::get_var`), and the `unwrap`s of `get_object` / `get_top_object` on an environment
  without object.  The model has them as `Err.internal` with the three messages of `ScopePanic`.

  Store invariant `Scoped` (`Scope.Inv`, RsjProofs/EvalScopeBase.lean): every suspended thunk,
  every closure and every object layer of the store is well scoped (`WS`, the declarative predicate
  that `analyze` decides — `C09_analyze_exact`) in a *sound static view* of its environment: every
  name of the view is found along the parent chain, "inside an object" implies an object
  reference.  Every evaluator step, for every fuel, task and store, keeps the invariant and never
  ends in one of the three panics (`Scope.run_spec`; Hoare triples with verification conditions by
  `mvcgen`, RsjProofs/EvalScope*.lean).
-/
import RsjProofs.EvalScopeRun
import RsjProofs.EvalScopeHistory
namespace Rsj.Eval
open Rsj.Core Rsj.Analyze Rsj.Eval.Scope

/-- the three scoping panics of the evaluator (`getVar`, `getObjRef`, `initObjectEnv`) -/
def ScopePanic (m : String) : Prop :=
  m = "variable not found" ∨ m = "get_object on an environment without object" ∨
  m = "get_top_object on an environment without object"

/-- the store is well scoped -/
abbrev Scoped (st : St) : Prop := Scope.Inv st

theorem good_not_scopePanic {m : String} (h : Good (.internal m)) : ¬ ScopePanic m := by
  rintro (rfl | rfl | rfl)
  · exact h.1 rfl
  · exact h.2.1 rfl
  · exact h.2.2.1 rfl

/-- the five panics of the object / environment primitives: `ThunkEnv::data` on an environment whose
    data is not set, `get_layer` with a bad index, `layer.base_env.unwrap()` in
    `get_object_layer_env`, `field.expr.unwrap()` in `find_object_field_thunk`, and the `unwrap()` of
    the thunk of a visible field (deep evaluation, manifestation, equality, `std.mapWithKey`) -/
def ObjPanic (m : String) : Prop :=
  m = "env data not set" ∨ m = "bad layer index" ∨ m = "layer without base env" ∨
  m = "field without expression" ∨ m = "visible field without thunk"

theorem good_not_objPanic {m : String} (h : Good (.internal m)) : ¬ ObjPanic m := by
  rintro (rfl | rfl | rfl | rfl | rfl)
  · exact h.2.2.2.1 rfl
  · exact h.2.2.2.2.1 rfl
  · exact h.2.2.2.2.2.1 rfl
  · exact h.2.2.2.2.2.2.1 rfl
  · exact h.2.2.2.2.2.2.2 rfl

/-- **C09 (run time), one evaluator task.** From a well-scoped store, a task whose expression (if
    it evaluates one) is well scoped in a sound static view of its environment never ends in a
    scoping panic — whatever the fuel and the frame limit. -/
theorem C09_eval_run_no_unbound (cfg : Cfg) (n : Nat) (task : Task) (st : St) (hI : Scoped st)
    (hT : TaskOk st.envs task) (m : String) (hm : ScopePanic m) (st' : St) :
    run cfg n task st ≠ some (.error (.internal m), st') := by
  intro h
  have := sem_of_triple (P := fun x => x = st) (Qok := fun _ s' => S st s' ∧ Scope.Inv s' ∧ True)
    (Qerr := fun e s' => Good e ∧ (NonPanic e → Scope.Inv s')) (run_spec cfg n task st hI hT) st rfl
  rw [h] at this
  exact good_not_scopePanic this.1 hm

/-- **C09 eval_no_unbound_at_runtime.** For every closed program accepted by the analyzer (in the
    environment `load_source` starts from: `std` only, not inside an object), every frame limit and
    every fuel, the run of the whole program — load, evaluate, deep-evaluate, manifest — never ends
    in `variable not found`, `get_object on an environment without object` or `get_top_object on an
    environment without object`. -/
theorem C09_eval_no_unbound_at_runtime (e : Expr)
    (h : analyze e { isObj := false, vars := ["std"] } = .ok ()) (cfg : Cfg) (fuel : Nat)
    (m : String) (hm : ScopePanic m) (st' : St) :
    programProg cfg fuel e {} ≠ some (.error (.internal m), st') := by
  intro hx
  have hws : WS e rootEnv := (analyze_iff e rootEnv).1 h
  have := sem_of_triple (P := fun x => x = ({} : St)) (Qok := fun _ s' => S {} s' ∧ Scope.Inv s' ∧ True)
    (Qerr := fun e s' => Good e ∧ (NonPanic e → Scope.Inv s')) (programProg_spec cfg fuel e {} Inv_empty hws) {} rfl
  rw [hx] at this
  exact good_not_scopePanic this.1 hm

/-- The same on the answer of `evalProgram` (what the C02/C09 checks compare with the
    implementation): it is `gas`, a result, or the rendering of an error that is none of the three
    scoping panics; and unless that error is a (modelled) panic, the final store is well scoped. -/
theorem C09_evalProgram_outcome (e : Expr) (h : analyze e { isObj := false, vars := ["std"] } = .ok ())
    (cfg : Cfg) (fuel : Nat) :
    (evalProgram cfg fuel e).1 = "gas" ∨
    (∃ s, (evalProgram cfg fuel e).1 = "ok " ++ s ∧ Scoped (evalProgram cfg fuel e).2) ∨
    (∃ er, (evalProgram cfg fuel e).1 = showErr er ∧ (∀ m, er = .internal m → ¬ ScopePanic m) ∧
      (NonPanic er → Scoped (evalProgram cfg fuel e).2)) := by
  have hws : WS e rootEnv := (analyze_iff e rootEnv).1 h
  have := sem_of_triple (P := fun x => x = ({} : St)) (Qok := fun _ s' => S {} s' ∧ Scope.Inv s' ∧ True)
    (Qerr := fun e s' => Good e ∧ (NonPanic e → Scope.Inv s')) (programProg_spec cfg fuel e {} Inv_empty hws) {} rfl
  unfold evalProgram
  simp only []
  have hrun : (programProg cfg fuel e).run.run {} = programProg cfg fuel e {} := rfl
  rw [hrun]
  cases hx : programProg cfg fuel e {} with
  | none => exact .inl rfl
  | some r =>
    obtain ⟨r, st'⟩ := r
    rw [hx] at this
    cases r with
    | ok s => exact .inr (.inl ⟨s, rfl, this.2.1⟩)
    | error er =>
      refine .inr (.inr ⟨er, rfl, ?_, fun hn => (this.2 hn).restore⟩)
      intro m hm
      subst hm
      exact good_not_scopePanic this.1

/-- **C09 (run time), one request on a long-lived store** (the form used for histories: several
    requests against one store).  From a well-scoped store, a request on any thunk never ends in a
    scoping panic. -/
theorem C09_eval_request_no_unbound (cfg : Cfg) (fuel : Nat) (t : TId) (st : St) (hI : Scoped st)
    (m : String) (hm : ScopePanic m) (st' : St) :
    requestProg cfg fuel t st ≠ some (.error (.internal m), st') := by
  intro hx
  have := sem_of_triple (P := fun x => x = st) (Qok := fun _ s' => S st s' ∧ Scope.Inv s' ∧ True)
    (Qerr := fun e s' => Good e ∧ (NonPanic e → Scope.Inv s')) (requestProg_spec cfg fuel t st hI) st rfl
  rw [hx] at this
  exact good_not_scopePanic this.1 hm

/-- … and the store it leaves (after the clean-up of a failed request) is well scoped again, so the
    next request starts from a well-scoped store — unless the request ended in a (modelled) Rust
    panic, which then is none of the three scoping panics. -/
theorem C09_eval_request_keeps_scoped (cfg : Cfg) (fuel : Nat) (t : TId) (st : St) (hI : Scoped st) :
    Scoped (runRequest cfg fuel t st).2 ∨
    ∃ m st', requestProg cfg fuel t st = some (.error (.internal m), st') ∧ ¬ ScopePanic m := by
  have := sem_of_triple (P := fun x => x = st) (Qok := fun _ s' => S st s' ∧ Scope.Inv s' ∧ True)
    (Qerr := fun e s' => Good e ∧ (NonPanic e → Scope.Inv s')) (requestProg_spec cfg fuel t st hI) st rfl
  unfold runRequest
  simp only []
  have hrun : (requestProg cfg fuel t).run.run st = requestProg cfg fuel t st := rfl
  rw [hrun]
  cases hx : requestProg cfg fuel t st with
  | none => exact .inl hI
  | some r =>
    obtain ⟨r, st'⟩ := r
    rw [hx] at this
    cases r with
    | ok s => exact .inl this.2.1
    | error er =>
      cases er with
      | internal m => exact .inr ⟨m, st', rfl, good_not_scopePanic this.1⟩
      | stackOverflow => exact .inl (this.2 trivial).restore
      | infiniteRecursion => exact .inl (this.2 trivial).restore
      | unsupported m => exact .inl (this.2 trivial).restore
      | rt k d => exact .inl (this.2 trivial).restore

/-! ### Towards C01 on the evaluator model: more panic sites that are never reached -/

/-- **C01 (evaluator model), part.** For every closed program accepted by the analyzer, every frame
    limit and fuel, the run never ends in one of the three scoping panics nor in one of the five
    panics of the object / environment primitives (`ObjPanic`).  The store invariant `Scoped` also
    says: every object layer that has an assert or a field without environment of its own has a
    base environment, a field without thunk has an expression, and the static part of an object
    (hence its number of layers) never changes (`Scope.LayerShape`, `Scope.S`). -/
theorem C01_eval_no_internal_error_partial (e : Expr)
    (h : analyze e { isObj := false, vars := ["std"] } = .ok ()) (cfg : Cfg) (fuel : Nat)
    (m : String) (hm : ScopePanic m ∨ ObjPanic m) (st' : St) :
    programProg cfg fuel e {} ≠ some (.error (.internal m), st') := by
  intro hx
  have hws : WS e rootEnv := (analyze_iff e rootEnv).1 h
  have := sem_of_triple (P := fun x => x = ({} : St)) (Qok := fun _ s' => S {} s' ∧ Scope.Inv s' ∧ True)
    (Qerr := fun e s' => Good e ∧ (NonPanic e → Scope.Inv s')) (programProg_spec cfg fuel e {} Inv_empty hws) {} rfl
  rw [hx] at this
  rcases hm with hm | hm
  · exact good_not_scopePanic this.1 hm
  · exact good_not_objPanic this.1 hm

/-- the same for one request on a long-lived well-scoped store -/
theorem C01_eval_request_no_internal_error_partial (cfg : Cfg) (fuel : Nat) (t : TId) (st : St)
    (hI : Scoped st) (m : String) (hm : ScopePanic m ∨ ObjPanic m) (st' : St) :
    requestProg cfg fuel t st ≠ some (.error (.internal m), st') := by
  intro hx
  have := sem_of_triple (P := fun x => x = st) (Qok := fun _ s' => S st s' ∧ Scope.Inv s' ∧ True)
    (Qerr := fun e s' => Good e ∧ (NonPanic e → Scope.Inv s')) (requestProg_spec cfg fuel t st hI) st rfl
  rw [hx] at this
  rcases hm with hm | hm
  · exact good_not_scopePanic this.1 hm
  · exact good_not_objPanic this.1 hm

/-! The full statement — no modelled panic at all, for programs of the shape the front end produces —
    and its proof for every message but one are in RsjProps/C01Eval.lean. -/

/-- **C09 (run time), histories.** `runHistory` first builds a store — the root environment with
    `std` and one variable per library, a suspended thunk per library and per source (`historyInit`,
    `runHistory_eq`) — and then serves the requests with `runRequest`.  When the libraries and the
    sources are accepted by the analyzer in the root view (`std` and the library variables, not
    inside an object), that store is well scoped; by `C09_eval_request_no_unbound` and
    `C09_eval_request_keeps_scoped` no request of the history then ends in a scoping panic. -/
theorem C09_eval_history_init_scoped (libs : List (String × Expr)) (srcs : List Expr)
    (hl : ∀ p ∈ libs, analyze p.2 (historyEnv libs) = .ok ())
    (hs : ∀ e ∈ srcs, analyze e (historyEnv libs) = .ok ()) (ts : List TId) (st0 : St)
    (h : ((historyInit libs srcs).run).run {} = some (.ok ts, st0)) : Scoped st0 := by
  have := sem_of_triple (P := fun x => x = ({} : St)) (Qok := fun _ s' => S {} s' ∧ Scope.Inv s' ∧ True)
    (Qerr := fun e s' => Good e ∧ (NonPanic e → Scope.Inv s'))
    (historyInit_spec libs srcs {} Inv_empty (fun p hp => (analyze_iff _ _).1 (hl p hp))
      (fun e he => (analyze_iff _ _).1 (hs e he))) {} rfl
  have hrun : (historyInit libs srcs).run.run {} = historyInit libs srcs {} := rfl
  rw [hrun] at h
  rw [h] at this
  exact this.2.1

/-! Non-vacuity.  A closed program with a recursive `local`, a function with a default argument that
    refers to another parameter, an object with a local, `self`, `super`-free `$`, and a
    comprehension is accepted by the analyzer; the empty store is well scoped; and so is a store
    with a suspended thunk that refers to a variable of its environment. -/
example : analyze
    (.local_ (.cons "f" (.some (.cons "a" .none (.cons "b" (.some (.var "a")) .nil)))
        (.binary .add (.var "a") (.var "b")) .nil)
      (.object (.local_ "t" .none (.call (.var "f") (.pos (.num 1) .nil) false)
        (.fieldFix "x" false .default .none (.var "t")
        (.fieldFix "y" false .default .none (.field .self_ "x")
        (.fieldFix "z" false .default .none
          (.arrayComp (.binary .add (.var "i") (.field .dollar "x"))
            (.for_ "i" (.array (.cons (.num 1) .nil)) .nil)) .nil))))))
    { isObj := false, vars := ["std"] } = .ok () := by
  rw [analyze_iff]
  simp [WS, WSObj, WSMembers, WSBinds, WSDefaults, WSOpt, WSArgs, WSExprs, WSSpecs, specEnv, bindNames,
    paramNames, memberLocalNames, fixedNames, objEnv, AEnv.add, AEnv.has]

example : Scoped {} := Inv_empty

def demoScoped : St :=
  { thunks := #[.done .null, .pending (.expr (.var "std") 0)],
    envs := #[{ parent := none, vars := [("std", 0)], obj := none }],
    runs := #[0, 0] }

example : Scoped demoScoped ∧ TaskOk demoScoped.envs (.eval (.var "std") 0 false 0) := by
  have hk : EnvOk demoScoped.envs 0 rootEnv := rootEnv_ok (stdT := 0) (by simp [demoScoped])
  have hw : WS (.var "std") rootEnv := by simp [WS, rootEnv, AEnv.has]
  refine ⟨⟨?_, ⟨?_, ?_, ?_⟩, ?_⟩, ⟨rootEnv, hk, hw⟩⟩
  · intro e env p h hp
    have : e = 0 := by
      have := lt_size_of_getElem? h
      simp [demoScoped] at this; exact this
    subst this
    simp [demoScoped] at h
    subst h; cases hp
  · intro t x hx
    have hlt := lt_size_of_getElem? hx
    simp [demoScoped] at hlt
    have : t = 0 ∨ t = 1 := by omega
    rcases this with rfl | rfl
    · simp [demoScoped] at hx; subst hx; trivial
    · simp [demoScoped] at hx; subst hx; exact ⟨rootEnv, hk, hw⟩
  · intro f fn h; simp [demoScoped] at h
  · intro o ob h; simp [demoScoped] at h
  · intro o ob h; simp [demoScoped] at h

end Rsj.Eval

open Rsj.Eval in
#print axioms C09_eval_run_no_unbound
open Rsj.Eval in
#print axioms C09_eval_no_unbound_at_runtime
open Rsj.Eval in
#print axioms C09_evalProgram_outcome
open Rsj.Eval in
#print axioms C09_eval_request_no_unbound
open Rsj.Eval in
#print axioms C09_eval_request_keeps_scoped
open Rsj.Eval in
#print axioms C09_eval_history_init_scoped
open Rsj.Eval in
#print axioms C01_eval_no_internal_error_partial
open Rsj.Eval in
#print axioms C01_eval_request_no_internal_error_partial
