/-
  C07 on the evaluator model.  `RsjModel/Eval.lean` has its own object code
  (`fieldsOrder`, `visibleFields`, `findField`, `hasVisibleField`, `cloneField`,
  `cloneLayer`, `extendObject`); C07 itself is proved on the stand-alone object
  model `RsjModel/Object.lean` (`RsjProps/C07.lean`).  This file

  1. relates the two: `absObj : Eval.Obj → Object.Obj` and the refinement
     theorems `C07_eval_refines_*` (every structural function of the evaluator
     model is the corresponding function of the object model on `absObj`), so
     that the C07 theorems of the object model speak about the objects the
     evaluator manipulates;
  2. states the C07 facts purely in terms of `Rsj.Eval` functions
     (`C07_eval_*`), for arbitrary evaluator objects;
  3. lifts `+` one step into the evaluation monad (`C07_eval_add_allocates`) and shows the
     late binding of `self` there (`C07_eval_self_late_bound`: the first access to a field
     of a sum creates a pending thunk bound to the sum);
  4. shows that the side condition `ObjWF` of the refinement of `fieldsOrder` is an
     invariant of the whole evaluator (`C07_eval_store_objects_wf`: every fuel, every
     task, whole programs, histories), so that the refinement holds for every object
     the evaluator model can ever hold (`C07_eval_refines_reachable`).

  Property theorems only; helper lemmas live in RsjProofs/EvalObject*.lean.
  Vocabulary used in the statements (all defined in RsjProofs/EvalObjectOrder.lean
  and RsjProofs/EvalObjectAlg.lean, a few lines each):
    `visSeq o n`      the visibilities declared for `n`, top layer first;
    `resolveVis w`    absent / first non-default / default;
    `lookupVis l n`   the visibility the list `l` records for `n`;
    `mergeVis va vb`  visibility in `a + b` from those in `a` and `b`;
    `shiftF k r`, `cloneF r`  a `findField` result with the layer index moved
                      up by `k` / with the found field replaced by its clone.

  What does *not* transfer: the object model's toy field bodies (`evalAt`,
  `fieldValue`, `manifest`).  `absObj` abstracts every body to `lit 0`; the
  late binding of `self` / `super` in the evaluator model is covered here only
  structurally (`C07_eval_super_is_left`, `C07_eval_clone_forgets_caches`).
-/
import RsjProofs.EvalObjectMonad
import RsjProofs.EvalObjectWFRun
import RsjProofs.EvalObjectLate
import RsjProps.C07
set_option linter.unusedSimpArgs false
namespace Rsj.Eval
open Rsj.Core

/-! ### 1. Refinement of the object model -/

/-- **`extendObject` refines `extend`, `findField` refines `findField`** — for
    all evaluator objects, no hypothesis.  Argument order is the same in both
    models (`lhs + rhs`, layers of `rhs` on top, index 0 = top layer).  The
    lookup finds the same layer index, visibility and plus-flag.  Evaluator
    objects have no `Removed` markers: `absObj o` is `Closed`. -/
theorem C07_eval_refines_extend_findField :
    (∀ a b : Obj, absObj (extendObject a b) = Object.extend (absObj a) (absObj b)) ∧
    (∀ (o : Obj) (start : Nat) (n : String),
        Object.findField (absObj o) start n = absFound (findField o start n)) ∧
    (∀ (o : Obj) (start : Nat) (n : String),
        Object.hasField (absObj o) start n = (findField o start n).isSome) ∧
    (∀ o : Obj, (absObj o).length = o.layers.length) ∧
    (∀ o : Obj, Object.Closed (absObj o)) :=
  ⟨absObj_extendObject, findField_abs, hasField_abs, absObj_length, closed_absObj⟩

/-- **`fieldsOrder`, `visibleFields`, `hasVisibleField`, `std.length` refine
    their counterparts** on objects whose layers list each name at most once
    (`ObjWF`; see `C07_eval_objWF_invariant`): same names, same order, same
    visibilities. -/
theorem C07_eval_refines_fieldsOrder (o : Obj) (h : ObjWF o) :
    (fieldsOrder o).map (fun p => (p.1, absVis p.2)) = Object.fieldsOrder (absObj o) ∧
    visibleFields o = Object.visibleFields (absObj o) ∧
    (∀ n, hasVisibleField o n = Object.hasVisibleField (absObj o) n) ∧
    (visibleFields o).length = Object.objLength (absObj o) ∧
    (∀ n, (lookupVis (fieldsOrder o) n).map absVis = Object.finalVis (absObj o) n) :=
  ⟨fieldsOrder_abs o h, visibleFields_abs o h, hasVisibleField_abs o h, objLength_abs o h,
    fun n => (finalVis_abs o h n).symm⟩

/-- `ObjWF` is established and preserved by the object constructors of the
    evaluator model: a layer under construction only grows through `addField`,
    which refuses a repeated name (`RepeatedFieldName`) and otherwise appends
    one field; `extendObject` keeps every layer's names; the empty layer is
    fine. -/
theorem C07_eval_objWF_invariant :
    (∀ a b : Obj, ObjWF a → ObjWF b → ObjWF (extendObject a b)) ∧
    (∀ (l : Layer) (f : Field), LayerNodup l →
        l.fields.any (fun g => g.name == f.name) = false →
        LayerNodup { l with fields := l.fields ++ [f] }) ∧
    (∀ l : Layer, l.fields = [] → LayerNodup l) :=
  ⟨fun _ _ => objWF_extendObject, layerNodup_snoc, fun l h => by simp [LayerNodup, h]⟩

/-- non-vacuity: a two-layer object, and the refinement on it -/
example :
    let o := exObj [exLayer [exField "b" .default, exField "a" .hidden], exLayer [exField "b" .force, exField "c" .default]]
    ObjWF o ∧ fieldsOrder o = [("a", .hidden), ("b", .force), ("c", .default)] ∧
    Object.fieldsOrder (absObj o) = [("a", .hidden), ("b", .forceVisible), ("c", .default)] := by
  refine ⟨?_, rfl, rfl⟩
  intro l hl
  simp only [exObj, List.mem_cons, List.not_mem_nil, or_false] at hl
  rcases hl with rfl | rfl <;> simp [LayerNodup, exLayer, exField]

/-- `ObjWF` cannot be dropped: on a layer that lists `f` twice the evaluator
    model's fold sees both occurrences, the object model's `Layer.get` only the
    first.  (No such layer exists in the implementation: a layer is a hash map.) -/
example :
    let o := exObj [exLayer [exField "f" .default, exField "f" .hidden]]
    ¬ ObjWF o ∧ fieldsOrder o = [("f", .hidden)] ∧ Object.fieldsOrder (absObj o) = [("f", .default)] := by
  refine ⟨?_, rfl, rfl⟩
  intro h
  have := h _ (List.mem_cons_self)
  simp [LayerNodup, exLayer, exField] at this

/-! ### 2. C07 in terms of the evaluator model -/

/-- **C07 extend_assoc on evaluator objects.**  `(a + b) + c` and `a + (b + c)`
    are the *same object* (cloning is idempotent), hence every observation
    coincides: field order, visible fields, `hasVisibleField`, and `findField`
    from every start layer (`self`, `super` at any depth). -/
theorem C07_eval_extend_assoc (a b c : Obj) :
    extendObject (extendObject a b) c = extendObject a (extendObject b c) ∧
    fieldsOrder (extendObject (extendObject a b) c) = fieldsOrder (extendObject a (extendObject b c)) ∧
    visibleFields (extendObject (extendObject a b) c) = visibleFields (extendObject a (extendObject b c)) ∧
    (∀ n, hasVisibleField (extendObject (extendObject a b) c) n =
        hasVisibleField (extendObject a (extendObject b c)) n) ∧
    (∀ start n, findField (extendObject (extendObject a b) c) start n =
        findField (extendObject a (extendObject b c)) start n) := by
  rw [extendObject_assoc]
  exact ⟨rfl, rfl, rfl, fun _ => rfl, fun _ _ => rfl⟩

/-- **C07 empty identities on evaluator objects.**  Let `e` consist of
    field-less layers (`{}` is `e.layers = [l]`, `k = 1`; asserts and locals of
    `e` play no role for these views).
    Right identity `a + e`: same field order / visible fields; every layer of
    `a` moves up by `k = e.layers.length`, lookups from the top or from inside
    `a` find the clone of what they found in `a`, `k` layers further down.
    Left identity `e + a`: same field order / visible fields; no index moves,
    every lookup from every start layer finds the clone of what it found in `a`. -/
theorem C07_eval_empty_identities (a e : Obj) (he : ∀ l ∈ e.layers, l.fields = []) :
    fieldsOrder (extendObject a e) = fieldsOrder a ∧
    fieldsOrder (extendObject e a) = fieldsOrder a ∧
    visibleFields (extendObject a e) = visibleFields a ∧
    visibleFields (extendObject e a) = visibleFields a ∧
    (∀ n, hasVisibleField (extendObject a e) n = hasVisibleField a n) ∧
    (∀ n, hasVisibleField (extendObject e a) n = hasVisibleField a n) ∧
    (∀ n, findField (extendObject a e) 0 n = shiftF e.layers.length (cloneF (findField a 0 n))) ∧
    (∀ j n, findField (extendObject a e) (e.layers.length + j) n =
        shiftF e.layers.length (cloneF (findField a j n))) ∧
    (∀ i n, findField (extendObject e a) i n = cloneF (findField a i n)) := by
  have h1 : fieldsOrder (extendObject a e) = fieldsOrder a :=
    fieldsOrder_congr (fun n => by rw [visSeq_extendObject, visSeq_fieldless e he]; rfl)
  have h2 : fieldsOrder (extendObject e a) = fieldsOrder a :=
    fieldsOrder_congr (fun n => by rw [visSeq_extendObject, visSeq_fieldless e he, List.append_nil])
  refine ⟨h1, h2, by unfold visibleFields; rw [h1], by unfold visibleFields; rw [h2],
    fun n => by unfold hasVisibleField visibleFields; rw [h1],
    fun n => by unfold hasVisibleField visibleFields; rw [h2], ?_,
    fun j n => findField_extendObject_bottom a e j n, ?_⟩
  · intro n
    rw [findField_extendObject_top a e 0 n (Nat.zero_le _), findField_fieldless e he]
    rfl
  · intro i n
    rcases Nat.le_total i a.layers.length with hi | hi
    · rw [findField_extendObject_top e a i n hi, findField_fieldless e he]
      cases findField a i n <;> rfl
    · obtain ⟨j, rfl⟩ := Nat.exists_eq_add_of_le hi
      rw [findField_extendObject_bottom e a j n, findField_fieldless e he,
        findField_oob a _ n (by omega)]
      rfl

/-- `{}` itself -/
example : ∀ l ∈ (exObj [exLayer []]).layers, l.fields = [] := by
  intro l hl
  simp only [exObj, List.mem_cons, List.not_mem_nil, or_false] at hl
  subst hl; rfl

/-- **C07 views_agree on evaluator objects** (any layers, no hypothesis).
    `std.objectHas` (`hasVisibleField`) ⇔ member of `visibleFields` ⇔ listed by
    `fieldsOrder` with a non-hidden visibility; `in` / `std.objectHasAll`
    (`findField … 0`) ⇔ listed at all; `fieldsOrder` is strictly increasing in
    the name, so `visibleFields` (= `std.objectFields`, the manifestation keys,
    the keys compared by `==`) is strictly increasing and duplicate-free;
    `std.length` counts the non-hidden entries; the two modes of
    `std.objectFieldsEx` are `visibleFields` and all listed names. -/
theorem C07_eval_views_agree (o : Obj) :
    (∀ n, hasVisibleField o n = true ↔ n ∈ visibleFields o) ∧
    (∀ n, hasVisibleField o n = true ↔ ∃ v, (n, v) ∈ fieldsOrder o ∧ v ≠ Vis.hidden) ∧
    (∀ n, (findField o 0 n).isSome = true ↔ n ∈ (fieldsOrder o).map Prod.fst) ∧
    (∀ n, hasVisibleField o n = true → (findField o 0 n).isSome = true) ∧
    (fieldsOrder o).Pairwise (fun p q => p.1 < q.1) ∧
    (visibleFields o).Pairwise (fun a b => a < b) ∧
    (visibleFields o).Nodup ∧
    visibleFields o = ((fieldsOrder o).filter (fun p => p.2 != Vis.hidden)).map Prod.fst ∧
    (visibleFields o).length = ((fieldsOrder o).filter (fun p => p.2 != Vis.hidden)).length ∧
    (fieldsOrder o).filterMap (fun p => if false || p.2 != Vis.hidden then some p.1 else none) = visibleFields o ∧
    (fieldsOrder o).filterMap (fun p => if true || p.2 != Vis.hidden then some p.1 else none) =
      (fieldsOrder o).map Prod.fst := by
  have hv : ∀ n, hasVisibleField o n = true ↔ ∃ v, (n, v) ∈ fieldsOrder o ∧ v ≠ Vis.hidden :=
    fun n => by rw [hasVisibleField_iff, mem_visibleFields]
  refine ⟨hasVisibleField_iff o, hv, findField_isSome_iff o, ?_, fieldsOrder_sorted o,
    visibleFields_sorted o, pairwise_lt_nodup (visibleFields_sorted o), visibleFields_eq_map_filter o, ?_, ?_, ?_⟩
  · intro n h
    obtain ⟨v, hm, _⟩ := (hv n).mp h
    exact (findField_isSome_iff o n).mpr (List.mem_map.mpr ⟨(n, v), hm, rfl⟩)
  · rw [visibleFields_eq_map_filter, List.length_map]
  · rw [visibleFields_eq_map_filter]
    induction fieldsOrder o with
    | nil => rfl
    | cons p t ih =>
      rw [List.filterMap_cons, List.filter_cons, ih]
      cases p.2 != Vis.hidden <;> rfl
  · induction fieldsOrder o with
    | nil => rfl
    | cons p t ih => rw [List.filterMap_cons, List.map_cons, ih]; rfl

/-- **C07 visibility rule on evaluator objects.**  The visibility `fieldsOrder`
    records for a name is: absent if no layer lists it; otherwise the first
    non-default visibility met from the top layer down; otherwise `default`.
    Consequently, in `a + b` a `::` or `:::` of `b` wins, a `:` field of `b`
    keeps the visibility inherited from `a`, a name `b` does not mention keeps
    `a`'s (`mergeVis`). -/
theorem C07_eval_visibility_rule (o : Obj) (n : String) :
    lookupVis (fieldsOrder o) n = resolveVis (visSeq o n) ∧
    (∀ v, (n, v) ∈ fieldsOrder o ↔ resolveVis (visSeq o n) = some v) ∧
    (∀ a b : Obj, visSeq (extendObject a b) n = visSeq b n ++ visSeq a n) ∧
    (∀ a b : Obj, lookupVis (fieldsOrder (extendObject a b)) n =
        mergeVis (lookupVis (fieldsOrder a) n) (lookupVis (fieldsOrder b) n)) :=
  ⟨lookupVis_fieldsOrder o n, mem_fieldsOrder o n, fun a b => visSeq_extendObject a b n,
    fun a b => lookupVis_extendObject a b n⟩

/-- the three rules on concrete objects -/
example :
    let h := exObj [exLayer [exField "f" .hidden]]
    let d := exObj [exLayer [exField "f" .default]]
    let v := exObj [exLayer [exField "f" .force]]
    fieldsOrder (extendObject h d) = [("f", .hidden)] ∧ fieldsOrder (extendObject d h) = [("f", .hidden)] ∧
    fieldsOrder (extendObject h v) = [("f", .force)] ∧
    fieldsOrder (extendObject (extendObject h v) d) = [("f", .force)] ∧
    fieldsOrder (extendObject d d) = [("f", .default)] ∧
    visibleFields (extendObject h d) = [] ∧ visibleFields (extendObject h v) = ["f"] := by
  exact ⟨rfl, rfl, rfl, rfl, rfl, rfl, rfl⟩

/-- **C07 super_is_left on evaluator objects.**  `super` in layer `i` is the
    lookup `findField o (i + 1) n` (`wantSuperField`, `inSuper`, `+:`).
    (1) it only ever finds layers of index `> i`, and it is a function of the
        layers strictly below `i` alone;
    (2) `findField` returns the first layer at or below the start that lists the
        name, with that layer's field;
    (3) in `a + b`, a lookup starting at layer `i` of `b` (`i ≤ |b|`, so also
        `super` of `b`'s bottom layer, `i = |b|`) sees the rest of `b` from `i`
        on and then all of `a`; a lookup starting at layer `j` of `a` (index
        `|b| + j` of the sum) sees only `a`'s own layers from `j` on, nothing of
        `b` — exactly the objects to the left;
    (4) the sum has `|a| + |b|` layers, so `super` fails with
        `SuperWithoutSuperObject` (`layer + 1 == layers.length`) only in the
        bottom layer of `a`. -/
theorem C07_eval_super_is_left (n : String) :
    (∀ (o : Obj) (i li : Nat) (f : Field), findField o (i + 1) n = some (li, f) →
        i < li ∧ li < o.layers.length ∧ f.name = n) ∧
    (∀ (o : Obj) (i : Nat),
        findField o (i + 1) n = shiftF (i + 1) (findField { o with layers := o.layers.drop (i + 1) } 0 n)) ∧
    (∀ (o : Obj) (s li : Nat) (f : Field), findField o s n = some (li, f) ↔
        s ≤ li ∧ (∃ l, o.layers[li]? = some l ∧ l.fields.find? (fun g => g.name == n) = some f) ∧
        ∀ j l, s ≤ j → j < li → o.layers[j]? = some l → l.fields.find? (fun g => g.name == n) = none) ∧
    (∀ (a b : Obj) (i : Nat), i ≤ b.layers.length →
        findField (extendObject a b) i n =
          (cloneF (findField b i n)).orElse (fun _ => shiftF b.layers.length (cloneF (findField a 0 n)))) ∧
    (∀ (a b : Obj) (j : Nat),
        findField (extendObject a b) (b.layers.length + j) n =
          shiftF b.layers.length (cloneF (findField a j n))) ∧
    (∀ a b : Obj, (extendObject a b).layers.length = a.layers.length + b.layers.length) := by
  refine ⟨?_, fun o i => findField_drop o (i + 1) n, fun o s li f => findField_some_iff o s n li f,
    fun a b i hi => findField_extendObject_top a b i n hi,
    fun a b j => findField_extendObject_bottom a b j n, ?_⟩
  · intro o i li f h
    have := findField_some_bounds h
    exact ⟨by omega, this.2.1, this.2.2⟩
  · intro a b; simp [Nat.add_comm]

/-- `super` sees exactly the left operand: in `{a: _} + {a: _, b: _} + {a: _}` a `super.a`
    in the middle layer finds layer 2 (the leftmost object), `'a' in super` is false there. -/
example :
    let A := exObj [exLayer [exField "a" .default]]
    let B := exObj [exLayer [exField "a" .default, exField "b" .default]]
    let C := exObj [exLayer [exField "a" .hidden]]
    let o := extendObject (extendObject A B) C
    (findField o 0 "a").map Prod.fst = some 0 ∧ (findField o 2 "a").map Prod.fst = some 2 ∧
    (findField o 3 "a").isSome = false ∧ (findField o 1 "b").map Prod.fst = some 1 ∧
    (findField o 2 "b").isSome = false := by
  exact ⟨rfl, rfl, rfl, rfl, rfl⟩

/-- **C07 clone_forgets_caches.**  `a + b` is built from clones of all layers:
    every cached layer environment is dropped and every field that has an
    expression loses its cached thunk, the assertion state is reset; names,
    visibilities, expressions, base environments, locals and asserts are kept,
    and a field without expression (a precomputed literal) keeps its thunk.
    This is what makes `self` late-bound: the first access to a field of the
    sum (`fieldThunk`) finds no thunk and no layer environment and creates both
    afresh with the object reference of the *new* whole. -/
theorem C07_eval_clone_forgets_caches (a b : Obj) :
    (extendObject a b).layers = (b.layers ++ a.layers).map cloneLayer ∧
    (extendObject a b).assertsChecked = false ∧ (extendObject a b).assertsInProgress = false ∧
    (∀ l ∈ (extendObject a b).layers, l.env = none ∧
        ∀ f ∈ l.fields, f.expr.isSome = true → f.thunk = none) ∧
    (∀ l : Layer, (cloneLayer l).env = none ∧ (cloneLayer l).fields = l.fields.map cloneField ∧
        (cloneLayer l).isTop = l.isTop ∧ (cloneLayer l).locals = l.locals ∧
        (cloneLayer l).baseEnv = l.baseEnv ∧ (cloneLayer l).asserts = l.asserts) ∧
    (∀ f : Field, (cloneField f).name = f.name ∧ (cloneField f).vis = f.vis ∧
        (cloneField f).baseEnv = f.baseEnv ∧ (cloneField f).expr = f.expr ∧
        (f.expr.isSome = true → (cloneField f).thunk = none) ∧
        (f.expr = none → (cloneField f).thunk = f.thunk)) ∧
    (∀ l : Layer, cloneLayer (cloneLayer l) = cloneLayer l) := by
  refine ⟨rfl, rfl, rfl, ?_, fun l => ⟨rfl, rfl, rfl, rfl, rfl, rfl⟩,
    fun f => ⟨rfl, rfl, rfl, rfl, cloneField_thunk_of_expr f, cloneField_thunk_of_no_expr f⟩,
    cloneLayer_idem⟩
  intro l hl
  rw [extendObject_layers, List.mem_map] at hl
  obtain ⟨l0, _, rfl⟩ := hl
  refine ⟨rfl, ?_⟩
  intro f hf he
  rw [cloneLayer_fields, List.mem_map] at hf
  obtain ⟨f0, _, rfl⟩ := hf
  exact cloneField_thunk_of_expr f0 he

/-- a cached thunk and a cached environment disappear, a precomputed one stays -/
example :
    let f1 : Field := { name := "x", vis := .default, baseEnv := none, expr := some (.self_, false), thunk := some 7 }
    let f2 : Field := { name := "y", vis := .default, baseEnv := none, expr := none, thunk := some 8 }
    let l : Layer := { isTop := true, locals := [], baseEnv := some 0, env := some 3, fields := [f1, f2], asserts := [] }
    let o := extendObject (exObj [exLayer []]) { layers := [l], assertsChecked := true }
    o.layers.map (fun l => l.env) = [none, none] ∧
    o.layers.map (fun l => l.fields.map (fun f => f.thunk)) = [[none, some 8], []] ∧
    o.assertsChecked = false := by
  exact ⟨rfl, rfl, rfl⟩

/-! ### 3. One step into the monad -/

/-- **`lhs + rhs` on objects allocates exactly `extendObject lhs rhs`.**
    Applied to any store in which both ids are live, `do_binary_op` returns the
    fresh id `objs.size`, the new store is the old one with the sum pushed, so
    every existing object (and every thunk, environment, function, trace,
    counter) is untouched; with a dead id it is the panic "attempted to access
    destroyed object" and the store is unchanged.  (An equation, hence stronger
    than a Hoare triple; it holds for every `cfg`, `rec`, depth and span flag.) -/
theorem C07_eval_add_allocates (cfg : Cfg) (rec : Task → M Value) (a b : OId) (d : Nat) (hs : Bool)
    (st : St) :
    (∀ oa ob, st.objs[a]? = some oa → st.objs[b]? = some ob →
        ∃ st', binaryOp cfg rec .add (.obj a) (.obj b) d hs st = some (.ok (.obj st.objs.size), st') ∧
          st'.objs = st.objs.push (extendObject oa ob) ∧
          st'.objs[st.objs.size]? = some (extendObject oa ob) ∧
          (∀ i, i < st.objs.size → st'.objs[i]? = st.objs[i]?) ∧
          st'.thunks = st.thunks ∧ st'.envs = st.envs ∧ st'.funcs = st.funcs ∧
          st'.traces = st.traces ∧ st'.runs = st.runs ∧ st'.deepest = st.deepest ∧
          st'.tripped = st.tripped) ∧
    ((st.objs[a]? = none ∨ st.objs[b]? = none) →
        binaryOp cfg rec .add (.obj a) (.obj b) d hs st =
          some (.error (.internal "attempted to access destroyed object"), st)) := by
  rw [ObjM.binaryOp_add_obj_apply]
  constructor
  · intro oa ob ha hb
    rw [ha, hb]
    refine ⟨_, rfl, rfl, ?_, ?_, rfl, rfl, rfl, rfl, rfl, rfl, rfl⟩
    · simp
    · intro i hi
      simp only
      rw [Array.getElem?_push]
      have : i ≠ st.objs.size := by omega
      simp [this]
  · rintro (h | h)
    · rw [h]
    · rw [h]; cases st.objs[a]? <;> rfl

/-- `f in o` is the lookup from the top -/
theorem C07_eval_in_is_findField (cfg : Cfg) (rec : Task → M Value) (f : String) (o : OId) (d : Nat)
    (hs : Bool) (st : St) (ob : Obj) (ho : st.objs[o]? = some ob) :
    binaryOp cfg rec .in_ (.str f) (.obj o) d hs st = some (.ok (.bool (findField ob 0 f).isSome), st) ∧
    ((findField ob 0 f).isSome = true ↔ f ∈ (fieldsOrder ob).map Prod.fst) := by
  rw [ObjM.binaryOp_in_obj_apply, ho]
  exact ⟨rfl, findField_isSome_iff ob f⟩

/-- non-vacuity: a store with two live objects -/
example :
    let st : St := { objs := #[exObj [exLayer [exField "a" .default]], exObj [exLayer [exField "b" .hidden]]] }
    st.objs[0]? = some (exObj [exLayer [exField "a" .default]]) ∧ st.objs[1]? = some (exObj [exLayer [exField "b" .hidden]]) :=
  ⟨rfl, rfl⟩

/-- **The evaluator reads objects only through these functions.**  Applied to a store:
    `std.length` of an object is the number of `visibleFields`; `std.objectHasEx(o, f, h)`
    is `findField o 0 f` found (`h`, hidden fields count) or `hasVisibleField o f`;
    `e in super` in layer `i` is `findField o (i + 1) n` found; `super.f` fails with
    `SuperWithoutSuperObject` exactly when `i + 1` is the number of layers and otherwise
    looks the field up from layer `i + 1` (`fieldThunk`).  (`rec` is the evaluator with
    less fuel; its outcomes on the argument thunks are hypotheses.) -/
theorem C07_eval_reads (cfg : Cfg) (rec : Task → M Value) :
    (∀ (t : TId) (d1 : Nat) (st st1 : St) (o : OId) (ob : Obj),
        rec (.force t d1) st = some (.ok (.obj o), st1) → st1.objs[o]? = some ob →
        std_length rec t d1 st = some (.ok (.num (Float.ofNat (visibleFields ob).length)), st1)) ∧
    (∀ (t0 t1 t2 : TId) (d1 : Nat) (st s1 s2 s3 : St) (o : OId) (f : String) (h : Bool) (ob : Obj),
        rec (.force t0 d1) st = some (.ok (.obj o), s1) → rec (.force t1 d1) s1 = some (.ok (.str f), s2) →
        rec (.force t2 d1) s2 = some (.ok (.bool h), s3) → s3.objs[o]? = some ob →
        std_objectHasEx rec t0 t1 t2 d1 st =
          some (.ok (.bool (if h then (findField ob 0 f).isSome else hasVisibleField ob f)), s3)) ∧
    (∀ (le : Expr) (env : EId) (tail : Bool) (d : Nat) (st s1 : St) (n : String) (E : Env) (r : ObjRef) (ob : Obj),
        rec (.eval le env false d) st = some (.ok (.str n), s1) → s1.envs[env]? = some E → E.obj = some r →
        s1.objs[r.obj]? = some ob →
        step cfg rec (.eval (.inSuper le) env tail d) st =
          some (.ok (.bool (findField ob (r.layer + 1) n).isSome), s1)) ∧
    (∀ (env : EId) (name : String) (d : Nat) (st : St) (E : Env) (r : ObjRef) (ob : Obj),
        st.envs[env]? = some E → E.obj = some r → st.objs[r.obj]? = some ob →
        wantSuperField cfg rec env name d st =
          if r.layer + 1 = ob.layers.length then some (.error (.rt "SuperWithoutSuperObject" ""), st)
          else (fieldThunk r.obj (r.layer + 1) name >>= fun x =>
            match x with
            | some t => wantThunk cfg rec t d
            | none => throw (.rt "UnknownObjectField" name)) st) :=
  ⟨ObjM.std_length_obj_apply rec, ObjM.std_objectHasEx_apply rec,
    fun le env tail d st s1 n E r ob => ObjM.step_inSuper_apply cfg rec le env tail d st s1 n E r ob,
    fun env name d st E r ob => ObjM.wantSuperField_apply cfg rec env name d st E r ob⟩

/-- non-vacuity of the hypotheses on `rec`: a recursive-call function that returns object 0 -/
example :
    let rec' : Task → M Value := fun _ => pure (.obj 0)
    let st : St := { objs := #[exObj [exLayer [exField "a" .default, exField "h" .hidden]]] }
    rec' (.force 0 0) st = some (.ok (.obj 0), st) ∧
    st.objs[0]? = some (exObj [exLayer [exField "a" .default, exField "h" .hidden]]) ∧
    visibleFields (exObj [exLayer [exField "a" .default, exField "h" .hidden]]) = ["a"] :=
  ⟨rfl, rfl, rfl⟩

/-- **`self` is late-bound, in the monad.**  Evaluate `lhs + rhs` (objects `a`, `b` of the
    store), then access a field of the sum for the first time (`fieldThunk`, the common
    part of `want_field`, `want_super_field` and `+:`), from any start layer.  If the field
    found — in layer `li`, which may come from `lhs` or from `rhs` — has an expression,
    then whenever the access succeeds it returns a thunk `t` that is *pending* on that
    expression (`.plus` for a `+:` field) in an environment whose object reference is
    `(o, li)` with `o` the **sum**: `self` in the field body is the new whole, `super`
    starts below layer `li` of the sum — whatever was cached in `a` or `b` before.  All
    environments and thunks that existed before are still there.  Nothing is
    claimed when the access fails (a missing base environment is a panic site). -/
theorem C07_eval_self_late_bound (cfg : Cfg) (rec : Task → M Value) (a b : OId) (d : Nat) (hs : Bool)
    (st : St) (oa ob : Obj) (ha : st.objs[a]? = some oa) (hb : st.objs[b]? = some ob)
    (start : Nat) (name : String) (li : Nat) (f : Field)
    (hf : findField (extendObject oa ob) start name = some (li, f)) (hx : f.expr.isSome = true) :
    ∃ st1, binaryOp cfg rec .add (.obj a) (.obj b) d hs st = some (.ok (.obj st.objs.size), st1) ∧
      okOutcome (fun r st2 =>
          (∃ t env e plus, f.expr = some (e, plus) ∧ r = some t ∧
            st2.thunks[t]? = some (.pending (if plus then .plus e name env else .expr e env)) ∧
            ∃ p vars top, st2.envs[env]? =
              some { parent := p, vars := vars, obj := some { obj := st.objs.size, layer := li, top := top } }) ∧
          (∀ (i : Nat) (x : Env), st.envs[i]? = some x → st2.envs[i]? = some x) ∧
          (∀ (i : Nat) (x : TState), st.thunks[i]? = some x → st2.thunks[i]? = some x))
        (fieldThunk st.objs.size start name st1) := by
  rw [ObjM.binaryOp_add_obj_apply, ha, hb]
  refine ⟨_, rfl, ?_⟩
  have hfresh := found_in_sum_is_fresh oa ob start name li f hf
  exact fieldThunk_late_apply { st with objs := st.objs.push (extendObject oa ob) } st.objs.size start name
    (extendObject oa ob) (by simp) li f hf (hfresh.1 hx) hfresh.2

/-- non-vacuity: in `{a: 1, b: self.a} + {a: 2}` (both operands with stale caches) the
    lookup of `b` in the sum finds layer 1, a field with an expression -/
example :
    let fb : Field := { name := "b", vis := .default, baseEnv := none, expr := some (.field .self_ "a", false), thunk := some 5 }
    let la : Layer := { isTop := true, locals := [], baseEnv := some 0, env := some 1, fields := [exField "a" .default, fb], asserts := [] }
    let A : Obj := { layers := [la], assertsChecked := true }
    let B : Obj := exObj [exLayer [exField "a" .default]]
    (findField (extendObject A B) 0 "b").map (fun p => (p.1, p.2.expr.isSome, p.2.thunk)) = some (1, true, none) := by
  rfl

/-! ### 4. `ObjWF` is an invariant of the evaluator -/

/-- **Every object the evaluator model ever holds lists each name at most once per
    layer.**  `StoreWF st`: all objects of the store `st` satisfy `ObjWF`.  It holds
    of the empty store, is preserved by every evaluation (`run`, any configuration,
    fuel, task; whatever the outcome — value, error or panic; running out of fuel
    yields no store), hence holds of the final store of every program
    (`evalProgram`, including the restoration after a failure) and is preserved by
    every request of a history (`runRequest`). -/
theorem C07_eval_store_objects_wf :
    StoreWF {} ∧
    (∀ (cfg : Cfg) (fuel : Nat) (t : Task) (st : St), StoreWF st → outcomeWF (run cfg fuel t st)) ∧
    (∀ (cfg : Cfg) (fuel : Nat) (e : Expr), StoreWF (evalProgram cfg fuel e).2) ∧
    (∀ (cfg : Cfg) (fuel : Nat) (t : TId) (st : St), StoreWF st → StoreWF (runRequest cfg fuel t st).2) :=
  ⟨storeWF_empty, run_storeWF, evalProgram_storeWF, runRequest_storeWF⟩

/-- **The refinement holds for every reachable object**: for every object in the
    store after a program (or after any evaluation started in a well-formed store),
    `fieldsOrder` / `visibleFields` / `hasVisibleField` / `std.length` are those of the
    object model on `absObj` — no hypothesis left. -/
theorem C07_eval_refines_reachable :
    (∀ (cfg : Cfg) (fuel : Nat) (e : Expr) (i : Nat) (o : Obj),
        (evalProgram cfg fuel e).2.objs[i]? = some o →
        (fieldsOrder o).map (fun p => (p.1, absVis p.2)) = Object.fieldsOrder (absObj o) ∧
        visibleFields o = Object.visibleFields (absObj o) ∧
        (∀ n, hasVisibleField o n = Object.hasVisibleField (absObj o) n) ∧
        (visibleFields o).length = Object.objLength (absObj o)) ∧
    (∀ (cfg : Cfg) (fuel : Nat) (t : Task) (st st' : St) (r : Except Err Value) (i : Nat) (o : Obj),
        StoreWF st → run cfg fuel t st = some (r, st') → st'.objs[i]? = some o →
        (fieldsOrder o).map (fun p => (p.1, absVis p.2)) = Object.fieldsOrder (absObj o) ∧
        visibleFields o = Object.visibleFields (absObj o) ∧
        (∀ n, hasVisibleField o n = Object.hasVisibleField (absObj o) n) ∧
        (visibleFields o).length = Object.objLength (absObj o)) := by
  constructor
  · intro cfg fuel e i o h
    have hw := evalProgram_storeWF cfg fuel e i o h
    exact ⟨fieldsOrder_abs o hw, visibleFields_abs o hw, hasVisibleField_abs o hw, objLength_abs o hw⟩
  · intro cfg fuel t st st' r i o hst hrun h
    have := run_storeWF cfg fuel t st hst
    rw [hrun] at this
    have hw := this i o h
    exact ⟨fieldsOrder_abs o hw, visibleFields_abs o hw, hasVisibleField_abs o hw, objLength_abs o hw⟩

/-- non-vacuity: `{a: null} + {a:: null}` evaluated in a store with a root environment
    leaves three objects (the two literals and their sum); their field orders -/
example :
    let st0 : St := { envs := #[{ parent := none, vars := [], obj := none }] }
    StoreWF st0 ∧
    (run { maxStack := 10 } 3 (.eval (.objExt (.object (.fieldFix "a" false .default .none .null .nil))
        (.fieldFix "a" false .hidden .none .null .nil)) 0 false 0) st0).map
      (fun p => p.2.objs.toList.map fieldsOrder) =
      some [[("a", .default)], [("a", .hidden)], [("a", .hidden)]] := by
  refine ⟨?_, rfl⟩
  intro i o h
  simp at h

/-! ### The object-model theorems now speak about evaluator objects -/

/-- An instance of the transfer: `Object.C07_visibility_rules` and
    `Object.C07_views_agree`, read on `absObj` of an evaluator sum.  (The
    hypothesis `Closed` of the object-model theorem is discharged by
    `closed_absObj`.) -/
theorem C07_eval_transfer_example (a b : Obj) (n : String) :
    Object.finalVis (absObj (extendObject a b)) n =
      Object.mergeVis (Object.finalVis (absObj a) n) (Object.finalVis (absObj b) n) ∧
    (Object.hasVisibleField (absObj (extendObject a b)) n = true ↔
      n ∈ Object.visibleFields (absObj (extendObject a b))) := by
  refine ⟨?_, ?_⟩
  · exact (Object.C07_visibility_rules _ n).2 (absObj a) (absObj b) (closed_absObj b)
      (absObj_extendObject a b)
  · exact ((Object.C07_views_agree _).2.2.2.2 n).symm

end Rsj.Eval

open Rsj.Eval in
#print axioms C07_eval_refines_extend_findField
open Rsj.Eval in
#print axioms C07_eval_refines_fieldsOrder
open Rsj.Eval in
#print axioms C07_eval_objWF_invariant
open Rsj.Eval in
#print axioms C07_eval_extend_assoc
open Rsj.Eval in
#print axioms C07_eval_empty_identities
open Rsj.Eval in
#print axioms C07_eval_views_agree
open Rsj.Eval in
#print axioms C07_eval_visibility_rule
open Rsj.Eval in
#print axioms C07_eval_super_is_left
open Rsj.Eval in
#print axioms C07_eval_clone_forgets_caches
open Rsj.Eval in
#print axioms C07_eval_add_allocates
open Rsj.Eval in
#print axioms C07_eval_in_is_findField
open Rsj.Eval in
#print axioms C07_eval_reads
open Rsj.Eval in
#print axioms C07_eval_self_late_bound
open Rsj.Eval in
#print axioms C07_eval_store_objects_wf
open Rsj.Eval in
#print axioms C07_eval_refines_reachable
open Rsj.Eval in
#print axioms C07_eval_transfer_example
