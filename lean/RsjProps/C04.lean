/-
  C04 — call-by-need: unused parts never run, used parts run once.
  Property theorems for the abstract thunk machine (`RsjModel/Thunk.lean`);
  helper lemmas live in RsjProofs/Thunk*.lean.

  Setting: `c : Code` assigns a fixed computation (`Prog`) to every thunk index,
  a store `s : St` holds the thunk states (`s.st u`), run counters (`s.rn u`,
  how often the computation of `u` was started) and the `std.trace` log.
  `force c h u s` is `DoThunk … GotThunk` with `h` levels of nesting left,
  `evalReq c limit u s` one request (`Evaluator::eval`, including the restore of
  in-progress thunks on failure).  The headroom `h` / `limit` is at the same
  time the fuel of the model (see the header of the model), so "for every fuel"
  reads "for every `h`" below; "gas" is the outcome StackOverflow.
-/
import RsjModel.Core
import RsjProofs.ThunkReq
namespace Rsj.Thunk

/-! ### The state order and "at most once" -/

/-- **C04 state order.** Whatever a force does (any store, any computations,
    any fuel), it is monotone for `pending < inProgress < done` — `Mono s s'`:
    a thunk that is not pending is not touched (same state, same run counter);
    a pending thunk either stays pending with the same run counter, or leaves
    `pending` and its computation was started exactly once; lengths are kept and
    the trace log only grows. -/
theorem C04_state_order (c : Code) (h t : Nat) (s : St) : Mono s (force c h t s).2 :=
  force_mono_st c h t s

/-- **C04 runs_at_most_once**, general form: one request increases the run
    counter of any thunk by at most one, and only for a thunk that was pending
    before the request (a computation starts only on `pending → inProgress`). -/
theorem C04_runs_at_most_once (c : Code) (limit t : Nat) (s : St) (u : Nat) :
    (evalReq c limit t s).2.rn u = s.rn u ∨
      (s.st u = some .pending ∧ (evalReq c limit t s).2.rn u = (s.rn u).map (· + 1)) :=
  evalReq_runs c limit t s u

/-- The invariant of a store on which no request failed yet: pending thunks
    were never run. -/
def Unrun (s : St) : Prop := ∀ u, s.st u = some .pending → s.rn u = some 0

/-- **C04 runs_at_most_once**, from the invariant `Unrun`: after any single
    request every thunk that was pending before has been run at most once. -/
theorem C04_runs_at_most_once_fresh {c : Code} {limit t : Nat} {s : St} (hs : Unrun s) {u : Nat}
    (hu : s.st u = some .pending) : (evalReq c limit t s).2.runsOf u ≤ 1 := by
  unfold St.runsOf
  rcases evalReq_runs c limit t s u with e | ⟨_, e⟩ <;> rw [e, hs u hu] <;> simp

/-- Over a whole history started on the pristine store: a thunk's computation
    is started at most once plus once per failed request (a failed request puts
    its in-progress thunks back to pending, so they may legitimately run again),
    and the store stays quiescent. -/
theorem C04_runs_bounded_history (c : Code) (limit n : Nat) (qs : List Req) (u : Nat) :
    (runHistory c limit qs (init n)).2.runsOf u ≤ fails (runHistory c limit qs (init n)).1 + 1 := by
  have := (runHistory_runsBound (c := c) (limit := limit) qs (RunsBound.init n)).all u
  omega

/-- ... in particular at most once if no request failed. -/
theorem C04_runs_at_most_once_history (c : Code) (limit n : Nat) (qs : List Req)
    (hok : fails (runHistory c limit qs (init n)).1 = 0) (u : Nat) :
    (runHistory c limit qs (init n)).2.runsOf u ≤ 1 := by
  have := C04_runs_bounded_history c limit n qs u
  omega

example : Unrun (init 3) ∧ RunsBound (init 3) 0 :=
  ⟨fun u h => by rw [st_init] at h; rw [rn_init]; split at h <;> simp_all, RunsBound.init 3⟩

/-! ### Unused parts are never run and are irrelevant -/

/-- **C04 never_forced_never_run.** A thunk that is still pending after a force
    was never run by it (its run counter is unchanged) — the run counter only
    moves on the transition `pending → inProgress`, and that transition is never
    undone inside a force. -/
theorem C04_never_forced_never_run (c : Code) (h u : Nat) (s : St) {t : Nat}
    (h1 : s.st t = some .pending) (h2 : (force c h u s).2.st t = some .pending) :
    (force c h u s).2.rn t = s.rn t := by
  rcases (force_mono_st c h u s).pend t h1 with ⟨_, r⟩ | ⟨q, _⟩
  · exact r
  · rcases q with q | ⟨v, q⟩ <;> rw [q] at h2 <;> cases h2

/-- **C04 unused_irrelevant.** If a request did not run thunk `t` (its run
    counter did not move), then under ANY other computation for `t` the request
    has exactly the same outcome and the same final store: all states, all run
    counters, the whole trace log. -/
theorem C04_unused_irrelevant {c c' : Code} {t k limit u : Nat} {s : St} (hc : AgreeExcept c c' t)
    (h1 : s.rn t = some k) (h2 : (evalReq c limit u s).2.rn t = some k) :
    evalReq c' limit u s = evalReq c limit u s :=
  evalReq_unused hc h1 h2

/-- ... in particular when the unused part is replaced by a failing expression. -/
theorem C04_unused_replaced_by_error {c : Code} {t k limit u : Nat} {s : St} (e : Nat)
    (h1 : s.rn t = some k) (h2 : (evalReq c limit u s).2.rn t = some k) :
    evalReq (c.set t (.fail e)) limit u s = evalReq c limit u s :=
  evalReq_unused (agreeExcept_set c t (.fail e)) h1 h2

/-- The same inside an evaluation (nested force, any headroom). -/
theorem C04_unused_irrelevant_force {c c' : Code} {t k h u : Nat} {s : St} (hc : AgreeExcept c c' t)
    (h1 : s.rn t = some k) (h2 : (force c h u s).2.rn t = some k) :
    force c' h u s = force c h u s :=
  force_unused hc h u s _ _ rfl h1 h2

/-- Non-vacuity: thunk 1 (which fails) is not used by thunk 0 when thunk 2 is 0. -/
example :
    let c : Code := codeOfList
      [.force 2 (fun v => if v = 0 then .ret 5 else .force 1 .ret), .fail 3, .trace 8 (.ret 0)]
    (init 3).rn 1 = some 0 ∧ (evalReq c 5 0 (init 3)).2.rn 1 = some 0 ∧
      (evalReq c 5 0 (init 3)).1 = .ok 5 := ⟨rfl, rfl, rfl⟩

/-! ### Memoisation -/

/-- **C04 memo_transparent.** Forcing a done thunk returns its value, emits no
    trace and changes nothing — for every fuel, even 0. -/
theorem C04_memo_transparent (c : Code) (h : Nat) {t : Nat} {s : St} {v : Val}
    (hd : s.st t = some (.done v)) : force c h t s = (.ok v, s) :=
  force_done hd

/-- Hence a further use of a binding inside a computation costs nothing and
    repeats no trace: the computation continues on the unchanged store. -/
theorem C04_memo_second_use (c : Code) (h : Nat) {t : Nat} {s : St} {v : Val} (k : Val → Prog)
    (hd : s.st t = some (.done v)) :
    runProg (force c h) (.force t k) s = runProg (force c h) (k v) s :=
  runProg_force_ok (force_done hd)

/-- A thunk that was forced successfully is done with the value returned, so
    every later use is a memoised one. -/
theorem C04_forced_is_memoised {c : Code} {h t : Nat} {s s' : St} {v : Val}
    (hf : force c h t s = (.ok v, s')) : s'.st t = some (.done v) ∧ force c h t s' = (.ok v, s') :=
  ⟨force_ok_done hf, force_done (force_ok_done hf)⟩

/-- A successful request leaves no thunk in progress (`Clean`), a failed one
    neither (they are restored): the store between requests is quiescent. -/
theorem C04_request_quiescent {c : Code} {limit t : Nat} {s : St} (hq : Quiet s) :
    Quiet (evalReq c limit t s).2 := by
  unfold evalReq
  have hc := force_clean c limit t s
  rcases res_cases (force c limit t s) with ⟨v, s1, e⟩ | ⟨e', s1, e⟩
  · rw [e] at hc ⊢; exact fun u hu => hq u (hc v rfl u hu)
  · rw [e]; exact Quiet.restore s1

/-! ### Fuel -/

/-- **Fuel monotonicity.** More fuel (= headroom) never changes an outcome
    other than "out of fuel" (= StackOverflow), nor the final store. -/
theorem C04_fuel_monotone {c : Code} {h h' t : Nat} {s s' : St} {r : Outcome}
    (hf : force c h t s = (r, s')) (hr : r ≠ .error .stackOverflow) (hle : h ≤ h') :
    force c h' t s = (r, s') :=
  force_mono_le hf hr hle

/-! ### Trace order -/

/-- **C04 trace_order.** `newTraces s r` is what a run from `s` with result `r`
    appended to the log.  (1) a run only appends; (2) what it appends does not
    depend on the earlier log; (3) the appended messages are, in forcing order,
    the concatenation of the messages of the computations that ran: `trace m`
    contributes `m`, `force t` contributes what the force of `t` emits — nothing
    for a done thunk, the messages of its computation if it was pending — and
    (by `C04_runs_at_most_once`) each computation contributes at most once. -/
theorem C04_trace_order (c : Code) (h : Nat) :
    (∀ t s, (force c h t s).2.traces = s.traces ++ newTraces s (force c h t s)) ∧
    (∀ t s l, force c h t (s.retrace l) =
        ((force c h t s).1, (force c h t s).2.retrace (l ++ newTraces s (force c h t s)))) ∧
    (∀ t s v, s.st t = some (.done v) → newTraces s (force c h t s) = []) ∧
    (∀ t s, s.st t = some .pending → newTraces s (force c (h + 1) t s) =
        newTraces (mark s t) (runProg (force c h) (c t) (mark s t))) ∧
    (∀ m k s, newTraces s (runProg (force c h) (.trace m k) s) =
        m :: newTraces (s.emit m) (runProg (force c h) k (s.emit m))) ∧
    (∀ t k s v s1, force c h t s = (.ok v, s1) →
        newTraces s (runProg (force c h) (.force t k) s) =
          newTraces s (force c h t s) ++ newTraces s1 (runProg (force c h) (k v) s1)) ∧
    (∀ t k s e s1, force c h t s = (.error e, s1) →
        newTraces s (runProg (force c h) (.force t k) s) = newTraces s (force c h t s)) ∧
    (∀ v s, newTraces s (runProg (force c h) (.ret v) s) = []) := by
  refine ⟨fun t s => newTraces_spec (force_mono_st c h t s), fun t s l => ?_,
    fun t s v hd => by rw [force_done hd]; exact newTraces_self s _,
    fun t s hp => newTraces_pending hp,
    fun m k s => newTraces_trace (force_mono_st c h) m k s,
    fun t k s v s1 hf => newTraces_force_ok (force_mono_st c h) hf,
    fun t k s e s1 hf => newTraces_force_error hf,
    fun v s => newTraces_self s _⟩
  obtain ⟨d, hd, hl⟩ := force_frame c h t s _ _ rfl
  rw [newTraces_eq hd]; exact hl l

/-- The request-level form of (1) and (2). -/
theorem C04_trace_frame (c : Code) (limit t : Nat) (s : St) :
    ∃ d, (evalReq c limit t s).2.traces = s.traces ++ d ∧
      ∀ l, evalReq c limit t (s.retrace l) =
        ((evalReq c limit t s).1, (evalReq c limit t s).2.retrace (l ++ d)) :=
  evalReq_frame c limit t s

/-! ### Aliases and dead thunks (the abstract form of the rewrites) -/

/-- **C04 alias_transparent.** The abstract form of "naming a subexpression
    with a local / passing it through an identity function / wrapping it in a
    one-element array or one-field object and projecting it back": a fresh
    thunk `n` with computation `force t; return that value` is added to the
    store and any number of uses of `t` are redirected to `n` (`Redir t n`).
    `Ali t n s sp` says that `sp` is `s` with the alias thunk appended: same
    trace log, `sp.states = s.states ++ [x]`, `sp.runs = s.runs ++ [r]`.
    Then every request on an original thunk whose outcome is not StackOverflow
    has the same outcome on the store with the alias for every limit that is
    at least ONE larger, and afterwards the stores are again related by `Ali`:
    the same trace log, the same states and the same run counters of all
    original thunks.  (The alias costs one level of stack depth, so "the same
    limit" cannot be claimed: a rewrite can turn a run that just fits into a
    StackOverflow — see the example below.) -/
theorem C04_alias_transparent {c c' : Code} {t n : Nat} (ht : t < n) (hcn : c' n = .force t .ret)
    (hred : ∀ u, u ≠ n → Redir t n (c u) (c' u)) {limit u : Nat} {s sp : St} (hu : u ≠ n)
    (ha : Ali t n s sp) (hq : sp.st n ≠ some .inProgress)
    (hr : (evalReq c limit u s).1 ≠ .error .stackOverflow) :
    ∀ l, limit + 1 ≤ l → (evalReq c' l u sp).1 = (evalReq c limit u s).1 ∧
      Ali t n (evalReq c limit u s).2 (evalReq c' l u sp).2 :=
  evalReq_alias ht hcn hred hu ha hq hr

/-- What `Ali` gives for the observable parts. -/
theorem C04_alias_observables {t n : Nat} {s sp : St} (h : Ali t n s sp) :
    sp.traces = s.traces ∧ sp.states.take n = s.states ∧ sp.runs.take n = s.runs := by
  obtain ⟨x, r, e, _⟩ := h.ex
  subst e
  refine ⟨rfl, ?_, ?_⟩
  · simp [St.extend, ← h.len]
  · simp [St.extend, ← h.wf]

/-- A fresh pending alias thunk can always be added. -/
theorem C04_alias_start {t n : Nat} {s : St} (h1 : s.states.length = n) (h2 : s.runs.length = n) :
    Ali t n s (s.extend .pending 0) :=
  ⟨h1, h2, .pending, 0, rfl, .inl rfl⟩

/-- **C04 dead thunks.** Adding a thunk that no computation refers to changes
    nothing at all — same limit, same outcome, same store on the original
    thunks — whatever its own computation is. -/
theorem C04_dead_thunk {c c' : Code} {n : Nat} (hc : ∀ u, u ≠ n → c' u = c u)
    (hno : ∀ u, u ≠ n → NoRef n (c u)) {limit u : Nat} {s : St} {x : TState} (r0 : Nat) (hu : u ≠ n)
    (hx : x ≠ .inProgress) (h1 : s.states.length = n) (h2 : s.runs.length = n) :
    evalReq c' limit u (s.extend x r0) =
      ((evalReq c limit u s).1, (evalReq c limit u s).2.extend x r0) :=
  evalReq_dead hc hno r0 hu hx h1 h2

/-- Non-vacuity of the alias theorem: `local y = <thunk 1>; …` — thunk 0 uses
    thunk 1 twice, one use is redirected to the alias thunk 2. -/
example :
    let c : Code := codeOfList [.force 1 (fun a => .force 1 (fun b => .ret (a + b))), .trace 4 (.ret 3)]
    let c' : Code := codeOfList
      [.force 1 (fun a => .force 2 (fun b => .ret (a + b))), .trace 4 (.ret 3), .force 1 .ret]
    Redir 1 2 (c 0) (c' 0) ∧ Redir 1 2 (c 1) (c' 1) ∧ c' 2 = .force 1 .ret ∧
    evalReq c 2 0 (init 2) = (.ok 6, ⟨[.done 6, .done 3], [1, 1], [4]⟩) ∧
    evalReq c' 3 0 ((init 2).extend .pending 0) =
      (.ok 6, ⟨[.done 6, .done 3, .done 3], [1, 1, 1], [4]⟩) ∧
    -- with the alias thunk 2 placed between 0 and 1 the depth grows by one
    (evalReq (codeOfList [.force 2 .ret, .ret 3, .force 1 .ret]) 2 0
        ((init 2).extend .pending 0)).1 = .error .stackOverflow ∧
    (evalReq (codeOfList [.force 1 .ret, .ret 3]) 2 0 (init 2)).1 = .ok 3 := by
  refine ⟨?_, ?_, rfl, rfl, rfl, rfl, rfl⟩
  · exact .force 1 (by decide) (fun a => .alias (fun b => .ret _))
  · exact .trace 4 (.ret 3)


/-- **C04 rewrite invariance, the part proved** (abstract machine): redirecting
    uses of a thunk through a fresh alias thunk, adding an unreferenced thunk,
    and replacing a thunk that is not run by anything else, leave outcome, trace
    log, states and run counters of the original thunks unchanged.  The
    statement for Jsonnet programs is `Rsj.C04Prog.C04_rewrite_invariance_full`
    below; missing is the coincidence lemma between the evaluator model
    (`RsjModel/Eval.lean`, closures and environments) and this machine — for
    programs the claim is validated by the metamorphic check `checks/c04.py`. -/
theorem C04_rewrite_invariance_partial {c c' : Code} {n : Nat} {limit u : Nat} {s : St} (hu : u ≠ n)
    (h1 : s.states.length = n) (h2 : s.runs.length = n) :
    -- alias (local / identity function / one-element array / one-field object)
    (∀ t, t < n → c' n = .force t .ret → (∀ w, w ≠ n → Redir t n (c w) (c' w)) →
      (evalReq c limit u s).1 ≠ .error .stackOverflow →
      ∀ l, limit + 1 ≤ l → (evalReq c' l u (s.extend .pending 0)).1 = (evalReq c limit u s).1 ∧
        Ali t n (evalReq c limit u s).2 (evalReq c' l u (s.extend .pending 0)).2) ∧
    -- dead binding / field / argument
    ((∀ w, w ≠ n → c' w = c w) → (∀ w, w ≠ n → NoRef n (c w)) →
      evalReq c' limit u (s.extend .pending 0) =
        ((evalReq c limit u s).1, (evalReq c limit u s).2.extend .pending 0)) ∧
    -- a part that is not run can be replaced by anything (e.g. an error)
    (∀ t k p, s.rn t = some k → (evalReq c limit u s).2.rn t = some k →
      evalReq (c.set t p) limit u s = evalReq c limit u s) :=
  ⟨fun _ ht hcn hred hr => evalReq_alias ht hcn hred hu (C04_alias_start h1 h2)
      (by rw [← h1, st_extend_new]; simp) hr,
   fun hc hno => evalReq_dead hc hno 0 hu (by simp) h1 h2,
   fun t _ p hk hk' => evalReq_unused (agreeExcept_set c t p) hk hk'⟩

end Rsj.Thunk

namespace Rsj.C04Prog
open Rsj.Core

/-! ### The program-level statement (full strength, unproved) -/

mutual
  /-- Every identifier occurring in an expression (uses and binders), with
      `self`, `super`, `$` recorded under these names. -/
  def exprNames : Expr → List String
    | .null | .true_ | .false_ | .str _ | .num _ | .importLit _ | .importTextBlock _ => []
    | .self_ => ["self"]
    | .dollar => ["$"]
    | .paren e => exprNames e
    | .object ms => membersNames ms
    | .objectComp l n _ b s => bindsNames l ++ exprNames n ++ exprNames b ++ specsNames s
    | .array items => exprsNames items
    | .arrayComp b s => exprNames b ++ specsNames s
    | .field e _ => exprNames e
    | .index e i => exprNames e ++ exprNames i
    | .slice e a b c => exprNames e ++ optNames a ++ optNames b ++ optNames c
    | .superField _ => ["super"]
    | .superIndex i => "super" :: exprNames i
    | .call f args _ => exprNames f ++ argsNames args
    | .var x => [x]
    | .local_ bs body => bindsNames bs ++ exprNames body
    | .if_ c t e => exprNames c ++ exprNames t ++ optNames e
    | .binary _ a b => exprNames a ++ exprNames b
    | .unary _ a => exprNames a
    | .objExt e ms => exprNames e ++ membersNames ms
    | .func ps body => paramsNames ps ++ exprNames body
    | .assert_ c m i => exprNames c ++ optNames m ++ exprNames i
    | .error_ e => exprNames e
    | .inSuper e => "super" :: exprNames e
    | .importComputed _ e => exprNames e
    | .builtin _ args => exprsNames args
  def optNames : OptExpr → List String
    | .none => []
    | .some e => exprNames e
  def exprsNames : Exprs → List String
    | .nil => []
    | .cons e r => exprNames e ++ exprsNames r
  def argsNames : Args → List String
    | .nil => []
    | .pos e r => exprNames e ++ argsNames r
    | .named n e r => n :: exprNames e ++ argsNames r
  def bindsNames : Binds → List String
    | .nil => []
    | .cons n ps e r => n :: optParamsNames ps ++ exprNames e ++ bindsNames r
  def optParamsNames : OptParams → List String
    | .none => []
    | .some ps => paramsNames ps
  def paramsNames : Params → List String
    | .nil => []
    | .cons n d r => n :: optNames d ++ paramsNames r
  def membersNames : Members → List String
    | .nil => []
    | .local_ n ps e r => n :: optParamsNames ps ++ exprNames e ++ membersNames r
    | .assert_ c m r => exprNames c ++ optNames m ++ membersNames r
    | .fieldFix _ _ _ ps e r => optParamsNames ps ++ exprNames e ++ membersNames r
    | .fieldDyn n _ _ ps e r => exprNames n ++ optParamsNames ps ++ exprNames e ++ membersNames r
  def specsNames : Specs → List String
    | .nil => []
    | .for_ v e r => v :: exprNames e ++ specsNames r
    | .if_ c r => exprNames c ++ specsNames r
end

/-- An expression list / argument list / binding list / member list with one
    expression hole. -/
inductive ExprsHole : (Expr → Exprs) → Prop
  | here (rest : Exprs) : ExprsHole (fun h => .cons h rest)
  | there (a : Expr) {C : Expr → Exprs} : ExprsHole C → ExprsHole (fun h => .cons a (C h))

inductive ArgsHole : (Expr → Args) → Prop
  | pos (rest : Args) : ArgsHole (fun h => .pos h rest)
  | named (n : String) (rest : Args) : ArgsHole (fun h => .named n h rest)
  | therePos (a : Expr) {C : Expr → Args} : ArgsHole C → ArgsHole (fun h => .pos a (C h))
  | thereNamed (n : String) (a : Expr) {C : Expr → Args} : ArgsHole C → ArgsHole (fun h => .named n a (C h))

inductive BindsHole : (Expr → Binds) → Prop
  | here (n : String) (ps : OptParams) (rest : Binds) : BindsHole (fun h => .cons n ps h rest)
  | there (n : String) (ps : OptParams) (a : Expr) {C : Expr → Binds} : BindsHole C →
      BindsHole (fun h => .cons n ps a (C h))

inductive MembersHole : (Expr → Members) → Prop
  | field (n : String) (plus : Bool) (vis : Vis) (ps : OptParams) (rest : Members) :
      MembersHole (fun h => .fieldFix n plus vis ps h rest)
  | local_ (n : String) (ps : OptParams) (rest : Members) : MembersHole (fun h => .local_ n ps h rest)
  | thereField (n : String) (plus : Bool) (vis : Vis) (ps : OptParams) (a : Expr)
      {C : Expr → Members} : MembersHole C → MembersHole (fun h => .fieldFix n plus vis ps a (C h))
  | thereLocal (n : String) (ps : OptParams) (a : Expr) {C : Expr → Members} : MembersHole C →
      MembersHole (fun h => .local_ n ps a (C h))

/-- One-hole expression contexts: the positions where a subexpression is
    delayed or evaluated (local bindings, arguments, array elements, object
    fields, operands, branches, bodies). -/
inductive Ctx : (Expr → Expr) → Prop
  | hole : Ctx (fun h => h)
  | comp {C D : Expr → Expr} : Ctx C → Ctx D → Ctx (fun h => C (D h))
  | paren : Ctx (fun h => .paren h)
  | array {C : Expr → Exprs} : ExprsHole C → Ctx (fun h => .array (C h))
  | object {C : Expr → Members} : MembersHole C → Ctx (fun h => .object (C h))
  | field (n : String) : Ctx (fun h => .field h n)
  | indexL (i : Expr) : Ctx (fun h => .index h i)
  | indexR (e : Expr) : Ctx (fun h => .index e h)
  | callee (args : Args) (ts : Bool) : Ctx (fun h => .call h args ts)
  | arg (f : Expr) (ts : Bool) {C : Expr → Args} : ArgsHole C → Ctx (fun h => .call f (C h) ts)
  | bind (body : Expr) {C : Expr → Binds} : BindsHole C → Ctx (fun h => .local_ (C h) body)
  | body (bs : Binds) : Ctx (fun h => .local_ bs h)
  | cond (t : Expr) (e : OptExpr) : Ctx (fun h => .if_ h t e)
  | then_ (c : Expr) (e : OptExpr) : Ctx (fun h => .if_ c h e)
  | else_ (c t : Expr) : Ctx (fun h => .if_ c t (.some h))
  | binL (op : BinOp) (b : Expr) : Ctx (fun h => .binary op h b)
  | binR (op : BinOp) (a : Expr) : Ctx (fun h => .binary op a h)
  | unary (op : UnOp) : Ctx (fun h => .unary op h)
  | func (ps : Params) : Ctx (fun h => .func ps h)
  | error_ : Ctx (fun h => .error_ h)
  | builtin (b : Builtin) {C : Expr → Exprs} : ExprsHole C → Ctx (fun h => .builtin b (C h))

/-- The meaning-preserving rewrites of C04 applied to one subexpression `e`
    (`x` is a name occurring nowhere in `e`). -/
inductive Rewrite1 : Expr → Expr → Prop
  /-- `e` ↦ `local x = e; x` -/
  | name (x : String) (e : Expr) : x ∉ exprNames e → Rewrite1 e (.local_ (.cons x .none e .nil) (.var x))
  /-- `e` ↦ `(function(x) x)(e)` -/
  | ident (x : String) (e : Expr) : x ∉ exprNames e →
      Rewrite1 e (.call (.func (.cons x .none .nil) (.var x)) (.pos e .nil) false)
  /-- `e` ↦ `[e][0]` -/
  | array (e : Expr) : Rewrite1 e (.index (.array (.cons e .nil)) (.num 0))
  /-- `e` ↦ `{x: e}.x`, when `e` does not mention `self`, `super`, `$` -/
  | object (x : String) (e : Expr) : "self" ∉ exprNames e → "super" ∉ exprNames e → "$" ∉ exprNames e →
      Rewrite1 e (.field (.object (.fieldFix x false .default .none e .nil)) x)
  /-- `e` ↦ `local x = d; e` (dead binding, `d` arbitrary) -/
  | deadLocal (x : String) (d e : Expr) : x ∉ exprNames e → Rewrite1 e (.local_ (.cons x .none d .nil) e)
  /-- `e` ↦ `(function(x) e)(d)` (dead argument) -/
  | deadArg (x : String) (d e : Expr) : x ∉ exprNames e →
      Rewrite1 e (.call (.func (.cons x .none .nil) e) (.pos d .nil) false)
  /-- `e` ↦ `[e, d][0]` (dead array element) -/
  | deadItem (d e : Expr) : Rewrite1 e (.index (.array (.cons e (.cons d .nil))) (.num 0))
  /-- `e` ↦ `{x: e, y:: d}.x` (dead hidden field) -/
  | deadField (x y : String) (d e : Expr) : x ≠ y →
      "self" ∉ exprNames e → "super" ∉ exprNames e → "$" ∉ exprNames e →
      Rewrite1 e (.field (.object (.fieldFix x false .default .none e
        (.fieldFix y false .hidden .none d .nil))) x)

/-- A rewrite anywhere in a program. -/
inductive Rewrite : Expr → Expr → Prop
  | at {C : Expr → Expr} {e e' : Expr} : Ctx C → Rewrite1 e e' → Rewrite (C e) (C e')

-- Pointer: part of this statement is proved for the evaluator model in RsjProps/C04Rewrite.lean
-- (`C04_eval_rewrite_invariance_partial`: rewrites at the root of a program); that file also records that the
-- statement as worded here is FALSE for the model (a `tailstrict` call is honoured only in tail position).
/-- **C04 at full strength (unproved here).**  For an evaluator of whole
    programs `evalP maxStack fuel e = (result-or-error text, std.trace messages)`
    — to be instantiated with the evaluator model, e.g.
    `fun ms fuel e => let r := Rsj.Eval.evalProgram ⟨ms⟩ fuel e; (r.1, r.2.traces.reverse)` —
    and `limitHit` recognising "out of fuel" and StackOverflow: every rewrite
    leaves value, error message and trace output unchanged, given enough extra
    stack and fuel for the added indirection. -/
def C04_rewrite_invariance_full (evalP : Nat → Nat → Expr → String × List String)
    (limitHit : String → Prop) : Prop :=
  ∀ e e', Rewrite e e' → ∀ ms fuel, ¬ limitHit (evalP ms fuel e).1 →
    ∃ k, ∀ ms' fuel', ms + k ≤ ms' → fuel + k ≤ fuel' → evalP ms' fuel' e' = evalP ms fuel e

end Rsj.C04Prog

open Rsj.Thunk in
#print axioms C04_state_order
open Rsj.Thunk in
#print axioms C04_runs_at_most_once
open Rsj.Thunk in
#print axioms C04_runs_at_most_once_fresh
open Rsj.Thunk in
#print axioms C04_runs_bounded_history
open Rsj.Thunk in
#print axioms C04_runs_at_most_once_history
open Rsj.Thunk in
#print axioms C04_never_forced_never_run
open Rsj.Thunk in
#print axioms C04_unused_irrelevant
open Rsj.Thunk in
#print axioms C04_unused_replaced_by_error
open Rsj.Thunk in
#print axioms C04_unused_irrelevant_force
open Rsj.Thunk in
#print axioms C04_memo_transparent
open Rsj.Thunk in
#print axioms C04_memo_second_use
open Rsj.Thunk in
#print axioms C04_forced_is_memoised
open Rsj.Thunk in
#print axioms C04_request_quiescent
open Rsj.Thunk in
#print axioms C04_fuel_monotone
open Rsj.Thunk in
#print axioms C04_trace_order
open Rsj.Thunk in
#print axioms C04_trace_frame
open Rsj.Thunk in
#print axioms C04_alias_transparent
open Rsj.Thunk in
#print axioms C04_alias_observables
open Rsj.Thunk in
#print axioms C04_alias_start
open Rsj.Thunk in
#print axioms C04_dead_thunk
open Rsj.Thunk in
#print axioms C04_rewrite_invariance_partial
