/-
  C14 — lexing tiles the input and decodes literals exactly.
  Property theorems only (helper lemmas live in RsjProofs/Lexer*.lean, RsjProofs/Utf8*.lean).

  Model: RsjModel/Lexer.lean (`lexAll input flag` = `Lexer::new(input).lex_to_eof(flag)`,
  `nextToken` = `next_token`), RsjModel/Utf8.lean (`decodeCont` = `decode_cont_char`).
-/
import RsjProofs.Lexer
import RsjProofs.LexerNoPanic
import RsjProofs.LexerSuffix
import RsjProofs.Utf8Spec
import RsjProofs.Utf8Lossy
import RsjProofs.LexerStrings
import RsjProofs.LexerQuoted
import RsjProofs.LexerVerbatim
import RsjProofs.LexerNumber
import RsjProofs.LexerTextBlock
import RsjProofs.LexerAcceptStrings
import RsjProofs.LexerAcceptTextBlock
import RsjProofs.LexerAcceptDriver
namespace Rsj.Lexer
open Rsj.Utf8

/-! ## Tiling, the single located error, termination, dropping trivia -/

/-- **C14 lex_tiles.** If lexing with whitespace and comments succeeds, the token
    spans tile the input exactly: there is a first token and it starts at 0,
    adjacent tokens abut, every token but the last is a non-empty non-EOF
    token, and the last token is the end-of-file token at `(|input|, |input|)`. -/
theorem C14_lex_tiles (input : List Nat) (toks : List Token)
    (h : lexAll input true = .ok toks) :
    (∃ t rest, toks = t :: rest ∧ t.start = 0) ∧
    (∀ i (hi : i + 1 < toks.length),
        toks[i].stop = toks[i + 1].start ∧ toks[i].kind ≠ .eof ∧ toks[i].start < toks[i].stop) ∧
    (∀ t, toks.getLast? = some t →
        t.kind = .eof ∧ t.start = input.length ∧ t.stop = input.length) := by
  unfold lexAll at h
  obtain ⟨suf, h1, h2⟩ := lexLoop_true_tiles _ _ _ _ h
  simp only [List.reverse_nil, List.nil_append] at h1
  subst h1
  simp only [Nat.zero_add] at h2
  exact ⟨h2.head, h2.adj, h2.last⟩

/-- **C14 lex_one_error.** A failed lexing is exactly one error (the shape of
    `Outcome.err`), located inside the input: `0 ≤ start ≤ end ≤ |input|`, for
    either value of the flag. -/
theorem C14_lex_one_error (input : List Nat) (flag : Bool) (e : LexErr)
    (h : lexAll input flag = .err e) : e.start ≤ e.stop ∧ e.stop ≤ input.length := by
  unfold lexAll at h
  have := lexLoop_err _ _ _ _ _ h
  simpa using this

/-- **C14 lex_total.** Lexing any byte sequence yields tokens or one error — never a
    panic (`unwrap` in `lex_operator`, `lex_ident`, `decode_cont_char`,
    `lex_text_block`), and the loops terminate: the fuel `|input| + 1`
    always suffices because every token consumes at least one byte. -/
theorem C14_lex_total (input : List Nat) (flag : Bool) :
    (∃ toks, lexAll input flag = .ok toks) ∨ (∃ e, lexAll input flag = .err e) := by
  have h1 : lexAll input flag ≠ .fuel := by
    unfold lexAll; exact lexLoop_no_fuel _ _ _ _ (by simp)
  have h2 : ∀ s, lexAll input flag ≠ .panic s := by
    intro s; unfold lexAll; exact lexLoop_no_panic _ _ _ _ s
  cases h : lexAll input flag with
  | ok toks => exact Or.inl ⟨toks, rfl⟩
  | err e => exact Or.inr ⟨e, rfl⟩
  | panic s => exact absurd h (h2 s)
  | fuel => exact absurd h h1

/-- **C14 drop_trivia.** Lexing without whitespace/comments is lexing with them
    followed by dropping the `Whitespace` and `Comment` tokens; all other tokens
    (kind, payload, span) are unchanged, and an error is the same error. -/
theorem C14_drop_trivia (input : List Nat) :
    lexAll input false = (lexAll input true).dropTrivia := by
  unfold lexAll
  exact lexLoop_drop _ _ []

/-- **C14 tokens_from_next_token.** Every token of a successful `lex_to_eof` is
    exactly what `next_token` returns at the token's own start offset, and the
    lexer resumes at the token's end offset over the same input.  This is what
    makes the per-token theorems below (stated for `nextToken` at an arbitrary
    cursor) apply to every token of every lexed input. -/
theorem C14_tokens_from_next_token (input : List Nat) (flag : Bool) (toks : List Token)
    (h : lexAll input flag = .ok toks) :
    ∀ t ∈ toks, nextToken ⟨t.start, input.drop t.start⟩ = .tok t.kind ⟨t.stop, input.drop t.stop⟩ := by
  unfold lexAll at h
  exact lexLoop_orig input flag _ ⟨0, input⟩ [] toks (by simp) (by intro t ht; cases ht) h

/-! Non-vacuity: concrete inputs with every trivia kind, lexed by kernel evaluation. -/
example : lexAll (bytesOf "x/*c*/ +1") true =
    .ok [⟨.ident (bytesOf "x"), 0, 1⟩, ⟨.comment, 1, 6⟩, ⟨.whitespace, 6, 7⟩,
         ⟨.simple .Plus, 7, 8⟩, ⟨.number [49] 0, 8, 9⟩, ⟨.eof, 9, 9⟩] := by decide +kernel
example : lexAll (bytesOf "1 @") true = .err ⟨.InvalidChar 64, 2, 3⟩ := by decide

/-! ## UTF-8 decoding -/

/-- **C14 decode_matches_spec.** On byte input, the model of `decode_cont_char`
    performs exactly one step of lossy UTF-8 decoding as specified against the
    encoder: if the encoding of a scalar value starts the input, that scalar and
    its length; otherwise U+FFFD for the maximal subpart of the ill-formed
    sequence (`String::from_utf8_lossy`).  `n` counts continuation bytes, so
    `n + 1` bytes are consumed. -/
theorem C14_decode_matches_spec (b0 : Nat) (rest : List Nat) (hb : IsBytes (b0 :: rest)) :
    match decodeCont b0 rest with
    | .chr n c => DecodeStep (b0 :: rest) (n + 1) (some c)
    | .bad n => DecodeStep (b0 :: rest) (n + 1) none
    | .panic => False :=
  decodeCont_spec hb

/-- The specification step is a function of the input, so the theorem above
    characterises `decodeCont` completely. -/
theorem C14_decode_spec_functional {bs : List Nat} {n n' : Nat} {r r' : Option Nat}
    (h : DecodeStep bs n r) (h' : DecodeStep bs n' r') : n = n' ∧ r = r' :=
  h.unique h'

/-- `char::from_u32(cp).unwrap()` in `decode_cont_char` cannot fail, whatever follows the lead byte. -/
theorem C14_decode_never_panics (b0 : Nat) (rest : List Nat) : decodeCont b0 rest ≠ .panic :=
  decodeCont_no_panic b0 rest

/-- Whole-string lossy decoding (`Lossy` = `DecodeStep` repeated to the end) is a
    function, and the model's decoder computes it. -/
theorem C14_lossy_functional {bs out out' : List Nat} (h : Lossy bs out) (h' : Lossy bs out') :
    out = out' := h.unique h'

theorem C14_lossy_model (bs : List Nat) (hb : IsBytes bs) :
    ∃ out, lossyModel bs = some out ∧ Lossy bs out := lossyModel_spec bs hb

/-! Non-vacuity: a three-byte scalar, a truncated one (maximal subpart of two bytes), an overlong lead. -/
example : IsBytes [0xE2, 0x82, 0xAC, 0x41] ∧ decodeCont 0xE2 [0x82, 0xAC, 0x41] = .chr 2 0x20AC :=
  ⟨by intro b hb; simp at hb; omega, by decide⟩
example : decodeCont 0xE2 [0x82, 0x41] = .bad 1 ∧ decodeCont 0xC1 [0x81] = .bad 0 ∧
    decodeCont 0xED [0xA0, 0x80] = .bad 0 ∧ decodeCont 0xF4 [0x90, 0x80, 0x80] = .bad 0 := by decide

/-! ## Strings -/

/-- **C14 string_body_lossy.** A quoted string whose body contains neither the
    delimiter nor a backslash lexes to one `String` token spanning the literal
    whose value is the lossy decoding of the body bytes. -/
theorem C14_string_body_lossy (p delim : Nat) (hd : delim = 34 ∨ delim = 39) (body tail : List Nat)
    (hb : IsBytes body) (hne : ∀ b ∈ body, b ≠ delim ∧ b ≠ 92) :
    ∃ out, Lossy body out ∧
      nextToken ⟨p, delim :: (body ++ delim :: tail)⟩ =
        .tok (.string out) ⟨p + body.length + 2, tail⟩ :=
  nextToken_quoted_plain p delim hd body tail hb hne

/-- **C14 escape_decode.** A quoted string whose body is any sequence of raw byte
    runs (no delimiter, no backslash) and escape sequences — the nine
    single-character escapes, `\uXXXX` for a non-surrogate code unit, and
    `\uHHHH\uLLLL` for a high+low surrogate pair — lexes to the concatenation of
    the lossily decoded runs and the escaped scalars
    (`0x10000 + (H − 0xD800)·0x400 + (L − 0xDC00)` for a pair). -/
theorem C14_escape_decode (p delim : Nat) (hd : delim = 34 ∨ delim = 39) (segs : List Seg)
    (tail : List Nat) (hwf : SegsWF delim segs) :
    ∃ out, SegsValue segs out ∧
      nextToken ⟨p, delim :: (segBytes segs ++ delim :: tail)⟩ =
        .tok (.string out) ⟨p + (segBytes segs).length + 2, tail⟩ :=
  nextToken_quoted p delim hd segs tail hwf

/-- **C14 verbatim_value.** A verbatim string `@'…'` / `@"…"` whose body is any
    sequence of raw byte runs (no delimiter) and doubled delimiters lexes to the
    lossily decoded runs with each doubled delimiter halved. -/
theorem C14_verbatim_value (p delim : Nat) (hd : delim = 34 ∨ delim = 39) (segs : List VSeg)
    (tail : List Nat) (htl : ∀ t', tail ≠ delim :: t') (hwf : VSegsWF delim segs) :
    ∃ out, VSegsValue delim segs out ∧
      nextToken ⟨p, 64 :: delim :: (vsegBytes delim segs ++ delim :: tail)⟩ =
        .tok (.string out) ⟨p + (vsegBytes delim segs).length + 3, tail⟩ :=
  nextToken_verbatim p delim hd segs tail htl hwf

/-- The token-driven direction for strings as first written, WITHOUT a byte
    hypothesis on the cursor: every `String` token the lexer produces spans a
    literal of one of the two well-formed shapes above and carries its value.

    This statement is FALSE for the model (`C14_string_value_full_false`
    below): the model's cursor is a `List Nat`, and on a "byte" ≥ 256 (which no
    real `&[u8]` input contains) `decodeCont` answers U+FFFD, whereas `SegsWF` /
    `VSegsWF` only describe bodies made of bytes (`IsBytes`).  It is kept as a
    `def` for the record; the corrected statement, with the hypothesis
    `IsBytes c.rest` that every real input satisfies, is the theorem
    `C14_string_value` (and `C14_string_value_lexAll` for whole inputs). -/
def C14_string_value_full : Prop :=
  ∀ (c c' : Cur) (out : List Nat), nextToken c = .tok (.string out) c' →
    (∃ delim segs, (delim = 34 ∨ delim = 39) ∧ SegsWF delim segs ∧ SegsValue segs out ∧
        c.rest.take (c'.pos - c.pos) = delim :: (segBytes segs ++ [delim])) ∨
    (∃ delim segs, (delim = 34 ∨ delim = 39) ∧ VSegsWF delim segs ∧ VSegsValue delim segs out ∧
        c.rest.take (c'.pos - c.pos) = 64 :: delim :: (vsegBytes delim segs ++ [delim]))

/-- **C14 string_value.** The token-driven direction for strings (same conclusion
    as `C14_string_value_full`, verbatim) on byte input: every `String` token
    `next_token` returns spans either a quoted literal `delim body delim` whose
    body is a sequence of raw byte runs and escape sequences of the accepted
    forms (`SegsWF`: the nine single-character escapes, `\uXXXX` of a
    non-surrogate, a high+low surrogate pair — so the scanners REJECT every
    other body), or a verbatim literal `@ delim body delim` (`VSegsWF`: raw runs
    and doubled delimiters), and the token's payload is the value of that body
    (`SegsValue` / `VSegsValue`: runs lossily decoded, escapes replaced by
    their scalar, doubled delimiters halved).  Proved by inversion of the
    scanner loops (`quotedLoop_inv`, `lexEscape_inv`, `verbatimLoop_inv`). -/
theorem C14_string_value (c c' : Cur) (out : List Nat) (hb : IsBytes c.rest)
    (h : nextToken c = .tok (.string out) c') :
    (∃ delim segs, (delim = 34 ∨ delim = 39) ∧ SegsWF delim segs ∧ SegsValue segs out ∧
        c.rest.take (c'.pos - c.pos) = delim :: (segBytes segs ++ [delim])) ∨
    (∃ delim segs, (delim = 34 ∨ delim = 39) ∧ VSegsWF delim segs ∧ VSegsValue delim segs out ∧
        c.rest.take (c'.pos - c.pos) = 64 :: delim :: (vsegBytes delim segs ++ [delim])) :=
  nextToken_string_value hb h

/-- The same for the tokens of a whole byte input: each `String` token of
    `lex_to_eof` carries the value of the input slice it spans, which is a
    well-formed quoted or verbatim literal. -/
theorem C14_string_value_lexAll (input : List Nat) (flag : Bool) (toks : List Token)
    (hb : IsBytes input) (h : lexAll input flag = .ok toks) (t : Token) (ht : t ∈ toks)
    (out : List Nat) (hk : t.kind = .string out) :
    (∃ delim segs, (delim = 34 ∨ delim = 39) ∧ SegsWF delim segs ∧ SegsValue segs out ∧
        (input.drop t.start).take (t.stop - t.start) = delim :: (segBytes segs ++ [delim])) ∨
    (∃ delim segs, (delim = 34 ∨ delim = 39) ∧ VSegsWF delim segs ∧ VSegsValue delim segs out ∧
        (input.drop t.start).take (t.stop - t.start) = 64 :: delim :: (vsegBytes delim segs ++ [delim])) := by
  have ho := C14_tokens_from_next_token input flag toks h t ht
  rw [hk] at ho
  exact C14_string_value _ _ out (IsBytes.drop hb _) ho

/-- The statement without the byte hypothesis is false: the model lexes
    `" 300 "` (300 is not a byte) to the one-character string U+FFFD, and no
    well-formed body contains the source "byte" 300. -/
theorem C14_string_value_full_false : ¬ C14_string_value_full := by
  intro hfull
  exact string_token_nonbyte.2 (hfull ⟨0, [34, 300, 34]⟩ ⟨3, []⟩ [0xFFFD] string_token_nonbyte.1)

/-! Non-vacuity of `C14_string_value`: a byte cursor at a quoted literal with an escape. -/
example : IsBytes (Cur.mk 5 (bytesOf "'a\\n' x")).rest ∧
    nextToken ⟨5, bytesOf "'a\\n' x"⟩ = .tok (.string [97, 10]) ⟨10, bytesOf " x"⟩ :=
  ⟨by unfold IsBytes; decide, by decide⟩

/-! Non-vacuity: `'aé😀' x` with a raw run, a BMP escape and a surrogate pair. -/
example : ∃ segs, SegsWF 39 segs ∧ SegsValue segs [97, 0xE9, 0x1F600] ∧
    segBytes segs = bytesOf "a\\u00e9\\ud83d\\ude00" := by
  refine ⟨[.raw [97], .esc (bytesOf "u00e9") 0xE9, .esc (bytesOf "ud83d\\ude00") 0x1F600], ?_, ?_, by decide⟩
  · refine ⟨by intro b hb; simp at hb; omega, by intro b hb; simp at hb; omega, trivial, ?_, ?_, trivial⟩
    · exact Or.inr (Or.inl ⟨bytesOf "00e9", by decide,
        ⟨48, 48, 101, 57, 0, 0, 14, 9, by decide, by decide, by decide, by decide, by decide, by decide⟩,
        by omega⟩)
    · exact Or.inr (Or.inr ⟨bytesOf "d83d", bytesOf "de00", 0xD83D, 0xDE00, by decide,
        ⟨100, 56, 51, 100, 13, 8, 3, 13, by decide, by decide, by decide, by decide, by decide, by decide⟩,
        ⟨100, 101, 48, 48, 13, 14, 0, 0, by decide, by decide, by decide, by decide, by decide, by decide⟩,
        by omega, by omega, by decide⟩)
  · have h1 : Lossy [97] [97] := by
      have := decodeCont_spec (b0 := 97) (rest := []) (by intro b hb; simp at hb; omega)
      exact Lossy.step (r := some 97) (by simp) this Lossy.nil
    exact SegsValue.raw h1 (SegsValue.esc (SegsValue.esc SegsValue.nil))
example : lexAll (bytesOf "'a\\u00e9\\ud83d\\ude00' @\"x\"\"\"") false =
    .ok [⟨.string [97, 0xE9, 0x1F600], 0, 21⟩, ⟨.string [120, 34], 22, 28⟩, ⟨.eof, 28, 28⟩] := by
  decide +kernel

/-- The byte hypothesis of `C14_string_value` / `C14_textblock_strip` holds for
    every input of the correspondence check: what the driver op `lex` decodes
    from its hex argument and hands to `lexAll` is a list of bytes (as is every
    `&[u8]` the real lexer sees). -/
theorem C14_driver_input_is_bytes (s : String) (input : List Nat)
    (h : Rsj.hexDecode s = some input) : IsBytes input :=
  hexDecode_isBytes h

example : Rsj.hexDecode "27c3a927" = some [0x27, 0xC3, 0xA9, 0x27] := by decide

/-! ## Numbers -/

/-- **C14 number_value.** Every number token `next_token` returns carries exactly
    the value of the literal text it spans: `digits` are the integer digits
    followed by the fractional digits (underscores removed), `exp` is the
    written exponent minus the number of fractional digits, and therefore
    `digits × 10^exp` equals the rational number the text denotes
    (`(int + 0.frac) × 10^(±exponent)`). -/
theorem C14_number_value (c c' : Cur) (digits : List Nat) (exp : Int)
    (h : nextToken c = .tok (.number digits exp) c') :
    digits = (litParts (c.rest.take (c'.pos - c.pos))).ip ++ (litParts (c.rest.take (c'.pos - c.pos))).fp ∧
    exp = (litParts (c.rest.take (c'.pos - c.pos))).exp ∧
    numValue digits exp = litValue (c.rest.take (c'.pos - c.pos)) := by
  obtain ⟨h1, h2⟩ := nextToken_number_parts h
  refine ⟨h1, h2, ?_⟩
  rw [h1, h2]
  exact LitParts.value_eq _

/-- The same for the tokens of a whole input: each number token of
    `lex_to_eof` denotes the value of the input slice it spans. -/
theorem C14_number_value_lexAll (input : List Nat) (flag : Bool) (toks : List Token)
    (h : lexAll input flag = .ok toks) (t : Token) (ht : t ∈ toks) (digits : List Nat) (exp : Int)
    (hk : t.kind = .number digits exp) :
    numValue digits exp = litValue ((input.drop t.start).take (t.stop - t.start)) := by
  have ho := C14_tokens_from_next_token input flag toks h t ht
  rw [hk] at ho
  exact (C14_number_value _ _ digits exp ho).2.2

/-! Non-vacuity: `1_0.2_5e-1_2` is the token (digits "1025", exp −14). -/
example : nextToken ⟨0, bytesOf "1_0.2_5e-1_2+"⟩ =
    .tok (.number (bytesOf "1025") (-14)) ⟨12, bytesOf "+"⟩ := by decide
example : litParts (bytesOf "1_0.2_5e-1_2") = ⟨bytesOf "10", bytesOf "25", true, bytesOf "12"⟩ := by
  decide

/-! ## Text blocks -/

/-- **C14 textblock_strip (partial).** A text block of the shape
    `|||` [`-`] ws* LF, `k0` fully empty lines, a first line `pfx content LF`
    with a non-empty space/tab prefix, then lines that are empty (`LF`) or
    `pfx content LF`, then a terminator line `ws* |||` that does not begin with
    `pfx`, lexes to one `TextBlock` token whose value is the `k0` newlines
    followed by every line without the prefix, lossily decoded, newline kept;
    `|||-` drops exactly the final newline (`finishTb`).

    This is the constructive direction for LF-only blocks.  The CR LF variants
    as coded (a CR directly after the first prefix, `CR LF` empty lines) and the
    token-driven direction (every accepted block is of a well-formed shape and
    carries its stripped text) are `C14_textblock_strip` below. -/
theorem C14_textblock_strip_partial (p : Nat) (strip : Bool) (ws0 : List Nat) (k0 : Nat)
    (pfx c1 : List Nat) (L : List TbLine) (tws tail : List Nat)
    (hws0 : ∀ b ∈ ws0, isSpTabCr b = true) (hpne : pfx ≠ []) (hpfx : ∀ b ∈ pfx, isSpTab b = true)
    (hc1 : IsBytes c1) (hc1n : ∀ b ∈ c1, b ≠ 10)
    (hc1h : ∀ y t, c1 = y :: t → isSpTab y = false ∧ y ≠ 13)
    (hL : LinesWF L) (htws : ∀ b ∈ tws, isSpTab b = true)
    (hterm : pfx.isPrefixOf (tws ++ 124 :: 124 :: 124 :: tail) = false) :
    ∃ o1 out, Lossy c1 o1 ∧ LinesValue L out ∧
      nextToken ⟨p, 124 :: 124 :: 124 :: tbSource strip ws0 k0 pfx c1 L tws tail⟩ =
        .tok (.textBlock (finishTb strip (List.replicate k0 10 ++ (o1 ++ 10 :: out))))
          ⟨p + 3 + ((tbSource strip ws0 k0 pfx c1 L tws tail).length - tail.length), tail⟩ :=
  nextToken_textBlock p strip ws0 k0 pfx c1 L tws tail hws0 hpne hpfx hc1 hc1n hc1h hL htws hterm

/-- The token-driven statement for text blocks as first written, WITHOUT a byte
    hypothesis on the cursor: every `TextBlock` token is the stripped, lossily
    decoded text of the lines it spans, including the CR LF forms. Lines are
    split at LF; a line consisting of an optional CR only counts as empty.

    This statement is FALSE for the model (`C14_textblock_strip_full_false`
    below), for the same reason as `C14_string_value_full`: on a cursor
    holding a "byte" ≥ 256 (no real `&[u8]` does) the model's `decodeCont`
    masks it (`384 &&& 192 = 128` looks like a continuation byte), whereas the
    specification `Lossy` is stated against the encoder, whose output is bytes.
    It is kept as a `def` for the record; the corrected statement, with the
    hypothesis `IsBytes c.rest`, is the theorem `C14_textblock_strip`. -/
def C14_textblock_strip_full : Prop :=
  ∀ (c c' : Cur) (out : List Nat), nextToken c = .tok (.textBlock out) c' →
    ∃ (strip : Bool) (hdr pfx : List Nat) (lines : List (List Nat)) (term : List Nat),
      c.rest.take (c'.pos - c.pos) =
        124 :: 124 :: 124 :: ((if strip then [45] else []) ++ hdr ++ 10 ::
          (lines.flatMap (fun l => l ++ [10]) ++ term ++ [124, 124, 124])) ∧
      (∀ b ∈ hdr, isSpTabCr b = true) ∧ (∀ b ∈ term, isSpTab b = true) ∧
      pfx ≠ [] ∧ (∀ b ∈ pfx, isSpTab b = true) ∧
      (∀ l ∈ lines, 10 ∉ l ∧ (l = [] ∨ l = [13] ∨ pfx <+: l)) ∧
      ∃ full, Lossy (lines.flatMap (fun l => (if pfx <+: l then l.drop pfx.length else l) ++ [10])) full ∧
        out = finishTb strip full

/-- **C14 textblock_strip.** The token-driven direction for text blocks (same
    conclusion as `C14_textblock_strip_full`, verbatim) on byte input: every
    `TextBlock` token `next_token` returns spans
    `|||` [`-`] `hdr` LF `line LF`* `term` `|||` with `hdr` spaces/tabs/CRs,
    `term` spaces/tabs, and every line (split at LF) either empty (`""` or a
    lone CR, i.e. a CR LF empty line) or starting with one fixed non-empty
    space/tab prefix `pfx` — so `lex_text_block` REJECTS everything else — and
    the token's text is the lossy decoding of the lines with `pfx` removed, LF
    kept (a CR before the LF, or directly after the prefix, is kept as
    written), minus exactly the final LF for `|||-` (`finishTb`).  Proved by
    inversion of the three loops of `lex_text_block` (`tbFirst_inv`,
    `tbEmptyLines_inv`, `tbLoop_inv`). -/
theorem C14_textblock_strip (c c' : Cur) (out : List Nat) (hb : IsBytes c.rest)
    (h : nextToken c = .tok (.textBlock out) c') :
    ∃ (strip : Bool) (hdr pfx : List Nat) (lines : List (List Nat)) (term : List Nat),
      c.rest.take (c'.pos - c.pos) =
        124 :: 124 :: 124 :: ((if strip then [45] else []) ++ hdr ++ 10 ::
          (lines.flatMap (fun l => l ++ [10]) ++ term ++ [124, 124, 124])) ∧
      (∀ b ∈ hdr, isSpTabCr b = true) ∧ (∀ b ∈ term, isSpTab b = true) ∧
      pfx ≠ [] ∧ (∀ b ∈ pfx, isSpTab b = true) ∧
      (∀ l ∈ lines, 10 ∉ l ∧ (l = [] ∨ l = [13] ∨ pfx <+: l)) ∧
      ∃ full, Lossy (lines.flatMap (fun l => (if pfx <+: l then l.drop pfx.length else l) ++ [10])) full ∧
        out = finishTb strip full :=
  nextToken_textBlock_value hb h

/-- The same for the tokens of a whole byte input: each `TextBlock` token of
    `lex_to_eof` is the stripped, lossily decoded text of the input slice it spans. -/
theorem C14_textblock_strip_lexAll (input : List Nat) (flag : Bool) (toks : List Token)
    (hb : IsBytes input) (h : lexAll input flag = .ok toks) (t : Token) (ht : t ∈ toks)
    (out : List Nat) (hk : t.kind = .textBlock out) :
    ∃ (strip : Bool) (hdr pfx : List Nat) (lines : List (List Nat)) (term : List Nat),
      (input.drop t.start).take (t.stop - t.start) =
        124 :: 124 :: 124 :: ((if strip then [45] else []) ++ hdr ++ 10 ::
          (lines.flatMap (fun l => l ++ [10]) ++ term ++ [124, 124, 124])) ∧
      (∀ b ∈ hdr, isSpTabCr b = true) ∧ (∀ b ∈ term, isSpTab b = true) ∧
      pfx ≠ [] ∧ (∀ b ∈ pfx, isSpTab b = true) ∧
      (∀ l ∈ lines, 10 ∉ l ∧ (l = [] ∨ l = [13] ∨ pfx <+: l)) ∧
      ∃ full, Lossy (lines.flatMap (fun l => (if pfx <+: l then l.drop pfx.length else l) ++ [10])) full ∧
        out = finishTb strip full := by
  have ho := C14_tokens_from_next_token input flag toks h t ht
  rw [hk] at ho
  exact C14_textblock_strip _ _ out (IsBytes.drop hb _) ho

/-- The statement without the byte hypothesis is false: the model lexes
    `||| LF SP 0xC2 384 LF |||` (384 is not a byte) to the text `U+0080 LF`,
    but no lossy decoding of a list without the byte `0x80` contains U+0080. -/
theorem C14_textblock_strip_full_false : ¬ C14_textblock_strip_full := by
  intro hfull
  exact textblock_token_nonbyte.2
    (hfull ⟨0, [124, 124, 124, 10, 32, 0xC2, 384, 10, 124, 124, 124]⟩ ⟨11, []⟩ [128, 10]
      textblock_token_nonbyte.1)

/-! Non-vacuity of `C14_textblock_strip`: a byte cursor at a CR LF text block (CR LF
    after `|||`, a CR LF empty line before and after the first text line, a CR
    directly after the first prefix); every CR is kept. -/
example : IsBytes (Cur.mk 7 (bytesOf "|||\r\n\r\n  \ra\r\n\r\n  b\r\n |||;")).rest ∧
    nextToken ⟨7, bytesOf "|||\r\n\r\n  \ra\r\n\r\n  b\r\n |||;"⟩ =
      .tok (.textBlock (bytesOf "\r\n\ra\r\n\r\nb\r\n")) ⟨31, bytesOf ";"⟩ :=
  ⟨by unfold IsBytes; decide, by decide +kernel⟩

/-! Non-vacuity: `|||-`, an empty first line, tab prefix, an empty line in the middle. -/
example : nextToken ⟨0, bytesOf "|||- \n\n\ta\n\n\t b\n |||;"⟩ =
    .tok (.textBlock (bytesOf "\na\n\n b")) ⟨19, bytesOf ";"⟩ := by decide +kernel
example : bytesOf "|||- \n\n\ta\n\n\t b\n |||;" =
    124 :: 124 :: 124 :: tbSource true [32] 1 [9] [97] [.blank, .text [32, 98]] [32] [59] := by decide

end Rsj.Lexer

open Rsj.Lexer in
#print axioms C14_lex_tiles
open Rsj.Lexer in
#print axioms C14_lex_one_error
open Rsj.Lexer in
#print axioms C14_lex_total
open Rsj.Lexer in
#print axioms C14_drop_trivia
open Rsj.Lexer in
#print axioms C14_tokens_from_next_token
open Rsj.Lexer in
#print axioms C14_number_value_lexAll
open Rsj.Lexer in
#print axioms C14_decode_matches_spec
open Rsj.Lexer in
#print axioms C14_decode_spec_functional
open Rsj.Lexer in
#print axioms C14_decode_never_panics
open Rsj.Lexer in
#print axioms C14_lossy_functional
open Rsj.Lexer in
#print axioms C14_lossy_model
open Rsj.Lexer in
#print axioms C14_string_body_lossy
open Rsj.Lexer in
#print axioms C14_escape_decode
open Rsj.Lexer in
#print axioms C14_verbatim_value
open Rsj.Lexer in
#print axioms C14_number_value
open Rsj.Lexer in
#print axioms C14_string_value
open Rsj.Lexer in
#print axioms C14_string_value_lexAll
open Rsj.Lexer in
#print axioms C14_string_value_full_false
open Rsj.Lexer in
#print axioms C14_driver_input_is_bytes
open Rsj.Lexer in
#print axioms C14_textblock_strip_partial
open Rsj.Lexer in
#print axioms C14_textblock_strip
open Rsj.Lexer in
#print axioms C14_textblock_strip_lexAll
open Rsj.Lexer in
#print axioms C14_textblock_strip_full_false
