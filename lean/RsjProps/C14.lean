/-
  C14 — lexing tiles the input and decodes literals exactly.
  Property theorems only (helper lemmas live in RsjProofs/Lexer*.lean, RsjProofs/Utf8*.lean).
-/
import RsjProofs.Lexer
namespace Rsj.Lexer

/-- **C14 lex_tiles.** If lexing with whitespace and comments succeeds, the token
    spans tile the input exactly: there is a first token and it starts at 0,
    adjacent tokens abut, every token but the last is a non-empty non-EOF
    token, and the last token is the end-of-file token at `(|input|, |input|)`. -/
theorem C14_lex_tiles (input : List Nat) (toks : List Token)
    (h : lexAll input true = .ok toks) :
    (∃ t rest, toks = t :: rest ∧ t.start = 0) ∧
    (∀ i (hi : i + 1 < toks.length),
        toks[i].stop = toks[i + 1].start ∧ toks[i].kind ≠ .eof ∧ toks[i].start < toks[i].stop) ∧
    (∀ t, toks.getLast? = some t →
        t.kind = .eof ∧ t.start = input.length ∧ t.stop = input.length) := by
  unfold lexAll at h
  obtain ⟨suf, h1, h2⟩ := lexLoop_true_tiles _ _ _ _ h
  simp only [List.reverse_nil, List.nil_append] at h1
  subst h1
  simp only [Nat.zero_add] at h2
  exact ⟨h2.head, h2.adj, h2.last⟩

/-- **C14 lex_one_error.** The outcome of lexing is a token list or exactly one
    error (by the shape of `Outcome`); the error's span satisfies
    `0 ≤ start ≤ end ≤ |input|`, whichever flag is used. -/
theorem C14_lex_one_error (input : List Nat) (flag : Bool) (e : LexErr)
    (h : lexAll input flag = .err e) : e.start ≤ e.stop ∧ e.stop ≤ input.length := by
  unfold lexAll at h
  have := lexLoop_err _ _ _ _ _ h
  simpa using this

/-- **C14 termination.** The fuel `|input| + 1` given to the token loop always
    suffices: each token consumes at least one byte. -/
theorem C14_lex_terminates (input : List Nat) (flag : Bool) : lexAll input flag ≠ .fuel := by
  unfold lexAll
  exact lexLoop_no_fuel _ _ _ _ (by simp)

/-- **C14 drop_trivia.** Lexing without whitespace/comments is lexing with them
    followed by dropping the `Whitespace` and `Comment` tokens; all other tokens
    (kind, payload, span) are unchanged, and an error is the same error. -/
theorem C14_drop_trivia (input : List Nat) :
    lexAll input false = (lexAll input true).dropTrivia := by
  unfold lexAll
  exact lexLoop_drop _ _ []

/-! Non-vacuity: a concrete input with every trivia kind, lexed by kernel evaluation. -/
example : lexAll (bytesOf "x/*c*/ +1") true =
    .ok [⟨.ident (bytesOf "x"), 0, 1⟩, ⟨.comment, 1, 6⟩, ⟨.whitespace, 6, 7⟩,
         ⟨.simple .Plus, 7, 8⟩, ⟨.number [49] 0, 8, 9⟩, ⟨.eof, 9, 9⟩] := by decide
example : lexAll (bytesOf "1 @") true = .err ⟨.InvalidChar 64, 2, 3⟩ := by decide

end Rsj.Lexer

open Rsj.Lexer in
#print axioms C14_lex_tiles
open Rsj.Lexer in
#print axioms C14_lex_one_error
open Rsj.Lexer in
#print axioms C14_lex_terminates
open Rsj.Lexer in
#print axioms C14_drop_trivia
