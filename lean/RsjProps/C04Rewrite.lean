/-
  C04 on the evaluator model (`RsjModel/Eval.lean`): meaning-preserving rewrites of PROGRAMS.
  The full statement is `Rsj.C04Prog.C04_rewrite_invariance_full` (RsjProps/C04.lean, unproved there).
  This file
    * proves the part of it listed in `Covered` (`C04_eval_rewrite_invariance_partial`),
    * proves that more fuel and a larger stack limit never change an outcome (`C04_eval_limits_monotone`),
    * records that the full statement AS WORDED is false for the model and for the implementation:
      `tailstrict` is honoured only for calls in tail position (`analyze.rs`, `can_be_tailstrict`), so naming a
      tail call with a local changes its strictness (witness below).

  Method: the fundamental lemma of RsjProofs/EvalEmb*.lean (the evaluator is invariant under store
  embeddings) in the comparison modes `Mode.c04s c`: the rewritten program may have more fuel, a larger
  stack limit, runs `c` trace items deeper, its store has an extra environment frame for the new
  variable and bookkeeping thunks that the original program does not have.  The administrative steps of
  the rewritten program are computed by unfolding the evaluator (RsjProofs/EvalEmbRewrite*.lean).
-/
import RsjProps.C04
import RsjProofs.EvalEmbRewrite5
namespace Rsj.C04Prog
open Rsj.Core Rsj.Eval

/-- the evaluator of whole programs in the form `C04_rewrite_invariance_full` expects:
    answer text (`ok <value>` / error kind and detail / `gas`) and the `std.trace` messages -/
abbrev evalModel (ms fuel : Nat) (e : Expr) : String × List String := evalP ms fuel e

/-- the outcomes about which C04 claims nothing: out of fuel, StackOverflow — and the panic
    "variable not found" (C09: impossible for a program that passed the static checks) -/
def limitHit (s : String) : Prop :=
  s = "gas" ∨ s = showErr .stackOverflow ∨ s = showErr (.internal "variable not found")

/-- **The rewrites covered**, all at the ROOT of the program (context `Ctx.hole`):
    * `deadLocal`: `e ↦ local x = d; e` for every `d`, `e` and `x ≠ "std"`;
    * `name`: `e ↦ local x = e; x` for `x ≠ "std"` and an `e` that is not a (parenthesised) literal or
      function (`NotQuick`: for those the model creates the thunk already evaluated, and for number
      literals its two finiteness tests are opaque `Float` predicates that Lean cannot relate);
    * `ident`: `e ↦ (function(x) x)(e)` for every `x` and `NotQuick e`;
    * `deadArg`: `e ↦ (function(x) e)(d)` for every `d`, `x ≠ "std"` and an `e` whose evaluation does not
      depend on the tail flag (`TailInsens e`: no `tailstrict` call in tail position of `e` — on the right
      `e` is a function body, hence in tail position; see `C04_rewrite_invariance_full_false`).
    * `array`: `e ↦ [e][0]` and `deadItem`: `e ↦ [e, d][0]` (`d` arbitrary) for `NotQuick e`, under the
      hypothesis `FloatZeroFacts` (RsjProofs/EvalEmbRewrite4.lean): `(0 : Float).isNaN = false`,
      `(0 : Float).isInf = false`, `toIndex 0 = some 0` — closed computations on the opaque type `Float`
      that the kernel cannot evaluate; the executable model computes exactly these values (`#eval`).
    NOT covered: `object`, `deadField` (the new object changes `$` for the objects created inside `e`), and
    every rewrite below the root. -/
inductive Covered : Expr → Expr → Prop
  | deadLocal (x : String) (d e : Expr) : x ≠ "std" → Covered e (.local_ (.cons x .none d .nil) e)
  | name (x : String) (e : Expr) : x ≠ "std" → NotQuick e → Covered e (.local_ (.cons x .none e .nil) (.var x))
  | ident (x : String) (e : Expr) : NotQuick e →
      Covered e (.call (.func (.cons x .none .nil) (.var x)) (.pos e .nil) false)
  | deadArg (x : String) (d e : Expr) : x ≠ "std" → TailInsens e →
      Covered e (.call (.func (.cons x .none .nil) e) (.pos d .nil) false)
  | array (e : Expr) : FloatZeroFacts → NotQuick e → Covered e (.index (.array (.cons e .nil)) (.num 0))
  | deadItem (d e : Expr) : FloatZeroFacts → NotQuick e →
      Covered e (.index (.array (.cons e (.cons d .nil))) (.num 0))

/-- every covered pair is a rewrite of `C04_rewrite_invariance_full` when the new name is fresh -/
theorem Covered.rewrite {e e' : Expr} (h : Covered e e') (hfresh : ∀ x, x ∉ exprNames e) : Rewrite e e' := by
  cases h with
  | deadLocal x d e _ => exact .at (C := fun h => h) .hole (.deadLocal x d e (hfresh x))
  | name x e _ _ => exact .at (C := fun h => h) .hole (.name x e (hfresh x))
  | ident x e _ => exact .at (C := fun h => h) .hole (.ident x e (hfresh x))
  | deadArg x d e _ _ => exact .at (C := fun h => h) .hole (.deadArg x d e (hfresh x))
  | array e _ _ => exact .at (C := fun h => h) .hole (.array e)
  | deadItem d e _ _ => exact .at (C := fun h => h) .hole (.deadItem d e)

/-- **C04 rewrite invariance — the part proved for the evaluator model**: `C04_rewrite_invariance_full`
    with `Rewrite` replaced by `Covered`.  Value, error (kind and detail) and `std.trace` output of the
    rewritten program are those of the original one, given `k` more fuel and stack (`k ≤ 3`). -/
theorem C04_eval_rewrite_invariance_partial :
    ∀ e e', Covered e e' → ∀ ms fuel, ¬ limitHit (evalModel ms fuel e).1 →
      ∃ k, ∀ ms' fuel', ms + k ≤ ms' → fuel + k ≤ fuel' → evalModel ms' fuel' e' = evalModel ms fuel e := by
  intro e e' hc ms fuel h
  have h1 : (evalP ms fuel e).1 ≠ "gas" := fun g => h (.inl g)
  have h2 : (evalP ms fuel e).1 ≠ showErr .stackOverflow := fun g => h (.inr (.inl g))
  have h3 : (evalP ms fuel e).1 ≠ showErr (.internal "variable not found") := fun g => h (.inr (.inr g))
  cases hc with
  | deadLocal x d e hx =>
    exact ⟨1, fun ms' fuel' hm hf => deadLocal_root x d e hx ms fuel h1 h2 h3 ms' fuel' (by omega) hf⟩
  | name x e hx hq =>
    exact ⟨3, fun ms' fuel' hm hf => name_root_notQuick x e hx hq ms fuel h1 h2 h3 ms' fuel' (by omega) hf⟩
  | ident x e hq =>
    exact ⟨3, fun ms' fuel' hm hf => ident_root_notQuick x e hq ms fuel h1 h2 h3 ms' fuel' (by omega) hf⟩
  | deadArg x d e hx hti =>
    exact ⟨1, fun ms' fuel' hm hf => deadArg_root x d e hx hti ms fuel h1 h2 h3 ms' fuel' hm hf⟩
  | array e hF hq =>
    exact ⟨2, fun ms' fuel' hm hf => array_root_notQuick hF e hq ms fuel h1 h2 h3 ms' fuel' (by omega) hf⟩
  | deadItem d e hF hq =>
    exact ⟨2, fun ms' fuel' hm hf => deadItem_root_notQuick hF d e hq ms fuel h1 h2 h3 ms' fuel' (by omega) hf⟩

/-- **Both limits are monotone**: an outcome other than `limitHit` is the outcome for every larger fuel
    and every larger stack limit (so the `∃ k` of the statements above can always be increased). -/
theorem C04_eval_limits_monotone (e : Expr) (ms fuel : Nat) (h : ¬ limitHit (evalModel ms fuel e).1) :
    ∀ ms' fuel', ms ≤ ms' → fuel ≤ fuel' → evalModel ms' fuel' e = evalModel ms fuel e :=
  limits_monotone e ms fuel (fun g => h (.inl g)) (fun g => h (.inr (.inl g))) (fun g => h (.inr (.inr g)))

/-- Non-vacuity: `local y = error "boom"; "fine"` — the dead binding is never evaluated;
    `local y = !true; y`. -/
example : Covered (.str "fine") (.local_ (.cons "y" .none (.error_ (.str "boom")) .nil) (.str "fine")) :=
  .deadLocal "y" _ _ (by decide)
example : Covered (.unary .lnot .true_) (.local_ (.cons "y" .none (.unary .lnot .true_) .nil) (.var "y")) :=
  .name "y" _ (by decide) ⟨fun _ _ h => (by cases h), rfl⟩

/-! ### The statement as worded is false: `tailstrict`

  `local g(a) = "fine"; local f() = g(error "boom") tailstrict; f()` fails with `ExplicitError boom`
  (the call is in tail position of `f`, so its argument is forced); after the `name` rewrite of the body of
  `f`, `local g(a) = "fine"; local f() = (local y = g(error "boom") tailstrict; y); f()`, the call is no
  longer in tail position, the flag is ignored and the program returns `"fine"`:
  `#eval (evalProgram ⟨10⟩ 20 p1).1  -- "err eval ExplicitError 626f6f6d"`,
  `#eval (evalProgram ⟨10⟩ 20 p2).1  -- "ok s66696e65"`  (the implementation agrees, `analyze.rs`).
  So `C04_rewrite_invariance_full` needs the hypothesis that no call in tail position is `tailstrict`. -/

def tsCall : Expr := .call (.var "g") (.pos (.error_ (.str "boom")) .nil) true
def tsProg (body : Expr) : Expr :=
  .local_ (.cons "g" (.some (.cons "a" .none .nil)) (.str "fine") .nil)
    (.local_ (.cons "f" (.some .nil) body .nil) (.call (.var "f") .nil false))

/-- the two programs are related by a rewrite of `C04_rewrite_invariance_full` -/
theorem tsRewrite : Rewrite (tsProg tsCall) (tsProg (.local_ (.cons "y" .none tsCall .nil) (.var "y"))) :=
  .at (C := fun h => tsProg h)
    (.comp (C := fun h => .local_ (.cons "g" (.some (.cons "a" .none .nil)) (.str "fine") .nil) h)
      (D := fun h => .local_ (.cons "f" (.some .nil) h .nil) (.call (.var "f") .nil false))
      (.body _) (.bind _ (.here "f" (.some .nil) .nil)))
    (.name "y" tsCall (by decide))

/-- the model evaluates the original program to the error and the rewritten one to `"fine"`
    (closed evaluations, checked by the kernel) -/
theorem tsWitness :
    evalModel 3 8 (tsProg tsCall) = ("err eval ExplicitError 626f6f6d", []) ∧
    evalModel 3 9 (tsProg (.local_ (.cons "y" .none tsCall .nil) (.var "y"))) = ("ok s66696e65", []) :=
  ⟨by decide +kernel, by decide +kernel⟩

/-- **`C04_rewrite_invariance_full` is FALSE for the evaluator model** (and, by the correspondence check,
    for the implementation): whatever outcomes `lh` declares to be "limit hits", as long as the explicit
    error of the witness is not among them, no amount of extra fuel and stack makes the rewritten
    program fail like the original one — it returns `"fine"` for every larger budget
    (`C04_eval_limits_monotone`). -/
theorem C04_rewrite_invariance_full_false (lh : String → Prop) (hlh : ¬ lh "err eval ExplicitError 626f6f6d") :
    ¬ C04_rewrite_invariance_full evalModel lh := by
  intro hfull
  obtain ⟨k, hk⟩ := hfull _ _ tsRewrite 3 8 (by rw [tsWitness.1]; exact hlh)
  have h1 := hk (3 + k) (9 + k) (Nat.le_refl _) (by omega)
  have h2 := C04_eval_limits_monotone (tsProg (.local_ (.cons "y" .none tsCall .nil) (.var "y"))) 3 9
    (by rw [tsWitness.2]; unfold limitHit; decide +kernel) (3 + k) (9 + k) (by omega) (by omega)
  rw [h2, tsWitness.1, tsWitness.2] at h1
  exact absurd h1 (by decide)

end Rsj.C04Prog

open Rsj.C04Prog in
#print axioms C04_eval_rewrite_invariance_partial
open Rsj.C04Prog in
#print axioms C04_eval_limits_monotone
open Rsj.C04Prog in
#print axioms C04_rewrite_invariance_full_false
open Rsj.C04Prog in
#print axioms Covered.rewrite
open Rsj.C04Prog in
#print axioms tsRewrite
open Rsj.C04Prog in
#print axioms tsWitness
