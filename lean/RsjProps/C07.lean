/-
  C07 — object inheritance is associative, `{}` is a two-sided identity, `self`
  is the final object and `super` exactly the layers to the left, visibility
  follows the `:` / `::` / `:::` rules, the field-existence views agree, and
  `std.objectRemoveKey` removes exactly the named field.

  Property theorems only; helper lemmas live in RsjProofs/Object.lean and
  RsjProofs/ObjectEval.lean.  `a + b` is `extend a b`; objects are lists of
  layers, index 0 = top (`self_layer`).  All statements are for arbitrary
  objects (any number of layers, arbitrary `Removed` markers) unless a
  hypothesis says otherwise; `Closed b` ("no marker of `b` reaches below `b`")
  holds for every object the implementation can build (`C07_closed_reachable`).
-/
import RsjProofs.ObjectReads
set_option linter.unusedSimpArgs false
namespace Rsj.Object

/-! ### Reachable objects are closed -/

/-- Every object denoted by an object expression (literal layers, `+`,
    `std.objectRemoveKey`) is `Closed`. -/
theorem C07_closed_reachable (e : OExpr) (h : e.Plain) : Closed e.eval := closed_eval e h

/-! ### Associativity -/

/-- **C07 extend_assoc.** `(a + b) + c` and `a + (b + c)` are the same list of
    layers, hence every observation coincides: lookups from every start layer
    (`self`, `super` at any depth), visibility, field order, the values of all
    fields under any evaluation stack, and the manifestation. -/
theorem C07_extend_assoc (a b c : Obj) :
    extend (extend a b) c = extend a (extend b c) ∧
    (∀ start n, findField (extend (extend a b) c) start n = findField (extend a (extend b c)) start n) ∧
    (∀ n, hasVisibleField (extend (extend a b) c) n = hasVisibleField (extend a (extend b c)) n) ∧
    fieldsOrder (extend (extend a b) c) = fieldsOrder (extend a (extend b c)) ∧
    (∀ fuel stack start n, evalAt (extend (extend a b) c) fuel stack start n =
        evalAt (extend a (extend b c)) fuel stack start n) ∧
    (∀ n, fieldValue (extend (extend a b) c) n = fieldValue (extend a (extend b c)) n) ∧
    manifest (extend (extend a b) c) = manifest (extend a (extend b c)) := by
  have h : extend (extend a b) c = extend a (extend b c) := by
    unfold extend; exact (List.append_assoc c b a).symm
  rw [h]
  exact ⟨rfl, fun _ _ => rfl, fun _ => rfl, rfl, fun _ _ _ _ => rfl, fun _ => rfl, rfl⟩

/-! ### `{}` is a two-sided identity -/

/-- **C07 empty_right_identity.** `a + {}` puts one empty layer on top: every
    layer index shifts by one and nothing else changes. -/
theorem C07_empty_right_identity (a : Obj) :
    fieldsOrder (extend a empty) = fieldsOrder a ∧
    (∀ n, hasVisibleField (extend a empty) n = hasVisibleField a n) ∧
    (∀ n, findField (extend a empty) 0 n = shiftRes 1 (findField a 0 n)) ∧
    (∀ i n, findField (extend a empty) (i + 1) n = shiftRes 1 (findField a i n)) ∧
    (∀ fuel stack i n, evalAt (extend a empty) fuel (stack.map shift1) (i + 1) n = evalAt a fuel stack i n) ∧
    (∀ n, fieldValue (extend a empty) n = fieldValue a n) ∧
    manifest (extend a empty) = manifest a := by
  have hfo : fieldsOrder (extend a empty) = fieldsOrder a :=
    fieldsOrder_congr (names_extend_empty_right a)
      (fun n => by rw [finalVis_eq, finalVis_eq, visList_extend_empty_right])
  have hcons : extend a empty = [] :: a := rfl
  have h0 : ∀ n, ¬ (fun _ : Name => False) n →
      findField (([] : Layer) :: a) 0 n = shiftRes 1 (findField a 0 n) :=
    fun n _ => findField_extend_empty_right_zero a n
  have hs : NoSelfRead (fun _ => False) a := fun _ _ _ _ _ _ _ h => h
  have hev := evalAt_cons [] a (fun _ => False) h0 hs
  have hfv : ∀ n, fieldValue (extend a empty) n = fieldValue a n := by
    intro n
    unfold fieldValue fuelFor
    rw [fieldCount_extend_empty_right, hcons]
    exact hev _ [] 0 0 n (Or.inr ⟨rfl, rfl, fun h => h⟩)
  refine ⟨hfo, ?_, findField_extend_empty_right_zero a, findField_extend_empty_right a, ?_, hfv, ?_⟩
  · intro n; rw [hasVisibleField_eq, hasVisibleField_eq, visList_extend_empty_right]
  · intro fuel stack i n; rw [hcons]; exact hev fuel stack i (i + 1) n (Or.inl rfl)
  · exact manifest_congr (by unfold visibleFields; rw [hfo]) hfv

/-- **C07 empty_left_identity.** `{} + a` puts one empty layer at the bottom:
    no index shifts; every lookup, visibility and *value* is unchanged.  The
    only observable difference is the kind of the error raised by a `super.f`
    in `a`'s bottom layer (`SuperWithoutSuperObject` becomes
    `UnknownObjectField`), hence values are compared through `okOf`. -/
theorem C07_empty_left_identity (a : Obj) :
    fieldsOrder (extend empty a) = fieldsOrder a ∧
    (∀ n, hasVisibleField (extend empty a) n = hasVisibleField a n) ∧
    (∀ i n, findField (extend empty a) i n = findField a i n) ∧
    (∀ fuel stack i n, okOf (evalAt (extend empty a) fuel stack i n) = okOf (evalAt a fuel stack i n)) ∧
    (∀ n, okOf (fieldValue (extend empty a) n) = okOf (fieldValue a n)) ∧
    (manifest (extend empty a)).toOption = (manifest a).toOption := by
  have hfo : fieldsOrder (extend empty a) = fieldsOrder a :=
    fieldsOrder_congr (names_extend_empty_left a)
      (fun n => by rw [finalVis_eq, finalVis_eq, visList_extend_empty_left])
  have hfv : ∀ n, okOf (fieldValue (extend empty a) n) = okOf (fieldValue a n) := by
    intro n
    unfold fieldValue fuelFor
    rw [fieldCount_extend_empty_left]
    exact evalAt_append_empty a _ [] 0 n
  refine ⟨hfo, ?_, findField_extend_empty_left a, evalAt_append_empty a, hfv, ?_⟩
  · intro n; rw [hasVisibleField_eq, hasVisibleField_eq, visList_extend_empty_left]
  · exact manifest_toOption_congr (by unfold visibleFields; rw [hfo]) hfv

/-! ### `self` and `super` -/

/-- **C07 self_is_whole.** A field body `self.f`, in whatever layer `li` of
    whatever object `o` it sits and from wherever (`start`) it was reached,
    evaluates field `f` looked up from layer 0 of the whole final object `o`. -/
theorem C07_self_is_whole (o : Obj) (fuel : Nat) (stack : List (Nat × Name)) (start li : Nat)
    (n f : Name) (v : Vis)
    (hf : findField o start n = some (li, v, false, .selfField f)) (hns : (li, n) ∉ stack) :
    evalAt o (fuel + 1) stack start n = evalAt o fuel ((li, n) :: stack) 0 f := by
  simp [evalAt, hf, hns, evalField, evalBody]

/-- Late binding, concretely: `({a: 1, b: self.a} + {a: 2}).b = 2`, in both
    bracketings with a further `{}`. -/
example :
    let A : Obj := [[("a", .normal .default false (.lit 1)), ("b", .normal .default false (.selfField "a"))]]
    let B : Obj := [[("a", .normal .default false (.lit 2))]]
    fieldValue (extend A B) "b" = .ok 2 ∧ fieldValue A "b" = .ok 1 ∧
    fieldValue (extend (extend A B) empty) "b" = .ok 2 ∧ fieldValue (extend A (extend B empty)) "b" = .ok 2 := by
  exact ⟨rfl, rfl, rfl, rfl⟩

/-- **C07 super_is_left.** A `super` lookup from layer `i` (`find_field(i+1, n)`):
    (1) only ever finds layers of index `> i`;
    (2) is a function of the layers strictly below `i` alone;
    (3) in `a + b` those layers are: the rest of `b` below `i` followed by all of
        `a` when layer `i` belongs to `b`, and only `a`'s own deeper layers when
        it belongs to `a` — exactly the objects to the left;
    (4) `super.f` in a body at layer `li` evaluates precisely that lookup, and
        fails with `SuperWithoutSuperObject` only in the bottom layer. -/
theorem C07_super_is_left (o : Obj) (i : Nat) (n : Name) :
    (∀ li r, findField o (i + 1) n = some (li, r) → i < li) ∧
    findField o (i + 1) n = shiftRes (i + 1) (findField (o.drop (i + 1)) 0 n) ∧
    (∀ a b : Obj, o = extend a b →
        (i < b.length → o.drop (i + 1) = b.drop (i + 1) ++ a) ∧
        (b.length ≤ i → o.drop (i + 1) = a.drop (i + 1 - b.length))) ∧
    (∀ fuel stack start m v f, findField o start m = some (i, v, false, .superField f) → (i, m) ∉ stack →
        evalAt o (fuel + 1) stack start m =
          if i + 1 = o.length then .error .superWithoutSuper
          else evalAt o fuel ((i, m) :: stack) (i + 1) f) := by
  refine ⟨?_, findField_drop o (i + 1) n, ?_, ?_⟩
  · intro li r h; have := (findField_some_bounds h).1; omega
  · intro a b hab
    subst hab
    unfold extend
    constructor
    · intro h; exact List.drop_append_of_le_length (by omega)
    · intro h
      rw [List.drop_append]
      rw [List.drop_of_length_le (by omega)]; simp
  · intro fuel stack start m v f hf hns
    simp [evalAt, hf, hns, evalField, evalBody]

/-- `super` sees exactly the left operand: `({a: 1} + {a: 5, b: super.a, c+: 1} + {a: 7}).b = 1`,
    `'a' in super` is false in the leftmost object, and `c+: 1` without an inherited `c` is `1`. -/
example :
    let A : Obj := [[("a", .normal .default false (.lit 1)), ("d", .normal .default false (.inSuper "a"))]]
    let B : Obj := [[("a", .normal .default false (.lit 5)), ("b", .normal .default false (.superField "a")),
                     ("c", .normal .default true (.lit 1)), ("d", .normal .default true (.inSuper "a"))]]
    let C : Obj := [[("a", .normal .default false (.lit 7))]]
    fieldValue (extend (extend A B) C) "b" = .ok 1 ∧ fieldValue (extend A (extend B C)) "b" = .ok 1 ∧
    fieldValue (extend (extend A B) C) "c" = .ok 1 ∧ fieldValue (extend (extend A B) C) "d" = .ok 1 ∧
    fieldValue (extend (extend A B) C) "a" = .ok 7 := by
  exact ⟨rfl, rfl, rfl, rfl, rfl⟩

/-! ### Visibility -/

/-- **C07 visibility_rules.** The visibility `get_fields_order` assigns to a
    name is: absent if a walk from the top (stepping over the layers hidden by
    `Removed` markers) meets no `Normal` entry; otherwise the first non-default
    visibility met; otherwise default.  Consequently, for `a + b`: a `::` or
    `:::` in `b` wins, a default-visibility field of `b` keeps the visibility
    inherited from `a`, and a name `b` does not mention keeps `a`'s. -/
theorem C07_visibility_rules (o : Obj) (n : Name) :
    finalVis o n = resolve (visList o 0 n) ∧
    (∀ a b : Obj, Closed b → o = extend a b →
        finalVis o n = mergeVis (finalVis a n) (finalVis b n)) := by
  refine ⟨finalVis_eq o n, ?_⟩
  intro a b hb hab
  subst hab
  rw [finalVis_eq, finalVis_eq, finalVis_eq, visList_extend a b hb, resolve_append]

/-- non-vacuity / the three rules on concrete objects -/
example :
    let h : Obj := [[("f", .normal .hidden false (.lit 1))]]
    let d : Obj := [[("f", .normal .default false (.lit 2))]]
    let v : Obj := [[("f", .normal .forceVisible false (.lit 3))]]
    fieldsOrder (extend h d) = [("f", .hidden)] ∧ fieldsOrder (extend d h) = [("f", .hidden)] ∧
    fieldsOrder (extend h v) = [("f", .forceVisible)] ∧ fieldsOrder (extend (extend h v) d) = [("f", .forceVisible)] ∧
    fieldsOrder (extend d d) = [("f", .default)] ∧ Closed d := by
  refine ⟨rfl, rfl, rfl, rfl, rfl, ?_⟩
  exact closed_single (by
    intro n dd; simp only [Layer.get, List.lookup]; split <;> simp)

/-! ### The field-existence views agree -/

/-- **C07 views_agree.** For every object (any layers, any markers):
    `std.objectHas` ⇔ listed by `get_fields_order` with a non-hidden visibility;
    `std.objectHasAll` / `in` ⇔ listed at all; `std.objectFields` / manifestation
    keys are the non-hidden part of the list, and `std.length` counts them.
    (Before the fix of `get_fields_order` the first equivalence failed on
    `std.objectRemoveKey({f:: 2}, 'f') + {f: 1}`; see the `example` below.) -/
theorem C07_views_agree (o : Obj) :
    (∀ n, hasVisibleField o n = true ↔ ∃ v, (n, v) ∈ fieldsOrder o ∧ v ≠ Vis.hidden) ∧
    (∀ n, hasField o 0 n = true ↔ n ∈ (fieldsOrder o).map Prod.fst) ∧
    visibleFields o = ((fieldsOrder o).filter (fun p => p.2 ≠ Vis.hidden)).map Prod.fst ∧
    objLength o = ((fieldsOrder o).filter (fun p => p.2 ≠ Vis.hidden)).length ∧
    (∀ n, n ∈ visibleFields o ↔ hasVisibleField o n = true) := by
  refine ⟨hasVisibleField_iff o, hasField_zero_iff o, visibleFields_eq o, ?_, ?_⟩
  · unfold objLength; rw [visibleFields_eq]; simp
  · intro n
    rw [visibleFields_eq, hasVisibleField_iff]
    simp only [List.mem_map, List.mem_filter, Prod.exists, exists_and_right, exists_eq_right]
    constructor
    · rintro ⟨v, hm, hv⟩; exact ⟨v, hm, by simpa using hv⟩
    · rintro ⟨v, hm, hv⟩; exact ⟨v, hm, by simpa using hv⟩

/-- The witness of the former defect: `std.objectRemoveKey({f:: 2}, 'f') + {f: 1}`.
    The fold now lists `f` as visible (default), in agreement with `objectHas`. -/
example :
    let o : Obj := extend (removeKey [[("f", .normal .hidden false (.lit 2))]] "f")
                          [[("f", .normal .default false (.lit 1))]]
    fieldsOrder o = [("f", .default)] ∧ hasVisibleField o "f" = true ∧ hasField o 0 "f" = true ∧
    visibleFields o = ["f"] ∧ objLength o = 1 ∧ manifest o = .ok [("f", 1)] := by
  exact ⟨rfl, rfl, rfl, rfl, rfl, rfl⟩

/-! ### std.objectRemoveKey -/

/-- **C07 removeKey_exact (existence, visibility, lookups).**
    `std.objectRemoveKey(o, k)` lists exactly the other fields with unchanged
    visibility; `k` is gone from every view; every other lookup is unchanged up
    to the one-layer shift, including every `super` lookup inside `o` (also of
    `k`); and the same holds after further extension on either side: in
    `a + removeKey(o,k)` and `removeKey(o,k) + b` every other name has the
    visibility it has in `a + o` / `o + b`, and `k` has exactly the visibility
    it has in `a` / `b` alone. -/
theorem C07_removeKey_exact (o : Obj) (k : Name) :
    fieldsOrder (removeKey o k) = (fieldsOrder o).filter (fun p => p.1 ≠ k) ∧
    hasField (removeKey o k) 0 k = false ∧ hasVisibleField (removeKey o k) k = false ∧
    (∀ n, n ≠ k → hasVisibleField (removeKey o k) n = hasVisibleField o n) ∧
    (∀ n, n ≠ k → findField (removeKey o k) 0 n = shiftRes 1 (findField o 0 n)) ∧
    (∀ i n, findField (removeKey o k) (i + 1) n = shiftRes 1 (findField o i n)) ∧
    (∀ a n, finalVis (extend a (removeKey o k)) n =
        if n = k then finalVis a k else finalVis (extend a o) n) ∧
    (∀ b n, Closed b → finalVis (extend (removeKey o k) b) n =
        if n = k then finalVis b k else finalVis (extend o b) n) := by
  refine ⟨fieldsOrder_removeKey o k, ?_, ?_, ?_, ?_, fun i n => findField_removeKey_succ o k n i,
    fun a n => finalVis_extend_removeKey_right a o k n,
    fun b n hb => finalVis_extend_removeKey_left o b hb k n⟩
  · unfold hasField; rw [findField_removeKey_zero]; simp
  · rw [hasVisibleField_eq, visList_removeKey]; simp [visOutcome, firstNonDefault]
  · intro n hn; rw [hasVisibleField_eq, hasVisibleField_eq, visList_removeKey]; simp [hn]
  · intro n hn; rw [findField_removeKey_zero]; simp [hn]

/-- Extension on either side, at the level of the listed fields. -/
theorem C07_removeKey_extend_fieldsOrder (o : Obj) (k : Name) :
    (∀ a n v, n ≠ k → ((n, v) ∈ fieldsOrder (extend a (removeKey o k)) ↔ (n, v) ∈ fieldsOrder (extend a o))) ∧
    (∀ a v, (k, v) ∈ fieldsOrder (extend a (removeKey o k)) ↔ (k, v) ∈ fieldsOrder a) ∧
    (∀ b n v, Closed b → n ≠ k →
        ((n, v) ∈ fieldsOrder (extend (removeKey o k) b) ↔ (n, v) ∈ fieldsOrder (extend o b))) ∧
    (∀ b v, Closed b → ((k, v) ∈ fieldsOrder (extend (removeKey o k) b) ↔ (k, v) ∈ fieldsOrder b)) := by
  refine ⟨?_, ?_, ?_, ?_⟩
  · intro a n v hn; simp only [mem_fieldsOrder, finalVis_extend_removeKey_right, hn, if_false]
  · intro a v; simp only [mem_fieldsOrder, finalVis_extend_removeKey_right, if_true]
  · intro b n v hb hn; simp only [mem_fieldsOrder, finalVis_extend_removeKey_left _ _ hb, hn, if_false]
  · intro b v hb; simp only [mem_fieldsOrder, finalVis_extend_removeKey_left _ _ hb, if_true]

/-- **C07 removeKey_exact (values).**  `evalAtG k o …` is the evaluation of a
    field of `o` instrumented to report `none` exactly when some body `self.k`
    is forced on the way (`RsjProofs/ObjectReads.lean`).  Whenever the
    evaluation of field `n ≠ k` of `o` does *not* read `k` through `self` and
    yields `r` (a value or an error), field `n` of `std.objectRemoveKey(o, k)`
    yields the same `r` — from the top, and from any inner layer (`super`
    chains), under any stack and fuel.  Reads of `k` through `super.k`,
    `'k' in super` or `k+:` inside `o` do not count: they are unaffected. -/
theorem C07_removeKey_values (o : Obj) (k : Name) :
    (∀ fuel stack n r, n ≠ k → evalAtG k o fuel stack 0 n = some r →
        evalAt o fuel stack 0 n = r ∧ evalAt (removeKey o k) fuel (stack.map shift1) 0 n = r) ∧
    (∀ fuel stack i n r, evalAtG k o fuel stack i n = some r →
        evalAt o fuel stack i n = r ∧ evalAt (removeKey o k) fuel (stack.map shift1) (i + 1) n = r) ∧
    (∀ n r, n ≠ k → evalAtG k o (fuelFor o) [] 0 n = some r → r ≠ .error .fuel →
        fieldValue o n = r ∧ fieldValue (removeKey o k) n = r) := by
  have h0 : ∀ n, n ≠ k →
      findField ([(k, Field.removed o.length)] :: o) 0 n = shiftRes 1 (findField o 0 n) := by
    intro n hn
    have := findField_removeKey_zero o k n
    unfold removeKey at this
    rw [this]; simp only [hn, if_false]
  have hs := evalAtG_sound [(k, Field.removed o.length)] o k h0
  refine ⟨?_, ?_, ?_⟩
  · intro fuel stack n r hn h
    exact ⟨(hs fuel stack 0 n r h).1, (hs fuel stack 0 n r h).2 0 (Or.inr ⟨rfl, rfl, hn⟩)⟩
  · intro fuel stack i n r h
    exact ⟨(hs fuel stack i n r h).1, (hs fuel stack i n r h).2 (i + 1) (Or.inl rfl)⟩
  · intro n r hn h hfuel
    have h1 := (hs (fuelFor o) [] 0 n r h).1
    have h2 := (hs (fuelFor o) [] 0 n r h).2 0 (Or.inr ⟨rfl, rfl, hn⟩)
    simp only [List.map_nil] at h2
    refine ⟨h1, ?_⟩
    unfold fieldValue
    have hle : fuelFor o ≤ fuelFor (removeKey o k) := by
      unfold fuelFor; rw [fieldCount_removeKey]; omega
    have := evalAt_mono_le (removeKey o k) (fuelFor o) (fuelFor (removeKey o k)) hle [] 0 n
      (by unfold removeKey; rw [h2]; exact hfuel)
    rw [this]; exact h2

/-- non-vacuity of the dynamic reading condition: `x: self.k` exists in `o`,
    but field `n: self.a` does not force it — its value survives the removal,
    while `x` itself now fails. -/
example :
    let o : Obj := [[("k", .normal .default false (.lit 4)), ("a", .normal .hidden false (.lit 1)),
                     ("x", .normal .default false (.selfField "k")), ("n", .normal .default true (.selfField "a"))]]
    evalAtG "k" o (fuelFor o) [] 0 "n" = some (.ok 1) ∧ evalAtG "k" o (fuelFor o) [] 0 "x" = none ∧
    fieldValue (removeKey o "k") "n" = .ok 1 ∧ fieldValue o "x" = .ok 4 ∧
    fieldValue (removeKey o "k") "x" = .error (.unknownField "k") := by
  exact ⟨rfl, rfl, rfl, rfl, rfl⟩

/-- Lookups from the top after further extension on either side.  In
    `a + removeKey(o,k)` every other name is found where `a + o` finds it (one
    layer further down) and `k` is found only in `a`; in `removeKey(o,k) + b`
    (`b` closed) `b`'s own fields are found first, then — for names other than
    `k` — `o`'s, one layer further down than in `o + b`. -/
theorem C07_removeKey_extend_lookup (o : Obj) (k : Name) :
    (∀ a n, findField (extend a (removeKey o k)) 0 n =
        if n = k then shiftRes (o.length + 1) (findField a 0 k)
        else shiftRes 1 (findField (extend a o) 0 n)) ∧
    (∀ b n, Closed b →
        findField (extend (removeKey o k) b) 0 n =
          (findField b 0 n).orElse (fun _ =>
            if n = k then none else shiftRes (b.length + 1) (findField o 0 n)) ∧
        findField (extend o b) 0 n =
          (findField b 0 n).orElse (fun _ => shiftRes b.length (findField o 0 n))) := by
  constructor
  · intro a n
    have hcons : extend a (removeKey o k) = [(k, Field.removed o.length)] :: extend a o := rfl
    rw [hcons]
    unfold findField
    simp only [List.drop_zero, findFrom, get_single]
    by_cases h : n = k
    · subst h
      simp only [if_true]
      unfold extend
      rw [findFrom_append, findFrom_skip_all o _ _ _ (Nat.le_refl _),
        residual_skip_all _ _ _ (Nat.le_refl _)]
      simp only [Nat.sub_self, Option.orElse_none]
      have := findFrom_shift a 0 0 (1 + o.length) n
      simp only [Nat.zero_add] at this
      rw [this, Nat.add_comm]
    · simp only [h, if_false]
      exact findFrom_shift _ 0 0 1 n
  · intro b n hb
    refine ⟨?_, findField_extend_zero o b hb n⟩
    rw [findField_extend_zero _ b hb n, findField_removeKey_zero]
    by_cases h : n = k
    · simp [h, shiftRes]
    · simp only [h, if_false, shiftRes_shiftRes]
      rw [Nat.add_comm]

/-- Values after extension on the left-operand side: a field of `a + o` whose
    evaluation does not read `k` through `self` has the same value in
    `a + removeKey(o, k)`. -/
theorem C07_removeKey_values_extend (a o : Obj) (k : Name) :
    ∀ fuel stack n r, n ≠ k → evalAtG k (extend a o) fuel stack 0 n = some r →
      evalAt (extend a o) fuel stack 0 n = r ∧
      evalAt (extend a (removeKey o k)) fuel (stack.map shift1) 0 n = r := by
  have hcons : extend a (removeKey o k) = [(k, Field.removed o.length)] :: extend a o := rfl
  have h0 : ∀ n, n ≠ k →
      findField ([(k, Field.removed o.length)] :: extend a o) 0 n = shiftRes 1 (findField (extend a o) 0 n) := by
    intro n hn
    unfold findField
    simp only [List.drop_zero, findFrom, get_single, hn, if_false]
    exact findFrom_shift _ 0 0 1 n
  intro fuel stack n r hn h
  have hs := evalAtG_sound [(k, Field.removed o.length)] (extend a o) k h0 fuel stack 0 n r h
  rw [hcons]
  exact ⟨hs.1, hs.2 0 (Or.inr ⟨rfl, rfl, hn⟩)⟩

/-- **C07 removeKey_exact (values), static corollary.**  If no field body of
    `o` is `self.k` at all, every evaluation inside `o` — from any layer, under
    any stack, with any fuel — and the value of every other field of
    `std.objectRemoveKey(o, k)` are intact; `super.k`, `'k' in super` and `k+:`
    inside `o` keep working. -/
theorem C07_removeKey_values_static (o : Obj) (k : Name) (hs : NoSelfRead (fun f => f = k) o) :
    (∀ fuel stack i n, evalAt (removeKey o k) fuel (stack.map shift1) (i + 1) n = evalAt o fuel stack i n) ∧
    (∀ fuel stack n, n ≠ k → evalAt (removeKey o k) fuel (stack.map shift1) 0 n = evalAt o fuel stack 0 n) ∧
    (∀ n, n ≠ k → fieldValue o n ≠ .error .fuel → fieldValue (removeKey o k) n = fieldValue o n) := by
  have h0 : ∀ n, ¬ (fun f => f = k) n →
      findField ([(k, Field.removed o.length)] :: o) 0 n = shiftRes 1 (findField o 0 n) := by
    intro n hn
    have := findField_removeKey_zero o k n
    unfold removeKey at this
    rw [this]; simp only [show ¬ n = k from hn, if_false]
  have hev := evalAt_cons [(k, Field.removed o.length)] o (fun f => f = k) h0 hs
  refine ⟨fun fuel stack i n => hev fuel stack i (i + 1) n (Or.inl rfl),
    fun fuel stack n hn => hev fuel stack 0 0 n (Or.inr ⟨rfl, rfl, hn⟩), ?_⟩
  intro n hn hfuel
  unfold fieldValue fuelFor at hfuel ⊢
  rw [fieldCount_removeKey]
  have h1 := hev (fieldCount o + 1 + 2) [] 0 0 n (Or.inr ⟨rfl, rfl, hn⟩)
  simp only [List.map_nil] at h1
  unfold removeKey
  rw [h1]
  exact evalAt_mono_le o (fieldCount o + 2) (fieldCount o + 1 + 2) (by omega) [] 0 n hfuel

/-- non-vacuity: an object with `super.k`, `k+:` and `'k' in super` bodies (but no `self.k`) -/
example :
    let o : Obj := extend [[("k", .normal .hidden false (.lit 4)), ("a", .normal .default false (.lit 1))]]
                          [[("k", .normal .default true (.lit 1)), ("b", .normal .default false (.superField "k")),
                            ("c", .normal .default false (.inSuper "k"))]]
    fieldsOrder (removeKey o "k") = [("a", .default), ("b", .default), ("c", .default)] ∧
    fieldValue (removeKey o "k") "b" = .ok 4 ∧ fieldValue (removeKey o "k") "c" = .ok 1 ∧
    fieldValue o "k" = .ok 5 ∧ fieldValue (removeKey o "k") "k" = .error (.unknownField "k") ∧
    NoSelfRead (fun f => f = "k") o := by
  refine ⟨rfl, rfl, rfl, rfl, rfl, ?_⟩
  apply noSelfRead_of_syntactic
  intro l hl n v p f hg
  simp only [extend, List.cons_append, List.nil_append, List.mem_cons, List.not_mem_nil, or_false] at hl
  rcases hl with rfl | rfl <;>
    (simp only [Layer.get, List.lookup] at hg; repeat (split at hg <;> try simp at hg))

/-- A key that occurs nowhere in `o` (the implementation's "not interned"
    shortcut returns `o` itself): removing it changes no listed field. -/
theorem C07_removeKey_absent (o : Obj) (k : Name) (h : finalVis o k = none) :
    fieldsOrder (removeKey o k) = fieldsOrder o := by
  rw [fieldsOrder_removeKey]
  apply List.filter_eq_self.mpr
  intro p hp
  have := (mem_fieldsOrder o p.1 p.2).mp hp
  simp only [ne_eq, decide_eq_true_eq]
  intro hk; rw [hk, h] at this; cases this

end Rsj.Object

open Rsj.Object in
#print axioms C07_closed_reachable
open Rsj.Object in
#print axioms C07_extend_assoc
open Rsj.Object in
#print axioms C07_empty_right_identity
open Rsj.Object in
#print axioms C07_empty_left_identity
open Rsj.Object in
#print axioms C07_self_is_whole
open Rsj.Object in
#print axioms C07_super_is_left
open Rsj.Object in
#print axioms C07_visibility_rules
open Rsj.Object in
#print axioms C07_views_agree
open Rsj.Object in
#print axioms C07_removeKey_exact
open Rsj.Object in
#print axioms C07_removeKey_extend_fieldsOrder
open Rsj.Object in
#print axioms C07_removeKey_values
open Rsj.Object in
#print axioms C07_removeKey_values_static
open Rsj.Object in
#print axioms C07_removeKey_extend_lookup
open Rsj.Object in
#print axioms C07_removeKey_values_extend
open Rsj.Object in
#print axioms C07_removeKey_absent
