/-
  C15 — parsing honours precedence and is stable under print / re-parse.
  Property theorems only (helper lemmas live in RsjProofs/Parser*.lean).
-/
import RsjModel.Parser
import RsjProofs.ParserSpans3
import RsjProofs.ParserRun10
import RsjProofs.ParserSlice
import RsjProofs.ParserRun24
import RsjProofs.ParserNoFault3
namespace Rsj.Parser

/-! ## The precedence table

`RsjModel/PrecedenceTable.lean` is regenerated from `parse_expr` on every run of the check;
the model's machine runs on it.  The theorem pins it to the Jsonnet table. -/

/-- Kinds visited from `init_state()` by `next_state` until `State::Unary`. -/
def chainFrom : Nat → BinKind → List BinKind
  | 0, _ => []
  | fuel + 1, k =>
    match k.nextState with
    | none => [k]
    | some k' => k :: chainFrom fuel k'

def precedenceChain : List BinKind := chainFrom BinKind.all.length initKind

/-- The Jsonnet operator table, loosest level first (written by hand from the language
    specification): `||`, `&&`, `|`, `^`, `&`, `== !=`, `< <= > >= in`, `<< >>`, `+ -`, `* / %`. -/
def jsonnetTable : List (List (STok × BinaryOp)) := [
  [(.PipePipe, .LogicOr)],
  [(.AmpAmp, .LogicAnd)],
  [(.Pipe, .BitwiseOr)],
  [(.Hat, .BitwiseXor)],
  [(.Amp, .BitwiseAnd)],
  [(.EqEq, .Eq), (.ExclamEq, .Ne)],
  [(.Lt, .Lt), (.LtEq, .Le), (.Gt, .Gt), (.GtEq, .Ge), (.In, .In)],
  [(.LtLt, .Shl), (.GtGt, .Shr)],
  [(.Plus, .Add), (.Minus, .Sub)],
  [(.Asterisk, .Mul), (.Slash, .Div), (.Percent, .Rem)]]

/-- Same set of (token, operator) pairs. -/
def sameLevel (a b : List (STok × BinaryOp)) : Bool :=
  a.all (b.contains ·) && b.all (a.contains ·)

def sameTable : List (List (STok × BinaryOp)) → List (List (STok × BinaryOp)) → Bool
  | [], [] => true
  | a :: as, b :: bs => sameLevel a b && sameTable as bs
  | _, _ => false

/-- Every (kind, token, operator) triple of the extracted table. -/
def allOps : List (BinKind × STok × BinaryOp) :=
  BinKind.all.flatMap (fun k => k.ops.map (fun p => (k, p.1, p.2)))

/-- **C15 precedence_table.** The chain of levels the parser walks (`init_state`, then
    `next_state` until `Unary`) visits every `BinOpKind` exactly once; level by level it tries
    exactly the operators of the Jsonnet table (`||` loosest … `* / %` tightest); each step of
    `next_state` binds exactly one level tighter and the last level is directly below the unary
    operators; every operator of `ast::BinaryOp` is produced by exactly one token at exactly
    one level (no token and no operator occurs twice in the table); `e in super` lives on the
    level of `in`; the unary operators are `+ - ~ !`. -/
theorem C15_precedence_table :
    sameTable (precedenceChain.map BinKind.ops) jsonnetTable = true
    ∧ precedenceChain.Nodup ∧ (∀ k : BinKind, k ∈ precedenceChain)
    ∧ (∀ k k' : BinKind, k.nextState = some k' → k'.prec = k.prec + 1)
    ∧ (∀ k : BinKind, k.nextState = none → k.prec + 1 = unaryPrec)
    ∧ initKind.prec = 0
    ∧ (allOps.map (·.2.1)).Nodup ∧ (allOps.map (·.2.2)).Nodup
    ∧ (∀ op : BinaryOp, op ∈ allOps.map (·.2.2))
    ∧ (∀ op : BinaryOp, ∃ k t, op.info = some (k, t) ∧ (t, op) ∈ k.ops)
    ∧ (STok.In, BinaryOp.In) ∈ inSuperKind.ops ∧ inSuperHead = STok.Super
    ∧ unaryOps = [(.Plus, .Plus), (.Minus, .Minus), (.Tilde, .BitwiseNot), (.Exclam, .LogicNot)] := by
  refine ⟨by decide, by decide, ?_, ?_, ?_, by decide, by decide, by decide, ?_, ?_,
    by decide, by decide, by decide⟩
  · intro k; cases k <;> decide
  · intro k k'; cases k <;> cases k' <;> decide
  · intro k; cases k <;> decide
  · intro op; cases op <;> decide
  · intro op; cases op <;> exact ⟨_, _, rfl, by decide⟩

/-! ## Spans

`Expr.WF toks lo hi e` (`RsjProofs/ParserWF.lean`) says, for the node `e` and recursively for
every node, identifier, parameter list, assertion and field name below it:
* its span is not inverted, lies inside `[lo, hi]` — for a child, `lo hi` is the span of the
  closest enclosing expression node — starts at the start offset of a token of the input and
  ends at the end offset of a token of the input (`SpanOK`);
* if the form begins (ends) with a subexpression, its span starts (ends) exactly where that
  subexpression starts (ends): e.g. `Binary(l, op, r)` spans `l.start .. r.end`, `Call(f, ..)`
  starts at `f.start`, `Local(.., body)` ends at `body.end`;
so every node starts at its first token and ends at its last one. -/

/-- **C15 spans_nested.** For a token list with lexer-ordered spans, a successful parse yields a
    tree in which every node's span starts at (the start of) its first token, ends at (the end
    of) its last token and lies inside its parent's span; the root spans from the first token to
    the last token before end-of-file.  In particular no `make_surrounding_span` assertion
    (`start ≤ end`) can fire. -/
theorem C15_spans_nested {toks : List Token} {e : Expr}
    (hord : spansOrdered toks = true) (h : parse toks = .ok e) :
    e.WF toks e.span.start e.span.stop ∧
    (∃ t0 rest, toks = t0 :: rest ∧ e.span.start = t0.span.start) ∧
    (∃ body tl eof, toks = body ++ [tl, eof] ∧ eof.kind = .eof ∧ e.span.stop = tl.span.stop) :=
  parse_ok_spans (ord_of_spansOrdered toks hord) h

/-- What `WF` gives for one node: a direct subexpression lies inside its parent (here for the
    operands of a binary operator; the other forms are the clauses of `Expr.WF`). -/
theorem C15_spans_binary_inside {toks : List Token} {l r : Expr} {op : BinaryOp} {sp : Span} {lo hi : Nat}
    (h : (Expr.binary l op r sp).WF toks lo hi) :
    sp.start = l.span.start ∧ l.span.start ≤ l.span.stop ∧ l.span.stop ≤ sp.stop ∧
    sp.start ≤ r.span.start ∧ r.span.start ≤ r.span.stop ∧ r.span.stop = sp.stop := by
  obtain ⟨_, hl, hr, h1, h2⟩ := h
  have a := hl.spanOK
  have b := hr.spanOK
  unfold SpanOK at a b
  omega

/-- `tk k a b`: token of kind `k` with span `a..b` -/
def tk (k : TokKind) (a b : Nat) : Token := ⟨k, ⟨a, b⟩⟩

/-- non-vacuity: `a + b * c` parses (with the multiplication grouped first) and has ordered spans -/
example : spansOrdered [tk (.ident "61") 0 1, tk (.simple .Plus) 2 3, tk (.ident "62") 4 5,
      tk (.simple .Asterisk) 6 7, tk (.ident "63") 8 9, tk .eof 9 9] = true ∧
    parse [tk (.ident "61") 0 1, tk (.simple .Plus) 2 3, tk (.ident "62") 4 5,
      tk (.simple .Asterisk) 6 7, tk (.ident "63") 8 9, tk .eof 9 9] =
    .ok (.binary (.ident ⟨"61", ⟨0, 1⟩⟩ ⟨0, 1⟩) .Add
      (.binary (.ident ⟨"62", ⟨4, 5⟩⟩ ⟨4, 5⟩) .Mul (.ident ⟨"63", ⟨8, 9⟩⟩ ⟨8, 9⟩) ⟨4, 9⟩) ⟨0, 9⟩) :=
  ⟨by decide, by rfl⟩

/-! ## Syntax errors -/

/-- **C15 error_points_at_token.** A `ParseError::Expected` carries the span of a token of the
    input (possibly the end-of-file token) and names that token's kind as the actual token. -/
theorem C15_error_points_at_token {toks : List Token} {sp : Span} {ex : List Expected} {act : Actual}
    (h : parse toks = .expected sp ex act) :
    ∃ t ∈ toks, t.span = sp ∧ Actual.ofKind t.kind = act := by
  unfold parse parseWithFuel at h
  split at h
  · cases h
  · next t r =>
    dsimp only at h
    split at h
    · cases h
    · next st _ =>
      cases h
      exact ⟨st.cur, st.cur_mem, rfl, rfl⟩
    · cases h

/-- non-vacuity: `a +` fails at the end-of-file token, an expression was expected -/
example : parse [tk (.ident "61") 0 1, tk (.simple .Plus) 2 3, tk .eof 3 3] =
    .expected ⟨3, 3⟩ [.expr] .eof := by rfl

/-! ## Print / re-parse

`printMin` prints with the parentheses the grammar needs, `printFull` parenthesises every
subexpression (`RsjModel/Printer.lean`); `Expr.erase` forgets spans and `Paren` nodes.  Token
spans play no role: the statements hold for *every* token list with the printed kinds. -/

/-- **Full statement** (proved below: `C15_print_parse`). Every tree the parser can produce, printed
    with minimal parentheses, parses back to the same tree. -/
def C15_print_parse_full : Prop :=
  ∀ (toks0 : List Token) (e : Expr), parse toks0 = .ok e →
    ∀ toks : List Token, toks.map (·.kind) = printMin e ++ [.eof] →
      ∃ e', parse toks = .ok e' ∧ e'.erase = e.erase

/-- **Full statement** (proved below: `C15_print_full_parse`). … and so does its fully
    parenthesised form: a text means the same as its fully parenthesised form. -/
def C15_print_full_parse_full : Prop :=
  ∀ (toks0 : List Token) (e : Expr), parse toks0 = .ok e →
    ∀ toks : List Token, toks.map (·.kind) = printFull e ++ [.eof] →
      ∃ e', parse toks = .ok e' ∧ e'.erase = e.erase

/-- **C15 print_parse (operator fragment).** Proved for every tree built from atoms (`null`,
    `true`, `false`, `self`, `$`, strings, text blocks, numbers, identifiers), parentheses, the
    4 unary and 19 binary operators, field access `e.f`, indexing `e[i]`, calls `f(a, n = b)` with
    positional and named arguments and `tailstrict`, `e in super`, `super.f` and `super[i]`
    (`Frag`), nested arbitrarily: the minimal printing parses back to the tree.
    Not in `Frag`: the other postfix forms (slices, object extension), the prefix forms that extend
    to the right (`local`, `if`, `function`, `assert`, `import*`, `error`), arrays, objects and
    comprehensions — these are covered by the second fragment `Frag2` (`C15_print_parse_partial2`)
    and by the full statement `C15_print_parse` below. -/
theorem C15_print_parse_partial {e : Expr} (h : Frag e) (toks : List Token)
    (hk : toks.map (·.kind) = printMin e ++ [.eof]) :
    ∃ e', parse toks = .ok e' ∧ e'.erase = e.erase :=
  parse_printMin_frag h toks hk

/-- **C15 print_full_parse (operator fragment).** The fully parenthesised printing parses back to
    the same tree: a text and its fully parenthesised form mean the same. -/
theorem C15_print_full_parse_partial {e : Expr} (h : Frag e) (toks : List Token)
    (hk : toks.map (·.kind) = printFull e ++ [.eof]) :
    ∃ e', parse toks = .ok e' ∧ e'.erase = e.erase := by
  rw [printFull_eq h] at hk
  obtain ⟨e', h1, h2⟩ := parse_printMin_frag (fullParen_frag h) toks hk
  exact ⟨e', h1, by rw [h2, fullParen_erase h]⟩

/-- minimal and full printing of a fragment tree parse to the same tree -/
theorem C15_full_parens_same_tree {e : Expr} (h : Frag e) (toks1 toks2 : List Token)
    (h1 : toks1.map (·.kind) = printMin e ++ [.eof]) (h2 : toks2.map (·.kind) = printFull e ++ [.eof]) :
    ∃ e1 e2, parse toks1 = .ok e1 ∧ parse toks2 = .ok e2 ∧ e1.erase = e2.erase := by
  obtain ⟨e1, p1, q1⟩ := C15_print_parse_partial h toks1 h1
  obtain ⟨e2, p2, q2⟩ := C15_print_full_parse_partial h toks2 h2
  exact ⟨e1, e2, p1, p2, by rw [q1, q2]⟩


/-! ## Print / re-parse: all syntactic forms

`Frag2 e` (`RsjProofs/ParserRun19.lean`): every node of `e` is well-formed in the sense of `NodeWF` —
`local` has at least one bind, a bind without parameter list has no parameters (`params: None` of
the Rust AST is `hasParams = false`, `params = []`), a comprehension begins with a `for`.  There is
**no restriction on the syntactic forms**: atoms, parentheses, the 4 unary and 19 binary
operators, `e in super`, `super.f`, `super[i]`, field access, indexing, slices `e[a:b:c]` in every
colon layout the printer emits (`:` / `::`, optional operands), calls with positional and named
arguments and `tailstrict`, object extension `e { … }`, object literals (fields with identifier,
string and computed names, `:` `::` `:::` `+:` `+::` `+:::`, methods `f(p, q = d): …`, object
locals with and without parameters, asserts with and without message), object comprehensions
`{ local a = …, [k]: v, local b = … for x in xs if c }`, arrays, array comprehensions, and the
prefix forms that extend to the right — `local`, `if/then[/else]`, `function`, `assert`,
`import`, `importstr`, `importbin`, `error` — which `printMin` parenthesises exactly when
something follows that they would swallow (left operand of a binary operator, base of a postfix
form, operand of `in super`, `then`-branch without `else` directly before an `else`). -/

/-- **C15 print_parse (all forms).** For every tree whose nodes are well-formed (`Frag2`), the
    minimal printing parses back to the tree (up to spans and `Paren` nodes), for *every* token
    list with the printed kinds. -/
theorem C15_print_parse_partial2 {e : Expr} (h : Frag2 e) (toks : List Token)
    (hk : toks.map (·.kind) = printMin e ++ [.eof]) :
    ∃ e', parse toks = .ok e' ∧ e'.erase = e.erase :=
  parse_printMin_frag2 h toks hk

/-- **C15 print_full_parse (all forms).** … and so does the printing with every subexpression
    parenthesised (which uses the `::` slice layouts). -/
theorem C15_print_full_parse_partial2 {e : Expr} (h : Frag2 e) (toks : List Token)
    (hk : toks.map (·.kind) = printFull e ++ [.eof]) :
    ∃ e', parse toks = .ok e' ∧ e'.erase = e.erase :=
  parse_printFull_frag2 h toks hk

/-- minimal and full printing of a well-formed tree parse to the same tree -/
theorem C15_full_parens_same_tree2 {e : Expr} (h : Frag2 e) (toks1 toks2 : List Token)
    (h1 : toks1.map (·.kind) = printMin e ++ [.eof]) (h2 : toks2.map (·.kind) = printFull e ++ [.eof]) :
    ∃ e1 e2, parse toks1 = .ok e1 ∧ parse toks2 = .ok e2 ∧ e1.erase = e2.erase := by
  obtain ⟨e1, p1, q1⟩ := C15_print_parse_partial2 h toks1 h1
  obtain ⟨e2, p2, q2⟩ := C15_print_full_parse_partial2 h toks2 h2
  exact ⟨e1, e2, p1, p2, by rw [q1, q2]⟩

/-- the operator fragment is part of the second fragment (so the `_partial` theorems above are
    instances of the `_partial2` ones) -/
theorem C15_frag_sub_frag2 {e : Expr} (h : Frag e) : Frag2 e := h.frag2

/-- **C15 parser_output_well_formed.** Every tree the parser produces is in the second fragment:
    all its nodes are well-formed. -/
theorem C15_parser_output_well_formed {toks : List Token} {e : Expr} (h : parse toks = .ok e) : Frag2 e :=
  parse_ok_frag2 h

/-- **C15 print_parse — the full statement.** Every tree the parser can produce, printed with
    minimal parentheses, parses back to the same tree (up to spans and `Paren` nodes). -/
theorem C15_print_parse : C15_print_parse_full :=
  fun _ _ h toks hk => parse_printMin_frag2 (parse_ok_frag2 h) toks hk

/-- **C15 print_full_parse — the full statement.** Every tree the parser can produce, printed with
    every subexpression parenthesised, parses back to the same tree: a text means the same as its
    fully parenthesised form. -/
theorem C15_print_full_parse : C15_print_full_parse_full :=
  fun _ _ h toks hk => parse_printFull_frag2 (parse_ok_frag2 h) toks hk

/-- token with dummy span -/
def tk0 (k : TokKind) : Token := ⟨k, ⟨0, 0⟩⟩

/-- `local f(a, b = 2) = a + b; if c then [x for x in y if x]
     else o { k: 1, [e]+: 2, local z = 3, assert z : "m", m(p):: p }[1::2]` -/
def exampleToks : List Token :=
  [tk0 (sim .Local), tk0 (.ident "66"), tk0 (sim .LeftParen), tk0 (.ident "61"), tk0 (sim .Comma), tk0 (.ident "62"),
   tk0 (sim .Eq), tk0 (.number "32_0"), tk0 (sim .RightParen), tk0 (sim .Eq), tk0 (.ident "61"), tk0 (sim .Plus),
   tk0 (.ident "62"), tk0 (sim .Semicolon), tk0 (sim .If), tk0 (.ident "63"), tk0 (sim .Then), tk0 (sim .LeftBracket),
   tk0 (.ident "78"), tk0 (sim .For), tk0 (.ident "78"), tk0 (sim .In), tk0 (.ident "79"), tk0 (sim .If),
   tk0 (.ident "78"), tk0 (sim .RightBracket), tk0 (sim .Else), tk0 (.ident "6f"), tk0 (sim .LeftBrace),
   tk0 (.ident "6b"), tk0 (sim .Colon), tk0 (.number "31_0"), tk0 (sim .Comma), tk0 (sim .LeftBracket),
   tk0 (.ident "65"), tk0 (sim .RightBracket), tk0 (sim .PlusColon), tk0 (.number "32_0"), tk0 (sim .Comma),
   tk0 (sim .Local), tk0 (.ident "7a"), tk0 (sim .Eq), tk0 (.number "33_0"), tk0 (sim .Comma), tk0 (sim .Assert),
   tk0 (.ident "7a"), tk0 (sim .Colon), tk0 (.string "6d"), tk0 (sim .Comma), tk0 (.ident "6d"), tk0 (sim .LeftParen),
   tk0 (.ident "70"), tk0 (sim .RightParen), tk0 (sim .ColonColon), tk0 (.ident "70"), tk0 (sim .RightBrace),
   tk0 (sim .LeftBracket), tk0 (.number "31_0"), tk0 (sim .ColonColon), tk0 (.number "32_0"), tk0 (sim .RightBracket),
   tk0 .eof]

/-- non-vacuity of `C15_print_parse` / `C15_print_full_parse` / `C15_parser_output_well_formed` (and of the
    hypothesis `Frag2` of the `_partial2` theorems): a text with `local` (with a function bind), `if`, an
    array comprehension, object extension (plain, computed `+:`, method and hidden fields, object
    local, assert) and a `::` slice parses; its tree is in `Frag2` -/
example : ∃ e, parse exampleToks = .ok e ∧ Frag2 e := by
  refine ⟨_, rfl, ?_⟩
  exact parse_ok_frag2 (toks := exampleToks) rfl

/-- `local x = 1; x` -/
def exampleLocal : Expr :=
  .local_ [.mk ⟨"78", .zero⟩ false [] .zero (.number "31_0" .zero)] (.ident ⟨"78", .zero⟩ .zero) .zero

/-- minimal parenthesisation of a prefix form: as *left* operand of a binary operator it must be
    parenthesised — `(local x = 1; x) + 2` … -/
example : printMin (.binary exampleLocal .Add (.number "32_0" .zero) .zero) =
    [sim .LeftParen, sim .Local, .ident "78", sim .Eq, .number "31_0", sim .Semicolon, .ident "78", sim .RightParen,
      sim .Plus, .number "32_0"] := by
  simp [printMin, pr, sub, parens, exampleLocal, prBinds, prBind]; decide

/-- … as *right* operand it need not be — `2 + local x = 1; x` -/
example : printMin (.binary (.number "32_0" .zero) .Add exampleLocal .zero) =
    [.number "32_0", sim .Plus, sim .Local, .ident "78", sim .Eq, .number "31_0", sim .Semicolon, .ident "78"] := by
  simp [printMin, pr, sub, exampleLocal, prBinds, prBind]; decide

/-- dangling `else`: `if c then (if d then 1) else 2` keeps its parentheses -/
example : printMin (.ite_ (.ident ⟨"63", .zero⟩ .zero)
      (.ite_ (.ident ⟨"64", .zero⟩ .zero) (.number "31_0" .zero) none .zero) (some (.number "32_0" .zero)) .zero) =
    [sim .If, .ident "63", sim .Then, sim .LeftParen, sim .If, .ident "64", sim .Then, .number "31_0",
      sim .RightParen, sim .Else, .number "32_0"] := by
  simp [printMin, pr, sub, parens]

/-- both trees of the two examples above are in `Frag2` (built by hand) -/
example : Frag2 (.binary exampleLocal .Add (.number "32_0" .zero) .zero) ∧
    Frag2 (.binary (.number "32_0" .zero) .Add exampleLocal .zero) := by
  have hl : Frag2 exampleLocal := F2.local_ _ (by simp) (by
    intro b hb
    simp only [List.mem_singleton] at hb
    subst hb
    refine ⟨fun _ => rfl, ?_⟩
    intro x hx
    simp [Bind.exprs, Bind.params, Bind.value, paramsExprs] at hx
    subst hx
    exact F2.leaf trivial rfl rfl) (F2.leaf trivial rfl rfl)
  exact ⟨F2.binary _ _ hl (F2.leaf trivial rfl rfl), F2.binary _ _ (F2.leaf trivial rfl rfl) hl⟩

/-- a tree outside `Frag2` (never produced by the parser): `local` without binds prints as
    `local ; x`, which does not parse -/
example : ¬ Frag2 (.local_ [] (.ident ⟨"78", .zero⟩ .zero) .zero) := by
  intro h
  cases h with
  | mk _ hwf _ _ _ => exact hwf.1 rfl


/-! ## No fault outcome, fuel sufficiency

The parser model has outcomes that are not `ParseError`s (`Fault`): the transcribed panic sites of
the Rust code — `Parser::new` on an empty slice, `rem_tokens.next().unwrap()` in `next_token`,
`assert!(rem_tokens.is_empty())` in `eat_eof`, the `unreachable!()` / `unwrap()` sites of `make_comp`,
`in super` and `parse_arg` — and the model's own fuel bound (`outOfFuel`; `parse` runs with
`50 · tokens + 100`).  None of them is reachable on a token list that ends in its only end-of-file
token (`EofLast`; what the lexer produces: `C15_lexed_tokens_ok` in `RsjProps/C15NoFault.lean`).
Spans play no role. -/

/-- **C15 parse_never_faults.** For every token list that ends in its only end-of-file token,
    `Parser::new(tokens).parse_root_expr()` is a tree or a `ParseError::Expected` — never one of the
    panic sites, and the model's fuel `50 · tokens + 100` always suffices.  (Termination measure of
    the explicit-stack loop: `RsjProofs/ParserNoFault2.lean`, `nf_exprLoop` — every iteration lowers
    the weight of stack + state or consumes a token and raises it by at most 33, so
    `33 + 34 · tokens + 2` iterations suffice at every nesting level; recursive `parse_expr` calls
    happen only after a token was consumed.) -/
theorem C15_parse_never_faults {toks : List Token} (h : EofLast toks) :
    (∃ e, parse toks = .ok e) ∨ (∃ sp ex act, parse toks = .expected sp ex act) :=
  parse_nf h

/-- … in the form "no `Fault`" (every constructor of `Fault`, `outOfFuel` included) -/
theorem C15_parse_no_fault {toks : List Token} (h : EofLast toks) (f : Fault) : parse toks ≠ .fault f :=
  parse_ne_fault h f

/-- `parse_expr` itself: with 50 units of fuel per remaining token it returns a tree or a syntax
    error and consumes at least one token — at any position of a well-formed token list. -/
theorem C15_parse_expr_fuel_suffices {toks : List Token} (h : EofLast toks) (F : Nat) (st : PState toks)
    (hF : 50 * (st.rem.length + 1) ≤ F) :
    (∃ e st', parseExprF F st = .ok (e, st') ∧ st'.rem.length < st.rem.length) ∨
      (∃ s, parseExprF F st = .error (.expected s)) :=
  (nf_parseExprF h F st hF).cases

/-- the hypothesis is necessary: without the end-of-file token `next_token` runs off the end -/
example : parse [tk0 (sim .Null)] = .fault .noNextToken := by rfl
/-- … and an end-of-file token that is not last trips the assertion of `eat_eof` -/
example : parse [tk0 (sim .Null), tk0 .eof, tk0 .eof] = .fault .eofNotLast := by rfl
/-- non-vacuity: the example text above is `EofLast` -/
example : EofLast exampleToks :=
  ⟨exampleToks.dropLast, tk0 .eof, by rfl, rfl, by decide⟩

/-- **C15 binary_left_assoc.** `a op1 b op2 c` (atoms `a b c`, any two of the 19 binary
    operators) groups to the left, `(a op1 b) op2 c`, exactly when `op2` does not bind tighter
    than `op1` — in particular for two operators of the same level — and as `a op1 (b op2 c)`
    otherwise. -/
theorem C15_binary_left_assoc {a b c : Expr} {ta tb tc : TokKind}
    (ha : AtomTok a ta) (hb : AtomTok b tb) (hc : AtomTok c tc) (op1 op2 : BinaryOp) (toks : List Token)
    (hk : toks.map (·.kind) = [ta, sim op1.tok, tb, sim op2.tok, tc, .eof]) :
    ∃ e', parse toks = .ok e' ∧
      e'.erase = (if op2.prec ≤ op1.prec then Expr.binary (.binary a op1 b .zero) op2 c .zero
                  else Expr.binary a op1 (.binary b op2 c .zero) .zero).erase := by
  have fa := atom_frag ha
  have fb := atom_frag hb
  have fc := atom_frag hc
  split
  · next hle =>
    refine parse_printMin_frag (.binary op2 .zero (.binary op1 .zero fa fb) fc) toks ?_
    rw [hk]
    show _ = P _ 0 ++ _
    rw [P_binary_bare (.binary op1 .zero fa fb) op2 .zero (by omega),
      P_binary_bare fa op1 .zero (by omega), atom_P ha, atom_P hb, atom_P hc]
    rfl
  · next hgt =>
    refine parse_printMin_frag (.binary op1 .zero fa (.binary op2 .zero fb fc)) toks ?_
    rw [hk]
    show _ = P _ 0 ++ _
    rw [P_binary_bare fa op1 .zero (by omega), P_binary_bare fb op2 .zero (by omega),
      atom_P ha, atom_P hb, atom_P hc]
    rfl

/-! ## The slice grammar

`SliceLayout` (`RsjProofs/ParserSlice.lean`) enumerates what can stand between `[` and `]` of a
slice: `:` followed by one of `]`, `: ]`, `: e3 ]`, `e2 ]`, `e2 : ]`, `e2 : e3 ]` (6 layouts), or
`:: ]`, `:: e3 ]` (2), each with and without a leading `e1` — 16 layouts over three operands. -/

/-- **C15 slice_layouts.** For every one of the 16 token layouts (second colon optional, `::`
    lexed as one token), `parse_index_expr` builds the `Slice` node with each operand in its own
    position (`e1`, `e2`, `e3` of the layout), `None` elsewhere — whenever `parse_expr` (`pe`)
    parses the operands themselves. -/
theorem C15_slice_layouts {toks : List Token} (pe : PState toks → Except (Err toks) (Expr × PState toks))
    (R : Nat) (lay : SliceLayout) (hok : lay.OK pe R) (lhs : Expr) {st : PState toks}
    {b : TokKind} {ks : List TokKind} (hk : st.kinds = lay.tks ++ sim .RightBracket :: b :: ks)
    (hlen : st.kinds.length ≤ R) :
    ∃ o1 o2 o3 sp st', parseIndexExpr pe lhs st = .ok (.slice lhs o1 o2 o3 sp, st') ∧
      eraseOpt o1 = eraseOpt lay.e1 ∧ eraseOpt o2 = eraseOpt lay.e2 ∧ eraseOpt o3 = eraseOpt lay.e3 ∧
      st'.kinds = b :: ks :=
  parseIndexExpr_slice pe R lay hok lhs hk hlen

/-- the hypothesis of `C15_slice_layouts` holds for the real `parse_expr` and printed fragment
    trees as operands (non-vacuity, for any layout over such operands) -/
theorem C15_slice_operand_ok {toks : List Token} {x : Expr} (hx : Frag x) (R f : Nat) (hf : 50 * R + 10 ≤ f) :
    Operand.OK (toks := toks) (parseExprF f) R ⟨P x 0, x⟩ :=
  Operand.ok_of_frag hx R f hf

example {toks : List Token} (R f : Nat) (hf : 50 * R + 10 ≤ f) :
    (SliceLayout.e1colon ⟨P (.ident ⟨"78", .zero⟩ .zero) 0, .ident ⟨"78", .zero⟩ .zero⟩
      (.exprColon ⟨P (.ident ⟨"79", .zero⟩ .zero) 0, .ident ⟨"79", .zero⟩ .zero⟩
        (.some ⟨P (.ident ⟨"7a", .zero⟩ .zero) 0, .ident ⟨"7a", .zero⟩ .zero⟩))).OK
      (toks := toks) (parseExprF f) R :=
  ⟨Operand.ok_of_frag (.ident _ _) R f hf, Operand.ok_of_frag (.ident _ _) R f hf,
    Operand.ok_of_frag (.ident _ _) R f hf⟩

/-- non-vacuity: `f(a, n = b) tailstrict` is in the fragment -/
example : Frag (.call (.ident ⟨"66", .zero⟩ .zero)
    [.positional (.ident ⟨"61", .zero⟩ .zero), .named ⟨"6e", .zero⟩ (.ident ⟨"62", .zero⟩ .zero)] true .zero) :=
  .call _ _ _ (.ident _ _) (by
    intro a ha
    simp only [List.mem_cons, List.mem_nil_iff, or_false] at ha
    rcases ha with rfl | rfl <;> exact .ident _ _)

/-- non-vacuity: `-a.f[b] * (c + d) in super` is in the fragment; its minimal printing needs
    exactly the one pair of parentheses that is in the tree -/
example : Frag (.inSuper (.binary (.unary .Minus (.index (.field (.ident ⟨"61", .zero⟩ .zero) ⟨"66", .zero⟩ .zero)
      (.ident ⟨"62", .zero⟩ .zero) .zero) .zero) .Mul
      (.paren (.binary (.ident ⟨"63", .zero⟩ .zero) .Add (.ident ⟨"64", .zero⟩ .zero) .zero) .zero) .zero)
      .zero .zero) :=
  .inSuper _ _ (.binary _ _ (.unary _ _ (.index _ (.field _ _ (.ident _ _)) (.ident _ _)))
    (.paren _ (.binary _ _ (.ident _ _) (.ident _ _))))

end Rsj.Parser

open Rsj.Parser in
#print axioms C15_precedence_table
open Rsj.Parser in
#print axioms C15_spans_nested
open Rsj.Parser in
#print axioms C15_spans_binary_inside
open Rsj.Parser in
#print axioms C15_error_points_at_token
open Rsj.Parser in
#print axioms C15_print_parse_partial
open Rsj.Parser in
#print axioms C15_print_full_parse_partial
open Rsj.Parser in
#print axioms C15_full_parens_same_tree
open Rsj.Parser in
#print axioms C15_binary_left_assoc
open Rsj.Parser in
#print axioms C15_slice_layouts
open Rsj.Parser in
#print axioms C15_slice_operand_ok
open Rsj.Parser in
#print axioms C15_print_parse_partial2
open Rsj.Parser in
#print axioms C15_print_full_parse_partial2
open Rsj.Parser in
#print axioms C15_full_parens_same_tree2
open Rsj.Parser in
#print axioms C15_frag_sub_frag2
open Rsj.Parser in
#print axioms C15_parser_output_well_formed
open Rsj.Parser in
#print axioms C15_print_parse
open Rsj.Parser in
#print axioms C15_print_full_parse
open Rsj.Parser in
#print axioms C15_parse_never_faults
open Rsj.Parser in
#print axioms C15_parse_no_fault
open Rsj.Parser in
#print axioms C15_parse_expr_fuel_suffices
