/-
  C15 — parsing honours precedence and is stable under print / re-parse.
  Property theorems only (helper lemmas live in RsjProofs/Parser*.lean).
-/
import RsjModel.Parser
namespace Rsj.Parser

/-! ## The precedence table

`RsjModel/PrecedenceTable.lean` is regenerated from `parse_expr` on every run of the check;
the model's machine runs on it.  The theorem pins it to the Jsonnet table. -/

/-- Kinds visited from `init_state()` by `next_state` until `State::Unary`. -/
def chainFrom : Nat → BinKind → List BinKind
  | 0, _ => []
  | fuel + 1, k =>
    match k.nextState with
    | none => [k]
    | some k' => k :: chainFrom fuel k'

def precedenceChain : List BinKind := chainFrom BinKind.all.length initKind

/-- The Jsonnet operator table, loosest level first (written by hand from the language
    specification): `||`, `&&`, `|`, `^`, `&`, `== !=`, `< <= > >= in`, `<< >>`, `+ -`, `* / %`. -/
def jsonnetTable : List (List (STok × BinaryOp)) := [
  [(.PipePipe, .LogicOr)],
  [(.AmpAmp, .LogicAnd)],
  [(.Pipe, .BitwiseOr)],
  [(.Hat, .BitwiseXor)],
  [(.Amp, .BitwiseAnd)],
  [(.EqEq, .Eq), (.ExclamEq, .Ne)],
  [(.Lt, .Lt), (.LtEq, .Le), (.Gt, .Gt), (.GtEq, .Ge), (.In, .In)],
  [(.LtLt, .Shl), (.GtGt, .Shr)],
  [(.Plus, .Add), (.Minus, .Sub)],
  [(.Asterisk, .Mul), (.Slash, .Div), (.Percent, .Rem)]]

/-- Same set of (token, operator) pairs. -/
def sameLevel (a b : List (STok × BinaryOp)) : Bool :=
  a.all (b.contains ·) && b.all (a.contains ·)

def sameTable : List (List (STok × BinaryOp)) → List (List (STok × BinaryOp)) → Bool
  | [], [] => true
  | a :: as, b :: bs => sameLevel a b && sameTable as bs
  | _, _ => false

/-- Every (kind, token, operator) triple of the extracted table. -/
def allOps : List (BinKind × STok × BinaryOp) :=
  BinKind.all.flatMap (fun k => k.ops.map (fun p => (k, p.1, p.2)))

/-- **C15 precedence_table.** The chain of levels the parser walks (`init_state`, then
    `next_state` until `Unary`) visits every `BinOpKind` exactly once; level by level it tries
    exactly the operators of the Jsonnet table (`||` loosest … `* / %` tightest); each step of
    `next_state` binds exactly one level tighter and the last level is directly below the unary
    operators; every operator of `ast::BinaryOp` is produced by exactly one token at exactly
    one level (no token and no operator occurs twice in the table); `e in super` lives on the
    level of `in`; the unary operators are `+ - ~ !`. -/
theorem C15_precedence_table :
    sameTable (precedenceChain.map BinKind.ops) jsonnetTable = true
    ∧ precedenceChain.Nodup ∧ (∀ k : BinKind, k ∈ precedenceChain)
    ∧ (∀ k k' : BinKind, k.nextState = some k' → k'.prec = k.prec + 1)
    ∧ (∀ k : BinKind, k.nextState = none → k.prec + 1 = unaryPrec)
    ∧ initKind.prec = 0
    ∧ (allOps.map (·.2.1)).Nodup ∧ (allOps.map (·.2.2)).Nodup
    ∧ (∀ op : BinaryOp, op ∈ allOps.map (·.2.2))
    ∧ (∀ op : BinaryOp, ∃ k t, op.info = some (k, t) ∧ (t, op) ∈ k.ops)
    ∧ (STok.In, BinaryOp.In) ∈ inSuperKind.ops ∧ inSuperHead = STok.Super
    ∧ unaryOps = [(.Plus, .Plus), (.Minus, .Minus), (.Tilde, .BitwiseNot), (.Exclam, .LogicNot)] := by
  refine ⟨by decide, by decide, ?_, ?_, ?_, by decide, by decide, by decide, ?_, ?_,
    by decide, by decide, by decide⟩
  · intro k; cases k <;> decide
  · intro k k'; cases k <;> cases k' <;> decide
  · intro k; cases k <;> decide
  · intro op; cases op <;> decide
  · intro op; cases op <;> exact ⟨_, _, rfl, by decide⟩

end Rsj.Parser

open Rsj.Parser in
#print axioms C15_precedence_table
