/-
  C03 — garbage collection is invisible to programs and exact about reachability.

  Property theorems only. The model is `RsjModel/Gc.lean` (`collect` = the three phases of
  `GcContext::gc`, literally, including the `Vec` order); helper lemmas are in
  `RsjProofs/Gc*.lean`. All theorems hold for heaps of ANY size and shape; the only
  hypotheses are the two representation invariants of `GcContext`
    `WF G`    : object identities are pairwise distinct,
    `Clean G` : every `GcBox` has `visits = 0` and `mark = false` between collections,
  which hold initially, are re-established by every collection (`C03_collect_resets`,
  `C03_collect_wf`) and are preserved by every driver operation (`C03_script_valid`).
-/
import RsjProofs.GcInvisible
import RsjModel.GcTraceTable
namespace Rsj.Gc

/-- **C03 collect_exact.** After a collection exactly the objects reachable from handles held
    outside the heap (`GcView`s or `Gc` handles) survive, unchanged.
    "→" is completeness (everything unreachable is reclaimed — also cyclic garbage, since
    `Reach` only starts from outside handles); "←" is safety (nothing reachable is reclaimed). -/
theorem C03_collect_exact {G : Heap} (hG : WF G) (hc : Clean G) (o : Obj) :
    o ∈ collect G ↔ o ∈ G ∧ Reach G o.id :=
  collect_exact hG hc o

/-- Safety half, spelled out: no object the program can still reach is ever reclaimed. -/
theorem C03_collect_safe {G : Heap} (hG : WF G) (hc : Clean G) {o : Obj} (ho : o ∈ G)
    (hr : Reach G o.id) : o ∈ collect G ∧ find (collect G) o.id = some o := by
  have hm := (collect_exact hG hc o).mpr ⟨ho, hr⟩
  exact ⟨hm, find_of_mem (collect_wf hG hc) hm⟩

/-- Completeness half, spelled out: an object that is not reachable from an outside handle
    does not survive, whatever in-heap handles (cycles included) point to it. -/
theorem C03_collect_complete {G : Heap} (hG : WF G) (hc : Clean G) {o : Obj}
    (hr : ¬ Reach G o.id) : o ∉ collect G ∧ o.id ∉ ids (collect G) := by
  refine ⟨fun h => hr ((collect_exact hG hc o).mp h).2, ?_⟩
  intro h
  obtain ⟨o', ho', hid⟩ := mem_ids.mp h
  exact hr (hid ▸ ((collect_exact hG hc o').mp ho').2)

/-- **C03 collect_resets.** Every survivor leaves the collection with `visits = 0` and
    `mark = false` (no hypothesis needed), and identities stay distinct. -/
theorem C03_collect_resets (G : Heap) : ∀ o ∈ collect G, o.visits = 0 ∧ o.mark = false :=
  collect_clean G

theorem C03_collect_wf {G : Heap} (hG : WF G) (hc : Clean G) : WF (collect G) :=
  collect_wf hG hc

/-- **C03 collect_idempotent.** A second collection frees nothing: same survivors, same
    number of objects. -/
theorem C03_collect_idempotent {G : Heap} (hG : WF G) (hc : Clean G) :
    (∀ o, o ∈ collect (collect G) ↔ o ∈ collect G) ∧
    (collect (collect G)).length = (collect G).length :=
  collect_idempotent hG hc

/-- **C03 baseline_returns.** A long-lived state `B` in which everything is live; the program
    then allocates any number of further objects `N`, linked in any way (cycles, handles into
    `B`), and finally drops its results: no outside handle to `N` is left and the objects of `B`
    hold no handle into `N`. A collection then returns exactly to `B` — same objects, same
    object count. -/
theorem C03_baseline_returns {B N : Heap} (hG : WF (B ++ N)) (hc : Clean (B ++ N))
    (hlive : ∀ o ∈ B, Reach B o.id)
    (hdropped : ∀ o ∈ N, ¬ IsRoot o)
    (hnolink : ∀ o ∈ B, ∀ j ∈ o.edges, j ∉ ids N) :
    (∀ o, o ∈ collect (B ++ N) ↔ o ∈ B) ∧ (collect (B ++ N)).length = B.length :=
  baseline_returns hG hc hlive hdropped hnolink

/-- Special case: when nothing is held from outside, the heap becomes empty (`end#0`). -/
theorem C03_drop_all_empties {G : Heap} (hG : WF G) (hc : Clean G)
    (h : ∀ o ∈ G, o.ext = 0 ∧ o.views = 0) : collect G = [] :=
  collect_no_roots hG hc h

/-- The driver (= any client of `GcContext` that allocates, links, unlinks, takes and drops
    handles/views and collects, in any order) only ever produces heaps satisfying the two
    representation invariants, never hits "attempted to access destroyed object", and always
    ends with `end#0`. -/
theorem C03_script_valid (ops : List Op) :
    ∃ out, runScript ops { heap := [], held := [] } [] = some out ∧ out.getLast? = some "end#0" :=
  script_valid ops

/-- **C03 gc_invisible (for clients of the collector).** Take any sequence of client operations
    (allocate with a handle or a view, take/drop handles and views, add/delete in-heap handles)
    and insert collections at ANY positions (after every step, with any period, at random):
    the answers to all client operations — which nodes can be accessed, whether an edge exists,
    the final object count — are exactly those of the run that never collects.
    `runQuiet` = `runScript` without recording the `live[..]` answers of the `gc` operations.
    (The client here is the scripted mutator, which like the evaluator touches heap objects only
    through handles it holds or finds in objects it can access. For the full Jsonnet evaluator
    the same statement — value, error and stack trace independent of the schedule — is not
    proved in Lean; it is validated by the schedule sweep of `checks/c03.py`, part (c).) -/
theorem C03_gc_invisible_script (ops : List Op) :
    runQuiet ops { heap := [], held := [] } [] =
      runScript (ops.filter (fun op => !op.isGc)) { heap := [], held := [] } [] :=
  gc_invisible_script ops

/-- non-vacuity: a script whose collections do reclaim objects (the cycle 1 ⇄ 2) -/
example :
    runQuiet [.alloc, .alloc, .alloc, .edge (some 1) (some 2), .edge (some 2) (some 1), .gc,
              .dropHandle (some 1), .dropHandle (some 2), .gc, .handle (some 1), .edge (some 0) (some 0), .gc]
      { heap := [], held := [] } []
      = some ["n0", "n1", "n2", "ok", "ok", "ok", "ok", "skip", "ok", "end#0"]
    ∧ runScript [.alloc, .alloc, .alloc, .edge (some 1) (some 2), .edge (some 2) (some 1), .gc,
              .dropHandle (some 1), .dropHandle (some 2), .gc]
      { heap := [], held := [] } []
      = some ["n0", "n1", "n2", "ok", "ok", "live[0,1,2]#3", "ok", "ok", "live[0]#1", "end#0"] := by
  decide

/-- **Generated obligation (from `program/data.rs`).** For every struct / enum variant that
    implements `GcTrace`, the fields visited by `trace` (with multiplicity) are exactly the
    fields whose type carries a `Gc<..>` handle — i.e. for the real heap types the `edges` of
    the model are exactly the in-heap handles. -/
theorem C03_trace_covers_handles :
    gcTraceTable.all (fun e => e.handles == e.traced) = true := by decide

/-- The table is not vacuous: it covers the heap types and some of them do carry handles. -/
example : gcTraceTable.length ≥ 20 ∧ (gcTraceTable.filter (fun e => !e.handles.isEmpty)).length ≥ 10 := by
  decide

/-! ### Non-vacuity -/

/- `exampleHeap` (RsjProofs/GcCorollaries.lean): a live 2-cycle 0 ⇄ 1 with one outside handle on 0,
   and a garbage 2-cycle 2 ⇄ 3 with a handle 3 → 0 hanging on it. -/

example : WF exampleHeap ∧ Clean exampleHeap := by
  refine ⟨by unfold WF; decide, ?_⟩
  unfold Clean exampleHeap; decide

/-- the cycle 2 ⇄ 3 is reclaimed although neither object has weak count 0; 0 ⇄ 1 survives -/
example : collect exampleHeap =
    [{ id := 0, edges := [1], views := 0, ext := 1, visits := 0, mark := false },
     { id := 1, edges := [0], views := 0, ext := 0, visits := 0, mark := false }] := by decide

/-- a 2-cycle kept alive by a `GcView` only; dropping the view reclaims it -/
example : (collect [{ id := 0, edges := [1], views := 1, ext := 0, visits := 0, mark := false },
                    { id := 1, edges := [0], views := 0, ext := 0, visits := 0, mark := false }]).length = 2
        ∧ collect [{ id := 0, edges := [1], views := 0, ext := 0, visits := 0, mark := false },
                   { id := 1, edges := [0], views := 0, ext := 0, visits := 0, mark := false }] = [] := by
  decide

/-- `C03_baseline_returns` applies to `B = {0 ⇄ 1}`, `N = {2 ⇄ 3 → 0}`. -/
example : ∃ B N : Heap, B ++ N = exampleHeap ∧ B.length = 2 ∧ N.length = 2 ∧
    (∀ o ∈ B, Reach B o.id) ∧ (∀ o ∈ N, ¬ IsRoot o) ∧ (∀ o ∈ B, ∀ j ∈ o.edges, j ∉ ids N) := by
  refine ⟨exampleHeap.take 2, exampleHeap.drop 2, rfl, rfl, rfl, ?_, ?_, ?_⟩
  · intro o ho
    have h0 : Reach (exampleHeap.take 2) 0 :=
      Reach.root (o := { id := 0, edges := [1], views := 0, ext := 1, visits := 0, mark := false })
        (by decide) (Or.inr (by decide))
    have h1 : Reach (exampleHeap.take 2) 1 :=
      Reach.step (o := { id := 0, edges := [1], views := 0, ext := 1, visits := 0, mark := false })
        (by decide) h0 (by decide) (by decide)
    have : o.id = 0 ∨ o.id = 1 := by
      simp only [exampleHeap, List.take, List.mem_cons, List.mem_nil_iff, or_false] at ho
      rcases ho with rfl | rfl <;> simp
    rcases this with h | h <;> rw [h] <;> assumption
  · unfold IsRoot exampleHeap; decide
  · unfold ids exampleHeap; decide

end Rsj.Gc

open Rsj.Gc in
#print axioms C03_collect_exact
open Rsj.Gc in
#print axioms C03_collect_safe
open Rsj.Gc in
#print axioms C03_collect_complete
open Rsj.Gc in
#print axioms C03_collect_resets
open Rsj.Gc in
#print axioms C03_collect_wf
open Rsj.Gc in
#print axioms C03_collect_idempotent
open Rsj.Gc in
#print axioms C03_baseline_returns
open Rsj.Gc in
#print axioms C03_drop_all_empties
open Rsj.Gc in
#print axioms C03_script_valid
open Rsj.Gc in
#print axioms C03_gc_invisible_script
open Rsj.Gc in
#print axioms C03_trace_covers_handles
