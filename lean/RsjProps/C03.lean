/-
  C03 — garbage collection is invisible to programs and exact about reachability.
  (work in progress: collector theorems are added below)
-/
import RsjModel.Gc
import RsjModel.GcTraceTable
namespace Rsj.Gc

/-- **Generated obligation.** For every struct / enum variant of `program/data.rs` that
    implements `GcTrace`, the fields visited by `trace` (with multiplicity) are exactly the
    fields whose type carries a `Gc<..>` handle. -/
theorem C03_trace_covers_handles :
    gcTraceTable.all (fun e => e.handles == e.traced) = true := by decide

end Rsj.Gc

open Rsj.Gc in
#print axioms C03_trace_covers_handles
