/-
  C11 on the evaluator model (`RsjModel/Eval.lean`) — a request's answer does not depend on unrelated
  history: whatever earlier requests on OTHER thunks left in a long-lived store, a request whose own
  cells are still those of a fresh store answers like the program evaluated from scratch.

  Property theorems only; the proof is the relational fundamental lemma `run_rel`
  (RsjProofs/EvalEmb*.lean), see the header of RsjProps/C03Eval.lean for the vocabulary
  (`Emb`, `Sim ρ ta tb a b`, `RT`).  `freshStore e` is the store `evalProgram` builds for the program
  `e`: the `std` thunk (id 0), the root environment (id 0), the program's pending thunk (id 1).
  (History dependence THROUGH shared, already evaluated thunks — memoisation — is the subject of
  RsjProps/C11.lean on the abstract thunk machine.)
-/
import RsjProofs.EvalEmbCorollaries
namespace Rsj.Eval
open Rsj.Core
-- exact equivalence of the two runs (no excused outcomes)
attribute [local instance] Mode.exact

/-- **C11 (evaluator model): unrelated history.**  `st` any long-lived store into which the fresh store of
    the program `e` embeds (`Sim`; `t'` the image of the program's thunk) — all other cells of `st`, its
    sizes and its trace log are arbitrary.  Then the request on `st` answers exactly like `e` evaluated from
    scratch, for every fuel and depth limit: the same answer text (value, or error kind and detail, or
    `gas`), and the request adds to the log exactly the trace output of the fresh evaluation. -/
theorem C11_eval_unrelated_history (cfg : Cfg) (fuel : Nat) (e : Expr) {st : St} {ρ : Emb} {t' : TId}
    (hs : Sim ρ [] st.traces (freshStore e) st) (ht : RT ρ 1 t') :
    (runRequest cfg fuel t' st).1 = (evalProgram cfg fuel e).1 ∧
    newTraces st.traces (runRequest cfg fuel t' st).2 = (evalProgram cfg fuel e).2.traces.reverse := by
  obtain ⟨h1, ρ', _, h3⟩ := runRequest_rel cfg fuel hs ht
  obtain ⟨e1, e2⟩ := evalProgram_eq_runRequest cfg fuel e
  obtain ⟨new, t1, t2⟩ := h3.traces
  refine ⟨by rw [e1, h1], ?_⟩
  rw [newTraces_append new _ _ t2, e2, t1, List.append_nil]

/-- The same with the hypothesis spelled out: `st` holds SOMEWHERE (ids `s0`, `r0`, `t'`) a `std` thunk, a
    root environment binding only `std`, and a still pending thunk for `e` in that environment;
    everything else in `st` — as left by any earlier requests — is arbitrary. -/
theorem C11_eval_unrelated_history_cells (cfg : Cfg) (fuel : Nat) (e : Expr) (st : St) (s0 r0 t' : Nat)
    (hne : s0 ≠ t') (h1 : st.thunks[s0]? = some (.done .null))
    (h2 : st.envs[r0]? = some { parent := none, vars := [("std", s0)], obj := none })
    (h3 : st.thunks[t']? = some (.pending (.expr e r0))) :
    (runRequest cfg fuel t' st).1 = (evalProgram cfg fuel e).1 ∧
    newTraces st.traces (runRequest cfg fuel t' st).2 = (evalProgram cfg fuel e).2.traces.reverse :=
  C11_eval_unrelated_history cfg fuel e (sim_fresh_of_cells e st s0 r0 t' hne h1 h2 h3) (by simp [RT])

/-- Two long-lived stores that embed each other on the cells of a request (e.g. the same session after
    different unrelated histories) give the same answer and the same new trace output. -/
theorem C11_eval_histories_agree (cfg : Cfg) (fuel : Nat) {ρ : Emb} {a b : St} {t t' : TId}
    (hs : Sim ρ a.traces b.traces a b) (ht : RT ρ t t') :
    (runRequest cfg fuel t a).1 = (runRequest cfg fuel t' b).1 ∧
    newTraces a.traces (runRequest cfg fuel t a).2 = newTraces b.traces (runRequest cfg fuel t' b).2 := by
  obtain ⟨h1, ρ', _, h3⟩ := runRequest_rel cfg fuel hs ht
  obtain ⟨new, e1, e2⟩ := h3.traces
  exact ⟨h1, by rw [newTraces_append new _ _ e1, newTraces_append new _ _ e2]⟩

/-- Non-vacuity: a store after "history" — a finished thunk of another request in front, a non-empty
    trace log — satisfies the hypotheses for any program `e`. -/
example (e : Expr) :
    let st : St :=
      { thunks := #[.done (.str "answer of an earlier request"), .done .null, .pending (.expr e 0)]
        envs := #[{ parent := none, vars := [("std", 1)], obj := none }], runs := #[1, 0, 0]
        traces := ["an old trace message"] }
    (1 : Nat) ≠ 2 ∧ st.thunks[1]? = some (.done .null) ∧
      st.envs[0]? = some { parent := none, vars := [("std", 1)], obj := none } ∧
      st.thunks[2]? = some (.pending (.expr e 0)) := ⟨by decide, rfl, rfl, rfl⟩

end Rsj.Eval

open Rsj.Eval in
#print axioms C11_eval_unrelated_history
open Rsj.Eval in
#print axioms C11_eval_unrelated_history_cells
open Rsj.Eval in
#print axioms C11_eval_histories_agree
