/-
  C17 on the evaluator model (`RsjModel/Eval.lean`): `std.sort` / `std.set` as the evaluator model
  runs them (`std_sortKeys`, `std_qsort`, `std_sortSet`) refine the proved sorting model
  (`RsjModel/Sort.lean`, `RsjProps/C17.lean`); the C17 laws therefore hold of the evaluator model
  itself.  Property theorems only (lemmas: RsjProofs/EvalSort*.lean).

  Reading guide.
  * `Ret m st r` (RsjProofs/EvalCompareAbs.lean) — the computation `m` started in the store `st`
    (whatever its ghost depth counter) returns `r` and leaves the store unchanged except for the ghost
    counter `deepest`: `∀ k, ∃ k', m {st with deepest := k} = some (r, {st with deepest := k'})`.
    (The evaluator's `compare` raises that counter, so "returns … without changing the store" can only
    be meant up to it.)
  * `CmpOracle rec st d1 keys cmp` — in `st`, `rec (.compare a b d1)` on two of the keys answers a number
    `c` with `c < 0 ⇔ cmp a b = lt` (the sign test is all `std_qsort` looks at; `-1 / 0 / 1` according
    to `cmp` is the special case used below) and is `Ret`.  `EqOracle`: `rec (.equals a b d1)` answers
    `cmp a b = eq`.  Both are discharged for the evaluator itself (`rec = run cfg n`) on evaluated
    keys of one orderable sort by `C17_eval_oracles` (from C08Eval), under `[FloatLaws]`.
  * `keyAt keys i`, `itemAt items i` — the cached key / the element thunk of index `i`.
  * `qsortPure cmp key xs` — the pure quick sort (RsjProofs/EvalSortPure.lean); `resultOrder uniq cmp keys`
    — the indices of the result: `qsortPure` of `0..n-1`, for `std.set` followed by `Sort.uniq`.
  * `LawfulOn G cmp` — `cmp` is a total preorder (three-way) on the keys satisfying `G`; the evaluator's
    comparison is one on each orderable sort (`SortE st s`), not on all values.
  * The evaluator model sorts at most 30 elements (longer arrays: `unsupported "merge sort"`), so the
    end-to-end statements carry `items.length ≤ 30`; the pure identification with the sorting model
    holds for every threshold `≥` the length.
-/
import RsjProofs.EvalSortRun
set_option linter.unusedSectionVars false
namespace Rsj.Eval.SortRef
open Rsj.Core Rsj.Eval Rsj.Eval.Cmp Rsj.Sort
open Rsj.Compare (VSort)

variable {rec : Task → M Value} {st : St} {d1 : Nat} {keys : List Value} {items : List TId}
  {cmp : Value → Value → Ordering} {G : Value → Prop}

/-! ## 1. The pure core -/

/-- **C17 eval qsort_refines.**  With a comparison oracle, on indices in range and with fuel
    `≥ length - 1` (the entry point passes the length), `std_qsort` returns the pure quick sort of
    the indices and leaves the store unchanged. -/
theorem C17_eval_qsort_refines (O : CmpOracle rec st d1 keys cmp) (fuel : Nat) (xs : List Nat)
    (hl : xs.length ≤ fuel + 1) (hx : ∀ i ∈ xs, i < keys.length) :
    Ret (std_qsort rec keys d1 fuel xs) st (.ok (qsortPure cmp (keyAt keys) xs)) := by
  have := std_qsort_ret O fuel xs hl hx
  rwa [qsortFuel_eq_pure _ _ _ _ hl] at this

/-- … spelled out on the store: the same store comes back, up to the ghost depth counter. -/
theorem C17_eval_qsort_store (O : CmpOracle rec st d1 keys cmp) (fuel : Nat) (xs : List Nat)
    (hl : xs.length ≤ fuel + 1) (hx : ∀ i ∈ xs, i < keys.length) :
    ∃ k', std_qsort rec keys d1 fuel xs st =
      some (.ok (qsortPure cmp (keyAt keys) xs), { st with deepest := k' }) :=
  (C17_eval_qsort_refines O fuel xs hl hx).run

/-- **C17 eval qsort_is_model.**  The pure quick sort *is* the sorting model's: (1) `Sort.quick`
    (behind its callers' guard `len > 1`) for every list and fuel `≥ length - 1` — same pivot, same
    partition `< pivot` / `≥ pivot` in slice order, same order of the parts; (2) on the indices
    `0..n-1`, `do_std_sort` (`sortIdx`) for every threshold `≥ n` (the code's 30 for `n ≤ 30`);
    (3) `do_std_set` (`setIdx`) likewise.  No law of `cmp` is needed. -/
theorem C17_eval_qsort_is_model (cmp : Value → Value → Ordering) (keys : List Value) :
    (∀ (fuel : Nat) (l : List Nat), l.length ≤ fuel + 1 →
      (if l.length > 1 then Sort.quick (ordOf cmp) (keyAt keys) fuel l else .ok l) =
        .ok (qsortPure cmp (keyAt keys) l)) ∧
    (∀ thr, keys.length ≤ thr →
      sortIdx (ordOf cmp) (keyAt keys) thr keys.length = .ok (resultOrder false cmp keys)) ∧
    (∀ thr, keys.length ≤ thr →
      setIdx (ordOf cmp) (keyAt keys) thr keys.length = .ok (resultOrder true cmp keys)) := by
  refine ⟨?_, fun thr h => sortOrder_eq_sortIdx cmp keys h, fun thr h => setOrder_eq_setIdx cmp keys h⟩
  intro fuel l hl
  rw [quick_eq_qsortFuel (ordOf cmp) (keyAt keys) fuel l hl]
  exact congrArg _ (qsortFuel_eq_pure cmp (keyAt keys) fuel l hl)

/-! ## 2. The C17 laws of the evaluator model's sort -/

/-- **C17_eval_sort_perm.**  `std_qsort` on `0..n-1` (as `std_sortSet` calls it) answers a permutation
    of `0..n-1`; no law of the comparison is needed. -/
theorem C17_eval_sort_perm (O : CmpOracle rec st d1 keys cmp) :
    ∃ r, Ret (std_qsort rec keys d1 keys.length (List.range keys.length)) st (.ok r) ∧
      r.Perm (List.range keys.length) :=
  ⟨_, C17_eval_qsort_refines O _ _ (by simp) (fun _ hi => List.mem_range.mp hi),
    sortOrder_perm cmp keys⟩

/-- **C17_eval_sort_sorted.**  Keys are non-decreasing along the answer. -/
theorem C17_eval_sort_sorted (O : CmpOracle rec st d1 keys cmp) (h : LawfulOn G cmp)
    (hk : ∀ k ∈ keys, G k) (r : List Nat)
    (hr : Ret (std_qsort rec keys d1 keys.length (List.range keys.length)) st (.ok r)) :
    r.Pairwise (fun i j => cmp (keyAt keys i) (keyAt keys j) ≠ .gt) := by
  have e := hr.det (C17_eval_qsort_refines O _ _ (by simp) (fun _ hi => List.mem_range.mp hi))
  injection e with e
  subst e
  exact sortOrder_sorted h hk

/-- **C17_eval_sort_stable.**  The answer is ordered by key, and indices with equal keys keep their
    order (`IdxBefore`: smaller key, or equal key and smaller index). -/
theorem C17_eval_sort_stable (O : CmpOracle rec st d1 keys cmp) (h : LawfulOn G cmp)
    (hk : ∀ k ∈ keys, G k) (r : List Nat)
    (hr : Ret (std_qsort rec keys d1 keys.length (List.range keys.length)) st (.ok r)) :
    r.Pairwise (fun i j => cmp (keyAt keys i) (keyAt keys j) = .lt ∨
      (cmp (keyAt keys i) (keyAt keys j) = .eq ∧ i < j)) := by
  have e := hr.det (C17_eval_qsort_refines O _ _ (by simp) (fun _ hi => List.mem_range.mp hi))
  injection e with e
  subst e
  exact sortOrder_stable h hk

/-- **C17_eval_sort_unique.**  Hence the answer is THE stable sort: any permutation of `0..n-1` that
    is ordered and stable is what `std_qsort` answers. -/
theorem C17_eval_sort_unique (O : CmpOracle rec st d1 keys cmp) (h : LawfulOn G cmp)
    (hk : ∀ k ∈ keys, G k) (r' : List Nat) (hp : r'.Perm (List.range keys.length))
    (hs : r'.Pairwise (fun i j => cmp (keyAt keys i) (keyAt keys j) = .lt ∨
      (cmp (keyAt keys i) (keyAt keys j) = .eq ∧ i < j))) :
    Ret (std_qsort rec keys d1 keys.length (List.range keys.length)) st (.ok r') := by
  have := C17_eval_qsort_refines O keys.length (List.range keys.length) (by simp)
    (fun _ hi => List.mem_range.mp hi)
  rwa [show qsortPure cmp (keyAt keys) (List.range keys.length) = r' from
    sortOrder_unique h hk r' hp hs] at this

/-! ## `std.set` -/

/-- **C17_eval_set_def.**  With an equality oracle (`equals` answers `compare = 0`): (1) the final
    loop of `std_sortSet` for `std.set`, run on any list `order` of indices in range, keeps exactly
    `std.uniq` (of the sorting model, `EqualsValue := CompareValue = 0`) of `order` — by
    `C17_uniq_spec` the first index and every index whose key differs from its predecessor's, i.e.
    the first element of each run of equal keys — and maps the indices to the element thunks;
    (2) everything after the keys (`sortSetRest`: index sort, final loop) answers for `std.set` the
    element thunks of `uniq` of what it answers for `std.sort`. -/
theorem C17_eval_set_def (O : CmpOracle rec st d1 keys cmp) (E : EqOracle rec st d1 keys cmp)
    (hl : keys.length = items.length) :
    (∀ order : List Nat, (∀ i ∈ order, i < items.length) →
      ∃ p, Ret (forIn order (([] : List TId), (none : Option Value)) (uniqBody rec true items keys d1)) st
        (.ok ((Sort.uniq (ordOf cmp) (keyAt keys) order).map (itemAt items), p))) ∧
    Ret (sortSetRest rec false items keys d1) st
      (.ok (.arr ((resultOrder false cmp keys).map (itemAt items)))) ∧
    Ret (sortSetRest rec true items keys d1) st
      (.ok (.arr ((Sort.uniq (ordOf cmp) (keyAt keys) (resultOrder false cmp keys)).map (itemAt items)))) := by
  refine ⟨?_, sortSetRest_ret false O (fun h => by cases h) hl, sortSetRest_ret true O (fun _ => E) hl⟩
  intro order ho
  exact finalLoop_ret true (fun _ => E) order (fun i hi => ⟨ho i hi, by rw [hl]; exact ho i hi⟩)

/-- **C17 eval set_spec.**  The indices `std.set` answers: strictly ascending keys (a set), a
    sub-sequence of the sorted order, and every index `i` is represented by the *first* index with
    an equal key (`j ≤ i`). -/
theorem C17_eval_set_spec (h : LawfulOn G cmp) (hk : ∀ k ∈ keys, G k) :
    (resultOrder true cmp keys).Pairwise (fun i j => cmp (keyAt keys i) (keyAt keys j) = .lt) ∧
    (resultOrder true cmp keys).Sublist (resultOrder false cmp keys) ∧
    ∀ i, i < keys.length → ∃ j ∈ resultOrder true cmp keys,
      cmp (keyAt keys j) (keyAt keys i) = .eq ∧ j ≤ i :=
  setOrder_spec h hk

/-! ## 3. No internal error -/

/-- **C17_eval_sort_error_free.**  With a comparison oracle (and, for `std.set`, an equality oracle):
    (1) `std_qsort` on indices in range ends without *any* error — in particular none of
    "sort key not set", "compare did not return a number"; (2) so does everything after the keys
    (`sortSetRest`), given as many keys as elements — in particular not "sorted index out of range";
    (3) and `std_sortKeys`, whatever the evaluator `rec` and `keyF` do, returns as many keys as
    elements whenever it returns. -/
theorem C17_eval_sort_error_free (cfg : Cfg) (uniq : Bool) (O : CmpOracle rec st d1 keys cmp)
    (E : uniq = true → EqOracle rec st d1 keys cmp) :
    (∀ fuel xs, xs.length ≤ fuel + 1 → (∀ i ∈ xs, i < keys.length) →
      ∀ k e st', std_qsort rec keys d1 fuel xs { st with deepest := k } ≠ some (.error e, st')) ∧
    (keys.length = items.length →
      ∀ k e st', sortSetRest rec uniq items keys d1 { st with deepest := k } ≠ some (.error e, st')) ∧
    (∀ (rec' : Task → M Value) kf (its : List TId) d s s' ks,
      std_sortKeys cfg rec' kf its d s = some (.ok ks, s') → ks.length = its.length) := by
  refine ⟨?_, ?_, fun rec' kf its d s s' ks h => std_sortKeys_length cfg rec' kf its d s s' ks h⟩
  · intro fuel xs hl hx k e st' he
    obtain ⟨k', hk'⟩ := std_qsort_ret O fuel xs hl hx k
    rw [hk'] at he
    injection he with he; injection he with he; cases he
  · intro hl k e st' he
    obtain ⟨k', hk'⟩ := sortSetRest_ret (items := items) uniq O E hl k
    rw [hk'] at he
    injection he with he; injection he with he; cases he

/-! ## The evaluator itself, end to end -/

section run
variable [L : FloatLaws]

/-- **C17 eval oracles.**  For the evaluator itself (`rec = run cfg n`) and keys that are evaluated
    values of one orderable sort `s` (numbers, strings, nested arrays of these), with
    `sortHeight s + 1` levels of fuel and `sortHeight s` frames: the comparison oracle and the equality
    oracle hold for the pure comparison `cmpE st (sortHeight s)` (the verdict of the C08 model on
    the abstractions), and that comparison is a total preorder on the sort — from
    `C08_eval_compare_refines`, `C08_eval_trichotomy`, `C08_eval_compare_trans`,
    `C08_eval_compare_eq_iff_equals` (their lemmas). -/
theorem C17_eval_oracles (cfg : Cfg) (n : Nat) (st : St) (s : VSort) (d1 : Nat) (keys : List Value)
    (hk : ∀ k ∈ keys, SortE st s k) (hn : sortHeight s + 1 ≤ n) (hd : d1 + sortHeight s ≤ cfg.maxStack) :
    CmpOracle (run cfg n) st d1 keys (cmpE st (sortHeight s)) ∧
    EqOracle (run cfg n) st d1 keys (cmpE st (sortHeight s)) ∧
    LawfulOn (SortE st s) (cmpE st (sortHeight s)) :=
  ⟨cmpOracle_run cfg n st s d1 keys hk hn hd, eqOracle_run cfg n st s d1 keys hk hn hd, cmpE_lawful st s⟩

/-- **C17 eval sort_run.**  The laws of section 2 for the evaluator itself, on evaluated keys of one
    orderable sort: `std_qsort` as `std_sortSet` calls it answers a permutation of `0..n-1` that is
    sorted and stable by the keys, and every such list is that answer; the store is unchanged. -/
theorem C17_eval_sort_run (cfg : Cfg) (n : Nat) (st : St) (s : VSort) (d1 : Nat) (keys : List Value)
    (hk : ∀ k ∈ keys, SortE st s k) (hn : sortHeight s + 1 ≤ n) (hd : d1 + sortHeight s ≤ cfg.maxStack) :
    let cmp := cmpE st (sortHeight s)
    ∃ r, Ret (std_qsort (run cfg n) keys d1 keys.length (List.range keys.length)) st (.ok r) ∧
      r.Perm (List.range keys.length) ∧
      r.Pairwise (fun i j => cmp (keyAt keys i) (keyAt keys j) ≠ .gt) ∧
      r.Pairwise (fun i j => cmp (keyAt keys i) (keyAt keys j) = .lt ∨
        (cmp (keyAt keys i) (keyAt keys j) = .eq ∧ i < j)) ∧
      ∀ r', r'.Perm (List.range keys.length) →
        r'.Pairwise (fun i j => cmp (keyAt keys i) (keyAt keys j) = .lt ∨
          (cmp (keyAt keys i) (keyAt keys j) = .eq ∧ i < j)) → r' = r := by
  intro cmp
  obtain ⟨O, _, hL⟩ := C17_eval_oracles cfg n st s d1 keys hk hn hd
  obtain ⟨r, hr, hp⟩ := C17_eval_sort_perm O
  refine ⟨r, hr, hp, C17_eval_sort_sorted O hL hk r hr, C17_eval_sort_stable O hL hk r hr, ?_⟩
  intro r' hp' hs'
  have e := (C17_eval_sort_unique O hL hk r' hp' hs').det hr
  injection e

/-- **C17_eval_sort_result.**  `std.sort(arr)` / `std.set(arr)` (no `keyF`) in the evaluator model,
    on an evaluated array thunk `t0 ↦ items` whose elements are evaluated values of one orderable
    sort `s`, at most 30 of them.  Budget: `sortHeight s + 1` levels of fuel; `sortHeight s` frames
    above `d1` for the comparisons; with two or more elements, `items.length` frames above `d1` for
    the keys (element `i` is forced at depth `d1 + n - i`, `std_sortKeys`).  Then: the answer is the
    array of the *same element thunks* in the order `order`, the store is unchanged, and `order` is
    — for `std.sort` a permutation of `0..n-1`, sorted and stable by the keys, hence the unique such
    list, and what the sorting model `sortIdx … 30 n` computes; for `std.set` `std.uniq` of that. -/
theorem C17_eval_sort_result (cfg : Cfg) (n : Nat) (st : St) (s : VSort) (uniq : Bool) (t0 : TId)
    (items : List TId) (d1 : Nat)
    (ht0 : st.thunks[t0]? = some (.done (.arr items)))
    (hs : SortE st (.arr s) (.arr items))
    (h30 : items.length ≤ 30)
    (hn : sortHeight s + 1 ≤ n)
    (hd : d1 + sortHeight s ≤ cfg.maxStack)
    (hdn : 2 ≤ items.length → d1 + items.length ≤ cfg.maxStack) :
    let keys := items.map (valAt st)
    let cmp := cmpE st (sortHeight s)
    let order := resultOrder false cmp keys
    Ret (std_sortSet cfg (run cfg n) uniq t0 none d1) st
      (.ok (.arr ((if uniq then Sort.uniq (ordOf cmp) (keyAt keys) order else order).map (itemAt items)))) ∧
    order.Perm (List.range items.length) ∧
    order.Pairwise (fun i j => cmp (keyAt keys i) (keyAt keys j) = .lt ∨
      (cmp (keyAt keys i) (keyAt keys j) = .eq ∧ i < j)) ∧
    (∀ r', r'.Perm (List.range items.length) →
      r'.Pairwise (fun i j => cmp (keyAt keys i) (keyAt keys j) = .lt ∨
        (cmp (keyAt keys i) (keyAt keys j) = .eq ∧ i < j)) → order = r') ∧
    sortIdx (ordOf cmp) (keyAt keys) 30 items.length = .ok order := by
  intro keys cmp order
  have hkeys : ∀ k ∈ keys, SortE st s k := by
    obtain ⟨items', e', hi⟩ := hs
    injection e' with e'
    subst e'
    intro k hk
    obtain ⟨t, ht, rfl⟩ := List.mem_map.mp hk
    obtain ⟨w, hw, hsw⟩ := hi t ht
    rw [valAt_done hw]; exact hsw
  have hlen : keys.length = items.length := List.length_map _
  refine ⟨?_, ?_, sortOrder_stable (cmpE_lawful st s) hkeys, ?_, ?_⟩
  · have := std_sortSet_ret cfg n st s uniq t0 items d1 ht0 hs h30 hn hd hdn
    cases uniq <;> exact this
  · rw [← hlen]; exact sortOrder_perm cmp keys
  · intro r' hp hs'
    exact sortOrder_unique (cmpE_lawful st s) hkeys r' (by rw [hlen]; exact hp) hs'
  · rw [← hlen]; exact sortOrder_eq_sortIdx cmp keys (by rw [hlen]; exact h30)

/-- the builtin dispatch: `std.sort(arr)` is `std_sortSet false`, `std.set(arr)` is `std_sortSet true` -/
theorem C17_eval_sort_dispatch (cfg : Cfg) (rec : Task → M Value) (t0 t1 : TId) (d1 : Nat) :
    builtinCall2 cfg rec .sort [t0] d1 = std_sortSet cfg rec false t0 none d1 ∧
    builtinCall2 cfg rec .set [t0] d1 = std_sortSet cfg rec true t0 none d1 ∧
    builtinCall2 cfg rec .sort [t0, t1] d1 = std_sortSet cfg rec false t0 (some t1) d1 ∧
    builtinCall2 cfg rec .set [t0, t1] d1 = std_sortSet cfg rec true t0 (some t1) d1 :=
  ⟨rfl, rfl, rfl, rfl⟩

/-- … and the builtin arm of `step`: `std.sort(e)` makes the argument thunk, checks the `Call` frame
    and runs `std_sortSet` at depth `d + 1` (likewise `std.set`, and with a `keyF` argument). -/
theorem C17_eval_sort_builtin_arm (cfg : Cfg) (rec : Task → M Value) (e k : Expr) (env : EId) (tail : Bool)
    (d : Nat) :
    step cfg rec (.eval (.builtin .sort (.cons e .nil)) env tail d) =
      (newThunk e env >>= fun t0 => checkDepth cfg (d + 1) >>= fun _ =>
        std_sortSet cfg rec false t0 none (d + 1)) ∧
    step cfg rec (.eval (.builtin .set (.cons e .nil)) env tail d) =
      (newThunk e env >>= fun t0 => checkDepth cfg (d + 1) >>= fun _ =>
        std_sortSet cfg rec true t0 none (d + 1)) ∧
    step cfg rec (.eval (.builtin .sort (.cons e (.cons k .nil))) env tail d) =
      (newThunk e env >>= fun t0 => newThunk k env >>= fun t1 => checkDepth cfg (d + 1) >>= fun _ =>
        std_sortSet cfg rec false t0 (some t1) (d + 1)) ∧
    step cfg rec (.eval (.builtin .set (.cons e (.cons k .nil))) env tail d) =
      (newThunk e env >>= fun t0 => newThunk k env >>= fun t1 => checkDepth cfg (d + 1) >>= fun _ =>
        std_sortSet cfg rec true t0 (some t1) (d + 1)) :=
  step_builtin_sortSet cfg rec e k env tail d

/-- **The frame budget is sharp.**  With two or more elements (at most 30) and fewer than
    `items.length` frames above `d1`, `std.sort` / `std.set` of an evaluated array is `StackOverflow`
    — before any key is computed or compared (every key computation is prepared under its own `Call`
    frame up front). -/
theorem C17_eval_sort_stack_overflow (cfg : Cfg) (n : Nat) (st : St) (uniq : Bool) (t0 : TId)
    (items : List TId) (d1 : Nat) (ht0 : st.thunks[t0]? = some (.done (.arr items)))
    (h2 : 2 ≤ items.length) (h30 : items.length ≤ 30) (hd : cfg.maxStack < d1 + items.length) :
    Ret (std_sortSet cfg (run cfg (n + 1)) uniq t0 none d1) st (.error .stackOverflow) :=
  std_sortSet_overflow uniq t0 (run_force_done cfg n d1 ht0) h2 h30 hd

end run

/-- **C17_eval_sort_result, general form** (any `rec`; `keyF` allowed; elements and keys may still
    have to be evaluated, so the store changes).  If the array argument evaluates to `items`
    (`st` to `s1`), `keyF` — when given — to a function (`s1` to `s1'`, `KfRun`), `std_sortKeys`
    returns `keys` (`s1'` to `s2`), and the oracles hold for these keys in `s2`: `std_sortSet`
    answers the array of the element thunks in the order `resultOrder uniq cmp keys` and ends in
    `s2` (up to the ghost depth counter).  The laws of `resultOrder` are `C17_eval_sort_perm` …
    `C17_eval_set_spec` / `sortOrder_*`. -/
theorem C17_eval_sort_result_general {cfg : Cfg} {st s1 s1' s2 : St} (uniq : Bool) (t0 : TId)
    (t1 : Option TId) (kf : Option FId)
    (h0 : rec (.force t0 d1) st = some (.ok (.arr items), s1))
    (h1 : KfRun rec t1 d1 s1 kf s1')
    (h2 : 2 ≤ items.length) (h30 : items.length ≤ 30)
    (hk : std_sortKeys cfg rec kf items d1 s1' = some (.ok keys, s2))
    (O : CmpOracle rec s2 d1 keys cmp) (E : uniq = true → EqOracle rec s2 d1 keys cmp) :
    ∃ k, std_sortSet cfg rec uniq t0 t1 d1 st =
      some (.ok (.arr ((resultOrder uniq cmp keys).map (itemAt items))), { s2 with deepest := k }) :=
  std_sortSet_run uniq t0 t1 kf h0 h1 h2 h30 hk O E

/-- **C17_eval_sort_result with `keyF`.**  The hypothesis on the keys spelled out: the applications
    of `keyF = f` are prepared for every element (`callsBody`: arity check, argument environment —
    from the last element to the first — giving `calls`, store `s1'` to `sc`), `items.length` frames
    are available above `d1`, and evaluating the prepared bodies one after the other (`SeqRun`:
    `rec (.eval body env true (d1 + n - i))` for `i = 0, 1, …`) returns `keys` and ends in `s2`. -/
theorem C17_eval_sort_result_keyF {cfg : Cfg} {st s1 s1' sc s2 : St} (uniq : Bool) (t0 t1 : TId) (f : FId)
    (calls : List (Expr × EId))
    (h0 : rec (.force t0 d1) st = some (.ok (.arr items), s1))
    (h1 : rec (.force t1 d1) s1 = some (.ok (.func f), s1'))
    (h2 : 2 ≤ items.length) (h30 : items.length ≤ 30)
    (hc : forIn items.reverse ([] : List (Expr × EId)) (callsBody f) s1' = some (.ok calls, sc))
    (hd : d1 + items.length ≤ cfg.maxStack)
    (hk : SeqRun rec (evalTasks d1 items.length calls.zipIdx) sc keys s2)
    (O : CmpOracle rec s2 d1 keys cmp) (E : uniq = true → EqOracle rec s2 d1 keys cmp) :
    ∃ k, std_sortSet cfg rec uniq t0 (some t1) d1 st =
      some (.ok (.arr ((resultOrder uniq cmp keys).map (itemAt items))), { s2 with deepest := k }) :=
  std_sortSet_run uniq t0 (some t1) (some f) h0 ⟨f, rfl, h1⟩ h2 h30
    (std_sortKeys_some_run hc hd hk) O E

/-- **C17_eval_sort_result without `keyF`, elements still to be evaluated.**  Forcing the elements one
    after the other (`SeqRun`: element `i` at depth `d1 + n - i`) returns `keys` and ends in `s2`
    (the store changes); the oracles hold in `s2`. -/
theorem C17_eval_sort_result_forced {cfg : Cfg} {st s1 s2 : St} (uniq : Bool) (t0 : TId)
    (h0 : rec (.force t0 d1) st = some (.ok (.arr items), s1))
    (h2 : 2 ≤ items.length) (h30 : items.length ≤ 30)
    (hd : d1 + items.length ≤ cfg.maxStack)
    (hk : SeqRun rec (forceTasks d1 items.length items.zipIdx) s1 keys s2)
    (O : CmpOracle rec s2 d1 keys cmp) (E : uniq = true → EqOracle rec s2 d1 keys cmp) :
    ∃ k, std_sortSet cfg rec uniq t0 none d1 st =
      some (.ok (.arr ((resultOrder uniq cmp keys).map (itemAt items))), { s2 with deepest := k }) :=
  std_sortSet_run uniq t0 none none h0 ⟨rfl, rfl⟩ h2 h30 (std_sortKeys_none_run hd hk) O E

/-- **C17 eval sort_sound** (the converse direction, by inversion; `keyF` or not, elements in any
    state).  If `std.sort` / `std.set` answers `v` at all in the evaluator model, then the array argument
    evaluated to some `items` (at most 30: the model's range), and either there was at most one element
    and `v` is that array, or `std_sortKeys` returned as many `keys` as elements, ending in a store `s2`,
    and *if these keys are evaluated values of one orderable sort in `s2`* (within the fuel / frame
    budget of the comparisons) then `v` is the array of the element thunks in the order
    `resultOrder uniq cmp keys` — the stable sort by the keys (`C17_eval_sort_run`), for `std.set` its
    `uniq` — and the run ended in `s2`. -/
theorem C17_eval_sort_sound [FloatLaws] (cfg : Cfg) (n : Nat) (s : VSort) (uniq : Bool) (t0 : TId)
    (t1 : Option TId) (d1 : Nat) (st st' : St) (v : Value)
    (h : std_sortSet cfg (run cfg n) uniq t0 t1 d1 st = some (.ok v, st')) :
    ∃ items s1 kf s1', run cfg n (.force t0 d1) st = some (.ok (.arr items), s1) ∧
      KfRun (run cfg n) t1 d1 s1 kf s1' ∧ items.length ≤ 30 ∧
      ((items.length ≤ 1 ∧ v = .arr items ∧ st' = s1') ∨
       (2 ≤ items.length ∧ ∃ keys s2,
          std_sortKeys cfg (run cfg n) kf items d1 s1' = some (.ok keys, s2) ∧
          keys.length = items.length ∧
          ((∀ k ∈ keys, SortE s2 s k) → sortHeight s + 1 ≤ n → d1 + sortHeight s ≤ cfg.maxStack →
            v = .arr ((resultOrder uniq (cmpE s2 (sortHeight s)) keys).map (itemAt items)) ∧
            ∃ k, st' = { s2 with deepest := k }))) := by
  obtain ⟨items, s1, kf, s1', h0, h1, h30, hcase⟩ := std_sortSet_sound h
  refine ⟨items, s1, kf, s1', h0, h1, h30, ?_⟩
  rcases hcase with hc | ⟨h2, keys, s2, hk, hlen, hv⟩
  · exact .inl hc
  · refine .inr ⟨h2, keys, s2, hk, hlen, ?_⟩
    intro hs hn hd
    obtain ⟨O, E, _⟩ := C17_eval_oracles cfg n s2 s d1 keys hs hn hd
    exact hv _ O (fun _ => E)

/-- Outside the covered range: one element or none — the array itself comes back, nothing is
    compared; more than 30 — the evaluator model does not cover the merge sort. -/
theorem C17_eval_sort_short_long (cfg : Cfg) (uniq : Bool) (av : Value) (kf : Option FId) :
    (items.length ≤ 1 → sortSetTail cfg rec uniq av items kf d1 = pure av) ∧
    (30 < items.length → sortSetTail cfg rec uniq av items kf d1 = throw (.unsupported "merge sort")) :=
  ⟨sortSetTail_short cfg rec uniq av items kf d1, sortSetTail_long cfg rec uniq av items kf d1⟩

section run2
variable [L : FloatLaws]

/-- **C17_eval_sort_result with `keyF`, for the evaluator itself.**  As `C17_eval_sort_result_keyF`
    with `rec = run cfg n`; instead of the oracles: the keys are evaluated values of one orderable
    sort *in the store `s2` the key computations end in*.  The answer is the array of the element
    thunks in the order `order`, which is (for `std.sort`) a permutation of `0..n-1`, sorted and
    stable by these keys. -/
theorem C17_eval_sort_result_keyF_run (cfg : Cfg) (n : Nat) {st s1 s1' sc s2 : St} (s : VSort) (uniq : Bool)
    (t0 t1 : TId) (f : FId) (calls : List (Expr × EId))
    (h0 : run cfg n (.force t0 d1) st = some (.ok (.arr items), s1))
    (h1 : run cfg n (.force t1 d1) s1 = some (.ok (.func f), s1'))
    (h2 : 2 ≤ items.length) (h30 : items.length ≤ 30)
    (hc : forIn items.reverse ([] : List (Expr × EId)) (callsBody f) s1' = some (.ok calls, sc))
    (hdn : d1 + items.length ≤ cfg.maxStack)
    (hk : SeqRun (run cfg n) (evalTasks d1 items.length calls.zipIdx) sc keys s2)
    (hs : ∀ k ∈ keys, SortE s2 s k)
    (hn : sortHeight s + 1 ≤ n) (hd : d1 + sortHeight s ≤ cfg.maxStack) :
    let cmp := cmpE s2 (sortHeight s)
    (∃ k, std_sortSet cfg (run cfg n) uniq t0 (some t1) d1 st =
      some (.ok (.arr ((resultOrder uniq cmp keys).map (itemAt items))), { s2 with deepest := k })) ∧
    keys.length = items.length ∧
    (resultOrder false cmp keys).Perm (List.range items.length) ∧
    (resultOrder false cmp keys).Pairwise (fun i j => cmp (keyAt keys i) (keyAt keys j) = .lt ∨
      (cmp (keyAt keys i) (keyAt keys j) = .eq ∧ i < j)) := by
  intro cmp
  obtain ⟨O, E, hL⟩ := C17_eval_oracles cfg n s2 s d1 keys hs hn hd
  have hlen := std_sortKeys_length cfg _ _ _ _ _ _ _ (std_sortKeys_some_run hc hdn hk)
  refine ⟨C17_eval_sort_result_keyF uniq t0 t1 f calls h0 h1 h2 h30 hc hdn hk O (fun _ => E), hlen, ?_,
    sortOrder_stable hL hs⟩
  rw [← hlen]; exact sortOrder_perm cmp keys

end run2

/-! ## Not proved -/

/-- **Not proved**: `C17_eval_sort_result_keyF_run` with the hypothesis on the keys weakened to what a
    caller can observe *while* the keys are computed: each key is an evaluated value of the sort in
    the store reached right after its own computation (instead of: in the final store `s2`).
    Missing: evaluated values stay evaluated under further evaluation (`SortE si s k → SortE s2 s k`
    when `s2` is reached from `si` by running the evaluator): a `done` thunk keeps its value — proved
    in RsjProofs/EvalOnce.lean, which cannot be imported together with the EvalCompare family that
    `SortE` and the oracles come from. -/
def C17_eval_sort_result_keyF_full : Prop :=
  ∀ [FloatLaws] (cfg : Cfg) (n : Nat) (st s1 s1' sc s2 : St) (s : VSort) (uniq : Bool) (d1 : Nat)
    (items : List TId) (keys : List Value) (t0 t1 : TId) (f : FId) (calls : List (Expr × EId)),
    run cfg n (.force t0 d1) st = some (.ok (.arr items), s1) →
    run cfg n (.force t1 d1) s1 = some (.ok (.func f), s1') →
    2 ≤ items.length → items.length ≤ 30 →
    forIn items.reverse ([] : List (Expr × EId)) (callsBody f) s1' = some (.ok calls, sc) →
    d1 + items.length ≤ cfg.maxStack →
    SeqRun (run cfg n) (evalTasks d1 items.length calls.zipIdx) sc keys s2 →
    (∀ i (hi : i < keys.length), ∃ si,
      SeqRun (run cfg n) ((evalTasks d1 items.length calls.zipIdx).take (i + 1)) sc (keys.take (i + 1)) si ∧
      SortE si s keys[i]) →
    sortHeight s + 1 ≤ n → d1 + sortHeight s ≤ cfg.maxStack →
    ∃ k, std_sortSet cfg (run cfg n) uniq t0 (some t1) d1 st =
      some (.ok (.arr ((resultOrder uniq (cmpE s2 (sortHeight s)) keys).map (itemAt items))),
        { s2 with deepest := k })

end Rsj.Eval.SortRef

/-! ## Non-vacuity -/

namespace Rsj.Eval.SortRef
open Rsj.Core Rsj.Eval Rsj.Eval.Cmp Rsj.Sort
open Rsj.Compare (VSort)

variable [L : FloatLaws]

/-- the hypotheses of `C17_eval_sort_result` are satisfiable: `["b", "a", "b", "a"]`, evaluated -/
example : SortE exSortSt (.arr .str) (.arr [0, 1, 2, 3]) := exSortSt_sortE

/-- … and of the oracle theorems (`C17_eval_qsort_refines`, …): the oracles exist for these keys -/
example : CmpOracle (run { maxStack := 10 } 1) exSortSt 1 [.str "b", .str "a", .str "b", .str "a"]
      (cmpE exSortSt 0) ∧
    EqOracle (run { maxStack := 10 } 1) exSortSt 1 [.str "b", .str "a", .str "b", .str "a"]
      (cmpE exSortSt 0) ∧
    LawfulOn (SortE exSortSt .str) (cmpE exSortSt 0) :=
  C17_eval_oracles { maxStack := 10 } 1 exSortSt .str 1 _
    (fun k hk => by
      simp only [List.mem_cons, List.not_mem_nil, or_false] at hk
      rcases hk with rfl | rfl | rfl | rfl <;> exact ⟨_, rfl⟩)
    (by decide) (by decide)

/-- a concrete run with duplicated keys: `std.sort(["b", "a", "b", "a"])` answers the element thunks
    `1, 3, 0, 2` (the two `"a"` in input order, then the two `"b"` in input order), store unchanged -/
example : Ret (std_sortSet { maxStack := 10 } (run { maxStack := 10 } 1) false 4 none 1) exSortSt
    (.ok (.arr [1, 3, 0, 2])) := by
  obtain ⟨h1, _, _, h4, _⟩ := C17_eval_sort_result { maxStack := 10 } 1 exSortSt .str false 4
    [0, 1, 2, 3] 1 rfl exSortSt_sortE (by decide) (by decide) (by decide) (fun _ => by decide)
  have := h4 [1, 3, 0, 2] (by decide) exSortSt_stable
  simp only [this] at h1
  exact h1

/-- … and `std.set` of the same array: thunks `1, 0` (the first `"a"`, the first `"b"`) -/
example : Ret (std_sortSet { maxStack := 10 } (run { maxStack := 10 } 1) true 4 none 1) exSortSt
    (.ok (.arr [1, 0])) := by
  obtain ⟨h1, _, _, h4, _⟩ := C17_eval_sort_result { maxStack := 10 } 1 exSortSt .str true 4
    [0, 1, 2, 3] 1 rfl exSortSt_sortE (by decide) (by decide) (by decide) (fun _ => by decide)
  have := h4 [1, 3, 0, 2] (by decide) exSortSt_stable
  simp only [this] at h1
  exact h1

/-- the frame budget is sharp: the same call with `maxStack = 4 < d1 + 4` is `StackOverflow`
    (with `maxStack = 5` it answers as above: `C17_eval_sort_result` needs `d1 + 4 ≤ maxStack`) -/
example : Ret (std_sortSet { maxStack := 4 } (run { maxStack := 4 } 1) false 4 none 1) exSortSt
    (.error .stackOverflow) :=
  C17_eval_sort_stack_overflow { maxStack := 4 } 0 exSortSt false 4 [0, 1, 2, 3] 1 rfl (by decide)
    (by decide) (by decide)

/-- the hypothesis of `C17_eval_sort_sound` is satisfiable (a successful run exists) -/
example : ∃ v st', std_sortSet { maxStack := 10 } (run { maxStack := 10 } 1) true 4 none 1 exSortSt =
    some (.ok v, st') := by
  obtain ⟨h1, _⟩ := C17_eval_sort_result { maxStack := 10 } 1 exSortSt .str true 4
    [0, 1, 2, 3] 1 rfl exSortSt_sortE (by decide) (by decide) (by decide) (fun _ => by decide)
  obtain ⟨k, hk⟩ := h1.run
  exact ⟨_, _, hk⟩

end Rsj.Eval.SortRef

open Rsj.Eval.SortRef in
#print axioms C17_eval_qsort_refines
open Rsj.Eval.SortRef in
#print axioms C17_eval_qsort_store
open Rsj.Eval.SortRef in
#print axioms C17_eval_qsort_is_model
open Rsj.Eval.SortRef in
#print axioms C17_eval_sort_perm
open Rsj.Eval.SortRef in
#print axioms C17_eval_sort_sorted
open Rsj.Eval.SortRef in
#print axioms C17_eval_sort_stable
open Rsj.Eval.SortRef in
#print axioms C17_eval_sort_unique
open Rsj.Eval.SortRef in
#print axioms C17_eval_set_def
open Rsj.Eval.SortRef in
#print axioms C17_eval_set_spec
open Rsj.Eval.SortRef in
#print axioms C17_eval_sort_error_free
open Rsj.Eval.SortRef in
#print axioms C17_eval_oracles
open Rsj.Eval.SortRef in
#print axioms C17_eval_sort_result
open Rsj.Eval.SortRef in
#print axioms C17_eval_sort_dispatch
open Rsj.Eval.SortRef in
#print axioms C17_eval_sort_result_general
open Rsj.Eval.SortRef in
#print axioms C17_eval_sort_result_keyF
open Rsj.Eval.SortRef in
#print axioms C17_eval_sort_result_keyF_run
open Rsj.Eval.SortRef in
#print axioms C17_eval_sort_run
open Rsj.Eval.SortRef in
#print axioms C17_eval_sort_builtin_arm
open Rsj.Eval.SortRef in
#print axioms C17_eval_sort_stack_overflow
open Rsj.Eval.SortRef in
#print axioms C17_eval_sort_result_forced
open Rsj.Eval.SortRef in
#print axioms C17_eval_sort_sound
open Rsj.Eval.SortRef in
#print axioms C17_eval_sort_short_long
