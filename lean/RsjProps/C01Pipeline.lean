/-
  C01 on the WHOLE-PIPELINE model (RsjModel/Pipeline.lean): for a source text accepted by the static
  stages, no modelled Rust panic site of the evaluator is reachable — except the one message that needs
  facts about the opaque `Float` (the comparison of a NaN), exactly as in RsjProps/C01Eval.lean.  The
  hypothesis `CoreShaped` of that theorem (builtins applied to an accepted number of arguments,
  comprehensions starting with `for`: what the front end guarantees and the analyzer does not check) is
  now a THEOREM about the lowering (`Rsj.Lower.lowerWith_coreShaped`, RsjProofs/LowerShape.lean).
-/
import RsjProofs.LowerPipeline
import RsjProofs.LowerShape
import RsjProps.C01Eval
import RsjProps.C14
namespace Rsj.Pipeline
open Rsj.Eval

/-- **The lowering only produces programs of the shape the evaluator's no-panic theorem assumes.** -/
theorem C01_lower_core_shaped (libs : List (String × String)) {ast : Parser.Expr} {e : Core.Expr}
    (h : Lower.lowerWith libs ast = .ok e) : CoreShaped e :=
  Lower.lowerWith_coreShaped libs h

/-- **C01 on the pipeline: an accepted source reaches no modelled panic site but the NaN comparison.**
    If a source passes lexer, parser, lowering and static analysis, then for every frame limit, fuel and
    trace flag the answer of `runSource` is `gas`, a value, or the rendering of an evaluation error; and if
    that error is a modelled Rust panic (`panic <hex>`) at all, it is `partial_cmp of NaN`. -/
theorem C01_pipeline_no_panic_except_nan {src : List Nat} {e : Core.Expr}
    (h : front [] Analyze.rootEnv src = .ok e) (maxStack fuel : Nat) (traces : Bool) :
    runSource maxStack fuel traces src = gasLine traces ∨
    (∃ v st, runSource maxStack fuel traces src = "ok " ++ v ++ (if traces then showTraces st else "")) ∨
    (∃ er st, runSource maxStack fuel traces src = showErr er ++ (if traces then showTraces st else "") ∧
      ∀ m, er = .internal m → NanPanic m) := by
  obtain ⟨toks, ast, _, _, hlo, ha⟩ := front_ok_inv h
  have hc : CoreShaped e := Lower.lowerWith_coreShaped [] hlo
  rw [runSource_ok h]
  unfold evalLine
  rw [evalProgram_eq_prog]
  cases hx : programProg { maxStack := maxStack } fuel e {} with
  | none => exact .inl rfl
  | some r =>
    obtain ⟨r, st⟩ := r
    cases r with
    | ok s => exact .inr (.inl ⟨s, st, rfl⟩)
    | error er =>
      refine .inr (.inr ⟨er, _, rfl, ?_⟩)
      intro m hm
      subst hm
      exact C01_eval_no_internal_error_except_nan e hc ha { maxStack := maxStack } fuel m st hx

/-- The answer lines of `runSource` with the panic-class lines made explicit.  `panic <hex>` is answered
    only by the last three constructors. -/
inductive IsAnswerNoPanic (traces : Bool) : String → Prop
  | lexErr (e : Lexer.LexErr) : IsAnswerNoPanic traces (lexErrLine e)
  | parseErr (sp : Parser.Span) (ex : List Parser.Expected) (act : Parser.Actual) :
      IsAnswerNoPanic traces (parseErrLine sp ex act)
  | unsupported (m : String) : IsAnswerNoPanic traces ("unsupported " ++ Core.strHex m)
  | analyzeErr (er : Analyze.AErr) : IsAnswerNoPanic traces ("err analyze " ++ Analyze.showErr er)
  | gas : IsAnswerNoPanic traces (gasLine traces)
  | ok (v : String) (st : St) : IsAnswerNoPanic traces ("ok " ++ v ++ (if traces then showTraces st else ""))
  /-- an evaluation outcome that is not a value: `err eval …`, `unsupported …`, or — the ONLY modelled panic of
      the evaluator stage that is not excluded — `panic` of the message `partial_cmp of NaN` -/
  | evalErr (er : Err) (st : St) (h : ∀ m, er = .internal m → NanPanic m) :
      IsAnswerNoPanic traces (showErr er ++ (if traces then showTraces st else ""))
  /-- RESIDUAL (no theorem excludes it): one of the PARSER model's fault outcomes — its transcribed Rust panic
      sites (`Parser::new` on an empty slice, `next_token` past the end, `eat_eof`'s assertion, the
      `unreachable!()`s of `make_comp` / `in super` / `parse_arg`) or the parser model's fuel bound
      `50·tokens + 100`.  The lexer model's token lists end in exactly one `eof`, and C15's differential run
      never observed a fault, but "the parser never faults on lexer output" is not proved anywhere. -/
  | parseFault (f : Parser.Fault) : IsAnswerNoPanic traces ("panic " ++ Core.strHex ("parser: " ++ f.show))
  /-- RESIDUAL (no theorem excludes it): a token payload that does not decode (`hexDecode ∘ hexEnc`, UTF-8
      validity of the lexer's identifier bytes / scalar values) or a comprehension without a leading `for`
      (excluded for parser output by `C15_parser_output_well_formed`, not yet connected) -/
  | frontFault (w : String) : IsAnswerNoPanic traces ("panic " ++ Core.strHex ("lowering: bad token payload " ++ w))

/-- **C01 on the pipeline, every source.**  For every byte string, frame limit, fuel and trace flag the answer of
    `runSource` is one of the lines of `IsAnswerNoPanic`: no panic site of the LEXER stage (`C14_lex_total`),
    none of the ANALYZER (it has no such outcome), and of the EVALUATOR stage only the comparison of a NaN
    (`C01_eval_no_internal_error_except_nan` + `lower_coreShaped`).  What remains open is named by the two
    RESIDUAL constructors (parser fault outcomes, payload decoding). -/
theorem C01_pipeline_answers (maxStack fuel : Nat) (traces : Bool) (src : List Nat) :
    IsAnswerNoPanic traces (runSource maxStack fuel traces src) := by
  have hlex := Rsj.Lexer.C14_lex_total src false
  cases hf : front [] Analyze.rootEnv src with
  | lexErr e => unfold runSource; rw [hf]; exact IsAnswerNoPanic.lexErr e
  | lexFault s => exact absurd hf (front_ne_lexFault hlex s)
  | parseErr sp ex act => unfold runSource; rw [hf]; exact IsAnswerNoPanic.parseErr sp ex act
  | parseFault f => unfold runSource; rw [hf]; exact IsAnswerNoPanic.parseFault f
  | unsupported m => unfold runSource; rw [hf]; exact IsAnswerNoPanic.unsupported m
  | badPayload w => unfold runSource; rw [hf]; exact IsAnswerNoPanic.frontFault w
  | analyzeErr er => unfold runSource; rw [hf]; exact IsAnswerNoPanic.analyzeErr er
  | ok e =>
    rcases C01_pipeline_no_panic_except_nan hf maxStack fuel traces with h | ⟨v, st, h⟩ | ⟨er, st, h, hn⟩
    · rw [h]; exact IsAnswerNoPanic.gas
    · rw [h]; exact IsAnswerNoPanic.ok v st
    · rw [h]; exact IsAnswerNoPanic.evalErr er st hn

/-- non-vacuity: the source `true` (bytes 116 114 117 101) is accepted by all static stages -/
example : ∃ e, front [] Analyze.rootEnv [116, 114, 117, 101] = .ok e :=
  ⟨.true_, front_ok (toks := [⟨.simple .True, 0, 4⟩, ⟨.eof, 4, 4⟩]) (ast := .bool true ⟨0, 4⟩) rfl rfl
    (by simp [Lower.lowerWith, Lower.lowerE]) (by simp [Analyze.analyze])⟩

end Rsj.Pipeline

open Rsj.Pipeline in
#print axioms C01_lower_core_shaped
open Rsj.Pipeline in
#print axioms C01_pipeline_no_panic_except_nan
open Rsj.Pipeline in
#print axioms C01_pipeline_answers
