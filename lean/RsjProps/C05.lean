/-
  C05 — every emitted document is well-formed and decodes to its value.
  Property theorems only.  Lemmas: RsjProofs/JsonEscape.lean (escaper vs string
  lexer), JsonParse.lean (round trip), JsonNumber.lean (RFC 8259 numbers are
  number tokens), JsonFields.lean (field order), JsonKeys.lean (key quoting).

  Model: RsjModel/Json.lean — `escape` = escape_string_json, `manifest` =
  do_manifest_json with a `ManifestJsonFormat`, `parseJson` = parse_json.rs,
  `visibleSorted` = get_visible_fields_order of a single-layer object,
  `isSafeYamlPlain` / `isSafeTomlPlain`.  Numbers are their text tokens.
-/
import RsjProofs.JsonParse
import RsjProofs.JsonNumber
import RsjProofs.JsonFields
import RsjProofs.JsonKeys
import RsjProofs.JsonEscapeTable
import RsjProofs.JsonFuel
namespace Rsj.Json

/-- **C05 escape_is_rfc8259.**  The text `escape_string_json` writes between the
    two quotation marks is an RFC 8259 `*char`: every character is ≥ U+0020, and
    `"` / `\` occur only as part of an escape sequence (`rfcBody` transcribes
    RFC 8259 §7: unescaped = %x20-21 / %x23-5B / %x5D-10FFFF, or `\` followed by one
    of `" \ / b f n r t`, or `u` and four hex digits). -/
theorem C05_escape_is_rfc8259 (s : Str) :
    ∃ body, escape s = 34 :: (body ++ [34]) ∧ rfcBody body = true ∧ ∀ c ∈ body, 0x20 ≤ c :=
  ⟨escapeBody s, rfl, rfcBody_escapeBody s, escapeBody_ge s⟩

/-- **C05 escape_roundtrip.**  The JSON string lexer of `parse_json.rs` reads the
    escaped text back to exactly the original code points and stops right after
    the closing quote — for every string (all code points, all controls) and
    every continuation `rest`. -/
theorem C05_escape_roundtrip (s rest : Str) :
    lexString (escape s ++ rest) = .ok (some (s, rest)) :=
  lexString_escape s rest

/-- **C05 escape_table_covers_controls** (generated obligation).  In the table
    extracted from `escape_string_json` in manifest.rs
    (`RsjModel/EscapeTable.lean`, regenerated on every run), every control
    character below U+0020 is matched by an arm, i.e. never pushed raw.  (This is
    the statement the tree with the `'\u{19}'` bound failed.) -/
theorem C05_escape_table_covers_controls : ∀ c, c < 0x20 → (tableLookup c).isSome = true :=
  table_covers_controls

/-- The model escaper the other theorems talk about IS the extracted table:
    for every code point, `escapeChar` equals first-match lookup in it. -/
theorem C05_escape_model_is_table (c : Nat) : escapeChar c = tableEscape c :=
  escapeChar_eq_table c

/-- **C05 manifest_parse_roundtrip.**  For every format whose indent and newline
    are JSON whitespace and whose separators are whitespace around `:` / `,`
    (`FmtOK`), and every value whose numbers are number tokens and whose objects
    have pairwise distinct keys (`ValOK`): parsing the manifested text gives back
    exactly the value — same number tokens, same code points in every string and
    key, same nesting, same field order. -/
theorem C05_manifest_parse_roundtrip {f : Fmt} (hf : FmtOK f) (v : JVal) (hv : ValOK v) :
    parseJson (manifest f 0 v) = .ok v :=
  parseJson_manifest hf v hv

/-- The fuel of the model's outer loop is a proof device only: `parse_json`'s
    outer loop consumes a character per iteration, so "out of fuel" is never the
    outcome — the model parser is total with the implementation's outcomes. -/
theorem C05_parse_fuel_unreachable (s : Str) : parseJson s ≠ .error .fuel :=
  parseJson_nf s

/-- The number hypothesis of the round trip is met by every RFC 8259 number
    (`[-] int [frac] [exp]`, in particular by everything `Display for f64` prints:
    `-?digits(.digits)?`) whose magnitude is below the overflow threshold of
    `str::parse::<f64>` (2^1024 - 2^970). -/
theorem C05_number_tokens {t : Str} (ht : JsonNumber t) (hfin : overflows t = false) : NumTok t :=
  numTok_of_jsonNumber ht hfin

/-! The formats the implementation actually uses satisfy `FmtOK`. -/

theorem C05_fmt_default_manifest : FmtOK Fmt.defaultManifest :=
  ⟨by decide, by decide, ⟨[], [32], rfl, by decide, by decide⟩, ⟨[], [], rfl, by decide, by decide⟩,
   fun e h => ⟨[32], by cases h; rfl, by decide⟩, fun e h => ⟨[32], by cases h; rfl, by decide⟩⟩

theorem C05_fmt_to_string : FmtOK Fmt.toStringFmt :=
  ⟨by decide, by decide, ⟨[], [32], rfl, by decide, by decide⟩, ⟨[], [32], rfl, by decide, by decide⟩,
   fun e h => ⟨[32], by cases h; rfl, by decide⟩, fun e h => ⟨[32], by cases h; rfl, by decide⟩⟩

/-- `std.manifestJsonEx(v, indent, newline, key_val_sep)` with whitespace settings
    (this is exactly the set of settings for which the output is JSON at all). -/
theorem C05_fmt_manifest_ex {i n k u1 u2 : Str} (hi : WsStr i) (hn : WsStr n)
    (hk : k = u1 ++ 58 :: u2) (h1 : WsStr u1) (h2 : WsStr u2) : FmtOK (Fmt.ex i n k) :=
  ⟨hi, hn, ⟨u1, u2, hk, h1, h2⟩, ⟨[], [], rfl, by decide, by decide⟩,
   (fun e h => by simp [Fmt.ex] at h), (fun e h => by simp [Fmt.ex] at h)⟩

theorem C05_fmt_minified : FmtOK Fmt.minified :=
  C05_fmt_manifest_ex (u1 := []) (u2 := []) (by decide) (by decide) rfl (by decide) (by decide)

theorem C05_fmt_std_manifest_json : FmtOK Fmt.stdManifestJson :=
  C05_fmt_manifest_ex (u1 := []) (u2 := [32]) (by decide) (by decide) rfl (by decide) (by decide)

/-! The round trip at each JSON entry point of the implementation. -/

/-- default output of the CLI / library (`Program::manifest_json(v, true)`), also the
    items of `-y` streams and the files of `-m` -/
theorem C05_roundtrip_default_output (v : JVal) (hv : ValOK v) :
    parseJson (manifest Fmt.defaultManifest 0 v) = .ok v :=
  C05_manifest_parse_roundtrip C05_fmt_default_manifest v hv

/-- `std.toString(v)` / string coercion of a non-string, `manifest_json(v, false)` -/
theorem C05_roundtrip_to_string (v : JVal) (hv : ValOK v) (hns : ∀ s, v ≠ .str s) :
    parseJson (toStringVal v) = .ok v := by
  have : toStringVal v = manifest Fmt.toStringFmt 0 v := by
    cases v <;> first | rfl | exact absurd rfl (hns _)
  rw [this]; exact C05_manifest_parse_roundtrip C05_fmt_to_string v hv

/-- `std.manifestJsonMinified(v)` -/
theorem C05_roundtrip_minified (v : JVal) (hv : ValOK v) :
    parseJson (manifest Fmt.minified 0 v) = .ok v :=
  C05_manifest_parse_roundtrip C05_fmt_minified v hv

/-- `std.manifestJson(v)` -/
theorem C05_roundtrip_manifest_json (v : JVal) (hv : ValOK v) :
    parseJson (manifest Fmt.stdManifestJson 0 v) = .ok v :=
  C05_manifest_parse_roundtrip C05_fmt_std_manifest_json v hv

/-- `std.manifestJsonEx(v, indent, newline, key_val_sep)` for whitespace settings -/
theorem C05_roundtrip_manifest_json_ex {i n k u1 u2 : Str} (hi : WsStr i) (hn : WsStr n)
    (hk : k = u1 ++ 58 :: u2) (h1 : WsStr u1) (h2 : WsStr u2) (v : JVal) (hv : ValOK v) :
    parseJson (manifest (Fmt.ex i n k) 0 v) = .ok v :=
  C05_manifest_parse_roundtrip (C05_fmt_manifest_ex hi hn hk h1 h2) v hv

/-- **C05 manifest_sorted_visible.**  The field list handed to the manifester
    (`get_visible_fields_order`) for an object with fields `fs`
    (name, hidden?, value) with pairwise distinct names: names strictly increasing
    in `str::cmp` order, and exactly the non-hidden fields with their values.
    (That the manifester emits fields in the order of that list, and nothing else,
    is part of `C05_manifest_parse_roundtrip`: the parser returns the same list.) -/
theorem C05_manifest_sorted_visible {α : Type} (fs : List (Str × Bool × α))
    (hnd : (fs.map Prod.fst).Nodup) :
    ((visibleSorted fs).map Prod.fst).Pairwise (fun a b => strLt a b = true) ∧
    ∀ k v, (k, v) ∈ visibleSorted fs ↔ (k, false, v) ∈ fs :=
  ⟨visibleSorted_sorted fs, mem_visibleSorted fs hnd⟩

/-- sorted names are in particular pairwise distinct, as `ValOK` requires -/
theorem C05_sorted_keys_distinct {α : Type} (fs : List (Str × Bool × α)) :
    ((visibleSorted fs).map Prod.fst).Nodup :=
  (visibleSorted_sorted fs).imp (fun h => strLt_ne h)

/-- **C05 toml_plain_is_bare_key.**  A key that `escape_key_toml` leaves
    unquoted is a TOML bare key: non-empty, only `A-Za-z0-9_-`. -/
theorem C05_toml_plain_is_bare_key {s : Str} (h : isSafeTomlPlain s = true) :
    s ≠ [] ∧ ∀ c ∈ s, isBareKeyChar c :=
  tomlPlain_bare h

/-- Full statement of **yaml_plain_not_resolvable** against the YAML 1.2 core
    schema (`coreNonString` transcribes the tag-resolution regexes of §10.3.2). -/
def C05_yaml_plain_not_resolvable_full : Prop :=
  ∀ s : Str, isSafeYamlPlain s = true → coreNonString s = false

/-- The full statement is FALSE for the code as it is: `1e3` (a core-schema
    float) and `0o17` (a core-schema octal int) are emitted bare when
    `quote_keys=false`.  (Inherited from upstream's `std.manifestYamlDoc`; the
    implementation's own `std.parseYaml` and YAML 1.1 parsers read such a key as
    a string; reported to the lead, not a check violation.) -/
theorem C05_yaml_plain_not_resolvable_full_fails : ¬ C05_yaml_plain_not_resolvable_full := by
  intro h
  have := h [49, 101, 51] (by decide)
  exact absurd this (by decide)

/-- **C05 yaml_plain_not_resolvable (partial).**  A key emitted bare is non-empty,
    consists of `[0-9A-Za-z/_.-]` only (so no indicator, space or line break can
    change the document structure), is not a decimal integer, and is none of
    `null true false y yes n no on off .nan .inf +.inf -.inf` in any letter case.
    Missing for the full statement: exponent floats without a dot and `0o` octals
    (see `C05_yaml_plain_not_resolvable_full_fails`). -/
theorem C05_yaml_plain_not_resolvable_partial {s : Str} (h : isSafeYamlPlain s = true) :
    s ≠ [] ∧ (∀ c ∈ s, yPlainChar c = true) ∧ isDecInt s = false ∧
    ∀ w ∈ yamlSpecial, s.map toLowerAscii ≠ w.map toLowerAscii :=
  ⟨(yamlPlain_chars h).1, (yamlPlain_chars h).2, yamlPlain_not_int h, yamlPlain_not_reserved h⟩

/-! ### Non-vacuity -/

/-- a nested value with an escaped key, an empty container and several numbers
    satisfies `ValOK` … -/
def exampleVal : JVal :=
  .obj [([1, 34], .arr [.num [45, 48], .num [49, 46, 53], .str [10, 92], .obj [], .null]),
        ([97], .bool true)]

theorem jn_minus_zero : JsonNumber [45, 48] :=
  ⟨[45], [48], [], [], rfl, Or.inr rfl, Or.inl rfl, Or.inl rfl, Or.inl rfl⟩
theorem jn_one_point_five : JsonNumber [49, 46, 53] :=
  ⟨[], [49], [46, 53], [], rfl, Or.inl rfl, Or.inr ⟨49, [], rfl, by decide, by intro c h; cases h⟩,
   Or.inr ⟨53, [], rfl, by decide, by intro c h; cases h⟩, Or.inl rfl⟩

example : ValOK exampleVal := by
  have h1 := C05_number_tokens jn_minus_zero (by decide)
  have h2 := C05_number_tokens jn_one_point_five (by decide)
  simp only [exampleVal, ValOK, ItemsOK, FieldsOK, and_true, true_and]
  exact ⟨⟨h1, h2, by decide⟩, by decide⟩

/-- … and the theorem's conclusion can be observed on it by computation, in the
    default multi-line format and in the minified one. -/
example : parseJson (manifest Fmt.defaultManifest 0 exampleVal) = .ok exampleVal := rfl
example : manifest Fmt.minified 0 exampleVal =
    [123, 34, 92, 117, 48, 48, 48, 49, 92, 34, 34, 58, 91, 45, 48, 44, 49, 46, 53, 44, 34, 92, 110, 92, 92, 34,
     44, 123, 125, 44, 110, 117, 108, 108, 93, 44, 34, 97, 34, 58, 116, 114, 117, 101, 125] := rfl
example : visibleSorted [([98], false, 1), ([97], true, 2), ([97, 97], false, 3), ([], false, 4)]
    = [([], 4), ([97, 97], 3), ([98], 1)] := rfl
example : isSafeTomlPlain [97, 45, 49] = true ∧ isSafeTomlPlain [97, 32] = false := by decide
example : isSafeYamlPlain [97, 46, 98] = true ∧ isSafeYamlPlain [111, 110] = false := by decide

end Rsj.Json

open Rsj.Json in
#print axioms C05_escape_is_rfc8259
open Rsj.Json in
#print axioms C05_escape_roundtrip
open Rsj.Json in
#print axioms C05_escape_table_covers_controls
open Rsj.Json in
#print axioms C05_escape_model_is_table
open Rsj.Json in
#print axioms C05_manifest_parse_roundtrip
open Rsj.Json in
#print axioms C05_parse_fuel_unreachable
open Rsj.Json in
#print axioms C05_number_tokens
open Rsj.Json in
#print axioms C05_fmt_default_manifest
open Rsj.Json in
#print axioms C05_fmt_to_string
open Rsj.Json in
#print axioms C05_fmt_manifest_ex
open Rsj.Json in
#print axioms C05_fmt_minified
open Rsj.Json in
#print axioms C05_fmt_std_manifest_json
open Rsj.Json in
#print axioms C05_roundtrip_default_output
open Rsj.Json in
#print axioms C05_roundtrip_to_string
open Rsj.Json in
#print axioms C05_roundtrip_minified
open Rsj.Json in
#print axioms C05_roundtrip_manifest_json
open Rsj.Json in
#print axioms C05_roundtrip_manifest_json_ex
open Rsj.Json in
#print axioms C05_manifest_sorted_visible
open Rsj.Json in
#print axioms C05_sorted_keys_distinct
open Rsj.Json in
#print axioms C05_toml_plain_is_bare_key
open Rsj.Json in
#print axioms C05_yaml_plain_not_resolvable_full_fails
open Rsj.Json in
#print axioms C05_yaml_plain_not_resolvable_partial
