/-
  C05 — every emitted document is well-formed and decodes to its value.
  Property theorems only.  Lemmas: RsjProofs/JsonEscape.lean (escaper vs string
  lexer), JsonParse.lean (round trip), JsonNumber.lean (RFC 8259 numbers are
  number tokens), JsonFields.lean (field order), JsonKeys.lean (key quoting).

  Model: RsjModel/Json.lean — `escape` = escape_string_json, `manifest` =
  do_manifest_json with a `ManifestJsonFormat`, `parseJson` = parse_json.rs,
  `visibleSorted` = get_visible_fields_order of a single-layer object,
  `isSafeYamlPlain` / `isSafeTomlPlain`.  Numbers are their text tokens.

  Second part (end of file): the YAML document emitter (`RsjModel/Yaml.lean`) and
  the TOML writer (`RsjModel/Toml.lean`).  The READERS the round trips go through
  (`readYaml`: RsjProofs/YamlRead.lean; `readToml`, `readBasicString`, `readKey`:
  RsjProofs/TomlRead.lean, TomlSem.lean, Toml.lean) are specifications of the
  sub-languages the writers use, written from the YAML 1.2.2 / TOML 1.0.0 texts;
  they are not models of Rust code.  Lemmas: RsjProofs/Toml*.lean, Yaml*.lean,
  NumChars.lean.
-/
import RsjProofs.JsonParse
import RsjProofs.JsonNumber
import RsjProofs.JsonFields
import RsjProofs.JsonKeys
import RsjProofs.JsonEscapeTable
import RsjProofs.JsonFuel
import RsjProofs.TomlRoundtrip
import RsjProofs.YamlStream
import RsjProofs.YamlModelEq
namespace Rsj.Json

/-- **C05 escape_is_rfc8259.**  The text `escape_string_json` writes between the
    two quotation marks is an RFC 8259 `*char`: every character is ≥ U+0020, and
    `"` / `\` occur only as part of an escape sequence (`rfcBody` transcribes
    RFC 8259 §7: unescaped = %x20-21 / %x23-5B / %x5D-10FFFF, or `\` followed by one
    of `" \ / b f n r t`, or `u` and four hex digits). -/
theorem C05_escape_is_rfc8259 (s : Str) :
    ∃ body, escape s = 34 :: (body ++ [34]) ∧ rfcBody body = true ∧ ∀ c ∈ body, 0x20 ≤ c :=
  ⟨escapeBody s, rfl, rfcBody_escapeBody s, escapeBody_ge s⟩

/-- **C05 escape_roundtrip.**  The JSON string lexer of `parse_json.rs` reads the
    escaped text back to exactly the original code points and stops right after
    the closing quote — for every string (all code points, all controls) and
    every continuation `rest`. -/
theorem C05_escape_roundtrip (s rest : Str) :
    lexString (escape s ++ rest) = .ok (some (s, rest)) :=
  lexString_escape s rest

/-- **C05 escape_table_covers_controls** (generated obligation).  In the table
    extracted from `escape_string_json` in manifest.rs
    (`RsjModel/EscapeTable.lean`, regenerated on every run), every control
    character below U+0020 is matched by an arm, i.e. never pushed raw.  (This is
    the statement the tree with the `'\u{19}'` bound failed.) -/
theorem C05_escape_table_covers_controls : ∀ c, c < 0x20 → (tableLookup c).isSome = true :=
  table_covers_controls

/-- The model escaper the other theorems talk about IS the extracted table:
    for every code point, `escapeChar` equals first-match lookup in it. -/
theorem C05_escape_model_is_table (c : Nat) : escapeChar c = tableEscape c :=
  escapeChar_eq_table c

/-- **C05 manifest_parse_roundtrip.**  For every format whose indent and newline
    are JSON whitespace and whose separators are whitespace around `:` / `,`
    (`FmtOK`), and every value whose numbers are number tokens and whose objects
    have pairwise distinct keys (`ValOK`): parsing the manifested text gives back
    exactly the value — same number tokens, same code points in every string and
    key, same nesting, same field order. -/
theorem C05_manifest_parse_roundtrip {f : Fmt} (hf : FmtOK f) (v : JVal) (hv : ValOK v) :
    parseJson (manifest f 0 v) = .ok v :=
  parseJson_manifest hf v hv

/-- The fuel of the model's outer loop is a proof device only: `parse_json`'s
    outer loop consumes a character per iteration, so "out of fuel" is never the
    outcome — the model parser is total with the implementation's outcomes. -/
theorem C05_parse_fuel_unreachable (s : Str) : parseJson s ≠ .error .fuel :=
  parseJson_nf s

/-- The number hypothesis of the round trip is met by every RFC 8259 number
    (`[-] int [frac] [exp]`, in particular by everything `Display for f64` prints:
    `-?digits(.digits)?`) whose magnitude is below the overflow threshold of
    `str::parse::<f64>` (2^1024 - 2^970). -/
theorem C05_number_tokens {t : Str} (ht : JsonNumber t) (hfin : overflows t = false) : NumTok t :=
  numTok_of_jsonNumber ht hfin

/-! The formats the implementation actually uses satisfy `FmtOK`. -/

theorem C05_fmt_default_manifest : FmtOK Fmt.defaultManifest :=
  ⟨by decide, by decide, ⟨[], [32], rfl, by decide, by decide⟩, ⟨[], [], rfl, by decide, by decide⟩,
   fun e h => ⟨[32], by cases h; rfl, by decide⟩, fun e h => ⟨[32], by cases h; rfl, by decide⟩⟩

theorem C05_fmt_to_string : FmtOK Fmt.toStringFmt :=
  ⟨by decide, by decide, ⟨[], [32], rfl, by decide, by decide⟩, ⟨[], [32], rfl, by decide, by decide⟩,
   fun e h => ⟨[32], by cases h; rfl, by decide⟩, fun e h => ⟨[32], by cases h; rfl, by decide⟩⟩

/-- `std.manifestJsonEx(v, indent, newline, key_val_sep)` with whitespace settings
    (this is exactly the set of settings for which the output is JSON at all). -/
theorem C05_fmt_manifest_ex {i n k u1 u2 : Str} (hi : WsStr i) (hn : WsStr n)
    (hk : k = u1 ++ 58 :: u2) (h1 : WsStr u1) (h2 : WsStr u2) : FmtOK (Fmt.ex i n k) :=
  ⟨hi, hn, ⟨u1, u2, hk, h1, h2⟩, ⟨[], [], rfl, by decide, by decide⟩,
   (fun e h => by simp [Fmt.ex] at h), (fun e h => by simp [Fmt.ex] at h)⟩

theorem C05_fmt_minified : FmtOK Fmt.minified :=
  C05_fmt_manifest_ex (u1 := []) (u2 := []) (by decide) (by decide) rfl (by decide) (by decide)

theorem C05_fmt_std_manifest_json : FmtOK Fmt.stdManifestJson :=
  C05_fmt_manifest_ex (u1 := []) (u2 := [32]) (by decide) (by decide) rfl (by decide) (by decide)

/-! The round trip at each JSON entry point of the implementation. -/

/-- default output of the CLI / library (`Program::manifest_json(v, true)`), also the
    items of `-y` streams and the files of `-m` -/
theorem C05_roundtrip_default_output (v : JVal) (hv : ValOK v) :
    parseJson (manifest Fmt.defaultManifest 0 v) = .ok v :=
  C05_manifest_parse_roundtrip C05_fmt_default_manifest v hv

/-- `std.toString(v)` / string coercion of a non-string, `manifest_json(v, false)` -/
theorem C05_roundtrip_to_string (v : JVal) (hv : ValOK v) (hns : ∀ s, v ≠ .str s) :
    parseJson (toStringVal v) = .ok v := by
  have : toStringVal v = manifest Fmt.toStringFmt 0 v := by
    cases v <;> first | rfl | exact absurd rfl (hns _)
  rw [this]; exact C05_manifest_parse_roundtrip C05_fmt_to_string v hv

/-- `std.manifestJsonMinified(v)` -/
theorem C05_roundtrip_minified (v : JVal) (hv : ValOK v) :
    parseJson (manifest Fmt.minified 0 v) = .ok v :=
  C05_manifest_parse_roundtrip C05_fmt_minified v hv

/-- `std.manifestJson(v)` -/
theorem C05_roundtrip_manifest_json (v : JVal) (hv : ValOK v) :
    parseJson (manifest Fmt.stdManifestJson 0 v) = .ok v :=
  C05_manifest_parse_roundtrip C05_fmt_std_manifest_json v hv

/-- `std.manifestJsonEx(v, indent, newline, key_val_sep)` for whitespace settings -/
theorem C05_roundtrip_manifest_json_ex {i n k u1 u2 : Str} (hi : WsStr i) (hn : WsStr n)
    (hk : k = u1 ++ 58 :: u2) (h1 : WsStr u1) (h2 : WsStr u2) (v : JVal) (hv : ValOK v) :
    parseJson (manifest (Fmt.ex i n k) 0 v) = .ok v :=
  C05_manifest_parse_roundtrip (C05_fmt_manifest_ex hi hn hk h1 h2) v hv

/-- **C05 manifest_sorted_visible.**  The field list handed to the manifester
    (`get_visible_fields_order`) for an object with fields `fs`
    (name, hidden?, value) with pairwise distinct names: names strictly increasing
    in `str::cmp` order, and exactly the non-hidden fields with their values.
    (That the manifester emits fields in the order of that list, and nothing else,
    is part of `C05_manifest_parse_roundtrip`: the parser returns the same list.) -/
theorem C05_manifest_sorted_visible {α : Type} (fs : List (Str × Bool × α))
    (hnd : (fs.map Prod.fst).Nodup) :
    ((visibleSorted fs).map Prod.fst).Pairwise (fun a b => strLt a b = true) ∧
    ∀ k v, (k, v) ∈ visibleSorted fs ↔ (k, false, v) ∈ fs :=
  ⟨visibleSorted_sorted fs, mem_visibleSorted fs hnd⟩

/-- sorted names are in particular pairwise distinct, as `ValOK` requires -/
theorem C05_sorted_keys_distinct {α : Type} (fs : List (Str × Bool × α)) :
    ((visibleSorted fs).map Prod.fst).Nodup :=
  (visibleSorted_sorted fs).imp (fun h => strLt_ne h)

/-- **C05 toml_plain_is_bare_key.**  A key that `escape_key_toml` leaves
    unquoted is a TOML bare key: non-empty, only `A-Za-z0-9_-`. -/
theorem C05_toml_plain_is_bare_key {s : Str} (h : isSafeTomlPlain s = true) :
    s ≠ [] ∧ ∀ c ∈ s, isBareKeyChar c :=
  tomlPlain_bare h

/-- Full statement of **yaml_plain_not_resolvable** against the YAML 1.2 core
    schema (`coreNonString` transcribes the tag-resolution regexes of §10.3.2). -/
def C05_yaml_plain_not_resolvable_full : Prop :=
  ∀ s : Str, isSafeYamlPlain s = true → coreNonString s = false

/-- The full statement is FALSE for the code as it is: `1e3` (a core-schema
    float) and `0o17` (a core-schema octal int) are emitted bare when
    `quote_keys=false`.  (Inherited from upstream's `std.manifestYamlDoc`; the
    implementation's own `std.parseYaml` and YAML 1.1 parsers read such a key as
    a string; reported to the lead, not a check violation.) -/
theorem C05_yaml_plain_not_resolvable_full_fails : ¬ C05_yaml_plain_not_resolvable_full := by
  intro h
  have := h [49, 101, 51] (by decide)
  exact absurd this (by decide)

/-- **C05 yaml_plain_not_resolvable (partial).**  A key emitted bare is non-empty,
    consists of `[0-9A-Za-z/_.-]` only (so no indicator, space or line break can
    change the document structure), is not a decimal integer, and is none of
    `null true false y yes n no on off .nan .inf +.inf -.inf` in any letter case.
    Missing for the full statement: exponent floats without a dot and `0o` octals
    (see `C05_yaml_plain_not_resolvable_full_fails`). -/
theorem C05_yaml_plain_not_resolvable_partial {s : Str} (h : isSafeYamlPlain s = true) :
    s ≠ [] ∧ (∀ c ∈ s, yPlainChar c = true) ∧ isDecInt s = false ∧
    ∀ w ∈ yamlSpecial, s.map toLowerAscii ≠ w.map toLowerAscii :=
  ⟨(yamlPlain_chars h).1, (yamlPlain_chars h).2, yamlPlain_not_int h, yamlPlain_not_reserved h⟩

/-! ### Non-vacuity -/

/-- a nested value with an escaped key, an empty container and several numbers
    satisfies `ValOK` … -/
def exampleVal : JVal :=
  .obj [([1, 34], .arr [.num [45, 48], .num [49, 46, 53], .str [10, 92], .obj [], .null]),
        ([97], .bool true)]

theorem jn_minus_zero : JsonNumber [45, 48] :=
  ⟨[45], [48], [], [], rfl, Or.inr rfl, Or.inl rfl, Or.inl rfl, Or.inl rfl⟩
theorem jn_one_point_five : JsonNumber [49, 46, 53] :=
  ⟨[], [49], [46, 53], [], rfl, Or.inl rfl, Or.inr ⟨49, [], rfl, by decide, by intro c h; cases h⟩,
   Or.inr ⟨53, [], rfl, by decide, by intro c h; cases h⟩, Or.inl rfl⟩

example : ValOK exampleVal := by
  have h1 := C05_number_tokens jn_minus_zero (by decide)
  have h2 := C05_number_tokens jn_one_point_five (by decide)
  simp only [exampleVal, ValOK, ItemsOK, FieldsOK, and_true, true_and]
  exact ⟨⟨h1, h2, by decide⟩, by decide⟩

/-- … and the theorem's conclusion can be observed on it by computation, in the
    default multi-line format and in the minified one. -/
example : parseJson (manifest Fmt.defaultManifest 0 exampleVal) = .ok exampleVal := rfl
example : manifest Fmt.minified 0 exampleVal =
    [123, 34, 92, 117, 48, 48, 48, 49, 92, 34, 34, 58, 91, 45, 48, 44, 49, 46, 53, 44, 34, 92, 110, 92, 92, 34,
     44, 123, 125, 44, 110, 117, 108, 108, 93, 44, 34, 97, 34, 58, 116, 114, 117, 101, 125] := rfl
example : visibleSorted [([98], false, 1), ([97], true, 2), ([97, 97], false, 3), ([], false, 4)]
    = [([], 4), ([97, 97], 3), ([98], 1)] := rfl
example : isSafeTomlPlain [97, 45, 49] = true ∧ isSafeTomlPlain [97, 32] = false := by decide
example : isSafeYamlPlain [97, 46, 98] = true ∧ isSafeYamlPlain [111, 110] = false := by decide

end Rsj.Json

open Rsj.Json in
#print axioms C05_escape_is_rfc8259
open Rsj.Json in
#print axioms C05_escape_roundtrip
open Rsj.Json in
#print axioms C05_escape_table_covers_controls
open Rsj.Json in
#print axioms C05_escape_model_is_table
open Rsj.Json in
#print axioms C05_manifest_parse_roundtrip
open Rsj.Json in
#print axioms C05_parse_fuel_unreachable
open Rsj.Json in
#print axioms C05_number_tokens
open Rsj.Json in
#print axioms C05_fmt_default_manifest
open Rsj.Json in
#print axioms C05_fmt_to_string
open Rsj.Json in
#print axioms C05_fmt_manifest_ex
open Rsj.Json in
#print axioms C05_fmt_minified
open Rsj.Json in
#print axioms C05_fmt_std_manifest_json
open Rsj.Json in
#print axioms C05_roundtrip_default_output
open Rsj.Json in
#print axioms C05_roundtrip_to_string
open Rsj.Json in
#print axioms C05_roundtrip_minified
open Rsj.Json in
#print axioms C05_roundtrip_manifest_json
open Rsj.Json in
#print axioms C05_roundtrip_manifest_json_ex
open Rsj.Json in
#print axioms C05_manifest_sorted_visible
open Rsj.Json in
#print axioms C05_sorted_keys_distinct
open Rsj.Json in
#print axioms C05_toml_plain_is_bare_key
open Rsj.Json in
#print axioms C05_yaml_plain_not_resolvable_full_fails
open Rsj.Json in
#print axioms C05_yaml_plain_not_resolvable_partial


/-! # The YAML and TOML writers -/

namespace Rsj.Toml
open Rsj.Json

/-- **C05 toml_string_roundtrip.**  A TOML v1.0.0 basic-string reader
    (`readBasicString`, ABNF `basic-string` with the escapes `\b \t \n \f \r \" \\
    \uXXXX \UXXXXXXXX` and `basic-unescaped` characters only) reads the text of
    `escape_string_toml` back to exactly the original code points and stops right
    after the closing quote — for every string and every continuation. -/
theorem C05_toml_string_roundtrip (s rest : Str) :
    readBasicString (escape s ++ rest) = some (s, rest) :=
  readBasicString_escape s rest

/-- **C05 toml_string_no_control.**  `escape_string_toml` never writes a control
    character raw: every character of its output is ≥ U+0020 and outside
    U+007F..U+009F (TOML forbids U+0000..U+0008, U+000A..U+001F, U+007F in basic
    strings). -/
theorem C05_toml_string_no_control (s : Str) :
    ∀ c ∈ escape s, 0x20 ≤ c ∧ ¬ (0x7F ≤ c ∧ c ≤ 0x9F) :=
  escape_notControl s

/-- **C05 toml_key_forms.**  Every key `escape_key_toml` emits is either the field
    name itself and a TOML bare key (non-empty, `A-Za-z0-9_-` only), or the quoted
    basic string of the field name. -/
theorem C05_toml_key_forms (k : Str) :
    (escapeKeyToml k = k ∧ k ≠ [] ∧ ∀ c ∈ k, isBare c = true) ∨
    (escapeKeyToml k = escape k ∧ isSafeTomlPlain k = false) :=
  escapeKeyToml_forms k

/-- **C05 toml_key_roundtrip.**  A TOML `simple-key` reader (bare or basic-quoted)
    reads an emitted key back to the field name, whenever the key is followed by
    something that is not a bare-key character (the writer follows keys by a space,
    `.` or `]`). -/
theorem C05_toml_key_roundtrip (k rest : Str) (hr : ∀ c r', rest = c :: r' → isBare c = false) :
    readKey (escapeKeyToml k ++ rest) = some (k, rest) :=
  readKey_escapeKeyToml k rest hr

/-- **C05 toml_outcome.**  `std.manifestTomlEx(value, indent)` fails with the
    type error exactly for non-objects, with "cannot manifest null in TOML" exactly
    for objects containing `null` anywhere (hidden fields never reach the writer),
    and never reaches the `unreachable!()` arms of `do_manifest_toml_table`. -/
theorem C05_toml_outcome (ind : Str) (v : JVal) :
    (manifestTomlEx ind v = .error .notObject ↔ ∀ fs, v ≠ .obj fs) ∧
    (manifestTomlEx ind v = .error .nullValue ↔ ∃ fs, v = .obj fs ∧ hasNullF fs = true) ∧
    ((∃ t, manifestTomlEx ind v = .ok t) ↔ ∃ fs, v = .obj fs ∧ hasNullF fs = false) ∧
    manifestTomlEx ind v ≠ .error .unreachable := by
  refine ⟨?_, ?_, ?_, manifestTomlEx_ne_unreachable ind v⟩
  all_goals
    cases v with
    | obj fs =>
      rw [manifestTomlEx_obj]; unfold outcome
      cases h : hasNullF fs <;> simp [h]
    | _ => simp [manifestTomlEx]

/-- **C05 toml_integers_in_range** (token level).  The number arm of the writer
    emits `tomlNum t` for the number token `t` (`t ++ ".0"` exactly when `t` is an
    integer literal — `-`? digits — of magnitude ≥ 2^63, the model of
    `if n.abs() >= 9223372036854775808.0 { push_str(".0") }`).  Whenever the
    emitted token is a TOML integer literal, i.e. has no `.`, `e`, `E`, it is
    `-`? digits with magnitude < 2^63: inside the signed 64-bit range every TOML
    parser must accept. -/
theorem C05_toml_integers_in_range {t : Str} (ht : NumTok t)
    (h : ∀ c ∈ tomlNum t, c ≠ 46 ∧ c ≠ 101 ∧ c ≠ 69) :
    tomlNum t = t ∧ isIntLit t = true ∧ digitsVal (intBody t) 0 < 2 ^ 63 :=
  tomlNum_int_in_range ht h

/-- the writer's number arm is `tomlNum` (at every depth, in both array layouts) -/
theorem C05_toml_number_arm (ind : Str) (d : Nat) (sg : Bool) (t : Str) :
    tomlValue ind d sg (.num t) = .ok (tomlNum t) := rfl

/-- `tomlNum` leaves the token alone or appends `.0` to an integer literal (the same
    number, written as a TOML float); a number token stays a number token. -/
theorem C05_toml_number_spelling {t : Str} (ht : NumTok t) :
    (tomlNum t = t ∨ (tomlNum t = t ++ [46, 48] ∧ isIntLit t = true)) ∧ NumTok (tomlNum t) :=
  ⟨tomlNum_cases t, numTok_tomlNum ht⟩

/-- **C05 toml_roundtrip.**  For an indent string of TOML whitespace (spaces /
    tabs; `std.manifestToml` uses two spaces) and every null-free object whose
    numbers are number tokens and whose objects have pairwise distinct keys
    (`ValOK`, the side conditions of `C05_manifest_parse_roundtrip`): the writer
    succeeds, and the TOML reader `readToml` — `key = value` lines, inline arrays
    and tables, `[table]` and `[[array-of-tables]]` headers folded with TOML's
    table semantics (open header tables, closed inline values, the last item of an
    array of tables) — returns the object with the numbers in the writer's spelling
    (`numsF`: every token `t` as `tomlNum t`, i.e. integer tokens of magnitude ≥ 2^63
    as the float `t.0`, the same number; see `C05_toml_number_spelling`) and the
    fields of every table listed in document order (`normT`: plain fields first,
    then sub-tables), which is that value up to the order of object fields
    (`JEquiv`; TOML tables are unordered). -/
theorem C05_toml_roundtrip (ind : Str) (hi : IndOK ind) (fs : List (Str × JVal))
    (hv : ValOK (.obj fs)) (hn : hasNullF fs = false) :
    ∃ text, manifestTomlEx ind (.obj fs) = .ok text ∧
      readToml text = some (.obj (normT (numsF fs))) ∧
      JEquiv (.obj (numsF fs)) (.obj (normT (numsF fs))) := by
  obtain ⟨text, h1, h2⟩ := readToml_manifest ind hi fs hv hn
  exact ⟨text, h1, h2, normT_equiv (numsF fs)⟩

/-- … and when no number is an integer of magnitude ≥ 2^63 (`NoBigIntF`), the
    reader returns the value itself up to field order. -/
theorem C05_toml_roundtrip_small (ind : Str) (hi : IndOK ind) (fs : List (Str × JVal))
    (hv : ValOK (.obj fs)) (hn : hasNullF fs = false) (hs : NoBigIntF fs) :
    ∃ text, manifestTomlEx ind (.obj fs) = .ok text ∧
      readToml text = some (.obj (normT fs)) ∧ JEquiv (.obj fs) (.obj (normT fs)) := by
  have := C05_toml_roundtrip ind hi fs hv hn
  rwa [numsF_eq_self fs hs] at this

/-- `std.manifestToml(value) = std.manifestTomlEx(value, "  ")` -/
theorem C05_toml_roundtrip_manifestToml (fs : List (Str × JVal))
    (hv : ValOK (.obj fs)) (hn : hasNullF fs = false) :
    ∃ text, manifestToml (.obj fs) = .ok text ∧
      readToml text = some (.obj (normT (numsF fs))) ∧
      JEquiv (.obj (numsF fs)) (.obj (normT (numsF fs))) :=
  C05_toml_roundtrip [32, 32] (by intro c hc; simp at hc; subst hc; rfl) fs hv hn

/-! ### Non-vacuity -/

/-- a table with a plain field after a sub-table, an array of tables with an empty
    item, an array mixing a table and a number, a quoted key, an empty table … -/
def exampleToml : List (Str × JVal) :=
  [([97], .obj [([98], .obj [([99], .num [49])]), ([122], .str [115, 10])]),
   ([98, 32], .num [45, 48]),
   ([99], .arr [.obj [([120], .bool true)], .obj []]),
   ([100], .arr [.obj [], .num [49, 46, 53]]),
   ([101], .obj [])]

example : ValOK (.obj exampleToml) := by
  have h0 := C05_number_tokens jn_minus_zero (by decide)
  have h1 := C05_number_tokens jn_one_point_five (by decide)
  have h2 : NumTok [49] :=
    C05_number_tokens ⟨[], [49], [], [], rfl, Or.inl rfl,
      Or.inr ⟨49, [], rfl, by decide, by intro c h; cases h⟩, Or.inl rfl, Or.inl rfl⟩ (by decide)
  simp only [exampleToml, ValOK, ItemsOK, FieldsOK, and_true, true_and]
  refine ⟨⟨⟨⟨h2, ?_⟩, ?_⟩, h0, ?_, ⟨?_, h1⟩, ?_⟩, ?_⟩ <;> decide

example : hasNullF exampleToml = false := by decide

/-- … the text the model writes for it with a two-space indent:
```
"b " = -0
d = [
  {  },
  1.5
]

[a]
  z = "s\n"

  [a.b]
    c = 1

[[c]]
  x = true

[[c]]

[e]
``` -/
example : manifestToml (.obj exampleToml) = .ok
    [34, 98, 32, 34, 32, 61, 32, 45, 48, 10, 100, 32, 61, 32, 91, 10, 32, 32, 123, 32, 32, 125, 44, 10, 32,
     32, 49, 46, 53, 10, 93, 10, 10, 91, 97, 93, 10, 32, 32, 122, 32, 61, 32, 34, 115, 92, 110, 34, 10, 10,
     32, 32, 91, 97, 46, 98, 93, 10, 32, 32, 32, 32, 99, 32, 61, 32, 49, 10, 10, 91, 91, 99, 93, 93, 10, 32,
     32, 120, 32, 61, 32, 116, 114, 117, 101, 10, 10, 91, 91, 99, 93, 93, 10, 10, 91, 101, 93] := rfl

/-- … and the reader's answer on that text, by computation: the fields of every
    table in document order … -/
example : (manifestToml (.obj exampleToml)).toOption.bind readToml =
    some (.obj
      [([98, 32], .num [45, 48]), ([100], .arr [.obj [], .num [49, 46, 53]]),
       ([97], .obj [([122], .str [115, 10]), ([98], .obj [([99], .num [49])])]),
       ([99], .arr [.obj [([120], .bool true)], .obj []]), ([101], .obj [])]) := rfl

/-- … which is `normT` of the value. -/
example : normT exampleToml =
    [([98, 32], .num [45, 48]), ([100], .arr [.obj [], .num [49, 46, 53]]),
     ([97], .obj [([122], .str [115, 10]), ([98], .obj [([99], .num [49])])]),
     ([99], .arr [.obj [([120], .bool true)], .obj []]), ([101], .obj [])] := by
  simp [normT, plainN, subsN, arrN, isSubTable, isObj, exampleToml]

/-- the 64-bit boundary: `2^63` (printed `9223372036854776000` by `Display`) and
    `-2^63` get `.0`, the largest double below 2^63 (printed `9223372036854775000`)
    does not; the document is
    `a = 9223372036854776000.0` / `b = -9223372036854776000.0` / `c = 9223372036854775000` -/
def exampleBig : List (Str × JVal) :=
  [([97], .num [57, 50, 50, 51, 51, 55, 50, 48, 51, 54, 56, 53, 52, 55, 55, 54, 48, 48, 48]), ([98], .num (45 :: [57, 50, 50, 51, 51, 55, 50, 48, 51, 54, 56, 53, 52, 55, 55, 54, 48, 48, 48])), ([99], .num [57, 50, 50, 51, 51, 55, 50, 48, 51, 54, 56, 53, 52, 55, 55, 53, 48, 48, 48])]

example : bigInt [57, 50, 50, 51, 51, 55, 50, 48, 51, 54, 56, 53, 52, 55, 55, 54, 48, 48, 48] = true ∧ bigInt (45 :: [57, 50, 50, 51, 51, 55, 50, 48, 51, 54, 56, 53, 52, 55, 55, 54, 48, 48, 48]) = true ∧ bigInt [57, 50, 50, 51, 51, 55, 50, 48, 51, 54, 56, 53, 52, 55, 55, 53, 48, 48, 48] = false := by decide

example : manifestTomlEx [] (.obj exampleBig) = .ok
    ([97, 32, 61, 32, 57, 50, 50, 51, 51, 55, 50, 48, 51, 54, 56, 53, 52, 55, 55, 54, 48, 48, 48, 46, 48] ++ 10 :: [98, 32, 61, 32, 45, 57, 50, 50, 51, 51, 55, 50, 48, 51, 54, 56, 53, 52, 55, 55, 54, 48, 48, 48, 46, 48] ++ 10 :: [99, 32, 61, 32, 57, 50, 50, 51, 51, 55, 50, 48, 51, 54, 56, 53, 52, 55, 55, 53, 48, 48, 48]) := rfl

example : (manifestTomlEx [] (.obj exampleBig)).toOption.bind readToml =
    some (.obj [([97], .num ([57, 50, 50, 51, 51, 55, 50, 48, 51, 54, 56, 53, 52, 55, 55, 54, 48, 48, 48] ++ [46, 48])), ([98], .num (45 :: [57, 50, 50, 51, 51, 55, 50, 48, 51, 54, 56, 53, 52, 55, 55, 54, 48, 48, 48] ++ [46, 48])), ([99], .num [57, 50, 50, 51, 51, 55, 50, 48, 51, 54, 56, 53, 52, 55, 55, 53, 48, 48, 48])]) := rfl

example : manifestTomlEx [] (.obj [([97], .arr [.null])]) = .error .nullValue := rfl
example : manifestTomlEx [] (.arr []) = .error .notObject := rfl

end Rsj.Toml

namespace Rsj.Yaml
open Rsj.Json

/-- Full statement of the YAML round trip: every value whose numbers are number
    tokens, whose objects have distinct keys, and whose bare keys the core schema
    reads as strings (`KeysOK`; trivially true for `quote_keys = true`). -/
def C05_yaml_roundtrip_full : Prop :=
  ∀ (iaio qk : Bool) (v : JVal), ValOK v → KeysOK qk v → readYaml (manifestYamlDoc iaio qk v) = some v

/-- The full statement is FALSE for the code as it is: a string ending in a line
    feed is written as a `|` block scalar with nothing after its last line, and
    YAML's default (clip) chomping keeps the final line break only if there is one
    in the text: `std.manifestYamlDoc("a\n")` is `|` / `  a`, which denotes `"a"`.
    (Upstream's documented behaviour; the property's quantifier excludes strings
    ending in a newline.  Other shapes that are not read back even when the text
    goes on: a last line that is empty, `"a\n\n"`; a first line starting with a
    space, `" a\n"`, because the indentation is detected from it; non-printable
    characters, which a block scalar cannot escape.) -/
theorem C05_yaml_roundtrip_full_fails : ¬ C05_yaml_roundtrip_full := by
  intro h
  have h1 : readYaml (manifestYamlDoc false true (.str [97, 10])) = some (.str [97, 10]) :=
    h false true (.str [97, 10]) trivial trivial
  have h2 : readYaml (manifestYamlDoc false true (.str [97, 10])) = some (.str [97]) := rfl
  rw [h2] at h1
  injection h1 with h1; injection h1 with h1
  exact absurd h1 (by decide)

/-- **C05 yaml_roundtrip (partial: no block scalars).**  For every value in the
    property's quantifier — numbers are number tokens, objects have pairwise
    distinct keys (`ValOK`), no string value ends in a line feed (`NoBlock`) — and
    both settings of `indent_array_in_object` and `quote_keys` (with
    `quote_keys = false`: every key written bare is one the YAML 1.2 core schema
    resolves to a string, `KeysOK`; see `C05_yaml_plain_not_resolvable_full_fails`
    for the keys this excludes): the YAML reader `readYaml` — block sequences and
    mappings with detected indentation, compact `- key: …` entries, sequences at
    the indentation of their key, `[]`, `{}`, double-quoted scalars, plain
    `null/true/false`/numbers, plain and quoted keys, duplicate keys rejected —
    returns exactly the value: same nesting, field order, code points, number
    tokens.  Missing for the full statement: block scalars, see
    `C05_yaml_roundtrip_full_fails`. -/
theorem C05_yaml_roundtrip_partial (iaio qk : Bool) (v : JVal)
    (hv : ValOK v) (hb : NoBlock v) (hk : KeysOK qk v) :
    readYaml (manifestYamlDoc iaio qk v) = some v :=
  readYaml_manifest iaio qk v hv hb hk

/-- the defaults of `std.manifestYamlDoc(value)`: `indent_array_in_object = false`,
    `quote_keys = true` (every key quoted: no condition on keys) -/
theorem C05_yaml_roundtrip_default (v : JVal) (hv : ValOK v) (hb : NoBlock v) :
    readYaml (manifestYamlDoc false true v) = some v :=
  readYaml_manifest false true v hv hb (keysOK_true v)

/-- **C05 yaml_roundtrip_block.**  Beyond the property's quantifier: strings
    ending in a line feed (`|` block scalars) are read back too, PROVIDED the text
    goes on with a line break after the document (as in `std.manifestYamlStream`,
    or a file written by the CLI, which appends one) and every such string has a
    shape a block scalar can carry (`BlockOK` / `BlockShapeOK`: only printable
    `nb-char`s, a last line that is not empty, a first non-empty line that does not
    start with a space and is preceded by empty lines only).  Every value without
    such strings satisfies `BlockOK` (`NoBlock.blockOK`). -/
theorem C05_yaml_roundtrip_block (iaio qk : Bool) (v : JVal)
    (hv : ValOK v) (hb : BlockOK v) (hk : KeysOK qk v) :
    readYaml (manifestYamlDoc iaio qk v ++ [10]) = some v :=
  readYaml_manifest_nl iaio qk v hv hb hk

/-- **C05 yaml_stream_roundtrip.**  `std.manifestYamlStream(docs, iaio, c_document_end,
    quote_keys)` for a non-empty array of documents: the stream reader
    (`readYamlStream`: `---` marker lines, optional `...`, every document read by
    `readYaml` with the line break that follows it) returns exactly the documents.
    (For `[]` the writer emits one empty document, as upstream does.) -/
theorem C05_yaml_stream_roundtrip (iaio cde qk : Bool) (docs : List JVal) (hne : docs ≠ [])
    (hv : ∀ d ∈ docs, ValOK d) (hb : ∀ d ∈ docs, BlockOK d) (hk : ∀ d ∈ docs, KeysOK qk d) :
    readYamlStream (manifestYamlStream iaio cde qk docs) = some docs :=
  readYamlStream_manifest iaio cde qk docs hne hv hb hk

/-- The YAML model of `RsjModel/Yaml.lean` and the older one inside
    `RsjModel/Json.lean` (the one the `json manifest Y:…` comparison of the check
    uses) are the same functions. -/
theorem C05_yaml_models_agree (iaio qk cde : Bool) (v : JVal) (docs : List JVal) :
    Rsj.Yaml.manifestYamlDoc iaio qk v = Rsj.Json.manifestYamlDoc iaio qk v ∧
    Rsj.Yaml.manifestYamlStream iaio cde qk docs = Rsj.Json.manifestYamlStream iaio cde qk docs :=
  ⟨manifestYamlDoc_eq_json iaio qk v, manifestYamlStream_eq_json iaio cde qk docs⟩

/-! ### Non-vacuity -/

/-- an object with a bare and a quoted key, an array in an object, an object in an
    array (compact form), a nested array, empty collections, a string with a line
    feed inside (quoted), numbers … -/
def exampleYaml : JVal :=
  .obj [([97], .arr [.num [49], .obj [([98], .str [120, 10, 121]), ([99, 32], .arr [.arr [.null]])], .arr [],
          .obj []]),
        ([45, 97], .bool false)]

example : ValOK exampleYaml ∧ NoBlock exampleYaml ∧ KeysOK false exampleYaml := by
  have h2 : NumTok [49] :=
    C05_number_tokens ⟨[], [49], [], [], rfl, Or.inl rfl,
      Or.inr ⟨49, [], rfl, by decide, by intro c h; cases h⟩, Or.inl rfl, Or.inl rfl⟩ (by decide)
  refine ⟨?_, ?_, ?_⟩
  · simp only [exampleYaml, ValOK, ItemsOK, FieldsOK, and_true, true_and]
    exact ⟨⟨h2, by decide⟩, by decide⟩
  · simp only [exampleYaml, NoBlock, NoBlockL, NoBlockF, and_true, true_and]
    decide
  · simp only [exampleYaml, KeysOK, KeysOKL, KeysOKF, KeyOK, and_true, true_and]
    decide

/-- the text with `quote_keys = false`:
```
a:
- 1
- b: "x\ny"
  "c ":
  -
    - null
- []
- {}
-a: false
``` -/
example : manifestYamlDoc false false exampleYaml =
    [97, 58, 10, 45, 32, 49, 10, 45, 32, 98, 58, 32, 34, 120, 92, 110, 121, 34, 10, 32, 32, 34, 99, 32, 34,
     58, 10, 32, 32, 45, 10, 32, 32, 32, 32, 45, 32, 110, 117, 108, 108, 10, 45, 32, 91, 93, 10, 45, 32, 123,
     125, 10, 45, 97, 58, 32, 102, 97, 108, 115, 101] := rfl

example : readYaml (manifestYamlDoc false false exampleYaml) = some exampleYaml := rfl
example : readYaml (manifestYamlDoc true true exampleYaml) = some exampleYaml := rfl

/-- a value with block scalars of every permitted shape (leading empty line, more
    indented and space-only lines) at item, field and end position … -/
def exampleBlock : JVal :=
  .arr [.str [10, 97, 10, 32, 32, 98, 10], .obj [([107], .str [120, 10, 10, 121, 10, 32, 10])], .str [122, 10]]

example : ValOK exampleBlock ∧ BlockOK exampleBlock := by
  refine ⟨by simp [exampleBlock, ValOK, ItemsOK, FieldsOK, keysOf], ?_⟩
  simp only [exampleBlock, BlockOK, BlockOKL, BlockOKF, and_true]
  refine ⟨?_, ?_, ?_⟩ <;> intro body hb <;> injection (show some _ = some body from hb) with hb <;> subst hb
  · exact ⟨by decide, by decide, 1, 97, [], [[32, 32, 98]], rfl, by decide⟩
  · exact ⟨by decide, by decide, 0, 120, [], [[], [121], [32]], rfl, by decide⟩
  · exact ⟨by decide, by decide, 0, 122, [], [], rfl, by decide⟩

example : readYaml (manifestYamlDoc false true exampleBlock ++ [10]) = some exampleBlock := rfl
example : readYamlStream (manifestYamlStream false true true [exampleBlock, .str [97, 10], .null])
    = some [exampleBlock, .str [97, 10], .null] := rfl
example : readYamlStream (manifestYamlStream true false false [exampleYaml, exampleBlock])
    = some [exampleYaml, exampleBlock] := rfl

/-- block scalars in the middle of a document are read back … -/
example : readYaml (manifestYamlDoc false true (.arr [.str [97, 10, 32, 98, 10], .num [49]]))
    = some (.arr [.str [97, 10, 32, 98, 10], .num [49]]) := rfl
/-- … at the end only if the text goes on with a line break (as in a stream) -/
example : readYaml (manifestYamlDoc false true (.arr [.str [97, 10]]) ++ [10]) = some (.arr [.str [97, 10]]) := rfl
example : readYaml (manifestYamlDoc false true (.arr [.str [97, 10]])) = some (.arr [.str [97]]) := rfl
/-- shapes outside `BlockShapeOK` are not read back even then: `"a\n\n"` loses a
    line feed (trailing empty lines are chomped), `" a\n"` its leading space (the
    indentation is detected from the first line), `"\n"` becomes `""` -/
example : readYaml (manifestYamlDoc false true (.str [97, 10, 10]) ++ [10]) = some (.str [97, 10]) := rfl
example : readYaml (manifestYamlDoc false true (.str [32, 97, 10]) ++ [10]) = some (.str [97, 10]) := rfl
example : readYaml (manifestYamlDoc false true (.str [10]) ++ [10]) = some (.str []) := rfl
/-- a control character cannot be written in a block scalar at all (not an `nb-char`) -/
example : readYaml (manifestYamlDoc false true (.str [1, 10]) ++ [10]) = none := rfl

end Rsj.Yaml

#print axioms Rsj.Toml.C05_toml_string_roundtrip
#print axioms Rsj.Toml.C05_toml_string_no_control
#print axioms Rsj.Toml.C05_toml_key_forms
#print axioms Rsj.Toml.C05_toml_key_roundtrip
#print axioms Rsj.Toml.C05_toml_outcome
#print axioms Rsj.Toml.C05_toml_integers_in_range
#print axioms Rsj.Toml.C05_toml_number_arm
#print axioms Rsj.Toml.C05_toml_number_spelling
#print axioms Rsj.Toml.C05_toml_roundtrip
#print axioms Rsj.Toml.C05_toml_roundtrip_small
#print axioms Rsj.Toml.C05_toml_roundtrip_manifestToml
#print axioms Rsj.Yaml.C05_yaml_roundtrip_full_fails
#print axioms Rsj.Yaml.C05_yaml_roundtrip_partial
#print axioms Rsj.Yaml.C05_yaml_roundtrip_default
#print axioms Rsj.Yaml.C05_yaml_roundtrip_block
#print axioms Rsj.Yaml.C05_yaml_stream_roundtrip
#print axioms Rsj.Yaml.C05_yaml_models_agree
