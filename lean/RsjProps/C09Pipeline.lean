/-
  C09 on the WHOLE-PIPELINE model (RsjModel/Pipeline.lean): a source text accepted by the static
  stages never ends in a scoping panic at run time.  (Separate from RsjProps/C02Pipeline.lean: the
  proof family of RsjProps/C09Eval.lean cannot be imported next to RsjProofs/EvalOnce.lean.)
-/
import RsjProofs.LowerPipeline
import RsjProps.C09Eval
namespace Rsj.Pipeline
open Rsj.Eval

/-- **C09 on the pipeline: no unbound name at run time.**  If a source passes lexer, parser, lowering and
    static analysis (in the environment `load_source` starts from), then for every frame limit, fuel and trace
    flag the answer of `runSource` is `gas`, a value, or the rendering of an evaluation error that is none of
    the three scoping panics (`variable not found`, `get_object` / `get_top_object on an environment without
    object`). -/
theorem C09_pipeline_no_unbound {src : List Nat} {e : Core.Expr} (h : front [] Analyze.rootEnv src = .ok e)
    (maxStack fuel : Nat) (traces : Bool) :
    runSource maxStack fuel traces src = gasLine traces ∨
    (∃ v st, runSource maxStack fuel traces src = "ok " ++ v ++ (if traces then showTraces st else "")) ∨
    (∃ er st, runSource maxStack fuel traces src = showErr er ++ (if traces then showTraces st else "") ∧
      ∀ m, er = .internal m → ¬ ScopePanic m) := by
  obtain ⟨toks, ast, _, _, _, ha⟩ := front_ok_inv h
  rw [runSource_ok h]
  unfold evalLine
  rw [evalProgram_eq_prog]
  cases hx : programProg { maxStack := maxStack } fuel e {} with
  | none => exact .inl rfl
  | some r =>
    obtain ⟨r, st⟩ := r
    cases r with
    | ok s => exact .inr (.inl ⟨s, st, rfl⟩)
    | error er =>
      refine .inr (.inr ⟨er, _, rfl, ?_⟩)
      intro m hm hp
      subst hm
      exact C09_eval_no_unbound_at_runtime e ha { maxStack := maxStack } fuel m hp st hx

/-- non-vacuity: the source `true` (bytes 116 114 117 101) is accepted by all static stages -/
example : ∃ e, front [] Analyze.rootEnv [116, 114, 117, 101] = .ok e :=
  ⟨.true_, front_ok (toks := [⟨.simple .True, 0, 4⟩, ⟨.eof, 4, 4⟩]) (ast := .bool true ⟨0, 4⟩) rfl rfl
    (by simp [Lower.lowerWith, Lower.lowerE]) (by simp [Analyze.analyze])⟩

end Rsj.Pipeline

open Rsj.Pipeline in
#print axioms C09_pipeline_no_unbound
