/-
  C01 on the evaluator model `RsjModel/Eval.lean`, the last message: "partial_cmp of NaN".

  RsjProps/C01Eval.lean excludes every modelled Rust panic of the evaluator but the comparison of a
  NaN (`C01_eval_no_internal_error_except_nan`, `C01_eval_full_of_no_nan`).  Here that message is
  excluded too, under two explicit, named hypotheses (no axiom):

  * `FloatNaNFacts` (RsjProofs/EvalNoNaNBase.lean) — facts about Lean's opaque `Float`, all theorems
    of IEEE 754 binary64: two numbers that are not NaN are `<`, `==` or `>`; a finite number is not
    a NaN; `-x`, `Float.ofNat n`, decimal literals, `floor`, `ceil` of non-NaN numbers are not NaN.
  * `PureNaNFree` (RsjProofs/EvalNoNaNOps.lean) — a statement about the MODEL's table of pure
    builtins (`pureSpec`, RsjModel/EvalPure.lean), not about `Float` alone: on arguments that are not
    NaN, the pure function of every builtin returns numbers that are not NaN.  It is not proved here.
    It should follow from Float facts: most number results are gated by `pCheckNum` (sqrt, modulo,
    deg2rad, rad2deg) or are `Float.ofNat` / its negation (findSubstr, codepoint, parseInt/Octal/Hex,
    encodeUTF8, base64DecodeBytes, exponent); NOT gated are `floor`, `ceil` (facts `floor`, `ceil`)
    and `mantissa` (`frexpBits`: `Float.ofBits` of a sign bit, a product with 2^52 — needs facts
    about `ofBits`/`toBits`); the libm builtins (pow, exp, log, sin, …) answer `unsupported` before
    producing a number.

  Invariant `NN` (RsjProofs/EvalNoNaN*.lean): no finished thunk of the store holds a NaN.  Arrays,
  objects and functions hold identifiers, so "the value is not a NaN number" (`VNN`) is a property of
  the value alone.  Every evaluator step, for every fuel and task, keeps `NN`, returns a `VNN` value,
  and — the operands of a `compare` task being `VNN` — never reaches the panic: number literals are
  gated by `checkNum` / `literalValue` (finite only), every arithmetic result by `checkNum` (which
  tests `isNaN` itself), the other producers are `Float.ofNat`, `intToFloat`, `-x`, `-1.0`/`0.0`/`1.0`.
-/
import RsjProps.C01Eval
import RsjProofs.EvalNoNaNRun
import RsjProofs.EvalNoNaNPure
namespace Rsj.Eval
open Rsj.Core Rsj.Analyze Rsj.Eval.Scope Rsj.Eval.NoNaN

/-- no run of a program ends in the comparison of a NaN (any program, any fuel, any limit) -/
theorem C01_eval_no_nan_panic (F : FloatNaNFacts) (hp : PureNaNFree) (e : Expr) (cfg : Cfg) (fuel : Nat)
    (st' : St) : programProg cfg fuel e {} ≠ some (.error (.internal "partial_cmp of NaN"), st') := by
  intro hx
  have := sem_of_triple (P := fun x => NN x) (Qok := fun _ s' => NN s' ∧ True)
    (Qerr := fun e _ => Good3 e) (programProg_nn F hp cfg fuel e) {} NN_empty
  rw [hx] at this
  exact this rfl

/-- **C01 (evaluator model), full statement.**  Under `FloatNaNFacts` and `PureNaNFree`: for every
    closed program of the shape the front end produces that the analyzer accepts, every frame limit
    and every fuel, the run of the whole program — load, evaluate, deep-evaluate, manifest — ends in
    NO modelled Rust panic (`Err.internal _`) at all. -/
theorem C01_eval_no_internal_error (F : FloatNaNFacts) (hp : PureNaNFree) : C01_eval_no_internal_error_full :=
  C01_eval_full_of_no_nan (fun e _ _ cfg fuel st' => C01_eval_no_nan_panic F hp e cfg fuel st')

/-- the store is NaN-free -/
abbrev NoNaNStore (st : St) : Prop := NN st

/-- **… one request on a long-lived store**: from a store that is well scoped, in range and
    NaN-free, a request on an existing thunk ends in no modelled panic at all. -/
theorem C01_eval_request_no_internal_error (F : FloatNaNFacts) (hp : PureNaNFree) (cfg : Cfg) (fuel : Nat)
    (t : TId) (st : St) (hI : Scoped st) (hS : InRange st) (hN : NoNaNStore st) (ht : t < st.thunks.size)
    (m : String) (st' : St) : requestProg cfg fuel t st ≠ some (.error (.internal m), st') := by
  intro hx
  have hm := C01_eval_request_no_internal_error_except_nan cfg fuel t st hI hS ht m st' hx
  have := sem_of_triple (P := fun x => NN x) (Qok := fun _ s' => NN s' ∧ True)
    (Qerr := fun e _ => Good3 e) (requestProg_nn F hp cfg fuel t) st hN
  rw [hx] at this
  exact this hm

example : NoNaNStore {} := NN_empty

/-- **C01 (evaluator model), full statement, with the smaller hypothesis.**  `PureNaNFree` follows from
    `FloatNaNFacts` for every pure builtin but `std.mantissa` (`PureNaNFree_of_mantissa`,
    RsjProofs/EvalNoNaNPure.lean); what remains is the statement that the mantissa computed by `frexpBits`
    from a number that is not NaN is not NaN. -/
theorem C01_eval_no_internal_error' (F : FloatNaNFacts) (hm : SpecNN (pureSpec .mantissa)) :
    C01_eval_no_internal_error_full :=
  C01_eval_no_internal_error F (PureNaNFree_of_mantissa F hm)

end Rsj.Eval

open Rsj.Eval in
#print axioms C01_eval_no_nan_panic
open Rsj.Eval in
#print axioms C01_eval_no_internal_error
open Rsj.Eval in
#print axioms C01_eval_request_no_internal_error
open Rsj.Eval in
#print axioms C01_eval_no_internal_error'
