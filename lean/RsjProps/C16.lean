/-
  C16 — span identifiers round-trip, for any number and size of files.
  Property theorems only (helper lemmas live in RsjProofs/Span.lean).
-/
import RsjProofs.Span
namespace Rsj.Span

/-- One operation of the public `SpanManager` API. -/
inductive Step : Mgr → Mgr → Prop
  | ctx {m : Mgr} (n : Nat) : Step m (m.insertContext n).1
  | intern {m m' : Mgr} {c s e id : Nat} : m.internSpan c s e = .ok (m', id) → Step m m'

/-- Any sequence of operations. -/
inductive Steps (m : Mgr) : Mgr → Prop
  | refl : Steps m m
  | tail {m' m'' : Mgr} : Steps m m' → Step m' m'' → Steps m m''

/-- States the API can produce from `SpanManager::new()`. -/
def Reachable (m : Mgr) : Prop := Steps Mgr.empty m

theorem steps_trans {a b c : Mgr} (h1 : Steps a b) (h2 : Steps b c) : Steps a c := by
  induction h2 with
  | refl => exact h1
  | tail _ st ih => exact Steps.tail ih st

theorem reachable_wf {m : Mgr} (h : Reachable m) : m.WF := by
  unfold Reachable at h
  induction h with
  | refl => exact List.Pairwise.nil
  | tail _ st ih =>
    cases st with
    | ctx n => exact insertContext_wf ih n
    | intern hi => exact internSpan_wf ih hi

/-- **C16 span_roundtrip.** In every reachable manager, for every context `c`
    with offsets `(lo, hi)` (so its registered length is `hi - lo - 1`) and every
    `s ≤ e ≤ len`, `intern_span` succeeds (no assertion fires) and `get_span`
    of the returned id is exactly `(c, s, e)` — whichever of the inline and the
    interned encodings is taken, i.e. also for offsets ≥ 2^38-1 and lengths
    > 2^25-1. -/
theorem C16_span_roundtrip {m : Mgr} (hr : Reachable m) (hcap : m.Cap)
    {c s e lo hi : Nat} (hc : m.contextOffsets c = some (lo, hi))
    (hse : s ≤ e) (he : e ≤ hi - lo - 1) (hlohi : lo < hi) :
    ∃ m' id, m.internSpan c s e = .ok (m', id) ∧ m'.getSpan id = .ok (c, s, e) := by
  obtain ⟨m', id, h⟩ := internSpan_total hc hse (by omega)
  exact ⟨m', id, h, (intern_getSpan (reachable_wf hr) hcap h).1⟩

theorem reachable_pos {m : Mgr} (h : Reachable m) : ∀ e ∈ m.ends, 0 < e := by
  unfold Reachable at h
  induction h with
  | refl => intro e he; cases he
  | tail _ st ih =>
    cases st with
    | ctx n =>
      intro e he
      unfold Mgr.insertContext at he
      simp only [List.mem_append, List.mem_singleton] at he
      rcases he with he | rfl
      · exact ih e he
      · omega
    | intern hi => rw [intern_getSpan_ends hi]; exact ih

/-- The hypothesis `lo < hi` of the round trip holds for every context of a
    reachable manager (each context occupies `len + 1 ≥ 1` offsets). -/
theorem C16_context_nonempty {m : Mgr} (hr : Reachable m)
    {c lo hi : Nat} (hc : m.contextOffsets c = some (lo, hi)) : lo < hi := by
  have hwf := reachable_wf hr
  obtain ⟨hhi, hlo⟩ := contextOffsets_some hc
  rcases hlo with ⟨rfl, rfl⟩ | ⟨c', rfl, hlo'⟩
  · exact reachable_pos hr hi (List.mem_of_getElem? hhi)
  · have hci : c' + 1 < m.ends.length := by
      rcases List.getElem?_eq_some_iff.mp hhi with ⟨w, _⟩; exact w
    have := List.pairwise_iff_getElem.mp hwf c' (c' + 1) (by omega) hci (by omega)
    rw [List.getElem?_eq_getElem hci] at hhi
    rw [List.getElem?_eq_getElem (by omega)] at hlo'
    cases hhi; cases hlo'; exact this

/-- A freshly registered context of length `n` has exactly `n + 1` offsets:
    spans `0 ≤ s ≤ e ≤ n` are precisely the in-range ones. -/
theorem C16_insertContext_offsets {m : Mgr} (n : Nat) :
    ∃ lo, (m.insertContext n).1.contextOffsets (m.insertContext n).2 = some (lo, lo + n + 1) := by
  unfold Mgr.insertContext Mgr.contextOffsets
  simp only
  cases hl : m.ends.length with
  | zero =>
    have := List.length_eq_zero_iff.mp hl
    exact ⟨0, by simp [this]⟩
  | succ k =>
    have hk : k < m.ends.length := by omega
    refine ⟨m.ends.getLast?.getD 0, ?_⟩
    simp only
    have h1 : (m.ends ++ [m.ends.getLast?.getD 0 + n + 1])[k]? = some (m.ends.getLast?.getD 0) := by
      rw [List.getElem?_append_left hk]
      have hne : m.ends ≠ [] := by intro h; rw [h] at hl; cases hl
      rw [List.getLast?_eq_some_getLast hne, List.getLast_eq_getElem]
      simp only [Option.getD_some]
      rw [List.getElem?_eq_getElem hk]
      congr 2; omega
    have h2 : (m.ends ++ [m.ends.getLast?.getD 0 + n + 1])[k + 1]? =
        some (m.ends.getLast?.getD 0 + n + 1) := by
      rw [← hl, List.getElem?_append_right (Nat.le_refl _)]; simp
    rw [h1, h2]

/-- **C16 span_stable.** No later sequence of registrations (further contexts or
    spans) changes the decoding of an id handed out earlier. -/
theorem C16_span_stable {m m' : Mgr} (hr : Reachable m) (hs : Steps m m')
    {id : Nat} {r : Nat × Nat × Nat} (h : m.getSpan id = .ok r) :
    m'.getSpan id = .ok r := by
  induction hs with
  | refl => exact h
  | @tail m1 m2 hs' st ih =>
    have hr' : Reachable m1 := by
      unfold Reachable at hr ⊢
      exact steps_trans hr hs'
    cases st with
    | ctx n => exact getSpan_insertContext (reachable_wf hr') n ih
    | intern hi => exact getSpan_internSpan hi ih

/-- **C16 intern_idempotent.** Registering the same span twice yields the
    same identifier and leaves the manager unchanged the second time. -/
theorem C16_intern_idempotent {m m' : Mgr} {c s e id : Nat}
    (h : m.internSpan c s e = .ok (m', id)) :
    m'.internSpan c s e = .ok (m', id) := by
  have hends := intern_getSpan_ends h
  unfold Mgr.internSpan at h ⊢
  have hco : m'.contextOffsets c = m.contextOffsets c := by
    unfold Mgr.contextOffsets; rw [hends]
  rw [hco]
  split at h
  · cases h
  · next lo hi hc =>
    simp only
    split at h; · cases h
    split at h; · cases h
    split at h; · cases h
    next h1 h2 h3 =>
    rw [if_neg h1, if_neg h2, if_neg h3]
    dsimp only at h ⊢
    split at h
    · next hcond =>
      rw [if_pos hcond]
      split at h
      · next i hf => cases h; simp [hf]
      · next hf =>
        cases h
        simp only
        have : findIdx (m.interned ++ [(c, s, e)]) (c, s, e) 0 = some m.interned.length :=
          by simpa using findIdx_append_self (k := 0) hf
        rw [this]
    · next hcond => rw [if_neg hcond]; cases h; rfl

/-- **C16 spans in range.** Whatever `get_span` returns for an id produced by
    `intern_span` satisfies `start ≤ end` and `end ≤` the context length. -/
theorem C16_registered_in_range {m m' : Mgr} {c s e id : Nat}
    (h : m.internSpan c s e = .ok (m', id)) :
    ∃ lo hi, m.contextOffsets c = some (lo, hi) ∧ s ≤ e ∧ e ≤ hi - lo - 1 := by
  obtain ⟨lo, hi, hc, h1, h2⟩ := internSpan_ok_range h
  exact ⟨lo, hi, hc, h1, by omega⟩

/-- **C16 trace_crop_total.** For every trace length `n` and every `--max-trace`
    value `m` (including 0 and odd values): the two slices `stack[n - firstLen ..]`
    and `stack[.. secondLen]` are in range, do not overlap, show exactly `m`
    items together, and the hidden count is positive. -/
theorem C16_trace_crop_total (n m : Nat) (h : m < n) :
    ∃ fs fl hid sl, traceCrop n m = some (fs, fl, hid, sl) ∧
      fs + fl = n ∧ sl ≤ fs ∧ fl + sl = m ∧ hid = n - m ∧ 0 < hid ∧ fl + hid + sl = n := by
  unfold traceCrop
  have : ¬ n ≤ m := by omega
  rw [if_neg this]
  refine ⟨_, _, _, _, rfl, ?_, ?_, ?_, rfl, ?_, ?_⟩ <;> omega

theorem C16_trace_crop_none (n m : Nat) (h : n ≤ m) : traceCrop n m = none := by
  unfold traceCrop; rw [if_pos h]

/-- A position inside the source has line ≥ 1, column ≥ 1, and the line number
    never exceeds the number of newline bytes + 1. -/
theorem C16_lineCol_bounds (src : List Nat) (pos : Nat) :
    1 ≤ (lineCol src pos).1 ∧ 1 ≤ (lineCol src pos).2 ∧
    (lineCol src pos).1 ≤ (src.filter (· = 10)).length + 1 := by
  unfold lineCol
  refine ⟨by simp, by simp, ?_⟩
  simp only
  have : ((src.take pos).filter (· = 10)).length ≤ (src.filter (· = 10)).length := by
    have h1 : (src.take pos).Sublist src := List.take_sublist pos src
    exact (h1.filter _).length_le
  omega

/-! Non-vacuity: a concrete reachable manager with two contexts, one span that
    takes the inline path and one that takes the interned path. -/
example : ∃ m id1 id2, Reachable m ∧ m.Cap ∧
    m.getSpan id1 = .ok (0, 2, 5) ∧ m.getSpan id2 = .ok (1, 0, 2 ^ 25) ∧
    expand id1 = .inline 2 3 ∧ expand id2 = .interned 0 := by
  let m0 := Mgr.empty
  let m1 := (m0.insertContext 10).1
  let m2 := (m1.insertContext (2 ^ 26)).1
  refine ⟨{ ends := [11, 11 + 2 ^ 26 + 1], interned := [(1, 0, 2 ^ 25)] },
          3 ||| (3 <<< 38), 0 ||| TOP, ?_, ?_, ?_, ?_, ?_, ?_⟩
  · have s1 : Step m0 m1 := Step.ctx 10
    have s2 : Step m1 m2 := Step.ctx (2 ^ 26)
    have s3 : Step m2 { ends := [11, 11 + 2 ^ 26 + 1], interned := [] } :=
      Step.intern (c := 0) (s := 2) (e := 5) (id := 3 ||| (3 <<< 38)) (by rfl)
    have s4 : Step { ends := [11, 11 + 2 ^ 26 + 1], interned := [] }
        { ends := [11, 11 + 2 ^ 26 + 1], interned := [(1, 0, 2 ^ 25)] } :=
      Step.intern (c := 1) (s := 0) (e := 2 ^ 25) (id := 0 ||| TOP) (by rfl)
    exact Steps.tail (Steps.tail (Steps.tail (Steps.tail Steps.refl s1) s2) s3) s4
  · show 1 < TOP; rw [TOP_eq]; omega
  · rfl
  · rfl
  · rfl
  · rfl

end Rsj.Span

open Rsj.Span in
#print axioms C16_span_roundtrip
open Rsj.Span in
#print axioms C16_context_nonempty
open Rsj.Span in
#print axioms C16_insertContext_offsets
open Rsj.Span in
#print axioms C16_span_stable
open Rsj.Span in
#print axioms C16_intern_idempotent
open Rsj.Span in
#print axioms C16_registered_in_range
open Rsj.Span in
#print axioms C16_trace_crop_total
open Rsj.Span in
#print axioms C16_trace_crop_none
open Rsj.Span in
#print axioms C16_lineCol_bounds
