/-
  C11 — a program state's answers do not depend on its past requests.
  Property theorems for the abstract thunk machine (`RsjModel/Thunk.lean`);
  helper lemmas live in RsjProofs/Thunk*.lean.

  Setting: `c : Code` assigns a fixed computation to every thunk index, a store
  `s : St` holds the mutable thunk states, `runHistory c limit qs s` applies the
  requests `qs` (`eval t` or `gc`) in sequence to ONE store, `init n` is the
  pristine store with `n` pending thunks and `denot c limit n q` the outcome of
  request `q` on it.  `limit` is the depth limit (`max_stack`); it is also the
  fuel of the model, so every statement below holds for every fuel.

  Outcomes are compared as value / error code, not traces: a memoised thunk
  legitimately does not re-emit its `std.trace` output.
-/
import RsjProofs.ThunkHistory
import RsjProofs.ThunkReeval
namespace Rsj.Thunk

/-! The invariant ("memoisation consistency").

  `Cons c s` := `Quiet s` (no thunk is `inProgress`) ∧ `Justified c s`, where
  `Justified c s := ∃ rk, ∀ u v, s.st u = some (done v) → Reads s rk (rk u) (c u) v`
  and `Reads s rk b p v` says: replaying computation `p` and answering each
  `force w` from the store, every `w` read is `done` in `s` with rank
  `rk w < b`, and the replay returns `v`.  So every memoised value is the value
  its own computation denotes given the other memoised values, and the ranks
  make the justification well-founded.  `Le s m` (`m` is at least as evaluated
  as `s`): same length and pointwise equal or `pending` in `s` / `done` in `m`. -/

/-- **C11 memoisation consistency is an invariant**: it holds for the pristine
    store and every request (successful, failing, or `gc`) preserves it and
    only adds memoised values. -/
theorem C11_consistent_invariant (c : Code) (limit n : Nat) (qs : List Req) :
    Cons c (init n) ∧ Cons c (runHistory c limit qs (init n)).2 ∧
      Le (init n) (runHistory c limit qs (init n)).2 :=
  ⟨Cons.init c n, (runHistory_cons qs (Cons.init c n)).1, (runHistory_cons qs (Cons.init c n)).2⟩

theorem C11_consistent_step {c : Code} {s : St} (limit : Nat) (q : Req) (hs : Cons c s) :
    Cons c (runReq c limit q s).2 ∧ Le s (runReq c limit q s).2 :=
  runReq_cons hs

/-- In a consistent store every memoised value is the value the thunk denotes:
    evaluated on the pristine store with enough headroom it returns exactly
    that value. -/
theorem C11_memo_is_denotation {c : Code} {n : Nat} {s : St} (hs : Cons c s) (hle : Le (init n) s)
    {t : Nat} {v : Val} (hd : s.st t = some (.done v)) :
    ∃ H, ∀ l, H ≤ l → denot c l n (.eval t) = some (.ok v) := by
  have hp : (init n).st t = some .pending := by
    rcases hle.2 t with e | ⟨p, _⟩
    · rw [hd, st_init] at e; split at e <;> cases e
    · exact p
  obtain ⟨H, hH⟩ := force_replay hs.just hle hp hd
  refine ⟨H, fun l hl => ?_⟩
  obtain ⟨s', e, _⟩ := hH l hl
  simp [denot, runReq, evalReq, e]

/-- **C11 reeval_same.** On a consistent store, if `eval t` has outcome `r`
    (a value or an error other than StackOverflow), then after ANY further
    history of requests — successes, failures, collections — `eval t` has the
    same outcome `r` again.  (Successes by memoisation; failures because the
    failed run's thunks were restored to pending and every sub-thunk that
    completed holds the value its computation denotes.) -/
theorem C11_reeval_same {c : Code} {limit t : Nat} {s : St} (hs : Cons c s)
    (hr : (evalReq c limit t s).1 ≠ .error .stackOverflow) (qs : List Req) :
    (evalReq c limit t (runHistory c limit qs (evalReq c limit t s).2).2).1 =
      (evalReq c limit t s).1 := by
  obtain ⟨h1, l1⟩ := evalReq_cons (limit := limit) (t := t) hs
  obtain ⟨h2, l2⟩ := runHistory_cons (limit := limit) qs h1
  exact evalReq_le h2.just (l1.trans l2) hr

/-- **C11 reeval_same, immediate form.** Evaluating the same thunk again right
    away returns the same outcome as the first time for EVERY outcome —
    StackOverflow included (no request in between that could have memoised
    sub-results) — on any quiescent store, consistent or not. -/
theorem C11_reeval_immediate {c : Code} {limit t : Nat} {s : St} (hq : Quiet s) :
    (evalReq c limit t (evalReq c limit t s).2).1 = (evalReq c limit t s).1 :=
  evalReq_reeval hq

/-- **C11 history_independent.** For every history on one long-lived store
    started pristine, the `i`-th outcome equals the outcome of that request on
    a fresh store, provided the fresh evaluation does not hit the depth limit. -/
theorem C11_history_independent {c : Code} {limit n : Nat} (qs : List Req) {i : Nat} {q : Req}
    (hq : qs[i]? = some q) (hns : denot c limit n q ≠ some (.error .stackOverflow)) :
    (runHistory c limit qs (init n)).1[i]? = some (denot c limit n q) :=
  history_le qs (init n) i q (Cons.init c n) (Le.refl _) hq hns

/-- The same for a history started on any consistent store `m` compared with
    any less evaluated store `s0` (e.g. `m` = the state after earlier requests). -/
theorem C11_history_independent_general {c : Code} {limit : Nat} {s0 m : St} (qs : List Req)
    {i : Nat} {q : Req} (hm : Cons c m) (hle : Le s0 m) (hq : qs[i]? = some q)
    (hns : (runReq c limit q s0).1 ≠ some (.error .stackOverflow)) :
    (runHistory c limit qs m).1[i]? = some (runReq c limit q s0).1 :=
  history_le qs m i q hm hle hq hns

/-- **C11 limit_caveat.** What holds with the depth limit: if the fresh outcome
    of request `i` is not StackOverflow the shared store gives exactly it; if it
    is StackOverflow, the shared store gives StackOverflow or the outcome that
    every large enough limit gives on a fresh store (memoised sub-results
    shorten the depth of later requests). -/
theorem C11_limit_caveat {c : Code} {limit n : Nat} (qs : List Req) {i : Nat} {q : Req}
    (hq : qs[i]? = some q) :
    (denot c limit n q ≠ some (.error .stackOverflow) →
      (runHistory c limit qs (init n)).1[i]? = some (denot c limit n q)) ∧
    ∃ o, (runHistory c limit qs (init n)).1[i]? = some o ∧
      (o = some (.error .stackOverflow) ∨
        ∃ L, limit ≤ L ∧ ∀ l, L ≤ l → denot c l n q = o) := by
  refine ⟨C11_history_independent qs hq, ?_⟩
  obtain ⟨o, ho, h⟩ := history_ge (limit := limit) qs (init n) i q (Cons.init c n) (Le.refl _) hq
  refine ⟨o, ho, ?_⟩
  rcases h with h | ⟨H, hH⟩
  · exact .inl h
  · exact .inr ⟨max limit H, by omega, fun l hl => hH l (by omega)⟩

/-- The chain `0 → 1 → 2 → 3` (`3` returns 7) with depth limit 3. -/
def caveatCode : Code := codeOfList
  [.force 1 .ret, .force 2 .ret, .force 3 .ret, .ret 7]

/-- The representative history for the caveat (known finding against the
    literal wording of C11): fresh, `eval 0` overflows the stack at limit 3;
    after `eval 1` succeeded on the same store, `eval 0` returns 7 — the value
    a fresh store gives with limit 4. -/
example :
    denot caveatCode 3 4 (.eval 0) = some (.error .stackOverflow) ∧
    (runHistory caveatCode 3 [.eval 1, .eval 0] (init 4)).1 = [some (.ok 7), some (.ok 7)] ∧
    denot caveatCode 4 4 (.eval 0) = some (.ok 7) := ⟨rfl, rfl, rfl⟩

/-- **C11 gc_irrelevant.** Removing all `gc` requests from a history (equivalently:
    inserting `gc` requests anywhere) changes no outcome and not the final store. -/
theorem C11_gc_irrelevant (c : Code) (limit : Nat) : ∀ (qs : List Req) (s : St),
    runHistory c limit (qs.filter (· ≠ .gc)) s =
      ((runHistory c limit qs s).1.filter Option.isSome, (runHistory c limit qs s).2) := by
  intro qs
  induction qs with
  | nil => intro s; rfl
  | cons q qs ih =>
    intro s
    cases q with
    | gc =>
      have : ([Req.gc] ++ qs).filter (· ≠ .gc) = qs.filter (· ≠ .gc) := by simp
      simp only [List.singleton_append] at this
      rw [this, ih]; rfl
    | eval t =>
      have : ([Req.eval t] ++ qs).filter (· ≠ .gc) = .eval t :: qs.filter (· ≠ .gc) := by simp
      simp only [List.singleton_append] at this
      rw [this]
      simp only [runHistory, ih]
      rfl

/-- One `gc` inserted at any position: the outcomes before and after it, and
    the final store, are those of the history without it. -/
theorem C11_gc_insert (c : Code) (limit : Nat) (q1 q2 : List Req) (s : St) :
    runHistory c limit (q1 ++ .gc :: q2) s =
      ((runHistory c limit q1 s).1 ++ none :: (runHistory c limit q2 (runHistory c limit q1 s).2).1,
       (runHistory c limit (q1 ++ q2) s).2) := by
  rw [runHistory_append, runHistory_append]
  rfl

/-! Non-vacuity: a history with a failing request, a collection and a repeated
    request on a consistent store; every outcome is the fresh one. -/
example :
    let c : Code := codeOfList
      [.force 1 (fun a => .force 2 (fun b => .ret (a + b))), .trace 5 (.ret 3),
       .force 1 (fun a => .trace 6 (.ret a)), .force 3 .ret, .fail 9]
    (runHistory c 10 [.eval 4, .eval 3, .gc, .eval 0, .eval 3, .eval 0] (init 5)).1 =
      [some (.error (.user 9)), some (.error .infiniteRecursion), none, some (.ok 6),
       some (.error .infiniteRecursion), some (.ok 6)] ∧
    denot c 10 5 (.eval 3) = some (.error .infiniteRecursion) ∧
    denot c 10 5 (.eval 0) = some (.ok 6) := ⟨rfl, rfl, rfl⟩

end Rsj.Thunk

open Rsj.Thunk in
#print axioms C11_consistent_invariant
open Rsj.Thunk in
#print axioms C11_consistent_step
open Rsj.Thunk in
#print axioms C11_memo_is_denotation
open Rsj.Thunk in
#print axioms C11_reeval_same
open Rsj.Thunk in
#print axioms C11_reeval_immediate
open Rsj.Thunk in
#print axioms C11_history_independent
open Rsj.Thunk in
#print axioms C11_history_independent_general
open Rsj.Thunk in
#print axioms C11_limit_caveat
open Rsj.Thunk in
#print axioms C11_gc_irrelevant
open Rsj.Thunk in
#print axioms C11_gc_insert
