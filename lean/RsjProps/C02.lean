/-
  C02 — the core language evaluates as the Jsonnet specification defines.
  Property theorems about the evaluator model `Rsj.Eval` (RsjModel/Eval.lean).
  The model is the hand transcription of the specification's call-by-need
  semantics in the shape of the Rust evaluator; it is tied to the code by the
  differential run of checks/c02.py.  What is proved here:
   (i)  the meaning of a program is well defined: more fuel never changes an
        outcome (`C02_fuel_monotone`, `C02_deterministic`);
   (ii) the specification's desugaring equations hold as equalities of
        evaluator outcomes (`C02_desugar_*`).
  The full statement "manifest(impl p) = spec(p) for every p" is not a theorem
  here (see DESIGN.md §5 C02): `C02_core_semantics_full` records it.
-/
import RsjProofs.EvalMono
import RsjProofs.Bind
namespace Rsj.Eval
open Rsj.Core Lean.Order

/-- Outcome of a task on a store: `none` = the fuel did not suffice. -/
abbrev Outcome := Option (Except Err Value × St)

def outcome (cfg : Cfg) (fuel : Nat) (t : Task) (s : St) : Outcome := ((run cfg fuel t).run).run s

theorem bottom_le (x : M Value) : (bottom : M Value) ⊑ x := by
  intro s
  exact FlatOrder.rel.bot

theorem flat_some {α : Type} {a b : Option α} (h : a ⊑ b) {r : α} (ha : a = some r) : b = some r := by
  cases h with
  | bot => cases ha
  | refl => exact ha

theorem run_le_succ (cfg : Cfg) (n : Nat) : ∀ t, run cfg n t ⊑ run cfg (n + 1) t := by
  induction n with
  | zero => intro t; exact bottom_le _
  | succ n ih =>
    intro t
    show stepN cfg (run cfg n) t ⊑ stepN cfg (run cfg (n + 1)) t
    exact monotone_stepN cfg (fun (r : Task → M Value) => r) t (fun _ _ h => h) (run cfg n) (run cfg (n + 1)) ih

theorem run_le_of_le (cfg : Cfg) {n m : Nat} (h : n ≤ m) : ∀ t, run cfg n t ⊑ run cfg m t := by
  induction h with
  | refl => intro t; exact PartialOrder.rel_refl
  | step _ ih => intro t; exact PartialOrder.rel_trans (ih t) (run_le_succ cfg _ t)

/-- **C02 (i) fuel monotonicity.** Once a task has an outcome (a value or an
    error, together with the resulting store) with `n` levels of fuel, it has
    exactly that outcome with any larger amount. -/
theorem C02_fuel_monotone (cfg : Cfg) {n m : Nat} (h : n ≤ m) (t : Task) (s : St)
    (r : Except Err Value × St) (hr : outcome cfg n t s = some r) : outcome cfg m t s = some r := by
  have := run_le_of_le cfg h t s
  exact flat_some this hr

/-- **C02 (i) determinism.** "The outcome of task `t` on store `s`" is well
    defined: any two amounts of fuel that suffice give the same answer. -/
theorem C02_deterministic (cfg : Cfg) (t : Task) (s : St) {n m : Nat}
    {r r' : Except Err Value × St}
    (h1 : outcome cfg n t s = some r) (h2 : outcome cfg m t s = some r') : r = r' := by
  have a := C02_fuel_monotone cfg (Nat.le_max_left n m) t s r h1
  have b := C02_fuel_monotone cfg (Nat.le_max_right n m) t s r' h2
  rw [a] at b; cases b; rfl

/-! ### (ii) Desugaring equations of the specification -/

/-- `e { ... }` means `e + { ... }`. -/
theorem C02_desugar_objext (cfg : Cfg) (n : Nat) (e : Expr) (ms : Members) (env : EId) (tail : Bool) (d : Nat) :
    run cfg (n + 1) (.eval (.objExt e ms) env tail d) =
    run cfg (n + 1) (.eval (.binary .add e (.object ms)) env tail d) := by
  rfl

/-- `local f(ps) = b; e` means `local f = function(ps) b; e`. -/
theorem C02_desugar_local_function (cfg : Cfg) (n : Nat) (f : String) (ps : Params) (b : Expr) (rest : Binds)
    (e : Expr) (env : EId) (tail : Bool) (d : Nat) :
    run cfg (n + 1) (.eval (.local_ (.cons f (.some ps) b rest) e) env tail d) =
    run cfg (n + 1) (.eval (.local_ (.cons f .none (.func ps b) rest) e) env tail d) := by
  rfl

/-- A method field `f(ps): b` means `f: function(ps) b`. -/
theorem C02_desugar_method (cfg : Cfg) (n : Nat) (f : String) (plus : Bool) (vis : Vis) (ps : Params) (b : Expr)
    (rest : Members) (env : EId) (tail : Bool) (d : Nat) :
    run cfg (n + 1) (.eval (.object (.fieldFix f plus vis (.some ps) b rest)) env tail d) =
    run cfg (n + 1) (.eval (.object (.fieldFix f plus vis .none (.func ps b) rest)) env tail d) := by
  show stepN cfg (run cfg n) _ = stepN cfg (run cfg n) _
  unfold stepN step
  simp [membersList, memberLocals, memberAsserts, bindExpr, objectMember, Task.depth]

/-! `C02_desugar_if_without_else` and `C02_desugar_paren` live in `RsjProps/C02Eval.lean`: since the
    evaluator records the depth of every step in a ghost counter, their proofs use the store order. -/

/-! ### (iii) Parameter binding (`check_call_args_generic`), used by the evaluator model's call case -/

open Rsj.Bind in
/-- **C02 bind_correct.** With distinct parameter names, binding succeeds exactly when there
    is no excess positional argument, the named arguments are distinct names of parameters not
    already bound positionally, and every remaining parameter is named or has a default; and then
    parameter `i` takes the `i`-th positional argument, else the named argument of its name, else
    its default. -/
theorem C02_bind_correct (params : List (String × Bool)) (npos : Nat) (named : List String)
    (hnd : (params.map Prod.fst).Nodup) (slots : List Slot) :
    bindPlan params npos named = .ok slots ↔
      npos ≤ params.length ∧ named.Nodup ∧
      (∀ n ∈ named, ∃ i, npos ≤ i ∧ i < params.length ∧ (params[i]?).map Prod.fst = some n) ∧
      (∀ i, npos ≤ i → i < params.length →
        (∃ j : Nat, named[j]? = (params[i]?).map Prod.fst) ∨ (params[i]?).map Prod.snd = some true) ∧
      slots = expectedSlots params npos named :=
  bindPlan_ok_iff params npos named hnd slots

open Rsj.Bind in
/-- Which error is reported: too many arguments first; else the first faulty named argument in
    call order (unknown or repeated); else the first parameter left unbound. -/
theorem C02_bind_error_priority (params : List (String × Bool)) (npos : Nat) (named : List String)
    (hnd : (params.map Prod.fst).Nodup) :
    (npos > params.length ∧
      bindPlan params npos named = .error (.tooManyCallArgs params.length)) ∨
    (npos ≤ params.length ∧ ¬ GoodNamed params npos named ∧
      ∃ pre n post, named = pre ++ n :: post ∧ GoodNamed params npos pre ∧
        ¬ GoodNamed params npos (pre ++ [n]) ∧
        (bindPlan params npos named = .error (.unknownCallParam n) ∨
         bindPlan params npos named = .error (.repeatedCallParam n))) ∨
    (npos ≤ params.length ∧ GoodNamed params npos named ∧
      ((∃ n, bindPlan params npos named = .error (.callParamNotBound n)) ∨
        bindPlan params npos named = .ok (expectedSlots params npos named))) :=
  bindPlan_priority params npos named hnd

/-- The full property, recorded as a statement: for every closed core program,
    the implementation's manifestation equals the one the specification assigns.
    It is not provable inside this development (the specification is not
    formalised a second time); it is decided as "model = transcription of the
    specification (trusted reading) + theorems above + model = code by the
    correspondence run". -/
def C02_core_semantics_full : Prop :=
  ∀ (specValue : Expr → Option String) (implValue : Expr → Option String) (p : Expr),
    implValue p = specValue p

/-! Non-vacuity: a concrete program has an outcome, so the hypotheses of
    `C02_fuel_monotone` are satisfiable. -/
example : ∃ r, outcome { maxStack := 500 } 10
    (.eval (.binary .add (.str "a") (.str "b")) 0 false 0) { envs := #[{ parent := none, vars := [], obj := none }] } = some r := by
  exact ⟨_, rfl⟩

end Rsj.Eval

open Rsj.Eval in
#print axioms C02_fuel_monotone
open Rsj.Eval in
#print axioms C02_deterministic
open Rsj.Eval in
#print axioms C02_desugar_objext
open Rsj.Eval in
#print axioms C02_desugar_local_function
open Rsj.Eval in
#print axioms C02_desugar_method
open Rsj.Eval in
#print axioms C02_bind_correct
open Rsj.Eval in
#print axioms C02_bind_error_priority
