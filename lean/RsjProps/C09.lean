/-
  C09 — scoping errors are found before anything runs, and only real ones.
  Property theorems only (model: RsjModel/Analyze.lean, lemmas: RsjProofs/Analyze.lean).
-/
import RsjProofs.Analyze
namespace Rsj.Analyze
open Rsj.Core

/-- **C09 analyze_exact.** For every program (every expression tree, including
    code that would never be evaluated) and every environment, the static
    analysis accepts exactly when the program is well scoped in the declarative
    sense `WS`: every variable occurrence bound, `self`/`super`/`$` only inside
    an object, no repeated local / parameter / fixed field name within one
    scope, no positional argument after a named one, no computed or text-block
    import path. -/
theorem C09_analyze_exact (e : Expr) (env : AEnv) : analyze e env = .ok () ↔ WS e env :=
  analyze_iff e env

/-- Rejection happens exactly for the programs that are not well scoped. -/
theorem C09_rejected_iff (e : Expr) (env : AEnv) :
    (∃ err, analyze e env = .error err) ↔ ¬ WS e env := by
  rw [← C09_analyze_exact]
  cases h : analyze e env with
  | error er => simp
  | ok u => cases u; simp

/-- Faults in dead code are found: the branches of a conditional are checked
    whatever the condition is. -/
theorem C09_dead_branch_checked (c t : Expr) (e : OptExpr) (env : AEnv)
    (h : analyze (.if_ c t e) env = .ok ()) : WS c env ∧ WS t env ∧ WSOpt e env := by
  simpa [WS] using (C09_analyze_exact _ _).mp h

/-- An unused local binding is checked, in the environment where all bindings of
    the same `local` are visible (mutual recursion) — and nothing else is. -/
theorem C09_unused_local_checked (bs : Binds) (body : Expr) (env : AEnv)
    (h : analyze (.local_ bs body) env = .ok ()) :
    (bindNames bs).Nodup ∧ WSBinds bs (env.add (bindNames bs)) := by
  have := (C09_analyze_exact _ _).mp h
  simp only [WS] at this
  exact ⟨this.1, this.2.1⟩

/-- A computed field name sees the environment *outside* the object (object
    locals and `self` of the object being built are not in scope there). -/
theorem C09_field_name_outer_env (nameE e : Expr) (plus : Bool) (vis : Vis) (env : AEnv)
    (h : analyze (.object (.fieldDyn nameE plus vis .none e .nil)) env = .ok ()) :
    WS nameE env ∧ WS e (objEnv env []) := by
  have := (C09_analyze_exact _ _).mp h
  simp only [WS, WSObj, WSMembers, memberLocalNames] at this
  exact ⟨this.2.2.2.1, this.2.2.1⟩

/-- Shadowing is never an error: a variable bound by an inner binder may reuse
    any outer name. -/
theorem C09_shadowing_ok (n : String) (v body : Expr) (env : AEnv)
    (hv : WS v (env.add [n])) (hb : WS body (env.add [n])) :
    analyze (.local_ (.cons n .none v .nil) body) env = .ok () := by
  rw [C09_analyze_exact]
  simp [WS, WSBinds, bindNames, hv, hb]

/-! Non-vacuity: a closed well-scoped program with shadowing, and a program
    whose only fault sits in a dead branch. -/
example : analyze (.local_ (.cons "x" .none (.num 1) .nil)
    (.local_ (.cons "x" .none (.var "x") .nil) (.var "x"))) rootEnv = .ok () := by
  rw [C09_analyze_exact]
  simp [WS, WSBinds, bindNames, AEnv.add, AEnv.has, rootEnv]

example : ∃ err, analyze (.if_ .false_ (.var "zz") (.some (.num 1))) rootEnv = .error err := by
  rw [C09_rejected_iff]
  simp [WS, AEnv.has, rootEnv]

end Rsj.Analyze

open Rsj.Analyze in
#print axioms C09_analyze_exact
open Rsj.Analyze in
#print axioms C09_rejected_iff
open Rsj.Analyze in
#print axioms C09_dead_branch_checked
open Rsj.Analyze in
#print axioms C09_unused_local_checked
open Rsj.Analyze in
#print axioms C09_field_name_outer_env
open Rsj.Analyze in
#print axioms C09_shadowing_ok
