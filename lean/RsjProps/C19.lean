/-
  C19 — `std.format` / `%` follow printf-style formatting.
  Property theorems only (helper lemmas live in RsjProofs/Format*.lean).

  Model: RsjModel/Format.lean (`parseFormat`, `stepArray` / `fmtArrayGo`,
  `stepObject` / `fmtObjectGo`, `renderCode`, `decorate`, `padField`), parameterised
  by the trusted host digit generators `Host`.  All statements are for every host,
  code, value, width and precision; lengths are counted in characters (`List Char`).
-/
import RsjProofs.FormatExtra
namespace Rsj.Format

/-! ## Field width (F3) -/

/-- **C19 field_width.** In array mode a rendered field has at least as many
    characters as its width — the inline width or the `*` argument — for every
    conversion (including `%%`), flag set and value. -/
theorem C19_field_width {h : Host} {c : Code} {arr : List Val} {i i' : Nat} {s : List Char}
    (hs : stepArray h c arr i = .ok (s, i')) :
    ∃ w, resolvedWidth c arr i = some w ∧ w ≤ s.length := by
  obtain ⟨fw, r, hres, rfl, _, _⟩ := stepArray_field hs
  exact ⟨fw, hres, padField_length _ _ _⟩

/-- … and in object mode (`*` is rejected there). -/
theorem C19_field_width_object {h : Host} {c : Code} {o : List (List Char × Val)} {s : List Char}
    (hs : stepObject h c o = .ok s) : inlineWidth c ≤ s.length := stepObject_ok hs

/-- Whole formats: the result has at least as many characters as all literal text
    plus all inline widths of the parsed format. -/
theorem C19_field_width_format {h : Host} {f : List Char} {vals : Vals} {out : List Char}
    (hs : format h (.str f) vals = .ok out) :
    ∃ parts, parseFormat f = .ok parts ∧ minLen parts ≤ out.length := by
  simp only [format] at hs
  split at hs
  · cases hs
  · next parts hp =>
    refine ⟨parts, hp, ?_⟩
    split at hs
    · have := (fmtArrayGo_ok (Nat.zero_le _) hs).2; simpa using this
    · have := fmtObjectGo_ok hs; simpa using this
    · have := (fmtArrayGo_ok (Nat.zero_le _) hs).2; simpa using this

/-- **C19 left_flag_pads_right.** The field is the rendered text `r` padded with
    spaces only: trailing with `-`, leading without. -/
theorem C19_left_flag_pads_right {h : Host} {c : Code} {arr : List Val} {i i' : Nat}
    {s : List Char} (hs : stepArray h c arr i = .ok (s, i')) :
    ∃ fw r, resolvedWidth c arr i = some fw ∧
      (c.conv = .pct → r = ['%']) ∧
      (c.conv ≠ .pct → ∃ prec item, renderCode h c fw prec item = .ok r) ∧
      (c.flags.left = true → s = r ++ List.replicate (fw - r.length) ' ') ∧
      (c.flags.left = false → s = List.replicate (fw - r.length) ' ' ++ r) := by
  obtain ⟨fw, r, hres, rfl, h1, h2⟩ := stepArray_field hs
  refine ⟨fw, r, hres, h1, h2, fun hl => ?_, fun hl => ?_⟩
  · rw [hl]; exact padField_left _ _
  · rw [hl]; exact padField_right _ _

/-! ## Numeric fields: sign, prefix, zero padding, precision -/

/-- Shape of every numeric field (d i u o x X e E f F g G):
    `pre ++ zeros ++ body` with `pre` = sign then `0x`/`0X`. -/
theorem numeric_shape {h : Host} {c : Code} {fw prec : Nat} {v : Val} {s : List Char}
    (hc : isIntConv c.conv = true ∨ isFloatConv c.conv = true)
    (hs : renderCode h c fw prec v = .ok s) :
    ∃ b body,
      v = .num b ∧
      Decorated
        (signStr (if isIntConv c.conv then isNegInt b else isNegFlt b) c.flags.plus c.flags.blank
          ++ prefixOf c)
        body (zpOf c fw) (if isIntConv c.conv then iprecOf c prec else 0) s := by
  rcases hc with hc | hc
  · obtain ⟨b, body, hv, hd, _⟩ := renderCode_int_shape hc hs
    exact ⟨b, body, hv, by rw [hc]; exact hd⟩
  · obtain ⟨b, body, hv, hd⟩ := renderCode_float_shape hc hs
    have hi : isIntConv c.conv = false := by
      cases hconv : c.conv <;> simp [isIntConv, isFloatConv, hconv] at hc ⊢
    have hp : prefixOf c = [] := by
      cases hconv : c.conv <;> simp [prefixOf, isFloatConv, hconv] at hc ⊢
    refine ⟨b, body, hv, ?_⟩
    rw [hi, hp]; simpa using hd

/-- **C19 sign_rules.** `-` for negative values; otherwise `+` beats space; otherwise
    nothing.  Integer conversions take the sign of the *truncated* value, so `-0.0`
    and `-0.5` print no sign; floating conversions print no sign for `-0.0` either
    (Jsonnet's convention; C and Python print `-0.000000`). -/
theorem C19_sign_rules :
    (∀ p b, signStr true p b = ['-']) ∧ (∀ b, signStr false true b = ['+']) ∧
    signStr false false true = [' '] ∧ signStr false false false = [] ∧
    (∀ b, truncAbs b = 0 → isNegInt b = false) ∧
    (∀ b, isNegInt b = true → signBit b = true) ∧
    (∀ b, isZero b = true → isNegFlt b = false) ∧
    (∀ b, isNegFlt b = true → signBit b = true) := by
  refine ⟨fun _ _ => rfl, fun _ => rfl, rfl, rfl, ?_, ?_, ?_, ?_⟩
  · intro b hb; simp [isNegInt, hb]
  · intro b hb; simp [isNegInt] at hb; exact hb.1
  · intro b hb; simp [isNegFlt, hb]
  · intro b hb; simp [isNegFlt] at hb; exact hb.1

/-- … and every numeric field starts with exactly that sign string. -/
theorem C19_sign_rules_render {h : Host} {c : Code} {fw prec : Nat} {v : Val} {s : List Char}
    (hc : isIntConv c.conv = true ∨ isFloatConv c.conv = true)
    (hs : renderCode h c fw prec v = .ok s) :
    ∃ b rest, v = .num b ∧
      s = signStr (if isIntConv c.conv then isNegInt b else isNegFlt b)
            c.flags.plus c.flags.blank ++ rest := by
  obtain ⟨b, body, hv, hd⟩ := numeric_shape hc hs
  obtain ⟨k, hk⟩ : ∃ k, s = (signStr (if isIntConv c.conv then isNegInt b else isNegFlt b)
      c.flags.plus c.flags.blank ++ prefixOf c) ++ List.replicate k '0' ++ body := ⟨_, hd⟩
  exact ⟨b, prefixOf c ++ (List.replicate k '0' ++ body), hv,
    by rw [hk]; simp only [List.append_assoc]⟩

/-- **C19 zero_flag_pads_after_sign.** Padding zeros sit between sign/prefix and
    digits.  With `0` and without `-` the zeros alone bring the field up to the
    width (so no space is ever added); with `-`, or without `0`, the width adds no
    zeros at all (`-` overrides `0`, as in C).  Difference from C: with a precision
    on an integer conversion C ignores `0`; this code (like Python) still zero-pads
    to the width. -/
theorem C19_zero_flag_pads_after_sign {h : Host} {c : Code} {fw prec : Nat} {v : Val}
    {s : List Char} (hc : isIntConv c.conv = true ∨ isFloatConv c.conv = true)
    (hs : renderCode h c fw prec v = .ok s) :
    ∃ pre body k, s = pre ++ List.replicate k '0' ++ body ∧
      (c.flags.zero = true → c.flags.left = false →
          fw ≤ s.length ∧ padField c.flags.left fw s = s ∧
          k = max ((if isIntConv c.conv then iprecOf c prec else 0) - body.length)
                (fw - (pre.length + body.length))) ∧
      ((c.flags.left = true ∨ c.flags.zero = false) →
          k = (if isIntConv c.conv then iprecOf c prec else 0) - body.length) := by
  obtain ⟨b, body, _, hd⟩ := numeric_shape hc hs
  refine ⟨_, body, _, hd, fun hz hl => ?_, fun hor => ?_⟩
  · have hzp : zpOf c fw = fw := by simp [zpOf, hz, hl]
    have hlen := hd.length
    rw [hzp] at hlen
    have hle : fw ≤ s.length := by omega
    exact ⟨hle, padField_of_le _ hle, by rw [hzp]⟩
  · have hzp : zpOf c fw = 0 := by
      rcases hor with hl | hz
      · simp [zpOf, hl]
      · simp [zpOf, hz]
    rw [hzp]; omega

/-- **C19 precision_min_digits.** For d i u o x X the precision is the minimum number
    of digits: zeros plus digit string are at least `precision` long (the octal `#`
    prefix `0` counts as a digit, as in C; `0x` does not). -/
theorem C19_precision_min_digits {h : Host} {c : Code} {fw prec : Nat} {v : Val} {s : List Char}
    (hc : isIntConv c.conv = true) (hs : renderCode h c fw prec v = .ok s) :
    ∃ b pre k body, v = .num b ∧ s = pre ++ List.replicate k '0' ++ body ∧
      iprecOf c prec ≤ k + body.length ∧
      pre = signStr (isNegInt b) c.flags.plus c.flags.blank ++ prefixOf c ∧
      (c.conv = .dec → displayInt h (absBits b) = .ok body) ∧
      (c.conv = .oct → body = octDigits (truncAbs b) (if c.flags.alt then ['0'] else [])) ∧
      (c.conv = .hexL → body = hexDigits (truncAbs b) false) ∧
      (c.conv = .hexU → body = hexDigits (truncAbs b) true) := by
  obtain ⟨b, body, hv, hd, h1, h2, h3, h4⟩ := renderCode_int_shape hc hs
  exact ⟨b, _, _, body, hv, hd, by omega, rfl, h1, h2, h3, h4⟩

/-- **C19 alt_prefixes.** `#`: `0x` / `0X` after the sign for x / X (also for zero,
    as Python; C prints `0`), a leading `0` for non-zero octal, nothing otherwise. -/
theorem C19_alt_prefixes :
    hexPrefix true false = ['0', 'x'] ∧ hexPrefix true true = ['0', 'X'] ∧
    (∀ cap, hexPrefix false cap = []) ∧
    (∀ m, m ≠ 0 → octDigits m ['0'] = '0' :: natDigits 8 lowerNum m) ∧
    (∀ m, m ≠ 0 → octDigits m [] = natDigits 8 lowerNum m) ∧
    (∀ zp, octDigits 0 zp = ['0']) := by
  refine ⟨rfl, rfl, fun _ => rfl, fun m hm => ?_, fun m hm => ?_, fun _ => rfl⟩
  · simp [octDigits, hm]
  · simp [octDigits, hm]

/-- … at the level of rendered fields. -/
theorem C19_alt_prefixes_render {h : Host} {c : Code} {fw prec : Nat} {v : Val} {s : List Char}
    (hc : c.conv = .hexL ∨ c.conv = .hexU) (halt : c.flags.alt = true)
    (hs : renderCode h c fw prec v = .ok s) :
    ∃ b k, v = .num b ∧
      s = signStr (isNegInt b) c.flags.plus c.flags.blank ++
            ['0', if c.conv = .hexU then 'X' else 'x'] ++ List.replicate k '0' ++
            hexDigits (truncAbs b) (decide (c.conv = .hexU)) := by
  have hi : isIntConv c.conv = true := by rcases hc with hc | hc <;> simp [isIntConv, hc]
  obtain ⟨b, body, hv, hd, _, _, h3, h4⟩ := renderCode_int_shape hi hs
  obtain ⟨k, hk⟩ : ∃ k, s = (signStr (isNegInt b) c.flags.plus c.flags.blank ++ prefixOf c) ++
      List.replicate k '0' ++ body := ⟨_, hd⟩
  rcases hc with hc | hc
  · refine ⟨b, k, hv, ?_⟩
    rw [hk, h3 hc]; simp [prefixOf, hc, hexPrefix, halt]
  · refine ⟨b, k, hv, ?_⟩
    rw [hk, h4 hc]; simp [prefixOf, hc, hexPrefix, halt]

/-! ## Integer digits -/

/-- **C19 int_digits_correct.** The octal / decimal / hexadecimal digit loops are
    exact: for `m > 0` the digit string evaluates back to `m` in its radix, every
    digit is below the radix, and there is no leading zero (`m = 0` prints `0`, see
    `C19_alt_prefixes`, `C19_int_digits_zero`). -/
theorem C19_int_digits_correct {r : Nat} (hr : r = 8 ∨ r = 10 ∨ r = 16) {m : Nat} (hm : 0 < m)
    {num : Nat → Char} (hnum : num = lowerNum ∨ num = upperNum) :
    ofDigits r ((natDigits r num m).map charVal) = m ∧
      (∀ ch ∈ natDigits r num m, charVal ch < r) ∧
      (∃ ch rest, natDigits r num m = ch :: rest ∧ ch ≠ '0') := by
  have hr2 : 2 ≤ r := by omega
  have hr16 : r ≤ 16 := by omega
  obtain ⟨hval, hlt, d, rest, hhead, hd0⟩ := natDigitsN_spec hr2 hm
  have hcv : ∀ d, d < 16 → charVal (num d) = d := by
    rcases hnum with rfl | rfl
    · exact charVal_lowerNum
    · exact charVal_upperNum
  have hlt16 : ∀ d ∈ natDigitsN r m, d < 16 := fun d hd => Nat.lt_of_lt_of_le (hlt d hd) hr16
  rw [natDigits_map]
  refine ⟨?_, ?_, ?_⟩
  · rw [map_charVal_num hcv hlt16]; exact hval
  · intro ch hch
    obtain ⟨d', hd', rfl⟩ := List.mem_map.mp hch
    rw [hcv d' (hlt16 d' hd')]; exact hlt d' hd'
  · refine ⟨num d, rest.map num, by rw [hhead]; rfl, fun h0 => ?_⟩
    have hdl : d < 16 := hlt16 d (by rw [hhead]; exact List.mem_cons_self ..)
    have := hcv d hdl
    rw [h0] at this
    exact hd0 (by rw [← this]; rfl)

/-- The digit strings the renderers use are those loops (decimal: below 2^53, where
    the host's `to_string` is the exact expansion; above, the host string is used). -/
theorem C19_int_digits_zero (h : Host) :
    (∀ m, m ≠ 0 → hexDigits m false = natDigits 16 lowerNum m) ∧
    (∀ m, m ≠ 0 → hexDigits m true = natDigits 16 upperNum m) ∧
    (∀ cap, hexDigits 0 cap = ['0']) ∧
    (∀ ab, truncAbs ab = 0 → displayInt h ab = .ok ['0']) ∧
    (∀ ab, truncAbs ab ≠ 0 → truncAbs ab < TWO53 →
        displayInt h ab = .ok (natDigits 10 lowerNum (truncAbs ab))) := by
  refine ⟨fun m hm => ?_, fun m hm => ?_, fun _ => rfl, fun ab h0 => ?_, fun ab h0 h1 => ?_⟩
  · simp [hexDigits, hm]
  · simp [hexDigits, hm]
  · simp [displayInt, h0]
  · simp [displayInt, h0, h1]

/-! ## `%%` -/

/-- **C19 percent_literal.** `%%` parses to a directive that consumes no argument
    and appends a single `%`, in array and in object mode. -/
theorem C19_percent_literal (h : Host) :
    (∀ rest, parseCode ('%' :: rest) = .ok (pctCode, rest)) ∧
    parseFormat ['%', '%'] = .ok [.code pctCode] ∧
    (∀ arr ps i acc, fmtArrayGo h arr (.code pctCode :: ps) i acc = fmtArrayGo h arr ps i (acc ++ ['%'])) ∧
    (∀ o ps acc, fmtObjectGo h o (.code pctCode :: ps) acc = fmtObjectGo h o ps (acc ++ ['%'])) ∧
    neededCode pctCode = 0 := by
  refine ⟨parseCode_pct, rfl, fun arr ps i acc => ?_, fun o ps acc => ?_, rfl⟩
  · rw [fmtArrayGo, stepArray_pct]
  · rw [fmtObjectGo, stepObject_pct]

/-! ## Parser totality -/

/-- **C19 parse_total.** The parser always returns: a list of parts, or exactly one
    of the five diagnosed malformations (never a panic, never non-termination — the
    model's fuel outcome is unreachable). -/
theorem C19_parse_total (s : List Char) :
    (∃ parts, parseFormat s = .ok parts) ∨ parseFormat s = .error .truncated ∨
      parseFormat s = .error .widthTooLarge ∨ parseFormat s = .error .precTooLarge ∨
      parseFormat s = .error .missingPrecDigits ∨ ∃ c, parseFormat s = .error (.invalidConv c) := by
  cases hres : parseFormat s with
  | ok parts => exact Or.inl ⟨parts, rfl⟩
  | error e =>
    cases e with
    | truncated => exact Or.inr (Or.inl rfl)
    | widthTooLarge => exact Or.inr (Or.inr (Or.inl rfl))
    | precTooLarge => exact Or.inr (Or.inr (Or.inr (Or.inl rfl)))
    | missingPrecDigits => exact Or.inr (Or.inr (Or.inr (Or.inr (Or.inl rfl))))
    | invalidConv c => exact Or.inr (Or.inr (Or.inr (Or.inr (Or.inr ⟨c, rfl⟩))))
    | fuel => exact absurd hres (parseParts_ne_fuel _ _ (Nat.lt_succ_self _))

/-- A format string without `%` is one literal (the empty string: no parts). -/
theorem C19_parse_literal (s : List Char) (hs : '%' ∉ s) :
    parseFormat s = .ok (if s = [] then [] else [.lit s]) := by
  unfold parseFormat parseParts
  split
  · rfl
  · rw [splitAt1_none hs]

/-- Left-to-right diagnosis: the text before the first `%` is a literal, the directive
    after it is parsed by `parseCode` (whose error, if any, is the error of the whole
    format), and the remainder is parsed the same way. -/
theorem C19_parse_first_directive (pre rest : List Char) (hp : '%' ∉ pre) :
    parseFormat (pre ++ '%' :: rest) =
      match parseCode rest with
      | .error e => .error e
      | .ok (c, rest') =>
        match parseFormat rest' with
        | .error e => .error e
        | .ok ps => .ok ((if pre = [] then [] else [Part.lit pre]) ++ Part.code c :: ps) :=
  parseFormat_first pre rest hp

-- each diagnosed malformation, on the shortest inputs
example : parseFormat ['%'] = .error .truncated := by rfl
example : parseFormat ['%', '(', 'a'] = .error .truncated := by rfl
example : parseFormat ['%', '5', '.'] = .error .truncated := by rfl
example : parseFormat ['%', '.', 'd'] = .error .missingPrecDigits := by rfl
example : parseFormat ['%', 'l', 'l', 'd'] = .error (.invalidConv 'l') := by rfl
example : parseFormat ['a', '%', '4', '2', '9', '4', '9', '6', '7', '2', '9', '6', 'd'] =
    .error .widthTooLarge := by rfl
example : parseFormat ['%', '.', '4', '2', '9', '4', '9', '6', '7', '2', '9', '6', 'd'] =
    .error .precTooLarge := by rfl
example : parseFormat ['%', '(', 'k', ')', '#', '0', '-', ' ', '+', '*', '.', '*', 'L', 'G'] =
    .ok [.code { mkey := some ['k'], flags := ⟨true, true, true, true, true⟩, fw := some .ext,
                 prec := some .ext, lenMod := some 'L', conv := .gU }] := by rfl

/-! ## `%c` and `%s` -/

/-- **C19 char_string.** `%s` of a string is the string itself (any code points);
    other values print their `std.toString` text.  `%c` of a one-character string is
    that string, of a number is the character with that (truncated) code point when it
    is a Unicode scalar value; everything else is an error.  Flags `# 0 + space` and
    the precision have no effect on either (the width is applied by `padField`). -/
theorem C19_char_string (h : Host) (c : Code) (fw prec : Nat) :
    (c.conv = .str → ∀ s, renderCode h c fw prec (.str s) = .ok s) ∧
    (c.conv = .str → ∀ ty r, renderCode h c fw prec (.other ty r) = .ok r) ∧
    (c.conv = .chr → ∀ ch, renderCode h c fw prec (.str [ch]) = .ok [ch]) ∧
    (c.conv = .chr → ∀ s, s.length ≠ 1 → renderCode h c fw prec (.str s) = .error (.charLen s.length)) ∧
    (c.conv = .chr → ∀ b n, tryU32 b = some n → validScalar n = true →
        renderCode h c fw prec (.num b) = .ok [Char.ofNat n]) ∧
    (c.conv = .chr → ∀ b, (∀ n, tryU32 b = some n → validScalar n = false) →
        renderCode h c fw prec (.num b) = .error .charBadCodepoint) ∧
    (c.conv = .chr → ∀ ty r, renderCode h c fw prec (.other ty r) = .error (.charBadType ty)) := by
  refine ⟨fun hc s => ?_, fun hc ty r => ?_, fun hc ch => ?_, fun hc s hs => ?_,
    fun hc b n hn hv => ?_, fun hc b hb => ?_, fun hc ty r => ?_⟩
  · simp [renderCode, hc]
  · simp [renderCode, hc]
  · simp [renderCode, hc]
  · simp [renderCode, hc, hs]
  · simp [renderCode, hc, hn, hv]
  · cases hn : tryU32 b with
    | none => simp [renderCode, hc, hn]
    | some n => simp [renderCode, hc, hn, hb n hn]
  · simp [renderCode, hc]

/-! ## Argument accounting -/

theorem format_array {h : Host} {f : List Char} {parts : List Part} (l : List Val)
    (hp : parseFormat f = .ok parts) :
    format h (.str f) (.arr l) = fmtArrayGo h l parts 0 [] := by
  simp [format, hp]

/-- **C19 args_accounting.** A successful array formatting consumed exactly
    `needed parts` items = one per non-`%%` directive plus one per `*`, and that is
    the whole array.  "not enough" is reported only when the array is shorter than
    that, "too many" only when it is longer (with the exact numbers), and whenever the
    counts differ the result is an error. -/
theorem C19_args_accounting {h : Host} {parts : List Part} {arr : List Val} :
    (∀ out, fmtArrayGo h arr parts 0 [] = .ok out → needed parts = arr.length) ∧
    (∀ g, fmtArrayGo h arr parts 0 [] = .error (.notEnough g) →
        g = arr.length ∧ arr.length < needed parts) ∧
    (∀ a b, fmtArrayGo h arr parts 0 [] = .error (.tooMany a b) →
        a = needed parts ∧ b = arr.length ∧ needed parts < arr.length) ∧
    (needed parts ≠ arr.length → ∃ e, fmtArrayGo h arr parts 0 [] = .error e) := by
  refine ⟨fun out ho => ?_, fun g hg => ?_, fun a b hab => ?_, fun hne => ?_⟩
  · have := (fmtArrayGo_ok (Nat.zero_le _) ho).1; omega
  · have := (fmtArrayGo_err (Nat.zero_le _) hg).1 g rfl; omega
  · have := (fmtArrayGo_err (Nat.zero_le _) hab).2 a b rfl; omega
  · cases hres : fmtArrayGo h arr parts 0 [] with
    | error e => exact ⟨e, rfl⟩
    | ok out =>
      have := (fmtArrayGo_ok (Nat.zero_le _) hres).1
      omega

/-! ## Host precision (F2) -/

/-- **C19 no_host_panic.** The result does not depend on what the host formatter
    would do for precisions above `MAX_HOST_PREC = 1100 ≤ 65535` — it is never asked —
    so the host's precision panic is unreachable; `unreachable!()` is unreachable;
    and the two `unwrap()`s on `{:e}` output can fail only if that output violates its
    contract (`HostExpWF`). -/
theorem C19_no_host_panic {h : Host} {f : Val} {vals : Vals} :
    (∀ h', HostAgree h h' → format h f vals = format h' f vals) ∧
    (∀ k, format h f vals = .error (.render (.hostPanic k)) → (k = 1 ∨ k = 2) ∧ ¬ HostExpWF h) ∧
    MAX_HOST_PREC ≤ HOST_LIMIT := by
  refine ⟨fun h' A => format_agree A f vals, fun k hk => ?_, max_le_limit⟩
  have key : ∀ c fw prec item, c.conv ≠ .pct →
      renderCode h c fw prec item = .error (.hostPanic k) → (k = 1 ∨ k = 2) ∧ ¬ HostExpWF h := by
    intro c fw prec item hc hr
    rcases renderCode_panic hr with ⟨_, hp⟩ | hgood
    · exact absurd hp hc
    · exact hgood
  unfold format at hk
  split at hk
  · split at hk
    · cases hk
    · split at hk
      · obtain ⟨c, fw, prec, item, hc, hr⟩ := fmtArrayGo_render_err hk
        exact key c fw prec item hc hr
      · obtain ⟨c, fw, prec, item, hc, hr⟩ := fmtObjectGo_render_err hk
        exact key c fw prec item hc hr
      · obtain ⟨c, fw, prec, item, hc, hr⟩ := fmtArrayGo_render_err hk
        exact key c fw prec item hc hr
  · cases hk

/-! ## Non-vacuity: concrete runs of the model -/

/-- a host that knows nothing (integer and string conversions never consult it) -/
def nullHost : Host :=
  { fixed := fun _ _ => none, exp := fun _ _ => none, disp := fun _ => none,
    log10floor := fun _ => none, numStr := fun _ => none }

/-- a host that answers `1.5` at precisions 2 and 1 (what Rust prints) -/
def demoHost : Host :=
  { nullHost with
    fixed := fun _ p => if p = 2 then some ['1', '.', '5', '0'] else none,
    exp := fun _ p => if p = 1 then some ['1', '.', '5', 'e', '0'] else none }

-- 42.0 = 0x4045000000000000, -3.0 = 0xC008000000000000, 1.5 = 0x3FF8000000000000
example : format nullHost (.str ['%', '0', '5', 'd', '|']) (.arr [.num 0x4045000000000000]) =
    .ok ['0', '0', '0', '4', '2', '|'] := by rfl
example : format nullHost (.str ['%', '-', '#', '6', 'x', '|']) (.one (.num 0xC008000000000000)) =
    .ok ['-', '0', 'x', '3', ' ', ' ', '|'] := by rfl
example : format nullHost (.str ['%', '3', 's', '|']) (.arr [.str ['é', 'é']]) =
    .ok [' ', 'é', 'é', '|'] := by rfl
example : format nullHost (.str ['%', '*', 'd', '%', '%']) (.arr [.num 0x4045000000000000]) =
    .error (.notEnough 1) := by rfl
example : format nullHost (.str ['%', 'd']) (.arr [.num 0x4045000000000000, .num 0x4045000000000000]) =
    .error (.tooMany 1 2) := by rfl
example : format nullHost (.str ['%', '.']) (.arr []) = .error (.parse .truncated) := by rfl
example : format nullHost (.str ['%', '(', 'k', ')', '+', '.', '3', 'o'])
    (.obj [(['k'], .num 0x4045000000000000)]) = .ok ['+', '0', '5', '2'] := by rfl
example : format demoHost (.str ['%', '0', '8', '.', '2', 'f']) (.arr [.num 0x3FF8000000000000]) =
    .ok ['0', '0', '0', '0', '1', '.', '5', '0'] := by rfl
example : format demoHost (.str ['%', '+', '.', '1', 'E']) (.arr [.num 0x3FF8000000000000]) =
    .ok ['+', '1', '.', '5', 'E', '+', '0', '0'] := by rfl
example : HostExpWF demoHost := by
  intro ab p s hs
  simp only [demoHost] at hs
  split at hs
  · cases hs; exact ⟨['1', '.', '5'], ['0'], 0, by rfl, by rfl⟩
  · cases hs
example : HostAgree demoHost demoHost :=
  ⟨fun _ _ _ => rfl, fun _ _ _ => rfl, fun _ => rfl, fun _ => rfl, fun _ => rfl⟩
example : isIntConv Conv.hexL = true ∧ isFloatConv Conv.gU = true := ⟨rfl, rfl⟩

end Rsj.Format

open Rsj.Format in
#print axioms C19_field_width
open Rsj.Format in
#print axioms C19_field_width_object
open Rsj.Format in
#print axioms C19_field_width_format
open Rsj.Format in
#print axioms C19_left_flag_pads_right
open Rsj.Format in
#print axioms C19_sign_rules
open Rsj.Format in
#print axioms C19_sign_rules_render
open Rsj.Format in
#print axioms C19_zero_flag_pads_after_sign
open Rsj.Format in
#print axioms C19_precision_min_digits
open Rsj.Format in
#print axioms C19_alt_prefixes
open Rsj.Format in
#print axioms C19_alt_prefixes_render
open Rsj.Format in
#print axioms C19_int_digits_correct
open Rsj.Format in
#print axioms C19_int_digits_zero
open Rsj.Format in
#print axioms C19_percent_literal
open Rsj.Format in
#print axioms C19_parse_total
open Rsj.Format in
#print axioms C19_parse_literal
open Rsj.Format in
#print axioms C19_parse_first_directive
open Rsj.Format in
#print axioms C19_char_string
open Rsj.Format in
#print axioms C19_args_accounting
open Rsj.Format in
#print axioms C19_no_host_panic
