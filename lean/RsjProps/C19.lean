import RsjProofs.Format
namespace Rsj.Format
theorem C19_placeholder : padField true 0 [] = [] := rfl
end Rsj.Format
open Rsj.Format in
#print axioms C19_placeholder
