/-
  C08 — `==` is structural equivalence, `<` a total order on numbers / strings /
  arrays of these, and the two are mutually consistent.
  Property theorems only (helper lemmas live in RsjProofs/Compare*.lean).

  Reading guide: `structEq` / `lexCompare` are the declarative specifications,
  `exec` / `step1` / `stepN` / `run` the literal model of the interpreter loop
  (`RsjModel/Compare.lean`).  `ν` is the abstract number type (`-0 = 0`
  identified); every theorem holds for all `ν` with a lawful comparison, in
  particular for `Int`, which the driver uses.
-/
import RsjProofs.CompareMachine
import RsjProofs.CompareUtf8
import RsjProofs.CompareJson
set_option linter.unusedSectionVars false
namespace Rsj.Compare
section
variable {ν : Type} [DecidableEq ν] [NumOrd ν]

/-! ## The machines refine the specifications (stack discipline included) -/

/-- **C08 equals_machine_refines.**  Started on `EqualsValue` with `a`, `b` on top of the
    value stack — under *any* continuation `ks`, value stack `vs`, bool stack `bs`,
    ordering stack `os`, trace length `tl` — the machine, after finitely many
    iterations, has exactly `structEq a b` pushed on the bool stack and every other
    stack (state stack, value stack, ordering stack, trace length) restored; if
    `structEq a b` is an error, the machine reports exactly that error.  No `unwrap`
    / index / `assert_eq!` panic site is reached. -/
theorem C08_equals_machine_refines {a : Value ν} (ha : WF a) (b : Value ν)
    (ks : List (St ν)) (vs : List (Value ν)) (bs : List Bool) (os : List Ordering) (tl : Nat) :
    match structEq a b with
    | .ok r => ∃ n, stepN n ⟨.equalsValue :: ks, b :: a :: vs, bs, os, tl⟩ =
        .ok ⟨ks, vs, r :: bs, os, tl⟩
    | .error e => ∃ n, stepN n ⟨.equalsValue :: ks, b :: a :: vs, bs, os, tl⟩ =
        .error (.err e) := by
  have h := equalsValue_terminates ha b ks vs bs os tl
  cases hs : structEq a b with
  | ok r => rw [hs] at h; exact h
  | error e => rw [hs] at h; exact h

/-- **C08 compare_machine_refines.**  The same for `CompareValue` and `lexCompare`,
    the result going to the ordering stack. -/
theorem C08_compare_machine_refines (a b : Value ν)
    (ks : List (St ν)) (vs : List (Value ν)) (bs : List Bool) (os : List Ordering) (tl : Nat) :
    match lexCompare a b with
    | .ok o => ∃ n, stepN n ⟨.compareValue :: ks, b :: a :: vs, bs, os, tl⟩ =
        .ok ⟨ks, vs, bs, o :: os, tl⟩
    | .error e => ∃ n, stepN n ⟨.compareValue :: ks, b :: a :: vs, bs, os, tl⟩ =
        .error (.err e) := by
  have h := compareValue_terminates a b ks vs bs os tl
  cases hs : lexCompare a b with
  | ok r => rw [hs] at h; exact h
  | error e => rw [hs] at h; exact h

/-- **C08 ops_machine_refine.**  Each of the nine operations (`== != std.equals < <= > >=
    std.__compare std.__compare_array`), lowered as in `expr.rs` / `call.rs` and run
    with sufficient fuel, halts with all stacks empty, trace length 0 and exactly the
    specified answer on the value stack, or reports the specified error. -/
theorem C08_ops_machine_refine (op : Op) (a b : Thunk ν) (hw : ∀ x, a = .val x → WF x) :
    ∃ n, ∀ fuel, n ≤ fuel → machineOp fuel op a b =
      match specOp op a b with
      | .ok r => .res r
      | .error e => .err e :=
  machineOp_refines op a b hw

/-! ## `==` is an equivalence and means "same JSON value" -/

/-- **C08 equals_refl** on error-free, function-free values. -/
theorem C08_equals_refl {a : Value ν} (h : Pure a) : structEq a a = .ok true :=
  structEq_refl h

/-- **C08 equals_symm.**  Whatever answer `a == b` gives, `b == a` gives the same
    (no purity hypothesis: an answer means no failing thunk was forced). -/
theorem C08_equals_symm (a b : Value ν) (r : Bool) (h : structEq a b = .ok r) :
    structEq b a = .ok r :=
  structEq_symm a b r h

/-- **C08 equals_trans.** -/
theorem C08_equals_trans (a b c : Value ν) (h1 : structEq a b = .ok true)
    (h2 : structEq b c = .ok true) : structEq a c = .ok true :=
  structEq_trans a b c h1 h2

/-- **C08 equals_iff_same_json.**  `a == b` answers `true` exactly when `a` and `b` denote one
    and the same JSON value (`denote`: null / booleans / numbers with `-0 = 0` / code
    point strings / arrays / objects as their *visible* fields sorted by name; undefined
    when a function or a failing thunk sits in a visible position). -/
theorem C08_equals_iff_same_json (a b : Value ν) :
    structEq a b = .ok true ↔ ∃ j, denote a = some j ∧ denote b = some j :=
  structEq_iff_same_json a b

/-- The same, intrinsically: `true` exactly on identical error-free, function-free trees. -/
theorem C08_equals_iff_identical (a b : Value ν) :
    structEq a b = .ok true ↔ (a = b ∧ Pure a) := by
  constructor
  · intro h; exact ⟨structEq_true_eq a b h, structEq_true_pure a b h⟩
  · rintro ⟨rfl, hp⟩; exact structEq_refl hp

/-- Error-free, function-free values are exactly those that denote a JSON value. -/
theorem C08_pure_iff_denotes (a : Value ν) : Pure a ↔ ∃ j, denote a = some j :=
  ⟨pure_denote, fun ⟨j, h⟩ => denote_pure a j h⟩

/-- On error-free, function-free values `==` always answers, and answers `false`
    exactly on different values. -/
theorem C08_equals_false_iff_ne {a b : Value ν} (r : Bool) (h : structEq a b = .ok r)
    (hp : Pure a) : r = true ↔ a = b := by
  constructor
  · intro hr; subst hr; exact structEq_true_eq a b h
  · intro hab; subst hab
    have := structEq_refl hp
    rw [this] at h; cases h; rfl

/-- **C08 ne_is_not_eq / std_equals_same_machine.**  Run on the machine, `a != b` is
    the negation of `a == b` (same errors), and `std.equals(a, b)` is `a == b`. -/
theorem C08_ne_is_not_eq (a b : Thunk ν) (hw : ∀ x, a = .val x → WF x) :
    ∃ n, ∀ fuel, n ≤ fuel →
      machineOp fuel .ne a b = (machineOp fuel .eq a b).negate ∧
      machineOp fuel .stdEquals a b = machineOp fuel .eq a b := by
  obtain ⟨n1, h1⟩ := machineOp_refines .eq a b hw
  obtain ⟨n2, h2⟩ := machineOp_refines .ne a b hw
  obtain ⟨n3, h3⟩ := machineOp_refines .stdEquals a b hw
  refine ⟨n1 + n2 + n3, fun fuel hf => ?_⟩
  rw [h1 fuel (by omega), h2 fuel (by omega), h3 fuel (by omega)]
  simp only [specOp]
  cases forceBoth a b with
  | error e => exact ⟨rfl, trivial⟩
  | ok p =>
    obtain ⟨x, y⟩ := p
    simp only
    cases structEq x y with
    | error e => exact ⟨rfl, trivial⟩
    | ok r => exact ⟨rfl, trivial⟩

/-! ## The order -/

variable [LawfulNumOrd ν]

/-- **C08 compare_swap.** -/
theorem C08_compare_swap (a b : Value ν) (o : Ordering) (h : lexCompare a b = .ok o) :
    lexCompare b a = .ok o.swap :=
  lexCompare_swap a b o h

/-- **C08 compare_trans**, general form: `a ≤ b` and `b ≤ c` imply that `a` and `c`
    are comparable and `compare a c = (compare a b).then (compare b c)`. -/
theorem C08_compare_trans (a b c : Value ν) (o1 o2 : Ordering)
    (h1 : lexCompare a b = .ok o1) (h2 : lexCompare b c = .ok o2)
    (n1 : o1 ≠ .gt) (n2 : o2 ≠ .gt) : lexCompare a c = .ok (o1.then o2) :=
  lexCompare_then a b c o1 o2 h1 h2 n1 n2

/-- `<` is transitive. -/
theorem C08_lt_trans (a b c : Value ν) (h1 : lexCompare a b = .ok .lt)
    (h2 : lexCompare b c = .ok .lt) : lexCompare a c = .ok .lt :=
  lexCompare_then a b c .lt .lt h1 h2 (by decide) (by decide)

/-- **C08 compare_eq_iff_equals**, strong form: whenever `a` and `b` have an order,
    `a == b` answers, and answers "the order is `Equal`". -/
theorem C08_compare_eq_iff_equals (a b : Value ν) (o : Ordering) (h : lexCompare a b = .ok o) :
    structEq a b = .ok (o == .eq) ∧ (o = .eq ↔ structEq a b = .ok true) := by
  have hs := lexCompare_structEq a b o h
  refine ⟨hs, ?_⟩
  rw [hs]
  cases o <;> simp

/-- **C08 trichotomy**, relative form: whenever `a` and `b` have an order, exactly one of
    `a < b`, `a == b`, `a > b` holds (here `a > b` is read off `compare b a`). -/
theorem C08_trichotomy_of_comparable (a b : Value ν) (o : Ordering)
    (h : lexCompare a b = .ok o) :
    (o = .lt ∧ structEq a b = .ok false ∧ lexCompare b a = .ok .gt) ∨
    (o = .eq ∧ structEq a b = .ok true ∧ lexCompare b a = .ok .eq) ∨
    (o = .gt ∧ structEq a b = .ok false ∧ lexCompare b a = .ok .lt) := by
  have hs := lexCompare_structEq a b o h
  have hw := lexCompare_swap a b o h
  cases o with
  | lt => exact .inl ⟨rfl, hs, hw⟩
  | eq => exact .inr (.inl ⟨rfl, hs, hw⟩)
  | gt => exact .inr (.inr ⟨rfl, hs, hw⟩)

/-- **C08 trichotomy.**  On numbers, strings and (nested) arrays of these — two values of
    the same sort `s` — the three operators `<`, `==`, `>` all answer, and exactly one
    of them answers `true`. -/
theorem C08_trichotomy {s : VSort} {a b : Value ν} (ha : HasSort s a) (hb : HasSort s b) :
    let lt := specOp .lt (.val a) (.val b)
    let eq := specOp .eq (.val a) (.val b)
    let gt := specOp .gt (.val a) (.val b)
    (lt = .ok (.bool true) ∧ eq = .ok (.bool false) ∧ gt = .ok (.bool false)) ∨
    (lt = .ok (.bool false) ∧ eq = .ok (.bool true) ∧ gt = .ok (.bool false)) ∨
    (lt = .ok (.bool false) ∧ eq = .ok (.bool false) ∧ gt = .ok (.bool true)) := by
  obtain ⟨o, ho⟩ := lexCompare_total ha b hb
  have hs := lexCompare_structEq a b o ho
  simp only [specOp, forceBoth, Thunk.force, ho, hs, Except.map]
  cases o with
  | lt => exact .inl ⟨rfl, rfl, rfl⟩
  | eq => exact .inr (.inl ⟨rfl, rfl, rfl⟩)
  | gt => exact .inr (.inr ⟨rfl, rfl, rfl⟩)

/-- **C08 le_ge_derived.**  With `o = compare a b`: the machine's `a <= b` is `o ≠ Greater`,
    `a >= b` is `o ≠ Less`, `a < b` is `o = Less`, `a > b` is `o = Greater`,
    `std.__compare(a, b)` is the image of `o` in `{-1, 0, 1}`; hence
    `a <= b ⇔ a < b ∨ a == b`, `a >= b ⇔ ¬ a < b`, and `a >= b ⇔ b <= a`. -/
theorem C08_le_ge_derived (a b : Value ν) (o : Ordering) (h : lexCompare a b = .ok o) :
    (∃ n, ∀ fuel, n ≤ fuel →
      machineOp fuel .lt (.val a) (.val b) = .res (.bool (o == .lt)) ∧
      machineOp fuel .le (.val a) (.val b) = .res (.bool (o != .gt)) ∧
      machineOp fuel .gt (.val a) (.val b) = .res (.bool (o == .gt)) ∧
      machineOp fuel .ge (.val a) (.val b) = .res (.bool (o != .lt)) ∧
      machineOp fuel .stdCompare (.val a) (.val b) = .res (.num (NumOrd.ofOrdering o))) ∧
    ((o != .gt) = (o == .lt || o == .eq)) ∧ ((o != .lt) = !(o == .lt)) ∧
    specOp .ge (.val a) (.val b) = specOp .le (.val b) (.val a) := by
  -- the ordering machine never looks up object fields: no well-formedness needed
  have key : ∀ op : Op, op = .lt ∨ op = .le ∨ op = .gt ∨ op = .ge ∨ op = .stdCompare →
      ∃ n, ∀ fuel, n ≤ fuel → machineOp fuel op (.val a) (.val b) =
        match specOp op (.val a) (.val b) with
        | .ok r => .res r
        | .error e => .err e := by
    intro op hop
    have ht : Terminates (initM op (.val a) (.val b)) (specOp op (.val a) (.val b)) finalM := by
      refine Terminates.after ((Reaches.one rfl).trans (Reaches.one rfl)) ?_
      rcases hop with rfl | rfl | rfl | rfl | rfl
      · exact Terminates.map _ (compareValue_terminates a b _ [] [] [] 1)
          (fun r => (Reaches.one rfl).trans (Reaches.one rfl))
      · exact Terminates.map _ (compareValue_terminates a b _ [] [] [] 1)
          (fun r => (Reaches.one rfl).trans (Reaches.one rfl))
      · exact Terminates.map _ (compareValue_terminates a b _ [] [] [] 1)
          (fun r => (Reaches.one rfl).trans (Reaches.one rfl))
      · exact Terminates.map _ (compareValue_terminates a b _ [] [] [] 1)
          (fun r => (Reaches.one rfl).trans (Reaches.one rfl))
      · exact Terminates.map _ (compareValue_terminates a b _ [] [] [] 0)
          (fun r => Reaches.one rfl)
    cases hs : specOp op (.val a) (.val b) with
    | error e =>
      rw [hs] at ht
      obtain ⟨n, hn⟩ := ht
      exact ⟨n, fun fuel hf => by simp only [machineOp, run_of_fails n _ _ hn fuel hf]⟩
    | ok r =>
      rw [hs] at ht
      obtain ⟨n, hn⟩ := ht
      refine ⟨n, fun fuel hf => ?_⟩
      simp only [machineOp, run_of_reaches n _ _ hn rfl fuel hf]
      cases r <;> rfl
  obtain ⟨n1, h1⟩ := key .lt (by simp)
  obtain ⟨n2, h2⟩ := key .le (by simp)
  obtain ⟨n3, h3⟩ := key .gt (by simp)
  obtain ⟨n4, h4⟩ := key .ge (by simp)
  obtain ⟨n5, h5⟩ := key .stdCompare (by simp)
  refine ⟨⟨n1 + n2 + n3 + n4 + n5, fun fuel hf => ?_⟩, ?_, ?_, ?_⟩
  · rw [h1 fuel (by omega), h2 fuel (by omega), h3 fuel (by omega), h4 fuel (by omega),
      h5 fuel (by omega)]
    simp only [specOp, forceBoth, Thunk.force, h, Except.map]
    cases o <;> (repeat' constructor)
  · cases o <;> rfl
  · cases o <;> rfl
  · have hw := lexCompare_swap a b o h
    simp only [specOp, forceBoth, Thunk.force, h, hw, Except.map]
    cases o <;> rfl

omit [LawfulNumOrd ν] in
/-- **C08 compare_three_way.**  `std.__compare_array` first checks that both arguments are
    arrays (`InvalidStdFuncArgType`, left argument first) and then is `std.__compare`. -/
theorem C08_compare_array_derived (a b : Value ν) :
    (∀ xs ys, a = .arr xs → b = .arr ys →
      specOp .stdCompareArray (.val a) (.val b) = specOp .stdCompare (.val a) (.val b)) ∧
    (a.ty ≠ .array → specOp .stdCompareArray (.val a) (.val b) = .error (.compareArrayArg 0 a.ty)) ∧
    (a.ty = .array → b.ty ≠ .array →
      specOp .stdCompareArray (.val a) (.val b) = .error (.compareArrayArg 1 b.ty)) := by
  refine ⟨?_, ?_, ?_⟩
  · rintro xs ys rfl rfl; rfl
  · intro h; cases a <;> first | rfl | exact absurd rfl h
  · intro h1 h2
    cases a <;> simp [Value.ty] at h1
    cases b <;> first | rfl | exact absurd rfl h2

omit [DecidableEq ν] [LawfulNumOrd ν] in
/-- **C08 unordered_is_error.**  Comparing null with null, booleans, objects, functions,
    or values of different types is the specific error, never an answer — and because
    `cmpThunks` propagates it, so is comparing arrays whose deciding elements are such. -/
theorem C08_unordered_is_error (a b : Value ν) :
    (a = .null → b = .null → lexCompare a b = .error .compareNull) ∧
    (a.ty = .bool → b.ty = .bool → lexCompare a b = .error .compareBool) ∧
    (a.ty = .object → b.ty = .object → lexCompare a b = .error .compareObject) ∧
    (a = .func → b = .func → lexCompare a b = .error .compareFunctions) ∧
    (a.ty ≠ b.ty → lexCompare a b = .error (.compareDifferentTypes a.ty b.ty)) ∧
    (∀ o, lexCompare a b = .ok o →
      (a.ty = .number ∧ b.ty = .number) ∨ (a.ty = .string ∧ b.ty = .string) ∨
      (a.ty = .array ∧ b.ty = .array)) := by
  refine ⟨?_, ?_, ?_, ?_, ?_, ?_⟩
  · rintro rfl rfl; rfl
  · intro h1 h2; cases a <;> simp [Value.ty] at h1; cases b <;> simp [Value.ty] at h2; rfl
  · intro h1 h2; cases a <;> simp [Value.ty] at h1; cases b <;> simp [Value.ty] at h2; rfl
  · rintro rfl rfl; rfl
  · intro h; cases a <;> cases b <;> first | rfl | exact absurd rfl h
  · intro o h; cases a <;> cases b <;> simp [lexCompare, Value.ty] at h ⊢

omit [DecidableEq ν] [LawfulNumOrd ν] in
/-- An unordered pair at the deciding position of two arrays makes the whole comparison
    that error; elements after a decided position are never looked at. -/
theorem C08_unordered_element_is_error (a b : Value ν) (e : Err) (pre : List (Thunk ν))
    (xs ys : List (Thunk ν)) (h : lexCompare a b = .error e)
    (hpre : cmpThunks pre pre = .ok .eq) :
    lexCompare (.arr (pre ++ .val a :: xs)) (.arr (pre ++ .val b :: ys)) = .error e := by
  simp only [lexCompare]
  induction pre with
  | nil => simp [cmpThunks, h]
  | cons p pre ih =>
    cases p with
    | fail e' => simp [cmpThunks] at hpre
    | val v =>
      simp only [List.cons_append, cmpThunks] at hpre ⊢
      cases hv : lexCompare v v with
      | error e' => rw [hv] at hpre; cases hpre
      | ok o =>
        rw [hv] at hpre
        cases o with
        | eq => exact ih hpre
        | lt => cases hpre
        | gt => cases hpre

/-! ## String order -/

/-- **C08 str_order_is_codepoint** (`utf8_encode_monotone`).  Rust's `str::cmp` compares the
    UTF-8 bytes; on the encodings of two code point sequences that is the same as
    comparing the code point sequences lexicographically (so U+FFFF < U+10000, unlike
    UTF-16 order). -/
theorem C08_str_order_is_codepoint (as bs : List Nat) (ha : ∀ c ∈ as, c < 0x110000)
    (hb : ∀ c ∈ bs, c < 0x110000) : cmpCps (utf8s as) (utf8s bs) = cmpCps as bs :=
  utf8_encode_monotone as bs ha hb

end

/-! ## Non-vacuity -/

example : WF exA := by
  refine .arr _ ?_
  intro v hv
  simp only [List.mem_cons, Thunk.val.injEq, List.not_mem_nil, or_false] at hv
  rcases hv with rfl | rfl
  · exact .num 1
  · refine .obj _ (by decide) ?_
    intro k v hv
    simp only [List.mem_cons, Prod.mk.injEq, Thunk.val.injEq, List.not_mem_nil, or_false] at hv
    rcases hv with ⟨_, rfl⟩ | ⟨_, rfl⟩
    · exact .str _
    · exact .arr _ (by intro v hv; cases hv)

example : structEq exA exA = .ok true := rfl
example : denote exA = some (.arr [.num 1, .obj [("a", .str [97]), ("b", .arr [])]]) := rfl
example : HasSort (ν := Int) (.arr .num) (.arr [.val (.num 1), .val (.num 2)]) :=
  .arr _ _ (by intro e he; simp at he) (by
    intro v hv
    simp only [List.mem_cons, Thunk.val.injEq, List.not_mem_nil, or_false] at hv
    rcases hv with rfl | rfl <;> exact .num _)

-- the machine on concrete inputs: laziness beyond the deciding position, an error at it,
-- hidden-field-free objects, -0 = 0 (the same `Int`), astral vs BMP strings
example : machineOp 100 .eq (.val (.arr [.val (.num 1), .fail .explicit]))
    (.val (.arr [.val (.num (2 : Int)), .fail .explicit])) = .res (.bool false) := rfl
example : machineOp 100 .lt (.val (.arr [.val (.num 1), .fail .explicit]))
    (.val (.arr [.val (.num (2 : Int)), .fail .explicit])) = .res (.bool true) := rfl
example : machineOp 100 .eq (.val (.arr [.val (.num 1), .fail .explicit]))
    (.val (.arr [.val (.num (1 : Int)), .val (.num 3)])) = .err .explicit := rfl
example : machineOp 100 .ne (.val exA) (.val exA) = .res (.bool false) := rfl
example : machineOp 100 .le (.val (.str [0xFFFF])) (.val (.str [0x10000]) : Thunk Int) =
    .res (.bool true) := rfl
example : machineOp 100 .stdCompare (.val (.arr [.val (.num 1)]))
    (.val (.arr [.val (.num (1 : Int)), .val .null])) = .res (.num (-1)) := rfl
example : machineOp 100 .lt (.val .null) (.val .null : Thunk Int) = .err .compareNull := rfl
example : machineOp 100 .stdCompareArray (.val (.arr [])) (.val (.num 1) : Thunk Int) =
    .err (.compareArrayArg 1 .number) := rfl
example : lexCompare (ν := Int) (.arr [.val (.num 1), .val .null]) (.arr [.val (.num 1), .val .null]) =
    .error .compareNull := rfl
example : utf8s [0xFFFF] = [0xEF, 0xBF, 0xBF] ∧ utf8s [0x10000] = [0xF0, 0x90, 0x80, 0x80] :=
  ⟨rfl, rfl⟩

end Rsj.Compare

open Rsj.Compare in
#print axioms C08_equals_machine_refines
open Rsj.Compare in
#print axioms C08_compare_machine_refines
open Rsj.Compare in
#print axioms C08_ops_machine_refine
open Rsj.Compare in
#print axioms C08_equals_refl
open Rsj.Compare in
#print axioms C08_equals_symm
open Rsj.Compare in
#print axioms C08_equals_trans
open Rsj.Compare in
#print axioms C08_equals_iff_same_json
open Rsj.Compare in
#print axioms C08_equals_iff_identical
open Rsj.Compare in
#print axioms C08_pure_iff_denotes
open Rsj.Compare in
#print axioms C08_equals_false_iff_ne
open Rsj.Compare in
#print axioms C08_ne_is_not_eq
open Rsj.Compare in
#print axioms C08_compare_swap
open Rsj.Compare in
#print axioms C08_compare_trans
open Rsj.Compare in
#print axioms C08_lt_trans
open Rsj.Compare in
#print axioms C08_compare_eq_iff_equals
open Rsj.Compare in
#print axioms C08_trichotomy_of_comparable
open Rsj.Compare in
#print axioms C08_trichotomy
open Rsj.Compare in
#print axioms C08_le_ge_derived
open Rsj.Compare in
#print axioms C08_compare_array_derived
open Rsj.Compare in
#print axioms C08_unordered_is_error
open Rsj.Compare in
#print axioms C08_unordered_element_is_error
open Rsj.Compare in
#print axioms C08_str_order_is_codepoint
