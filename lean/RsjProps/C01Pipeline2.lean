/-
  C01 on the whole-pipeline model, with the parser stage closed: `C01_pipeline_answers`
  (RsjProps/C01Pipeline.lean) had to keep the parser model's fault outcomes (its transcribed Rust panic
  sites and its fuel bound) as a residual panic-class answer.  `C15_parse_never_faults` +
  `C15_lexed_tokens_ok` (RsjProofs/ParserNoFault1..4.lean) exclude them: the lexer's output ends in its only
  end-of-file token, and on such input the parser answers a tree or a syntax error.
-/
import RsjProps.C01Pipeline
import RsjProofs.ParserNoFault4
namespace Rsj.Pipeline
open Rsj.Eval

/-- The answer lines of `runSource`, `IsAnswerNoPanic` without the parser-fault line.  `panic <hex>` is
    answered only by the last constructor and by `evalErr` for the NaN comparison. -/
inductive IsAnswerNoPanic2 (traces : Bool) : String → Prop
  | lexErr (e : Lexer.LexErr) : IsAnswerNoPanic2 traces (lexErrLine e)
  | parseErr (sp : Parser.Span) (ex : List Parser.Expected) (act : Parser.Actual) :
      IsAnswerNoPanic2 traces (parseErrLine sp ex act)
  | unsupported (m : String) : IsAnswerNoPanic2 traces ("unsupported " ++ Core.strHex m)
  | analyzeErr (er : Analyze.AErr) : IsAnswerNoPanic2 traces ("err analyze " ++ Analyze.showErr er)
  | gas : IsAnswerNoPanic2 traces (gasLine traces)
  | ok (v : String) (st : St) : IsAnswerNoPanic2 traces ("ok " ++ v ++ (if traces then showTraces st else ""))
  /-- an evaluation outcome that is not a value: `err eval …`, `unsupported …`, or — the ONLY modelled panic of
      the evaluator stage that is not excluded — `panic` of the message `partial_cmp of NaN` -/
  | evalErr (er : Err) (st : St) (h : ∀ m, er = .internal m → NanPanic m) :
      IsAnswerNoPanic2 traces (showErr er ++ (if traces then showTraces st else ""))
  /-- RESIDUAL (no theorem excludes it): a token payload that does not decode (`hexDecode ∘ hexEnc`, UTF-8
      validity of the lexer's identifier bytes / scalar values) or a tree shape the lowering rejects -/
  | frontFault (w : String) : IsAnswerNoPanic2 traces ("panic " ++ Core.strHex ("lowering: bad token payload " ++ w))

/-- the new classification refines the old one -/
theorem IsAnswerNoPanic2.toOld {traces : Bool} {s : String} (h : IsAnswerNoPanic2 traces s) :
    IsAnswerNoPanic traces s := by
  cases h with
  | lexErr e => exact .lexErr e
  | parseErr sp ex act => exact .parseErr sp ex act
  | unsupported m => exact .unsupported m
  | analyzeErr er => exact .analyzeErr er
  | gas => exact .gas
  | ok v st => exact .ok v st
  | evalErr er st h => exact .evalErr er st h
  | frontFault w => exact .frontFault w

/-- **C01 on the pipeline, every source, parser stage closed.**  For every byte string, frame limit, fuel and
    trace flag the answer of `runSource` is one of the lines of `IsAnswerNoPanic2`: no panic site of the LEXER
    stage (`C14_lex_total`), none of the PARSER stage and its fuel always suffices (`C15_parse_never_faults` on
    `C15_lexed_tokens_ok`), none of the ANALYZER, and of the EVALUATOR stage only the comparison of a NaN. -/
theorem C01_pipeline_answers2 (maxStack fuel : Nat) (traces : Bool) (src : List Nat) :
    IsAnswerNoPanic2 traces (runSource maxStack fuel traces src) := by
  have hlex := Rsj.Lexer.C14_lex_total src false
  cases hf : front [] Analyze.rootEnv src with
  | lexErr e => unfold runSource; rw [hf]; exact IsAnswerNoPanic2.lexErr e
  | lexFault s => exact absurd hf (front_ne_lexFault hlex s)
  | parseErr sp ex act => unfold runSource; rw [hf]; exact IsAnswerNoPanic2.parseErr sp ex act
  | parseFault f => exact absurd hf (front_ne_parseFault [] Analyze.rootEnv src f)
  | unsupported m => unfold runSource; rw [hf]; exact IsAnswerNoPanic2.unsupported m
  | badPayload w => unfold runSource; rw [hf]; exact IsAnswerNoPanic2.frontFault w
  | analyzeErr er => unfold runSource; rw [hf]; exact IsAnswerNoPanic2.analyzeErr er
  | ok e =>
    rcases C01_pipeline_no_panic_except_nan hf maxStack fuel traces with h | ⟨v, st, h⟩ | ⟨er, st, h, hn⟩
    · rw [h]; exact IsAnswerNoPanic2.gas
    · rw [h]; exact IsAnswerNoPanic2.ok v st
    · rw [h]; exact IsAnswerNoPanic2.evalErr er st hn

/-- the static stages alone (`runLoad`): `ok`, a located lexical / syntax error, `unsupported`, an analysis
    error, or the lowering residual — never a parser fault -/
theorem C01_pipeline_front_no_parse_fault (libs : List (String × String)) (env : Analyze.AEnv) (src : List Nat)
    (f : Parser.Fault) : front libs env src ≠ .parseFault f :=
  front_ne_parseFault libs env src f

end Rsj.Pipeline

open Rsj.Pipeline in
#print axioms C01_pipeline_answers2
open Rsj.Pipeline in
#print axioms C01_pipeline_front_no_parse_fault
