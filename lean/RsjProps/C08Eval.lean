/-
  C08 on the evaluator model (`RsjModel/Eval.lean`): the tasks `equals` / `compare` and the
  operator arms `== != < <= > >=` of the evaluator, on deeply evaluated values, refine the proved
  comparison model (`RsjModel/Compare.lean`, `RsjProps/C08.lean`); the C08 laws therefore hold of
  the evaluator model itself.  Property theorems only (lemmas: RsjProofs/EvalCompare*.lean).

  Reading guide.
  * `[FloatLaws]` — the evaluator model compares `Float`s, whose operations are opaque to Lean's
    kernel; `FloatLaws` (RsjProofs/EvalCompareNum.lean) lists what is used of IEEE 754 `==`, `<`,
    `<=` on doubles that are not NaN (a strict total order up to `==`, `-1 < 0 < 1`).  It is the
    only assumption and concerns no NaN operand: evaluated values contain no NaN.
  * `Evald st h v` — `v` is deeply evaluated in the store `st` with nesting height ≤ `h` (what
    `run (.deep v 0)` establishes): every reachable array element / *visible* object field is a
    `done` thunk, every reachable object has `assertsChecked`, no number is NaN.  Hidden fields are
    unconstrained.  `Evald_mono_le`, `absVal_mono_le`: any larger `h` will do.
  * `Ret m st r` — the computation `m` run in `st` returns `r` (a value or an error) and leaves the
    store unchanged up to the ghost depth counter `deepest`: in particular nothing is forced, no
    assertion is run and no trace is emitted.  `RetTo m st st' r`: the same, ending in `st'`.
  * Budget: `h + 1 ≤ n` levels of fuel and `d + h ≤ cfg.maxStack` frames (`d`: current depth).
-/
import RsjProofs.EvalCompareExample
set_option linter.unusedSectionVars false
namespace Rsj.Eval.Cmp
open Rsj.Core Rsj.Eval
open Rsj.Compare (structEq lexCompare VSort)

variable [L : FloatLaws]

/-! ## Refinement -/

/-- **C08 eval equals_refines.**  On deeply evaluated `a`, `b`, `equals` returns `structEq` of the
    abstractions: `.bool r` for `.ok r`, the error `CompareFunctions` for `.compareFunctions`. -/
theorem C08_eval_equals_refines (cfg : Cfg) (st : St) (h n : Nat) (a b : Value) (d : Nat)
    (ha : Evald st h a) (hb : Evald st h b) (hn : h + 1 ≤ n) (hd : d + h ≤ cfg.maxStack) :
    Ret (run cfg n (.equals a b d)) st
      (match structEq (absVal st h a) (absVal st h b) with
        | .ok r => .ok (.bool r)
        | .error e => .error (absErr e)) := by
  have := run_equals_ret cfg st h n hn a b d ha hb hd
  cases hs : structEq (absVal st h a) (absVal st h b) <;> (rw [hs] at this; exact this)

/-- **C08 eval compare_refines.**  On deeply evaluated `a`, `b`, `compare` returns `lexCompare` of
    the abstractions: `.num (-1 / 0 / 1)` for an ordering, otherwise the error
    `CompareNullInequality` / `CompareBooleanInequality` / `CompareObjectInequality` /
    `CompareFunctions` / `CompareDifferentTypesInequality "<Lhs>/<Rhs>"` (`absErr`). -/
theorem C08_eval_compare_refines (cfg : Cfg) (st : St) (h n : Nat) (a b : Value) (d : Nat)
    (ha : Evald st h a) (hb : Evald st h b) (hn : h + 1 ≤ n) (hd : d + h ≤ cfg.maxStack) :
    Ret (run cfg n (.compare a b d)) st
      (match lexCompare (absVal st h a) (absVal st h b) with
        | .ok o => .ok (.num (ordF o))
        | .error e => .error (absErr e)) := by
  have := run_compare_ret cfg st h n hn a b d ha hb hd
  cases hs : lexCompare (absVal st h a) (absVal st h b) <;> (rw [hs] at this; exact this)

/-- **C08 eval equals_total.**  On deeply evaluated values `equals` always answers a boolean,
    except for the error `CompareFunctions` (two functions at the deciding position); there is no
    other outcome — no other error, no running out of the stated fuel, no store change. -/
theorem C08_eval_equals_total (cfg : Cfg) (st : St) (h n : Nat) (a b : Value) (d : Nat)
    (ha : Evald st h a) (hb : Evald st h b) (hn : h + 1 ≤ n) (hd : d + h ≤ cfg.maxStack) :
    (∃ r, Ret (run cfg n (.equals a b d)) st (.ok (.bool r))) ∨
    Ret (run cfg n (.equals a b d)) st (.error (.rt "CompareFunctions" "")) := by
  have R := run_equals_ret cfg st h n hn a b d ha hb hd
  cases hs : structEq (absVal st h a) (absVal st h b) with
  | ok r => rw [hs] at R; exact .inl ⟨r, R⟩
  | error e =>
    rw [hs, Compare.structEq_error (abs_allVal ha) _ (abs_allVal hb) e hs] at R
    exact .inr R

/-- **C08 eval compare_total.**  On deeply evaluated values `compare` answers `-1`, `0` or `1`, or
    fails with one of the five comparison errors; there is no other outcome. -/
theorem C08_eval_compare_total (cfg : Cfg) (st : St) (h n : Nat) (a b : Value) (d : Nat)
    (ha : Evald st h a) (hb : Evald st h b) (hn : h + 1 ≤ n) (hd : d + h ≤ cfg.maxStack) :
    (∃ o, Ret (run cfg n (.compare a b d)) st (.ok (.num (ordF o)))) ∨
    (∃ kind detail, Ret (run cfg n (.compare a b d)) st (.error (.rt kind detail)) ∧
      kind ∈ ["CompareNullInequality", "CompareBooleanInequality", "CompareObjectInequality",
        "CompareFunctions", "CompareDifferentTypesInequality"]) := by
  have R := run_compare_ret cfg st h n hn a b d ha hb hd
  cases hs : lexCompare (absVal st h a) (absVal st h b) with
  | ok o => rw [hs] at R; exact .inl ⟨o, R⟩
  | error e =>
    rw [hs] at R
    have he := Compare.lexCompare_error (abs_allVal ha) _ (abs_allVal hb) e hs
    cases e <;> first | exact he.elim | exact .inr ⟨_, _, R, by simp⟩

/-- The error correspondence, spelled out. -/
theorem C08_eval_error_names :
    absErr .compareFunctions = .rt "CompareFunctions" "" ∧
    absErr .compareNull = .rt "CompareNullInequality" "" ∧
    absErr .compareBool = .rt "CompareBooleanInequality" "" ∧
    absErr .compareObject = .rt "CompareObjectInequality" "" ∧
    (∀ st h a b, absErr (.compareDifferentTypes (absVal st h a).ty (absVal st h b).ty) =
      .rt "CompareDifferentTypesInequality" (typeName a ++ "/" ++ typeName b)) := by
  refine ⟨rfl, rfl, rfl, rfl, ?_⟩
  intro st h a b
  rw [abs_ty, abs_ty, typeName_tyOf, typeName_tyOf]; rfl

/-- **Stack overflow, explicitly.**  Without a frame to spare, comparing two non-empty arrays of
    equal length, or two objects with equal non-empty visible field lists, is `StackOverflow`
    (the element comparison needs a frame); everything else in `equals` needs none. -/
theorem C08_eval_equals_stack_overflow (cfg : Cfg) (n : Nat) (st : St) (x y : TId) (xs ys : List TId)
    (d : Nat) (hl : xs.length = ys.length) (hd : cfg.maxStack < d + 1) :
    Ret (run cfg (n + 1) (.equals (.arr (x :: xs)) (.arr (y :: ys)) d)) st (.error .stackOverflow) := by
  rw [run_succ]
  refine Ret.bind_ok (Ret_noteDepth _ _) ?_
  rw [step_equals_arr]
  have : ((x :: xs).length != (y :: ys).length) = false := by simp [hl]
  rw [this, List.zip_cons_cons, eqArrLoop_cons]
  exact Ret.bind_err (Ret_checkDepth_over hd)

/-! ## `==` is an equivalence -/

/-- **C08 eval equals_symm.**  Whatever `equals a b` answers, `equals b a` answers the same. -/
theorem C08_eval_equals_symm (cfg : Cfg) (st st' : St) (h n : Nat) (a b : Value) (d : Nat) (r : Bool)
    (ha : Evald st h a) (hb : Evald st h b) (hn : h + 1 ≤ n) (hd : d + h ≤ cfg.maxStack)
    (hr : run cfg n (.equals a b d) st = some (.ok (.bool r), st')) :
    Ret (run cfg n (.equals b a d)) st (.ok (.bool r)) := by
  have h1 := Compare.structEq_symm _ _ r (equals_inv ha hb hn hd hr)
  have := run_equals_ret cfg st h n hn b a d hb ha hd
  rw [h1] at this
  exact this

/-- **C08 eval equals_trans.** -/
theorem C08_eval_equals_trans (cfg : Cfg) (st s1 s2 : St) (h n : Nat) (a b c : Value) (d : Nat)
    (ha : Evald st h a) (hb : Evald st h b) (hc : Evald st h c) (hn : h + 1 ≤ n)
    (hd : d + h ≤ cfg.maxStack)
    (h1 : run cfg n (.equals a b d) st = some (.ok (.bool true), s1))
    (h2 : run cfg n (.equals b c d) st = some (.ok (.bool true), s2)) :
    Ret (run cfg n (.equals a c d)) st (.ok (.bool true)) := by
  have e := Compare.structEq_trans _ _ _ (equals_inv ha hb hn hd h1) (equals_inv hb hc hn hd h2)
  have := run_equals_ret cfg st h n hn a c d ha hc hd
  rw [e] at this
  exact this

/-- **C08 eval equals_refl** on function-free values (`FuncFree`: no function in an array element
    or visible field; with a function the answer is the error `CompareFunctions`). -/
theorem C08_eval_equals_refl (cfg : Cfg) (st : St) (h n : Nat) (a : Value) (d : Nat)
    (ha : Evald st h a) (hf : FuncFree st h a) (hn : h + 1 ≤ n) (hd : d + h ≤ cfg.maxStack) :
    Ret (run cfg n (.equals a a d)) st (.ok (.bool true)) := by
  have := run_equals_ret cfg st h n hn a a d ha ha hd
  rw [Compare.structEq_refl (abs_pure ha hf)] at this
  exact this

/-- `equals` answers `true` only on function-free values with the same abstraction (the same
    JSON value, `-0 = 0`, hidden fields ignored). -/
theorem C08_eval_equals_true_iff (cfg : Cfg) (st : St) (h n : Nat) (a b : Value) (d : Nat)
    (ha : Evald st h a) (hb : Evald st h b) (hn : h + 1 ≤ n) (hd : d + h ≤ cfg.maxStack) :
    Ret (run cfg n (.equals a b d)) st (.ok (.bool true)) ↔
      (absVal st h a = absVal st h b ∧ Compare.Pure (absVal st h a)) := by
  have R := run_equals_ret cfg st h n hn a b d ha hb hd
  constructor
  · intro hr
    have e := outB_ok_inv (hr.det R)
    exact ⟨Compare.structEq_true_eq _ _ e, Compare.structEq_true_pure _ _ e⟩
  · rintro ⟨e, hp⟩
    rw [← e, Compare.structEq_refl hp] at R
    exact R

/-! ## The operator arms -/

/-- **C08 eval ne_is_not_eq.**  The arms `==` and `!=` of `step (.eval (.binary …))`: with the
    operands evaluated to `av`, `bv` (deeply evaluated in the store `s2` reached after both), either
    `equals av bv` answers `r`, `==` answers `r` and `!=` answers `!r`, or all three fail with the
    same error.  The operators end in `s2` (up to the ghost counter). -/
theorem C08_eval_ne_is_not_eq (cfg : Cfg) (n h : Nat) (a b : Expr) (env : EId) (tail : Bool)
    (d : Nat) (st s1 s2 : St) (av bv : Value)
    (h1 : run cfg n (.eval a env false (d + 1)) { st with deepest := max st.deepest d } = some (.ok av, s1))
    (h2 : run cfg n (.eval b env false (d + 1)) s1 = some (.ok bv, s2))
    (ha : Evald s2 h av) (hb : Evald s2 h bv) (hn : h + 1 ≤ n) (hd : d + 1 + h ≤ cfg.maxStack) :
    (∃ r, Ret (run cfg n (.equals av bv (d + 1))) s2 (.ok (.bool r)) ∧
      RetTo (run cfg (n + 1) (.eval (.binary .eq a b) env tail d)) st s2 (.ok (.bool r)) ∧
      RetTo (run cfg (n + 1) (.eval (.binary .ne a b) env tail d)) st s2 (.ok (.bool (!r)))) ∨
    (∃ e, Ret (run cfg n (.equals av bv (d + 1))) s2 (.error e) ∧
      RetTo (run cfg (n + 1) (.eval (.binary .eq a b) env tail d)) st s2 (.error e) ∧
      RetTo (run cfg (n + 1) (.eval (.binary .ne a b) env tail d)) st s2 (.error e)) := by
  have R := run_equals_ret cfg s2 h n hn av bv (d + 1) ha hb hd
  have E := binary_eq_ret cfg n h .eq a b env tail d st s1 s2 av bv (.inl rfl) h1 h2 ha hb hn hd
  have N := binary_eq_ret cfg n h .ne a b env tail d st s1 s2 av bv (.inr rfl) h1 h2 ha hb hn hd
  cases hs : structEq (absVal s2 h av) (absVal s2 h bv) with
  | ok r => rw [hs] at R E N; exact .inl ⟨r, R, E, N⟩
  | error e => rw [hs] at R E N; exact .inr ⟨_, R, E, N⟩

/-- **C08 eval le_ge_derived.**  The four arms `< <= > >=` are derived from the one three-way
    `compare`: with the operands evaluated to `av`, `bv`, either `compare av bv` answers
    `ordF o` (`-1 / 0 / 1`) and the operators answer `o = lt`, `o ≠ gt`, `o = gt`, `o ≠ lt`
    (`ordTest`) — so `a <= b ⇔ a < b ∨ compare = 0` and `a >= b ⇔ ¬ a < b` — or all five fail with
    the same error. -/
theorem C08_eval_le_ge_derived (cfg : Cfg) (n h : Nat) (a b : Expr) (env : EId) (tail : Bool)
    (d : Nat) (st s1 s2 : St) (av bv : Value)
    (h1 : run cfg n (.eval a env false (d + 1)) { st with deepest := max st.deepest d } = some (.ok av, s1))
    (h2 : run cfg n (.eval b env false (d + 1)) s1 = some (.ok bv, s2))
    (ha : Evald s2 h av) (hb : Evald s2 h bv) (hn : h + 1 ≤ n) (hd : d + 1 + h ≤ cfg.maxStack) :
    (∃ o : Ordering, Ret (run cfg n (.compare av bv (d + 1))) s2 (.ok (.num (ordF o))) ∧
      RetTo (run cfg (n + 1) (.eval (.binary .lt a b) env tail d)) st s2 (.ok (.bool (o == .lt))) ∧
      RetTo (run cfg (n + 1) (.eval (.binary .le a b) env tail d)) st s2 (.ok (.bool (o != .gt))) ∧
      RetTo (run cfg (n + 1) (.eval (.binary .gt a b) env tail d)) st s2 (.ok (.bool (o == .gt))) ∧
      RetTo (run cfg (n + 1) (.eval (.binary .ge a b) env tail d)) st s2 (.ok (.bool (o != .lt))) ∧
      (o != .gt) = (o == .lt || o == .eq) ∧ (o != .lt) = !(o == .lt)) ∨
    (∃ e, Ret (run cfg n (.compare av bv (d + 1))) s2 (.error e) ∧
      ∀ op, op = BinOp.lt ∨ op = .le ∨ op = .gt ∨ op = .ge →
        RetTo (run cfg (n + 1) (.eval (.binary op a b) env tail d)) st s2 (.error e)) := by
  have R := run_compare_ret cfg s2 h n hn av bv (d + 1) ha hb hd
  have O := fun op hop => binary_ord_ret cfg n h op a b env tail d st s1 s2 av bv hop h1 h2 ha hb hn hd
  cases hs : lexCompare (absVal s2 h av) (absVal s2 h bv) with
  | ok o =>
    rw [hs] at R O
    refine .inl ⟨o, R, O .lt (.inl rfl), O .le (.inr (.inl rfl)), O .gt (.inr (.inr (.inl rfl))),
      O .ge (.inr (.inr (.inr rfl))), ?_, ?_⟩ <;> cases o <;> rfl
  | error e =>
    rw [hs] at R O
    exact .inr ⟨_, R, O⟩

/-! ## The order -/

/-- **C08 eval compare_swap.**  If `compare a b` answers, its answer is `-1`, `0` or `1` (`ordF o`)
    and `compare b a` answers the opposite. -/
theorem C08_eval_compare_swap (cfg : Cfg) (st st' : St) (h n : Nat) (a b : Value) (d : Nat) (v : Value)
    (ha : Evald st h a) (hb : Evald st h b) (hn : h + 1 ≤ n) (hd : d + h ≤ cfg.maxStack)
    (hr : run cfg n (.compare a b d) st = some (.ok v, st')) :
    ∃ o, v = .num (ordF o) ∧ Ret (run cfg n (.compare b a d)) st (.ok (.num (ordF o.swap))) := by
  obtain ⟨o, hv, ho⟩ := compare_inv ha hb hn hd hr
  have h1 := Compare.lexCompare_swap _ _ o ho
  have := run_compare_ret cfg st h n hn b a d hb ha hd
  rw [h1] at this
  exact ⟨o, hv, this⟩

/-- **C08 eval compare_trans.**  `a ≤ b` and `b ≤ c` (answers `o1`, `o2` other than `1`): `a` and `c`
    are comparable and the answer is `o1.then o2`; in particular `<` is transitive. -/
theorem C08_eval_compare_trans (cfg : Cfg) (st s1 s2 : St) (h n : Nat) (a b c : Value) (d : Nat)
    (o1 o2 : Ordering)
    (ha : Evald st h a) (hb : Evald st h b) (hc : Evald st h c) (hn : h + 1 ≤ n)
    (hd : d + h ≤ cfg.maxStack)
    (h1 : run cfg n (.compare a b d) st = some (.ok (.num (ordF o1)), s1))
    (h2 : run cfg n (.compare b c d) st = some (.ok (.num (ordF o2)), s2))
    (n1 : o1 ≠ .gt) (n2 : o2 ≠ .gt) :
    Ret (run cfg n (.compare a c d)) st (.ok (.num (ordF (o1.then o2)))) := by
  have e1 := outO_ok_inv ((run_compare_ret cfg st h n hn a b d ha hb hd).of_run h1).1
  have e2 := outO_ok_inv ((run_compare_ret cfg st h n hn b c d hb hc hd).of_run h2).1
  have e := Compare.lexCompare_then _ _ _ o1 o2 e1 e2 n1 n2
  have := run_compare_ret cfg st h n hn a c d ha hc hd
  rw [e] at this
  exact this

/-- **C08 eval compare_eq_iff_equals.**  Whenever `compare a b` answers `ordF o`, `equals a b`
    answers, and answers `o = eq`: `compare = 0 ⇔ ==`. -/
theorem C08_eval_compare_eq_iff_equals (cfg : Cfg) (st st' : St) (h n : Nat) (a b : Value) (d : Nat)
    (v : Value)
    (ha : Evald st h a) (hb : Evald st h b) (hn : h + 1 ≤ n) (hd : d + h ≤ cfg.maxStack)
    (hr : run cfg n (.compare a b d) st = some (.ok v, st')) :
    ∃ o, v = .num (ordF o) ∧ Ret (run cfg n (.equals a b d)) st (.ok (.bool (o == .eq))) := by
  obtain ⟨o, hv, ho⟩ := compare_inv ha hb hn hd hr
  have h1 := Compare.lexCompare_structEq _ _ o ho
  have := run_equals_ret cfg st h n hn a b d ha hb hd
  rw [h1] at this
  exact ⟨o, hv, this⟩

/-- **C08 eval trichotomy.**  On numbers, strings and (nested) arrays of these (`SortE st s`: both
    values of one sort `s`, element thunks evaluated): `compare a b` answers some `o`, `equals a b`
    answers `o = eq`, `compare b a` answers the opposite — so exactly one of `a < b`, `a == b`,
    `a > b` (the operator verdicts `ordTest .lt o`, `o == .eq`, `ordTest .gt o`) is `true`. -/
theorem C08_eval_trichotomy (cfg : Cfg) (st : St) (s : VSort) (n : Nat) (a b : Value) (d : Nat)
    (ha : SortE st s a) (hb : SortE st s b) (hn : sortHeight s + 1 ≤ n)
    (hd : d + sortHeight s ≤ cfg.maxStack) :
    ∃ o : Ordering,
      Ret (run cfg n (.compare a b d)) st (.ok (.num (ordF o))) ∧
      Ret (run cfg n (.equals a b d)) st (.ok (.bool (o == .eq))) ∧
      Ret (run cfg n (.compare b a d)) st (.ok (.num (ordF o.swap))) ∧
      ((ordTest .lt o = true ∧ (o == .eq) = false ∧ ordTest .gt o = false) ∨
       (ordTest .lt o = false ∧ (o == .eq) = true ∧ ordTest .gt o = false) ∨
       (ordTest .lt o = false ∧ (o == .eq) = false ∧ ordTest .gt o = true)) := by
  obtain ⟨ea, sa⟩ := sortE_evald ha
  obtain ⟨eb, sb⟩ := sortE_evald hb
  obtain ⟨o, ho⟩ := Compare.lexCompare_total sa _ sb
  have c1 := run_compare_ret cfg st _ n hn a b d ea eb hd
  have c2 := run_equals_ret cfg st _ n hn a b d ea eb hd
  have c3 := run_compare_ret cfg st _ n hn b a d eb ea hd
  rw [ho] at c1
  rw [Compare.lexCompare_structEq _ _ o ho] at c2
  rw [Compare.lexCompare_swap _ _ o ho] at c3
  refine ⟨o, c1, c2, c3, ?_⟩
  cases o
  · exact .inl ⟨rfl, rfl, rfl⟩
  · exact .inr (.inl ⟨rfl, rfl, rfl⟩)
  · exact .inr (.inr ⟨rfl, rfl, rfl⟩)

/-- **C08 eval unordered_is_error.**  `compare` of null with null, two booleans, two objects, two
    functions or two values of different types is the specific error — for *any* store, no
    evaluation needed; and on evaluated values an answer is only ever given to two numbers, two
    strings or two arrays (for arrays the error of a deciding element pair propagates:
    `C08_eval_compare_refines` with `C08_unordered_element_is_error`). -/
theorem C08_eval_unordered_is_error (cfg : Cfg) (n : Nat) (st : St) (d : Nat) :
    Ret (run cfg (n + 1) (.compare .null .null d)) st (.error (.rt "CompareNullInequality" "")) ∧
    (∀ x y, Ret (run cfg (n + 1) (.compare (.bool x) (.bool y) d)) st
      (.error (.rt "CompareBooleanInequality" ""))) ∧
    (∀ x y, Ret (run cfg (n + 1) (.compare (.obj x) (.obj y) d)) st
      (.error (.rt "CompareObjectInequality" ""))) ∧
    (∀ x y, Ret (run cfg (n + 1) (.compare (.func x) (.func y) d)) st
      (.error (.rt "CompareFunctions" ""))) ∧
    (∀ a b, tyOf a ≠ tyOf b → Ret (run cfg (n + 1) (.compare a b d)) st
      (.error (.rt "CompareDifferentTypesInequality" (typeName a ++ "/" ++ typeName b)))) ∧
    (∀ h a b v st', Evald st h a → Evald st h b → h ≤ n → d + h ≤ cfg.maxStack →
      run cfg (n + 1) (.compare a b d) st = some (.ok v, st') →
      (tyOf a = .number ∧ tyOf b = .number) ∨ (tyOf a = .string ∧ tyOf b = .string) ∨
      (tyOf a = .array ∧ tyOf b = .array)) := by
  have key : ∀ a b e, cmpArms cfg (run cfg n) d a b = throw e →
      Ret (run cfg (n + 1) (.compare a b d)) st (.error e) := by
    intro a b e he
    rw [run_succ]
    refine Ret.bind_ok (Ret_noteDepth _ _) ?_
    rw [step_compare, he]
    exact Ret.throw _ _
  refine ⟨key _ _ _ rfl, fun x y => key _ _ _ rfl, fun x y => key _ _ _ rfl,
    fun x y => key _ _ _ rfl, fun a b hne => key _ _ _ (cmpArms_of_ty_ne cfg _ d hne), ?_⟩
  intro h a b v st' ha hb hn hd hr
  obtain ⟨o, _, ho⟩ := compare_inv ha hb (by omega) hd hr
  have := lexCompare_ok_types ho
  rw [abs_ty, abs_ty] at this
  exact this

/-! ## Hidden fields -/

/-- **C08 eval hidden_fields_ignored.**  Two evaluated objects with the same *visible* field names,
    whose visible fields are cached in thunks holding the same values — the objects may differ in
    their hidden fields in any way: names, number, expressions, evaluation state (pending, failing),
    layers — have the same abstraction; hence they compare alike with every evaluated `c`, and are
    `equals` to each other when function-free. -/
theorem C08_eval_hidden_fields_ignored (cfg : Cfg) (st : St) (h n : Nat) (x y : OId) (obx oby : Obj)
    (d : Nat)
    (hx : Evald st (h + 1) (.obj x)) (hy : Evald st (h + 1) (.obj y))
    (hox : st.objs[x]? = some obx) (hoy : st.objs[y]? = some oby)
    (hvis : visibleFields obx = visibleFields oby)
    (hsame : ∀ name ∈ visibleFields obx, ∀ lx fx tx ly fy ty,
      findField obx 0 name = some (lx, fx) → fx.thunk = some tx →
      findField oby 0 name = some (ly, fy) → fy.thunk = some ty →
      st.thunks[tx]? = st.thunks[ty]?)
    (hn : h + 2 ≤ n) (hd : d + (h + 1) ≤ cfg.maxStack) :
    absVal st (h + 1) (.obj x) = absVal st (h + 1) (.obj y) ∧
    (∀ c r, Evald st (h + 1) c →
      (Ret (run cfg n (.equals (.obj x) c d)) st r ↔ Ret (run cfg n (.equals (.obj y) c d)) st r)) ∧
    (FuncFree st (h + 1) (.obj x) →
      Ret (run cfg n (.equals (.obj x) (.obj y) d)) st (.ok (.bool true))) := by
  have eabs : absVal st (h + 1) (.obj x) = absVal st (h + 1) (.obj y) := by
    rw [absVal_obj st h hox, absVal_obj st h hoy, ← hvis]
    congr 1
    apply List.map_congr_left
    intro name hn'
    obtain ⟨obx', hox', _, hfx⟩ := hx
    obtain ⟨oby', hoy', _, hfy⟩ := hy
    rw [hox] at hox'; injection hox' with hox'; subst hox'
    rw [hoy] at hoy'; injection hoy' with hoy'; subst hoy'
    obtain ⟨lx, fx, tx, wx, a1, a2, a3, _⟩ := hfx name hn'
    obtain ⟨ly, fy, ty, wy, b1, b2, b3, _⟩ := hfy name (hvis ▸ hn')
    have := hsame name hn' lx fx tx ly fy ty a1 a2 b1 b2
    rw [a3, b3] at this
    injection this with this
    injection this with this
    subst this
    rw [absField_done a1 a2 a3, absField_done b1 b2 b3]
  refine ⟨eabs, ?_, ?_⟩
  · intro c r hc
    have R1 := run_equals_ret cfg st (h + 1) n hn (.obj x) c d hx hc hd
    have R2 := run_equals_ret cfg st (h + 1) n hn (.obj y) c d hy hc hd
    rw [eabs] at R1
    constructor
    · intro hr; rw [hr.det R1]; exact R2
    · intro hr; rw [hr.det R2]; exact R1
  · intro hf
    have R := run_equals_ret cfg st (h + 1) n hn (.obj x) (.obj y) d hx hy hd
    rw [← eabs, Compare.structEq_refl (abs_pure hx hf)] at R
    exact R

/-! ## `Evald` and the task `deep` -/

omit L in
/-- **C08 eval deep_noop.**  On a value that is `Evald`, the task `deep` (what the evaluator runs on
    a result before manifesting it) finds nothing left to do: it returns the value and leaves the
    store unchanged — no thunk is forced, no assertion run, no field thunk created.  `Evald` is thus
    at least as strong as what `deep` works towards. -/
theorem C08_eval_deep_noop (cfg : Cfg) (st : St) (h n : Nat) (v : Value) (d : Nat)
    (hv : Evald st h v) (hn : h + 1 ≤ n) (hd : d + h ≤ cfg.maxStack) :
    Ret (run cfg n (.deep v d)) st (.ok v) :=
  run_deep_ret cfg st h n hn v d hv hd

/-- **Not proved** (the converse of `C08_eval_deep_noop`): a successful `deep` establishes `Evald`
    in the store it ends in, with the fuel as height bound — given that no evaluated thunk of that
    store holds a NaN (the evaluator checks arithmetic results with `checkNum`; that no other
    operation makes a NaN is a fact about `Float` that is not available in Lean).
    What is missing: that the store only grows under arbitrary evaluation (`run` on any task) —
    a `done` thunk keeps its value (proved in RsjProofs/EvalOnce.lean, which cannot be imported
    together with these files), and an object keeps its field names and visibilities, a set
    `assertsChecked` flag and its cached field thunks (not proved anywhere yet: a Hoare-style
    pass over every arm of `step`, as in EvalOnce / EvalObjectWF). -/
def C08_eval_deep_establishes_full : Prop :=
  ∀ (cfg : Cfg) (n : Nat) (v r : Value) (d : Nat) (st st' : St),
    run cfg n (.deep v d) st = some (.ok r, st') →
    (∀ (t : TId) (f : Float), st'.thunks[t]? = some (TState.done (Value.num f)) → FOk f) → (∀ f, v = .num f → FOk f) →
    r = v ∧ Evald st' n v

/-! ## Laziness -/

/-- **C08 eval lazy.**  What is never forced.  (1) Arrays of different lengths are unequal whatever
    their element thunks are (pending, failing, dangling); (2) objects with different visible field
    names are unequal without a field being evaluated or an assertion run; (3) `compare` of arrays
    stops at the first pair that is not equal: if the evaluated prefixes `p`, `q` of equal length
    decide the order or fail, the result is theirs whatever follows (`xs'`, `ys'`); (4) so does
    `equals`, once the lengths agree. -/
theorem C08_eval_lazy (cfg : Cfg) (st : St) (d : Nat) :
    (∀ n xs ys, xs.length ≠ ys.length →
      Ret (run cfg (n + 1) (.equals (.arr xs) (.arr ys) d)) st (.ok (.bool false))) ∧
    (∀ n x y obx oby, st.objs[x]? = some obx → st.objs[y]? = some oby →
      visibleFields obx ≠ visibleFields oby →
      Ret (run cfg (n + 1) (.equals (.obj x) (.obj y) d)) st (.ok (.bool false))) ∧
    (∀ h n p q xs' ys', h + 2 ≤ n → p.length = q.length → Evald st (h + 1) (.arr p) →
      Evald st (h + 1) (.arr q) → d + (h + 1) ≤ cfg.maxStack →
      lexCompare (absVal st (h + 1) (.arr p)) (absVal st (h + 1) (.arr q)) ≠ .ok .eq →
      Ret (run cfg n (.compare (.arr (p ++ xs')) (.arr (q ++ ys')) d)) st
        (outO (lexCompare (absVal st (h + 1) (.arr p)) (absVal st (h + 1) (.arr q))))) ∧
    (∀ h n p q xs' ys', h + 2 ≤ n → p.length = q.length → xs'.length = ys'.length →
      Evald st (h + 1) (.arr p) → Evald st (h + 1) (.arr q) → d + (h + 1) ≤ cfg.maxStack →
      structEq (absVal st (h + 1) (.arr p)) (absVal st (h + 1) (.arr q)) ≠ .ok true →
      Ret (run cfg n (.equals (.arr (p ++ xs')) (.arr (q ++ ys')) d)) st
        (outB (structEq (absVal st (h + 1) (.arr p)) (absVal st (h + 1) (.arr q))))) :=
  ⟨fun n xs ys h => run_equals_arr_length cfg n st xs ys d h,
   fun n x y obx oby h1 h2 h3 => run_equals_obj_names cfg n st x y obx oby d h1 h2 h3,
   fun h n p q xs' ys' hn hl hp hq hd hne => run_compare_prefix cfg st h n hn p q xs' ys' d hl hp hq hd hne,
   fun h n p q xs' ys' hn hl hl' hp hq hd hne =>
     run_equals_prefix cfg st h n hn p q xs' ys' d hl hl' hp hq hd hne⟩

end Rsj.Eval.Cmp


/-! ## Non-vacuity -/

namespace Rsj.Eval.Cmp
open Rsj.Core Rsj.Eval
open Rsj.Compare (structEq lexCompare VSort)

/-- `FloatLaws` is the generic `OrdLaws` at `Float`; `OrdLaws` has a model with a NaN. -/
example : FloatLaws ↔ OrdLaws Float.isNaN (fun x y : Float => x == y) (fun x y : Float => x < y)
    (fun x y : Float => x ≤ y) (-1.0) 0.0 1.0 := floatLaws_iff
example : OrdLaws (F := Option Int) Option.isNone toyBeq toyLt toyLe (some (-1)) (some 0) (some 1) :=
  ordLaws_toy

variable [L : FloatLaws]

/-- the hypotheses of the refinement theorems are satisfiable: evaluated objects (height 2) -/
example : Evald exSt 2 (.obj 0) ∧ Evald exSt 2 (.obj 1) := ⟨exSt_obj0, exSt_obj1⟩

/-- … and the abstraction: the hidden field is not part of it -/
example : absVal exSt 2 (.obj 0) =
    .obj [("a", .val (.arr [.val (.num (absNum 1.0)), .val (.str [97])]))] := by rfl

/-- objects differing only in a hidden field are equal (here: `h:: error "boom"` against `h:: null`) -/
example : Ret (run { maxStack := 10 } 5 (.equals (.obj 0) (.obj 1) 0)) exSt (.ok (.bool true)) := by
  have v0 : visibleFields (exObjA (.error_ (.str "boom"))) = ["a"] := by rfl
  have v1 : visibleFields (exObjA .null) = ["a"] := by rfl
  have f0 : findField (exObjA (.error_ (.str "boom"))) 0 "a" = some (0, exFieldA) := by rfl
  have f1 : findField (exObjA .null) 0 "a" = some (0, exFieldA) := by rfl
  refine (C08_eval_hidden_fields_ignored { maxStack := 10 } exSt 1 5 0 1
    (exObjA (.error_ (.str "boom"))) (exObjA .null) 0
    exSt_obj0 exSt_obj1 rfl rfl (by rw [v0, v1]) ?_ (by decide) (by decide)).2.2 ?_
  · intro name hn lx fx tx ly fy ty h1 h2 h3 h4
    rw [v0] at hn
    have : name = "a" := by simpa using hn
    subst this
    rw [f0] at h1; rw [f1] at h3
    injection h1 with h1; injection h3 with h3
    injection h1 with _ h1; injection h3 with _ h3
    subst h1; subst h3
    injection h2 with h2; injection h4 with h4
    subst h2; subst h4
    rfl
  · intro ob ho name hn li f t w h1 h2 h3
    have ho' : some (exObjA (.error_ (.str "boom"))) = some ob := ho
    injection ho' with ho'
    subst ho'
    rw [v0] at hn
    have : name = "a" := by simpa using hn
    subst this
    rw [f0] at h1
    injection h1 with h1; injection h1 with _ h1; subst h1
    injection h2 with h2; subst h2
    have h3' : some (TState.done (.arr [0, 1])) = some (TState.done w) := h3
    injection h3' with h3'; injection h3' with h3'; subst h3'
    intro t ht w hw
    simp only [List.mem_cons, List.not_mem_nil, or_false] at ht
    rcases ht with rfl | rfl
    · have hw' : some (TState.done (.num 1.0)) = some (TState.done w) := hw
      injection hw' with hw'; injection hw' with hw'; subst hw'; trivial
    · have hw' : some (TState.done (.str "a")) = some (TState.done w) := hw
      injection hw' with hw'; injection hw' with hw'; subst hw'; trivial

/-- `deep` on the evaluated object returns it and changes nothing (the hidden field `h`, which
    would fail, is not touched) -/
example : Ret (run { maxStack := 10 } 5 (.deep (.obj 0) 0)) exSt (.ok (.obj 0)) :=
  C08_eval_deep_noop _ exSt 2 5 _ 0 exSt_obj0 (by decide) (by decide)

/-- values with an order: `[1, 0]` is an array of numbers; trichotomy applies to it -/
example : SortE exSt (.arr .num) (.arr [0, 3]) := by
  refine ⟨_, rfl, ?_⟩
  intro t ht
  simp only [List.mem_cons, List.not_mem_nil, or_false] at ht
  rcases ht with rfl | rfl
  · exact ⟨_, rfl, _, rfl, L.ok_one⟩
  · exact ⟨_, rfl, _, rfl, L.ok_zero⟩

/-- laziness: `[1, <pending, failing>] < [0, <pending, failing>]` is decided by the first pair
    (`1` against `0`: the answer is `1`, "greater"), the failing thunk `4` is never forced -/
example : Ret (run { maxStack := 10 } 5 (.compare (.arr ([0] ++ [4])) (.arr ([3] ++ [4])) 0)) exSt
    (.ok (.num 1.0)) := by
  have hp : Evald exSt 1 (.arr [0]) := by
    intro t ht
    simp only [List.mem_cons, List.not_mem_nil, or_false] at ht
    subst ht
    exact ⟨_, rfl, L.ok_one⟩
  have hq : Evald exSt 1 (.arr [3]) := by
    intro t ht
    simp only [List.mem_cons, List.not_mem_nil, or_false] at ht
    subst ht
    exact ⟨_, rfl, L.ok_zero⟩
  have hc : lexCompare (absVal exSt 1 (.arr [0])) (absVal exSt 1 (.arr [3])) = .ok .gt := by
    show lexCompare (Compare.Value.arr [.val (.num (absNum 1.0))])
      (Compare.Value.arr [.val (.num (absNum 0.0))]) = _
    simp only [lexCompare, Compare.cmpThunks, cmp_absNum L.ok_one L.ok_zero,
      (cmpF_gt_iff L.ok_one L.ok_zero).mpr L.zero_lt_one]
  have := run_compare_prefix { maxStack := 10 } exSt 0 5 (by decide) [0] [3] [4] [4] 0 rfl hp hq
    (by decide) (by rw [hc]; intro h; cases h)
  rw [hc] at this
  exact this

/-- equality of different lengths looks at nothing: thunk `4` is pending and would fail -/
example : Ret (run { maxStack := 0 } 1 (.equals (.arr [4]) (.arr [4, 4]) 0)) exSt (.ok (.bool false)) :=
  run_equals_arr_length _ 0 exSt [4] [4, 4] 0 (by decide)

end Rsj.Eval.Cmp

open Rsj.Eval.Cmp in
#print axioms C08_eval_equals_refines
open Rsj.Eval.Cmp in
#print axioms C08_eval_compare_refines
open Rsj.Eval.Cmp in
#print axioms C08_eval_equals_total
open Rsj.Eval.Cmp in
#print axioms C08_eval_compare_total
open Rsj.Eval.Cmp in
#print axioms C08_eval_error_names
open Rsj.Eval.Cmp in
#print axioms C08_eval_equals_stack_overflow
open Rsj.Eval.Cmp in
#print axioms C08_eval_equals_symm
open Rsj.Eval.Cmp in
#print axioms C08_eval_equals_trans
open Rsj.Eval.Cmp in
#print axioms C08_eval_equals_refl
open Rsj.Eval.Cmp in
#print axioms C08_eval_equals_true_iff
open Rsj.Eval.Cmp in
#print axioms C08_eval_ne_is_not_eq
open Rsj.Eval.Cmp in
#print axioms C08_eval_le_ge_derived
open Rsj.Eval.Cmp in
#print axioms C08_eval_compare_swap
open Rsj.Eval.Cmp in
#print axioms C08_eval_compare_trans
open Rsj.Eval.Cmp in
#print axioms C08_eval_compare_eq_iff_equals
open Rsj.Eval.Cmp in
#print axioms C08_eval_trichotomy
open Rsj.Eval.Cmp in
#print axioms C08_eval_unordered_is_error
open Rsj.Eval.Cmp in
#print axioms C08_eval_hidden_fields_ignored
open Rsj.Eval.Cmp in
#print axioms C08_eval_deep_noop
open Rsj.Eval.Cmp in
#print axioms C08_eval_lazy
