/-
  C12 — the command-line contract: exit status, streams, output modes,
  external variables and top-level arguments.
  Property theorems only (helper lemmas live in RsjProofs/Cli.lean).

  Reading guide.  `mainInner args w` is `main_inner` of rsjsonnet/src/main.rs
  after clap has produced `args`; `w : World` supplies the result of every
  stage the tool delegates (reading, loading, evaluating, manifesting one
  value, writing a file, writing + flushing stdout).  clap's own rejections
  (unknown flag, missing <filename>, `var=file` without `=`) exit 2 before
  `main_inner` inspects anything; inside `main_inner` the only usage error is
  `-S` together with `-y` (theorem `C12_usage_iff`).
-/
import RsjProofs.Cli
namespace Rsj.Cli
open Rsj.Import (pathJoin)

/-! ## Declarative description of "every stage succeeded" -/

/-- Reading and loading the input succeeded and produced the thunk `root`. -/
def InputOk (args : Args) (w : World) (root : ThunkSrc) : Prop :=
  match args.input with
  | .exec code => w.loadVirt "<cmdline>" code = true ∧ root = .virt "<cmdline>" code
  | .stdin => ∃ data, w.stdin = some data ∧ w.loadVirt "<stdin>" data = true ∧ root = .virt "<stdin>" data
  | .file path => w.loadReal path = true ∧ root = .real path

/-- The top-level call (or its absence) succeeded with `value`. -/
def CallOk (w : World) (ext tla : List (String × ThunkSrc)) (rootValue value : Value) : Prop :=
  match rootValue with
  | .func _ params => BindSpec params (tla.map (·.1)) ∧ w.evalBody rootValue ext tla = some value
  | _ => tla = [] ∧ value = rootValue

/-- Manifestation succeeded: `output` is what goes to stdout / the `-o` file and
    `files` are the `-m` files, each successfully written. -/
def RenderOk (args : Args) (w : World) (value : Value) (files : List (String × String)) (output : String) : Prop :=
  match args.multi with
  | none => files = [] ∧ valueToRepr args w value = some output
  | some dir =>
    ∃ fields, value = .obj fields ∧ fields.map (fieldFile args w dir) = files.map some ∧
      output = pathLines (files.map (·.1))

/-- The final write succeeded (for stdout: `write_all` and `flush`). -/
def FinalWriteOk (args : Args) (w : World) (output : String) : Prop :=
  match args.output with
  | some path => w.writeFile path output = true
  | none => w.stdoutWrite output = true ∧ w.stdoutFlush = true

/-- Loading, every external variable and top-level argument, evaluation, the
    top-level call, manifestation and every write (including the flush) succeeded. -/
def AllOk (args : Args) (w : World) (output : String) (files : List (String × String)) : Prop :=
  ¬ (args.string = true ∧ args.yamlStream = true) ∧
  ∃ root ext tla rootValue value,
    InputOk args w root ∧
    extItems args w = ext.map lift ∧ (ext.map (·.1)).Nodup ∧
    tlaItems args w = tla.map lift ∧
    w.evalRoot root ext = some rootValue ∧
    CallOk w ext tla rootValue value ∧
    RenderOk args w value files output ∧
    FinalWriteOk args w output

/-! ## Stage lemmas -/

theorem inputThunk_iff (args : Args) (w : World) (root : ThunkSrc) :
    inputThunk args w = some root ↔ InputOk args w root := by
  unfold inputThunk InputOk
  cases args.input with
  | exec code =>
    simp only
    cases w.loadVirt "<cmdline>" code <;> simp [eq_comm]
  | stdin =>
    simp only
    cases hs : w.stdin with
    | none => simp
    | some data =>
      simp only [Option.some.injEq]
      cases hl : w.loadVirt "<stdin>" data with
      | false =>
        simp only [Bool.false_eq_true, if_false]
        constructor
        · intro h; cases h
        · rintro ⟨d, hd, h, -⟩; subst hd; rw [hl] at h; cases h
      | true =>
        simp only [if_true, Option.some.injEq]
        constructor
        · intro h; exact ⟨data, rfl, hl, h.symm⟩
        · rintro ⟨d, hd, -, h⟩; subst hd; exact h.symm
  | file path =>
    simp only
    cases w.loadReal path <;> simp [eq_comm]

theorem callStage_iff (w : World) (ext tla : List (String × ThunkSrc)) (rv v : Value) :
    callStage w ext tla rv = some v ↔ CallOk w ext tla rv v := by
  unfold callStage CallOk
  cases rv with
  | func id params =>
    simp only
    cases hb : bind params (tla.map (·.1)) with
    | error e =>
      simp only
      constructor
      · intro h; cases h
      · rintro ⟨h, -⟩
        have := (bind_ok_iff _ _).mpr h
        rw [hb] at this; cases this
    | ok u =>
      cases u
      simp only
      exact ⟨fun h => ⟨(bind_ok_iff _ _).mp hb, h⟩, fun h => h.2⟩
  | atom n => cases tla <;> simp [eq_comm]
  | str s => cases tla <;> simp [eq_comm]
  | arr items => cases tla <;> simp [eq_comm]
  | obj fields => cases tla <;> simp [eq_comm]

theorem render_iff (args : Args) (w : World) (value : Value) (files : List (String × String)) (output : String) :
    render args w value = (files, some output) ↔ RenderOk args w value files output := by
  unfold render RenderOk
  cases args.multi with
  | none => simp only [Prod.mk.injEq]; constructor
            · rintro ⟨h1, h2⟩; exact ⟨h1.symm, h2⟩
            · rintro ⟨h1, h2⟩; exact ⟨h1.symm, h2⟩
  | some dir =>
    simp only
    cases value with
    | obj fields =>
      simp only [Value.obj.injEq, exists_eq_left']
      rw [multiLoop_ok]
      constructor
      · rintro ⟨fs, h1, h2, h3⟩
        simp only [List.nil_append] at h2
        subst h2
        exact ⟨h1, by simpa using h3⟩
      · rintro ⟨h1, h2⟩
        exact ⟨files, h1, by simp, by simpa using h2⟩
    | atom n => simp
    | str s => simp
    | arr items => simp
    | func id ps => simp

theorem evalStages_iff (args : Args) (w : World) (value : Value) :
    (∃ d, evalStages args w = some (value, d)) ↔
      ∃ root ext tla rootValue,
        InputOk args w root ∧ extItems args w = ext.map lift ∧ (ext.map (·.1)).Nodup ∧
        tlaItems args w = tla.map lift ∧ w.evalRoot root ext = some rootValue ∧
        CallOk w ext tla rootValue value := by
  constructor
  · rintro ⟨d, h⟩
    unfold evalStages at h
    cases hi : inputThunk args w with
    | none => simp [hi] at h
    | some root =>
      simp only [hi] at h
      cases he : extLoop (extItems args w) [] with
      | none => simp [he] at h
      | some ext =>
        simp only [he] at h
        cases ht : tlaLoop (tlaItems args w) [] false with
        | none => simp [ht] at h
        | some p =>
          obtain ⟨tla, dm⟩ := p
          simp only [ht] at h
          cases hr : w.evalRoot root ext with
          | none => simp [hr] at h
          | some rv =>
            simp only [hr] at h
            cases hc : callStage w ext tla rv with
            | none => simp [hc] at h
            | some v =>
              simp only [hc, Option.some.injEq, Prod.mk.injEq] at h
              obtain ⟨hv, -⟩ := h
              subst hv
              obtain ⟨ext', h1, h2, -, h4⟩ := (extLoop_spec _ _ _).mp he
              simp only [List.nil_append] at h2
              subst h2
              obtain ⟨tla', h5, h6⟩ := (tlaLoop_env _ _ _ _).mp ⟨dm, ht⟩
              simp only [List.nil_append] at h6
              subst h6
              exact ⟨root, ext, tla, rv, (inputThunk_iff _ _ _).mp hi, h1, h4, h5, hr, (callStage_iff _ _ _ _ _).mp hc⟩
  · rintro ⟨root, ext, tla, rv, h1, h2, h3, h4, h5, h6⟩
    have hi := (inputThunk_iff _ _ _).mpr h1
    have he : extLoop (extItems args w) [] = some ext :=
      (extLoop_spec _ _ _).mpr ⟨ext, h2, by simp, by simp, h3⟩
    obtain ⟨dm, ht⟩ := (tlaLoop_env (tlaItems args w) [] false tla).mpr ⟨tla, h4, by simp⟩
    have hc := (callStage_iff _ _ _ _ _).mpr h6
    exact ⟨dm, by simp [evalStages, hi, he, ht, h5, hc]⟩

/-- The outcome of the last part of `main_inner` when everything succeeds. -/
def okResult (args : Args) (output : String) (files : List (String × String)) (d : Bool) : Result :=
  match args.output with
  | some path => { exit := 0, stdout := "", stderrNonEmpty := d, files := files, outFile := some (path, output) }
  | none => { exit := 0, stdout := output, stderrNonEmpty := d, files := files, outFile := none }

theorem finish_zero_iff (args : Args) (w : World) (value : Value) (d : Bool) :
    (finish args w value d).exit = 0 ↔
      ∃ output files, RenderOk args w value files output ∧ FinalWriteOk args w output := by
  unfold finish
  cases hr : render args w value with
  | mk files o =>
    cases o with
    | none =>
      simp only [fail]
      constructor
      · intro h; cases h
      · rintro ⟨output, files', h1, -⟩
        have := (render_iff _ _ _ _ _).mpr h1
        rw [hr] at this; cases this
    | some output =>
      have hro := (render_iff _ _ _ _ _).mp hr
      simp only
      unfold FinalWriteOk
      cases ho : args.output with
      | some path =>
        simp only
        cases hw : w.writeFile path output with
        | false =>
          simp only [Bool.false_eq_true, if_false, fail]
          constructor
          · intro h; cases h
          · rintro ⟨output', files', h1, h2⟩
            have := (render_iff _ _ _ _ _).mpr h1
            rw [hr] at this
            cases this
            rw [hw] at h2; cases h2
        | true =>
          simp only [if_true, true_iff]
          exact ⟨output, files, hro, hw⟩
      | none =>
        simp only
        cases hw : w.stdoutWrite output with
        | false =>
          simp only [Bool.false_and, Bool.false_eq_true, if_false, fail]
          constructor
          · intro h; cases h
          · rintro ⟨output', files', h1, h2, -⟩
            have := (render_iff _ _ _ _ _).mpr h1
            rw [hr] at this
            cases this
            rw [hw] at h2; cases h2
        | true =>
          cases hf : w.stdoutFlush with
          | false =>
            simp only [Bool.and_false, Bool.false_eq_true, if_false, fail]
            constructor
            · intro h; cases h
            · rintro ⟨output', files', -, -, h3⟩
              cases h3
          | true =>
            simp only [Bool.and_self, if_true, true_iff]
            exact ⟨output, files, hro, hw, by first | rfl | trivial⟩

theorem finish_ok (args : Args) (w : World) (value : Value) (d : Bool) (output : String)
    (files : List (String × String)) (h1 : RenderOk args w value files output)
    (h2 : FinalWriteOk args w output) :
    finish args w value d = okResult args output files d := by
  have hr := (render_iff _ _ _ _ _).mpr h1
  unfold finish okResult
  rw [hr]
  unfold FinalWriteOk at h2
  cases ho : args.output with
  | some path => rw [ho] at h2; simp only at h2 ⊢; rw [h2]; simp
  | none => rw [ho] at h2; simp only at h2 ⊢; rw [h2.1, h2.2]; simp

/-! ## The property theorems -/

/-- **C12 exit_range.** `main` returns 0, 1 or 2, never anything else (a panic
    would be 101: there is no panic site in `main_inner` itself). -/
theorem C12_exit_range (args : Args) (w : World) :
    (mainInner args w).exit = 0 ∨ (mainInner args w).exit = 1 ∨ (mainInner args w).exit = 2 := by
  unfold mainInner
  split
  · exact Or.inr (Or.inr rfl)
  · split
    · exact Or.inr (Or.inl rfl)
    · unfold finish
      split
      · exact Or.inr (Or.inl rfl)
      · split
        · split
          · exact Or.inl rfl
          · exact Or.inr (Or.inl rfl)
        · split
          · exact Or.inl rfl
          · exact Or.inr (Or.inl rfl)

theorem finish_exit_ne_two (args : Args) (w : World) (v : Value) (d : Bool) : (finish args w v d).exit ≠ 2 := by
  unfold finish
  split
  · simp [fail]
  · split
    · split <;> simp [fail]
    · split <;> simp [fail]

/-- **C12 usage.** Inside `main_inner` the exit status 2 is produced exactly for
    `-S` together with `-y` (all other usage errors are clap's, before `main_inner`). -/
theorem C12_usage_iff (args : Args) (w : World) :
    (mainInner args w).exit = 2 ↔ (args.string = true ∧ args.yamlStream = true) := by
  unfold mainInner
  cases hs : args.string <;> cases hy : args.yamlStream <;> simp only [Bool.and_self, Bool.and_true,
    Bool.and_false, Bool.false_eq_true, if_false, if_true, and_self, and_true, and_false, iff_false]
  all_goals
    split
    · simp [fail]
    · exact finish_exit_ne_two _ _ _ _

/-- **C12 exit_zero_iff_all_ok.** The tool exits 0 exactly when every stage
    succeeded: loading, every `--ext-*` / `--tla-*` constructor with no repeated
    external variable, evaluation, the top-level call (binding rule + body),
    manifestation of the value / of every item / of every field, every file
    write, and the write *and* the flush of stdout. -/
theorem C12_exit_zero_iff_all_ok (args : Args) (w : World) :
    (mainInner args w).exit = 0 ↔ ∃ output files, AllOk args w output files := by
  unfold mainInner AllOk
  by_cases hu : (args.string && args.yamlStream) = true
  · simp only [hu, if_true]
    constructor
    · intro h; cases h
    · rintro ⟨_, _, hn, -⟩
      exact absurd (by simpa using hu) hn
  · rw [if_neg hu]
    have hu' : ¬ (args.string = true ∧ args.yamlStream = true) := by simpa using hu
    cases hs : evalStages args w with
    | none =>
      simp only [fail]
      constructor
      · intro h; cases h
      · rintro ⟨output, files, -, root, ext, tla, rv, value, h1, h2, h3, h4, h5, h6, -, -⟩
        obtain ⟨d, hd⟩ := (evalStages_iff args w value).mpr ⟨root, ext, tla, rv, h1, h2, h3, h4, h5, h6⟩
        rw [hs] at hd; cases hd
    | some p =>
      obtain ⟨value, d⟩ := p
      simp only
      rw [finish_zero_iff]
      constructor
      · rintro ⟨output, files, h1, h2⟩
        obtain ⟨root, ext, tla, rv, g1, g2, g3, g4, g5, g6⟩ := (evalStages_iff args w value).mp ⟨d, hs⟩
        exact ⟨output, files, hu', root, ext, tla, rv, value, g1, g2, g3, g4, g5, g6, h1, h2⟩
      · rintro ⟨output, files, -, root, ext, tla, rv, value', h1, h2, h3, h4, h5, h6, h7, h8⟩
        obtain ⟨d', hd⟩ := (evalStages_iff args w value').mpr ⟨root, ext, tla, rv, h1, h2, h3, h4, h5, h6⟩
        rw [hs] at hd
        cases hd
        exact ⟨output, files, h7, h8⟩

/-- **C12 success writes the manifestation.** When every stage succeeds the
    observable result is exactly: exit 0, `output` on stdout (or in the `-o`
    file, stdout then empty), the `-m` files `files`. -/
theorem C12_success_result (args : Args) (w : World) (output : String) (files : List (String × String))
    (h : AllOk args w output files) :
    ∃ d, mainInner args w = okResult args output files d := by
  obtain ⟨hu, root, ext, tla, rv, value, h1, h2, h3, h4, h5, h6, h7, h8⟩ := h
  obtain ⟨d, hd⟩ := (evalStages_iff args w value).mpr ⟨root, ext, tla, rv, h1, h2, h3, h4, h5, h6⟩
  refine ⟨d, ?_⟩
  unfold mainInner
  have : (args.string && args.yamlStream) = false := by
    cases hs : args.string <;> cases hy : args.yamlStream <;> simp_all
  simp only [this, Bool.false_eq_true, if_false, hd]
  exact finish_ok _ _ _ _ _ _ h7 h8

theorem finish_fail (args : Args) (w : World) (v : Value) (d : Bool) (h : (finish args w v d).exit ≠ 0) :
    (finish args w v d).stdout = "" ∧ (finish args w v d).outFile = none ∧
      (finish args w v d).stderrNonEmpty = true ∧ (args.multi = none → (finish args w v d).files = []) := by
  unfold finish at h ⊢
  cases hr : render args w v with
  | mk files o =>
    have hf : args.multi = none → files = [] := by
      intro hm
      unfold render at hr
      rw [hm] at hr
      simp only [Prod.mk.injEq] at hr
      exact hr.1.symm
    cases o with
    | none => simp only [fail, true_and]; exact hf
    | some output =>
      simp only [hr] at h ⊢
      cases ho : args.output with
      | some path =>
        simp only [ho] at h ⊢
        cases hw : w.writeFile path output with
        | true => simp [hw] at h
        | false => simp only [Bool.false_eq_true, if_false, fail, true_and]; exact hf
      | none =>
        simp only [ho] at h ⊢
        cases hw : (w.stdoutWrite output && w.stdoutFlush) with
        | true => simp [hw] at h
        | false => simp only [Bool.false_eq_true, if_false, fail, true_and]; exact hf

/-- **C12 failure_writes_nothing.** Whenever the exit status is not 0: nothing is
    written to stdout, the `-o` file is not written, an explanation went to
    stderr, and outside `-m` mode no file at all is written.  (In `-m` mode the
    files of the fields manifested *before* the failure exist: see
    `C12_multi_failure_prefix`.) -/
theorem C12_failure_writes_nothing (args : Args) (w : World) (h : (mainInner args w).exit ≠ 0) :
    (mainInner args w).stdout = "" ∧ (mainInner args w).outFile = none ∧
      (mainInner args w).stderrNonEmpty = true ∧ (args.multi = none → (mainInner args w).files = []) := by
  unfold mainInner at h ⊢
  by_cases hu : (args.string && args.yamlStream) = true
  · rw [if_pos hu]; simp
  · rw [if_neg hu] at h ⊢
    cases hs : evalStages args w with
    | none => simp [fail]
    | some p =>
      obtain ⟨value, d⟩ := p
      simp only [hs] at h ⊢
      exact finish_fail _ _ _ _ h

/-- **C12 multi failure prefix.** In `-m` mode, when manifestation or a write
    fails at some field, the files on disk are exactly the (successfully written)
    files of the fields before it, in order: an error at field `k` leaves files
    `0..k-1` written and nothing else; stdout and the `-o` file stay untouched
    (`C12_failure_writes_nothing`). -/
theorem C12_multi_failure_prefix (args : Args) (w : World) (dir : String) (fields : List (String × Value))
    (d : Bool) (hm : args.multi = some dir)
    (h : (finish args w (.obj fields) d).exit ≠ 0)
    (hfinal : ∀ output, FinalWriteOk args w output) :
    ∃ k fs, k < fields.length ∧ (fields.take k).map (fieldFile args w dir) = fs.map some ∧
      (finish args w (.obj fields) d).files = fs ∧
      (fields.map (fieldFile args w dir))[k]? = some none := by
  unfold finish at h ⊢
  have hr : render args w (.obj fields) = multiLoop args w dir fields [] "" := by
    unfold render; rw [hm]
  cases hml : multiLoop args w dir fields [] "" with
  | mk files o =>
    rw [hr, hml] at h ⊢
    cases o with
    | none =>
      obtain ⟨k, fs, h1, h2, h3, h4⟩ := multiLoop_fail _ _ _ _ _ _ _ hml
      simp only [List.nil_append] at h3
      exact ⟨k, fs, h1, h2, by simp [fail, h3], h4⟩
    | some output =>
      exfalso
      have hfw := hfinal output
      unfold FinalWriteOk at hfw
      simp only at h
      cases ho : args.output with
      | some path => rw [ho] at hfw h; simp only at hfw h; rw [hfw] at h; simp at h
      | none => rw [ho] at hfw h; simp only at hfw h; rw [hfw.1, hfw.2] at h; simp at h

/-- **C12 success is silent.** On exit 0 `main_inner` printed none of its own
    messages: a repeated `--tla-*` name (which only prints) always leads to a
    failure later (repeated parameter, or "root value is not a function"). -/
theorem C12_success_is_silent (args : Args) (w : World) (h : (mainInner args w).exit = 0) :
    (mainInner args w).stderrNonEmpty = false := by
  obtain ⟨output, files, hall⟩ := (C12_exit_zero_iff_all_ok args w).mp h
  have hall' := hall
  obtain ⟨hu, root, ext, tla, rv, value, h1, h2, h3, h4, h5, h6, h7, h8⟩ := hall
  -- the TLA names are pairwise different
  have hnd : (tla.map (·.1)).Nodup := by
    unfold CallOk at h6
    cases rv with
    | func id ps => exact h6.1.2.1
    | atom n => rw [h6.1]; exact List.nodup_nil
    | str s => rw [h6.1]; exact List.nodup_nil
    | arr items => rw [h6.1]; exact List.nodup_nil
    | obj fields => rw [h6.1]; exact List.nodup_nil
  obtain ⟨dm, ht⟩ := (tlaLoop_env (tlaItems args w) [] false tla).mpr ⟨tla, h4, by simp⟩
  have hdm : dm = false := tlaLoop_flag _ _ _ _ _ ht (by simpa using hnd)
  subst hdm
  have hi := (inputThunk_iff _ _ _).mpr h1
  have he : extLoop (extItems args w) [] = some ext :=
    (extLoop_spec _ _ _).mpr ⟨ext, h2, by simp, by simp, h3⟩
  have hc := (callStage_iff _ _ _ _ _).mpr h6
  have hes : evalStages args w = some (value, false) := by simp [evalStages, hi, he, ht, h5, hc]
  have hsy : (args.string && args.yamlStream) = false := by
    cases hs : args.string <;> cases hy : args.yamlStream <;> simp_all
  unfold mainInner
  simp only [hsy, Bool.false_eq_true, if_false, hes]
  rw [finish_ok _ _ _ _ _ _ h7 h8]
  unfold okResult
  cases args.output <;> rfl

/-! ### Output modes -/

/-- **C12 string_mode_identity.** `-S` on a string outputs the string itself plus
    a newline; on anything else it is an error (exit 1 by
    `C12_exit_zero_iff_all_ok`: `RenderOk` fails). -/
theorem C12_string_mode_identity (args : Args) (w : World) (hS : args.string = true)
    (hn : args.noTrailingNewline = false) :
    (∀ s, valueToRepr args w (.str s) = some (s ++ "\n")) ∧
    (∀ v, (∀ s, v ≠ .str s) → valueToRepr args w v = none) := by
  constructor
  · intro s; simp [valueToRepr, hS, hn]
  · intro v hv
    unfold valueToRepr
    rw [hS]
    cases v with
    | str s => exact absurd rfl (hv s)
    | atom n => rfl
    | arr items => rfl
    | obj fields => rfl
    | func id ps => rfl

/-- `-S` in `main_inner`: a non-string value (outside `-m`) makes the tool fail. -/
theorem C12_string_mode_mismatch (args : Args) (w : World) (v : Value) (d : Bool) (hS : args.string = true)
    (hm : args.multi = none) (hv : ∀ s, v ≠ .str s) : (finish args w v d).exit = 1 := by
  have hr : render args w v = ([], none) := by
    unfold render
    rw [hm]
    simp only [Prod.mk.injEq, true_and]
    cases hn : args.noTrailingNewline
    · exact (C12_string_mode_identity args w hS hn).2 v hv
    · unfold valueToRepr
      rw [hS]
      cases v with
      | str s => exact absurd rfl (hv s)
      | atom n => rfl
      | arr items => rfl
      | obj fields => rfl
      | func id ps => rfl
  unfold finish
  rw [hr]
  rfl

/-- **C12 yaml_stream_shape.** `-y` on an array whose items manifest to
    `m₁ … mₙ` (n ≥ 1) yields `"---\n" ++ m₁ ++ "\n" ++ … ++ "---\n" ++ mₙ ++ "\n" ++ "...\n"`;
    the empty array yields the empty output; a non-array or a failing item is an error. -/
theorem C12_yaml_stream_shape (args : Args) (w : World) (hS : args.string = false) (hy : args.yamlStream = true)
    (hn : args.noTrailingNewline = false) (items : List Value) :
    (∀ ms, items.map w.manifest = ms.map some → ms ≠ [] →
        valueToRepr args w (.arr items) = some (yamlDocs ms ++ "...\n")) ∧
    (items = [] → valueToRepr args w (.arr items) = some "") ∧
    ((∃ v ∈ items, w.manifest v = none) → valueToRepr args w (.arr items) = none) := by
  refine ⟨?_, ?_, ?_⟩
  · intro ms hms hne
    have := (manifestItems_spec w items ms).mpr hms
    unfold valueToRepr
    simp only [hS, hy, this, Bool.false_eq_true, if_false, if_true, yamlText, hn]
    cases ms with
    | nil => exact absurd rfl hne
    | cons m rest => simp [yamlBody_eq]
  · intro he
    subst he
    simp [valueToRepr, hS, hy, manifestItems, yamlText]
  · rintro ⟨v, hv, hvn⟩
    unfold valueToRepr
    simp only [hS, hy, Bool.false_eq_true, if_false, if_true]
    cases hm : manifestItems w items with
    | none => rfl
    | some ms =>
      exfalso
      have h := (manifestItems_spec w items ms).mp hm
      have : w.manifest v ∈ items.map w.manifest := List.mem_map.mpr ⟨v, hv, rfl⟩
      rw [h, hvn] at this
      simp at this

theorem C12_yaml_non_array (args : Args) (w : World) (hS : args.string = false) (hy : args.yamlStream = true)
    (v : Value) (hv : ∀ items, v ≠ .arr items) : valueToRepr args w v = none := by
  cases v with
  | arr items => exact absurd rfl (hv items)
  | atom n => simp [valueToRepr, hS, hy]
  | str s => simp [valueToRepr, hS, hy]
  | obj fields => simp [valueToRepr, hS, hy]
  | func id ps => simp [valueToRepr, hS, hy]

/-- **C12 no_trailing_newline_law.** For the default mode, `-S`, and `-y` with a
    non-empty stream, the output without the flag is the output with the flag
    followed by exactly one `"\n"` (and one fails iff the other does); the empty
    YAML stream is the empty output either way. -/
theorem C12_no_trailing_newline_law (args : Args) (w : World) (v : Value)
    (hne : ¬ (args.string = false ∧ args.yamlStream = true ∧ v = .arr [])) :
    valueToRepr { args with noTrailingNewline := false } w v =
      (valueToRepr { args with noTrailingNewline := true } w v).map (· ++ "\n") := by
  unfold valueToRepr
  cases hS : args.string with
  | true =>
    simp only [if_true]
    cases v <;> simp
  | false =>
    simp only [Bool.false_eq_true, if_false]
    cases hy : args.yamlStream with
    | false =>
      simp only [Bool.false_eq_true, if_false]
      cases w.manifest v <;> simp
    | true =>
      simp only [if_true]
      cases v with
      | arr items =>
        simp only
        cases hm : manifestItems w items with
        | none => simp
        | some ms =>
          have hms : ms ≠ [] := by
            intro he
            subst he
            have := (manifestItems_spec w items []).mp hm
            simp only [List.map_nil, List.map_eq_nil_iff] at this
            exact hne ⟨hS, hy, by rw [this]⟩
          cases ms with
          | nil => exact absurd rfl hms
          | cons m rest =>
            simp only [yamlText, List.isEmpty_cons, Bool.false_eq_true, if_false, Option.map_some,
              Option.some.injEq, if_true, String.append_assoc]
            rfl
      | atom n => simp
      | str s => simp
      | obj fields => simp
      | func id ps => simp

theorem C12_no_trailing_newline_empty_stream (args : Args) (w : World) (hS : args.string = false)
    (hy : args.yamlStream = true) : valueToRepr args w (.arr []) = some "" := by
  simp [valueToRepr, hS, hy, manifestItems, yamlText]

/-- **C12 multi_shape.** A successful `-m dir` run on an object with visible
    fields `(n₁,v₁) … (nₖ,vₖ)` (in field order) writes exactly the files
    `dir/nᵢ` with content `value_to_repr(vᵢ)` (so `-S`, `-y` and
    `--no-trailing-newline` apply per field), in that order, and sends the list
    of those paths, one per line, to stdout / the `-o` file. -/
theorem C12_multi_shape (args : Args) (w : World) (dir : String) (value : Value) (d : Bool)
    (hm : args.multi = some dir) (h : (finish args w value d).exit = 0) :
    ∃ fields reprs, value = .obj fields ∧
      fields.map (fun f => valueToRepr args w f.2) = reprs.map some ∧
      (finish args w value d).files = (fields.map (fun f => pathJoin dir f.1)).zip reprs ∧
      finish args w value d =
        okResult args (pathLines (fields.map (fun f => pathJoin dir f.1)))
          ((fields.map (fun f => pathJoin dir f.1)).zip reprs) d := by
  obtain ⟨output, files, h1, h2⟩ := (finish_zero_iff _ _ _ _).mp h
  have hfin := finish_ok _ _ _ d _ _ h1 h2
  unfold RenderOk at h1
  rw [hm] at h1
  obtain ⟨fields, hv, hf, ho⟩ := h1
  -- the files are the per-field (path, repr) pairs
  have key : ∀ (fields : List (String × Value)) (files : List (String × String)),
      fields.map (fieldFile args w dir) = files.map some →
      fields.map (fun f => valueToRepr args w f.2) = (files.map (·.2)).map some ∧
      files = (fields.map (fun f => pathJoin dir f.1)).zip (files.map (·.2)) ∧
      files.map (·.1) = fields.map (fun f => pathJoin dir f.1) := by
    intro fields
    induction fields with
    | nil =>
      intro files hf
      cases files with
      | nil => simp
      | cons a b => simp at hf
    | cons f rest ih =>
      intro files hf
      cases files with
      | nil => simp at hf
      | cons a b =>
        simp only [List.map_cons, List.cons.injEq] at hf
        obtain ⟨ha, hb⟩ := hf
        obtain ⟨i1, i2, i3⟩ := ih b hb
        unfold fieldFile at ha
        cases hr : valueToRepr args w f.2 with
        | none => simp [hr] at ha
        | some r =>
          simp only [hr] at ha
          cases hw : w.writeFile (pathJoin dir f.1) r with
          | false => simp [hw] at ha
          | true =>
            simp only [hw, if_true, Option.some.injEq] at ha
            subst ha
            refine ⟨by simp [hr, i1], ?_, by simp [i3]⟩
            simp only [List.map_cons, List.zip_cons_cons, List.cons.injEq, true_and]
            exact i2
  obtain ⟨k1, k2, k3⟩ := key fields files hf
  refine ⟨fields, files.map (·.2), hv, k1, ?_, ?_⟩
  · rw [hfin]; unfold okResult; cases args.output <;> exact k2
  · rw [hfin, ho, k3, ← k2]

/-! ### External variables and top-level arguments -/

/-- **C12 extvar_roundtrip (parser).** `--ext-str v=s` (and `--ext-code`, `--tla-*`)
    is split at the *first* `=`: whenever `v` contains no `=`, the variable is `v`
    and the value is exactly `s`, whatever `s` contains (`=`, quotes, newlines,
    non-ASCII).  An argument without `=` names an environment variable. -/
theorem C12_extvar_roundtrip (v s : String) (hv : '=' ∉ v.toList) :
    parseVarOptVal (v ++ "=" ++ s) = { var := v, val := some s } := by
  unfold parseVarOptVal
  have : (v ++ "=" ++ s).toList = v.toList ++ '=' :: s.toList := by
    simp [String.toList_append]
  rw [this, splitOnceEq_append _ _ hv]
  simp [String.ofList_toList]

theorem C12_extvar_no_eq (v : String) (hv : '=' ∉ v.toList) :
    parseVarOptVal v = { var := v, val := none } ∧ parseVarFile v = none := by
  unfold parseVarOptVal parseVarFile
  rw [splitOnceEq_none _ hv]
  exact ⟨rfl, rfl⟩

theorem C12_varfile_roundtrip (v s : String) (hv : '=' ∉ v.toList) :
    parseVarFile (v ++ "=" ++ s) = some { var := v, file := s } := by
  unfold parseVarFile
  have : (v ++ "=" ++ s).toList = v.toList ++ '=' :: s.toList := by
    simp [String.toList_append]
  rw [this, splitOnceEq_append _ _ hv]
  simp [String.ofList_toList]

/-- **C12 extvar_roundtrip (program side).** In every run that reaches evaluation,
    the environment handed to the program binds each `--ext-str v=s` to the string
    `s` itself, each `--ext-code v=c` to the *unevaluated* code `c` (loaded under
    the name `<ext:v>`; evaluation happens only if the program forces it), names
    are unique, and nothing else is bound. -/
theorem C12_extvar_environment (args : Args) (w : World) (ext : List (String × ThunkSrc))
    (h : extLoop (extItems args w) [] = some ext) :
    (ext.map (·.1)).Nodup ∧
    (∀ a ∈ args.extStr, ∀ s, a.val = some s → (a.var, ThunkSrc.str s) ∈ ext) ∧
    (∀ a ∈ args.extCode, ∀ c, a.val = some c → (a.var, ThunkSrc.virt ("<ext:" ++ a.var ++ ">") c) ∈ ext) ∧
    ext.length = args.extStr.length + args.extStrFile.length + args.extCode.length + args.extCodeFile.length := by
  obtain ⟨ext', h1, h2, -, h4⟩ := (extLoop_spec _ _ _).mp h
  simp only [List.nil_append] at h2
  subst h2
  have hmem : ∀ v t, (v, some t) ∈ extItems args w → (v, t) ∈ ext := by
    intro v t hm
    rw [h1] at hm
    obtain ⟨e, he, hl⟩ := List.mem_map.mp hm
    simp only [lift, Prod.mk.injEq, Option.some.injEq] at hl
    have : e = (v, t) := by cases e; simp_all
    rw [← this]; exact he
  refine ⟨h4, ?_, ?_, ?_⟩
  · intro a ha s hs
    apply hmem
    unfold extItems
    simp only [List.mem_append, List.mem_map]
    exact Or.inl (Or.inl (Or.inl ⟨a, ha, by simp [strThunk, getOptVal, hs]⟩))
  · intro a ha c hc
    have hmem' : (a.var, codeThunk w "ext" a) ∈ extItems args w := by
      unfold extItems
      simp only [List.mem_append, List.mem_map]
      exact Or.inl (Or.inr ⟨a, ha, rfl⟩)
    -- the constructor succeeded (all did), hence it is the virtual file of `c`
    rw [h1] at hmem'
    obtain ⟨e, he, hl⟩ := List.mem_map.mp hmem'
    simp only [lift, Prod.mk.injEq] at hl
    have hct : codeThunk w "ext" a = some e.2 := hl.2.symm
    unfold codeThunk getOptVal at hct
    simp only [hc] at hct
    split at hct
    · simp only [Option.some.injEq] at hct
      have : e = (a.var, ThunkSrc.virt ("<ext:" ++ a.var ++ ">") c) := by
        cases e; simp only [Prod.mk.injEq]; exact ⟨hl.1, hct.symm⟩
      rw [← this]; exact he
    · cases hct
  · have := congrArg List.length h1
    simp only [extItems, List.length_append, List.length_map] at this
    omega

/-- **C12 tla_binding.** Top-level arguments are passed as *named* arguments
    (no positional ones) and bound by the C02 rule: the call is attempted exactly
    when every TLA names a parameter, no name is repeated, and every parameter
    without a default is named; otherwise (`unknown`, `repeated`, `not bound`) the
    tool fails.  Given but unused because the root is not a function is a failure too. -/
theorem C12_tla_binding (w : World) (ext tla : List (String × ThunkSrc)) (id : Nat) (params : List (String × Bool)) :
    (BindSpec params (tla.map (·.1)) →
      callStage w ext tla (.func id params) = w.evalBody (.func id params) ext tla) ∧
    (¬ BindSpec params (tla.map (·.1)) → callStage w ext tla (.func id params) = none) := by
  unfold callStage
  constructor
  · intro h
    have := (bind_ok_iff _ _).mpr h
    simp only [this]
  · intro h
    cases hb : bind params (tla.map (·.1)) with
    | error e => simp only [hb]
    | ok u => cases u; exact absurd ((bind_ok_iff _ _).mp hb) h

theorem C12_tla_bind_errors (params : List (String × Bool)) (names : List String) :
    ((∃ n ∈ names, ∀ p ∈ params, p.1 ≠ n) → ∃ e, bind params names = .error e) ∧
    (¬ names.Nodup → ∃ e, bind params names = .error e) ∧
    ((∃ p ∈ params, p.2 = false ∧ p.1 ∉ names) → ∃ e, bind params names = .error e) := by
  have key : ¬ BindSpec params names → ∃ e, bind params names = .error e := by
    intro h
    cases hb : bind params names with
    | error e => exact ⟨e, rfl⟩
    | ok u => cases u; exact absurd ((bind_ok_iff _ _).mp hb) h
  refine ⟨?_, ?_, ?_⟩
  · rintro ⟨n, hn, hp⟩
    apply key
    rintro ⟨h1, -, -⟩
    obtain ⟨p, hpm, hpe⟩ := h1 n hn
    exact hp p hpm hpe
  · intro h
    apply key
    rintro ⟨-, h2, -⟩
    exact h h2
  · rintro ⟨p, hp, hd, hn⟩
    apply key
    rintro ⟨-, -, h3⟩
    exact hn (h3 p hp hd)

theorem C12_tla_non_function (w : World) (ext tla : List (String × ThunkSrc)) (v : Value)
    (hv : ∀ id ps, v ≠ .func id ps) :
    callStage w ext tla v = if tla.isEmpty then some v else none := by
  unfold callStage
  cases v with
  | func id ps => exact absurd rfl (hv id ps)
  | atom n => rfl
  | str s => rfl
  | arr items => rfl
  | obj fields => rfl

/-! ## Non-vacuity: concrete worlds -/

/-- A world in which everything succeeds, the root evaluates to the object
    `{a: "x", b: [1]}` and manifestation is a fixed table. -/
def demoWorld : World :=
  { stdin := some "", env := fun _ => .undefined, readStrFile := fun _ => .readFail
    loadVirt := fun _ _ => true, loadReal := fun _ => true
    evalRoot := fun _ _ => some (.obj [("a", .str "x"), ("b", .arr [.atom 1])])
    evalBody := fun _ _ _ => none
    manifest := fun v => match v with
      | .str _ => some "\"x\""
      | .atom _ => some "1"
      | .arr _ => some "[\n   1\n]"
      | _ => some "{ }"
    writeFile := fun p _ => p != "m/b"
    stdoutWrite := fun _ => true, stdoutFlush := true }

/-- `-m m -e ...`: field `a` is written, the write of `m/b` fails: exit 1, stdout
    empty, exactly `m/a` on disk (hypotheses of `C12_multi_failure_prefix` /
    `C12_failure_writes_nothing` are satisfiable with a non-empty prefix). -/
example : mainInner { input := .exec "{a: 'x', b: [1]}", multi := some "m" } demoWorld =
    { exit := 1, stdout := "", stderrNonEmpty := true, files := [("m/a", "\"x\"\n")], outFile := none } := by
  decide

/-- `-y --no-trailing-newline` on a two-item array, to the `-o` file. -/
example : mainInner { input := .stdin, yamlStream := true, noTrailingNewline := true, output := some "o" }
      { demoWorld with evalRoot := fun _ _ => some (.arr [.atom 1, .str "s"]) } =
    { exit := 0, stdout := "", stderrNonEmpty := false, files := [],
      outFile := some ("o", "---\n1\n---\n\"x\"\n...") } := by
  decide

/-- `AllOk` is satisfiable (default mode, two external variables, one TLA-free function root). -/
example : ∃ output files, AllOk
    { input := .exec "std.extVar('x')", extStr := [parseVarOptVal "x=a=b", parseVarOptVal "y=\"q\"\n"] }
    { demoWorld with evalRoot := fun _ ext => match ext with
        | [("x", .str "a=b"), ("y", .str "\"q\"\n")] => some (.str "a=b")
        | _ => none } output files :=
  (C12_exit_zero_iff_all_ok _ _).mp (by decide)

/-- The binding rule on a concrete parameter list. -/
example : BindSpec [("p", false), ("q", true)] ["p"] ∧ ¬ BindSpec [("p", false), ("q", true)] ["q"] ∧
    ¬ BindSpec [("p", false)] ["p", "p"] ∧ ¬ BindSpec [("p", false)] ["p", "z"] := by
  refine ⟨(bind_ok_iff _ _).mp rfl, fun h => ?_, fun h => ?_, fun h => ?_⟩
  · have h1 := (bind_ok_iff _ _).mpr h
    have h2 : bind [("p", false), ("q", true)] ["q"] = .error (.paramNotBound "p") := rfl
    rw [h2] at h1; cases h1
  · have h1 := (bind_ok_iff _ _).mpr h
    have h2 : bind [("p", false)] ["p", "p"] = .error (.repeatedParam "p") := rfl
    rw [h2] at h1; cases h1
  · have h1 := (bind_ok_iff _ _).mpr h
    have h2 : bind [("p", false)] ["p", "z"] = .error (.unknownParam "z") := rfl
    rw [h2] at h1; cases h1

end Rsj.Cli

open Rsj.Cli in
#print axioms C12_exit_range
open Rsj.Cli in
#print axioms C12_usage_iff
open Rsj.Cli in
#print axioms C12_exit_zero_iff_all_ok
open Rsj.Cli in
#print axioms C12_success_result
open Rsj.Cli in
#print axioms C12_failure_writes_nothing
open Rsj.Cli in
#print axioms C12_multi_failure_prefix
open Rsj.Cli in
#print axioms C12_success_is_silent
open Rsj.Cli in
#print axioms C12_string_mode_identity
open Rsj.Cli in
#print axioms C12_string_mode_mismatch
open Rsj.Cli in
#print axioms C12_yaml_stream_shape
open Rsj.Cli in
#print axioms C12_yaml_non_array
open Rsj.Cli in
#print axioms C12_no_trailing_newline_law
open Rsj.Cli in
#print axioms C12_no_trailing_newline_empty_stream
open Rsj.Cli in
#print axioms C12_multi_shape
open Rsj.Cli in
#print axioms C12_extvar_roundtrip
open Rsj.Cli in
#print axioms C12_extvar_no_eq
open Rsj.Cli in
#print axioms C12_varfile_roundtrip
open Rsj.Cli in
#print axioms C12_extvar_environment
open Rsj.Cli in
#print axioms C12_tla_binding
open Rsj.Cli in
#print axioms C12_tla_bind_errors
open Rsj.Cli in
#print axioms C12_tla_non_function
