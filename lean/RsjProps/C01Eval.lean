/-
  C01 on the evaluator model `RsjModel/Eval.lean` — for closed programs accepted by the static
  analysis and of the shape the front end produces (`CoreShaped`: builtins applied to the right
  number of arguments, comprehensions starting with `for`), NO modelled Rust panic of the evaluator
  is reachable, with one exception that is stated explicitly: `partial_cmp of NaN`.

  The model has every panic-capable site of the evaluator as `Err.internal m` (26 messages).  Two
  store invariants, each kept by every evaluator step for every fuel, task and store, exclude them:

  * `Scoped` (`Scope.Inv`, RsjProofs/EvalScope*.lean, RsjProps/C09Eval.lean): static scoping and the
    shape of object layers.  Excludes 8 messages (`ScopePanic`, `ObjPanic`).
  * `InRange` (`Safe.Safe`, RsjProofs/EvalSafe*.lean): every thunk / environment / object / function
    identifier stored anywhere in the store (values, suspended computations, environments, closures,
    object layers, cached field thunks) is below the size of its table, every stored expression is
    `CoreShaped`; along a run the tables only grow and a thunk in progress stays in progress until
    its own `set_done`.  With the result kinds of the tasks (`manifest` returns a string, `equals`
    a boolean, `compare` a number), the consistency of the binding plan with the argument lists
    (RsjProofs/EvalSafeBind.lean) and the bounds of the sorted indices of `std.sort`, this excludes
    the other 17 messages: "bad thunk id", "bad function id", "attempted to access destroyed
    object", "builtin arity", "comprehension starting with if", "empty comprehension", the four
    "binding plan …" / "default slot …" messages, "task did not return a string", "manifest did not
    return a string", "equals did not return a bool", "compare did not return a number", "set_done
    on a thunk that is not in progress", "sort key not set", "sorted index out of range".

  Not excluded: "partial_cmp of NaN" (`Task.compare` on two numbers that are neither `<`, `==` nor
  `>`).  Excluding it needs "no number value of the store is a NaN", which needs facts about Lean's
  opaque `Float` (e.g. that the sum of two finite floats that passes `checkNum` is not a NaN);
  nothing is assumed for it here.  `C01_eval_full_of_no_nan` reduces the full statement to this message.
-/
import RsjProps.C09Eval
import RsjProofs.EvalSafeRun
namespace Rsj.Eval
open Rsj.Core Rsj.Analyze Rsj.Eval.Scope

/-- every identifier of the store is in range, every stored expression is shaped -/
abbrev InRange (st : St) : Prop := Safe.Safe st

/-- the one modelled panic that stays open -/
def NanPanic (m : String) : Prop := m = "partial_cmp of NaN"

/-- the two developments together leave one message -/
theorem only_nan {m : String} (h1 : Good (.internal m)) (h2 : Safe.Good2 (.internal m)) : NanPanic m := by
  obtain ⟨a1, a2, a3, a4, a5, a6, a7, a8⟩ := h1
  rcases h2 with h | h | h | h | h | h | h | h | h
  · exact (a1 h).elim
  · exact (a2 h).elim
  · exact (a3 h).elim
  · exact (a4 h).elim
  · exact (a5 h).elim
  · exact (a6 h).elim
  · exact (a7 h).elim
  · exact (a8 h).elim
  · exact h

/-- **C01 (evaluator model).** For every closed program of the shape the front end produces that
    the analyzer accepts, every frame limit and every fuel: if the run of the whole program — load,
    evaluate, deep-evaluate, manifest — ends in a modelled Rust panic at all, it is the comparison
    of a NaN. -/
theorem C01_eval_no_internal_error_except_nan (e : Expr) (hc : CoreShaped e)
    (h : analyze e { isObj := false, vars := ["std"] } = .ok ()) (cfg : Cfg) (fuel : Nat)
    (m : String) (st' : St) (hx : programProg cfg fuel e {} = some (.error (.internal m), st')) :
    NanPanic m := by
  have hws : WS e rootEnv := (analyze_iff e rootEnv).1 h
  have h1 := sem_of_triple (P := fun x => x = ({} : St)) (Qok := fun _ s' => S {} s' ∧ Scope.Inv s' ∧ True)
    (Qerr := fun e s' => Good e ∧ (NonPanic e → Scope.Inv s')) (programProg_spec cfg fuel e {} Inv_empty hws) {} rfl
  have h2 := sem_of_triple (P := fun x => x = ({} : St)) (Qok := fun _ s' => Safe.Le {} s' ∧ Safe.Safe s' ∧ True)
    (Qerr := fun e s' => Safe.Good2 e ∧ Safe.Safe s' ∧ Safe.SzLe {} s') (Safe.programProg_spec2 cfg fuel e {} Safe.Safe_empty hc) {} rfl
  rw [hx] at h1 h2
  exact only_nan h1.1 h2.1

/-- **C01 (evaluator model), full statement — proved up to one message.**  No modelled Rust panic at
    all is reachable for accepted programs of the shape the front end produces.  Without
    `CoreShaped` the statement is false: `std.length()` with no argument is accepted by `analyze`
    and ends in "builtin arity". -/
def C01_eval_no_internal_error_full : Prop :=
  ∀ e : Expr, CoreShaped e → analyze e { isObj := false, vars := ["std"] } = .ok () →
    ∀ (cfg : Cfg) (fuel : Nat) (m : String) (st' : St),
      programProg cfg fuel e {} ≠ some (.error (.internal m), st')

/-- the full statement follows from: no run ends in the comparison of a NaN -/
theorem C01_eval_full_of_no_nan
    (hnan : ∀ e : Expr, CoreShaped e → analyze e { isObj := false, vars := ["std"] } = .ok () →
      ∀ (cfg : Cfg) (fuel : Nat) (st' : St),
        programProg cfg fuel e {} ≠ some (.error (.internal "partial_cmp of NaN"), st')) :
    C01_eval_no_internal_error_full := by
  intro e hc h cfg fuel m st' hx
  have := C01_eval_no_internal_error_except_nan e hc h cfg fuel m st' hx
  subst this
  exact hnan e hc h cfg fuel st' hx

/-- **C01 (evaluator model), one request on a long-lived store.**  From a store that is well scoped
    and in range, a request on an existing thunk ends in no modelled panic but the comparison of a
    NaN. -/
theorem C01_eval_request_no_internal_error_except_nan (cfg : Cfg) (fuel : Nat) (t : TId) (st : St)
    (hI : Scoped st) (hS : InRange st) (ht : t < st.thunks.size) (m : String) (st' : St)
    (hx : requestProg cfg fuel t st = some (.error (.internal m), st')) : NanPanic m := by
  have h1 := sem_of_triple (P := fun x => x = st) (Qok := fun _ s' => S st s' ∧ Scope.Inv s' ∧ True)
    (Qerr := fun e s' => Good e ∧ (NonPanic e → Scope.Inv s')) (requestProg_spec cfg fuel t st hI) st rfl
  have h2 := sem_of_triple (P := fun x => x = st) (Qok := fun _ s' => Safe.Le st s' ∧ Safe.Safe s' ∧ True)
    (Qerr := fun e s' => Safe.Good2 e ∧ Safe.Safe s' ∧ Safe.SzLe st s') (Safe.requestProg_spec2 cfg fuel t st hS ht) st rfl
  rw [hx] at h1 h2
  exact only_nan h1.1 h2.1

/-- … and the store it leaves (after the clean-up of a failed request) is in range again and its
    thunk table is no smaller — always, even after a modelled panic — so the thunks of the history
    still exist for the next request. -/
theorem C01_eval_request_keeps_inRange (cfg : Cfg) (fuel : Nat) (t : TId) (st : St)
    (hS : InRange st) (ht : t < st.thunks.size) :
    InRange (runRequest cfg fuel t st).2 ∧ st.thunks.size ≤ (runRequest cfg fuel t st).2.thunks.size := by
  have h2 := sem_of_triple (P := fun x => x = st) (Qok := fun _ s' => Safe.Le st s' ∧ Safe.Safe s' ∧ True)
    (Qerr := fun e s' => Safe.Good2 e ∧ Safe.Safe s' ∧ Safe.SzLe st s') (Safe.requestProg_spec2 cfg fuel t st hS ht) st rfl
  unfold runRequest
  simp only []
  have hrun : (requestProg cfg fuel t).run.run st = requestProg cfg fuel t st := rfl
  rw [hrun]
  cases hx : requestProg cfg fuel t st with
  | none => exact ⟨hS, Nat.le_refl _⟩
  | some r =>
    obtain ⟨r, st'⟩ := r
    rw [hx] at h2
    cases r with
    | ok s => exact ⟨h2.2.1, h2.1.1.1⟩
    | error er => exact ⟨h2.2.1.restore, by simpa [restoreInProgress] using h2.2.2.1⟩

/-- **C01 (evaluator model), histories.**  The store a history starts from (`historyInit`,
    `runHistory_eq`) is in range when the libraries and the sources have the shape the front end
    produces, and the thunks of the sources exist. -/
theorem C01_eval_history_init_inRange (libs : List (String × Expr)) (srcs : List Expr)
    (hl : ∀ p ∈ libs, CoreShaped p.2) (hs : ∀ e ∈ srcs, CoreShaped e) (ts : List TId) (st0 : St)
    (h : ((historyInit libs srcs).run).run {} = some (.ok ts, st0)) :
    InRange st0 ∧ ∀ t ∈ ts, t < st0.thunks.size := by
  have := sem_of_triple (P := fun x => x = ({} : St))
    (Qok := fun ts s' => Safe.Le {} s' ∧ Safe.Safe s' ∧ ∀ t ∈ ts, t < s'.thunks.size)
    (Qerr := fun e s' => Safe.Good2 e ∧ Safe.Safe s' ∧ Safe.SzLe {} s')
    (Safe.historyInit_spec2 libs srcs {} Safe.Safe_empty hl hs) {} rfl
  have hrun : (historyInit libs srcs).run.run {} = historyInit libs srcs {} := rfl
  rw [hrun] at h
  rw [h] at this
  exact ⟨this.2.1, this.2.2⟩

/-- what a history maintains between its requests: the store is well scoped and in range, the
    thunks of the sources exist -/
def HistOk (ts : List TId) (st : St) : Prop :=
  Scoped st ∧ InRange st ∧ ∀ t ∈ ts, t < st.thunks.size

/-- the store a history starts from -/
theorem C01_eval_history_init_ok (libs : List (String × Expr)) (srcs : List Expr)
    (hl : ∀ p ∈ libs, analyze p.2 (historyEnv libs) = .ok () ∧ CoreShaped p.2)
    (hs : ∀ e ∈ srcs, analyze e (historyEnv libs) = .ok () ∧ CoreShaped e) (ts : List TId) (st0 : St)
    (h : ((historyInit libs srcs).run).run {} = some (.ok ts, st0)) : HistOk ts st0 := by
  have h1 := C09_eval_history_init_scoped libs srcs (fun p hp => (hl p hp).1) (fun e he => (hs e he).1) ts st0 h
  have h2 := C01_eval_history_init_inRange libs srcs (fun p hp => (hl p hp).2) (fun e he => (hs e he).2) ts st0 h
  exact ⟨h1, h2.1, h2.2⟩

/-- **C01 (evaluator model), one step of a history.**  A request on a source thunk either leaves a
    store on which the next request can run under the same guarantees — whatever its outcome: a
    value, a run-time error, stack overflow, out of fuel — or it ended in the comparison of a NaN;
    it never ends in another modelled panic (`C01_eval_request_no_internal_error_except_nan`). -/
theorem C01_eval_history_step (cfg : Cfg) (fuel : Nat) (ts : List TId) (t : TId) (st : St)
    (h : HistOk ts st) (ht : t ∈ ts) :
    HistOk ts (runRequest cfg fuel t st).2 ∨
    ∃ st', requestProg cfg fuel t st = some (.error (.internal "partial_cmp of NaN"), st') := by
  obtain ⟨hI, hS, hts⟩ := h
  have hk := C01_eval_request_keeps_inRange cfg fuel t st hS (hts t ht)
  rcases C09_eval_request_keeps_scoped cfg fuel t st hI with h1 | ⟨m, st', hx, _⟩
  · exact .inl ⟨h1, hk.1, fun u hu => Nat.lt_of_lt_of_le (hts u hu) hk.2⟩
  · have := C01_eval_request_no_internal_error_except_nan cfg fuel t st hI hS (hts t ht) m st' hx
    unfold NanPanic at this
    subst this
    exact .inr ⟨st', hx⟩

/-! Non-vacuity.  The program of the non-vacuity example of RsjProps/C09Eval.lean (recursive `local`,
    default argument, object with local, `self`, `$`, comprehension) has the shape `CoreShaped`; so
    has an application of a builtin to the right number of arguments, and `std.sort` with one and
    with two arguments; the empty store is in range. -/
example : CoreShaped
    (.local_ (.cons "f" (.some (.cons "a" .none (.cons "b" (.some (.var "a")) .nil)))
        (.binary .add (.var "a") (.var "b")) .nil)
      (.object (.local_ "t" .none (.call (.var "f") (.pos (.num 1) .nil) false)
        (.fieldFix "x" false .default .none (.var "t")
        (.fieldFix "y" false .default .none (.field .self_ "x")
        (.fieldFix "z" false .default .none
          (.arrayComp (.binary .add (.var "i") (.field .dollar "x"))
            (.for_ "i" (.array (.cons (.num 1) .nil)) .nil)) .nil)))))) := by
  simp [CoreShaped, CoreShapedBinds, CoreShapedOptParams, CoreShapedParams, CoreShapedOpt, CoreShapedMembers,
    CoreShapedArgs, CoreShapedExprs, CoreShapedSpecs, specsStartWithFor]

example : CoreShaped (.builtin .length (.cons (.array .nil) .nil)) ∧
    CoreShaped (.builtin .sort (.cons (.array .nil) .nil)) ∧
    CoreShaped (.builtin .sort (.cons (.array .nil) (.cons (.func (.cons "x" .none .nil) (.var "x")) .nil))) ∧
    ¬ CoreShaped (.builtin .length .nil) := by
  simp [CoreShaped, CoreShapedExprs, CoreShapedParams, CoreShapedOpt, builtinArityOk, builtinArity, exprsLength]

example : InRange {} := Safe.Safe_empty

end Rsj.Eval

open Rsj.Eval in
#print axioms C01_eval_no_internal_error_except_nan
open Rsj.Eval in
#print axioms C01_eval_full_of_no_nan
open Rsj.Eval in
#print axioms C01_eval_request_no_internal_error_except_nan
open Rsj.Eval in
#print axioms C01_eval_request_keeps_inRange
open Rsj.Eval in
#print axioms C01_eval_history_init_inRange
open Rsj.Eval in
#print axioms C01_eval_history_init_ok
open Rsj.Eval in
#print axioms C01_eval_history_step
