/-
  C02 — two more desugaring laws of the evaluator model.  Both sides of each equation record the
  same depth in the ghost counter `deepest`, once or twice; that the second note is a no-op uses
  the store order of RsjProofs/EvalOnce.lean (`deepest` never decreases).
-/
import RsjProofs.EvalOnce
namespace Rsj.Eval
open Rsj.Core

theorem noteDepth_apply (d : Nat) (st : St) :
    noteDepth d st = some (.ok ⟨⟩, { st with deepest := max st.deepest d }) := rfl

theorem stepN_apply (cfg : Cfg) (rec : Task → M Value) (t : Task) (st : St) :
    stepN cfg rec t st = step cfg rec t { st with deepest := max st.deepest t.depth } := by
  unfold stepN
  rw [M_bind_apply, noteDepth_apply]

/-- Parentheses do not change the value (they only end a tail position). -/
theorem C02_desugar_paren (cfg : Cfg) (n : Nat) (e : Expr) (env : EId) (tail : Bool) (d : Nat) :
    run cfg (n + 2) (.eval (.paren e) env tail d) = run cfg (n + 1) (.eval e env false d) := by
  funext st
  show stepN cfg (run cfg (n + 1)) (.eval (.paren e) env tail d) st = stepN cfg (run cfg n) (.eval e env false d) st
  rw [stepN_apply, stepN_apply]
  have e1 : step cfg (run cfg (n + 1)) (.eval (.paren e) env tail d) = run cfg (n + 1) (.eval e env false d) := by
    unfold step; rfl
  rw [e1]
  show stepN cfg (run cfg n) (.eval e env false d) _ = _
  rw [stepN_apply]
  simp [Task.depth, Nat.max_assoc]

/-- `if c then a` means `if c then a else null`. -/
theorem C02_desugar_if_without_else (cfg : Cfg) (n : Nat) (c a : Expr) (env : EId) (tail : Bool) (d : Nat) :
    run cfg (n + 2) (.eval (.if_ c a .none) env tail d) =
    run cfg (n + 2) (.eval (.if_ c a (.some .null)) env tail d) := by
  funext st
  show stepN cfg (run cfg (n + 1)) _ st = stepN cfg (run cfg (n + 1)) _ st
  rw [stepN_apply, stepN_apply]
  simp only [Task.depth]
  generalize hs0 : ({ st with deepest := max st.deepest d } : St) = s0
  have hd0 : d ≤ s0.deepest := by rw [← hs0]; exact Nat.le_max_right _ _
  have e1 : step cfg (run cfg (n + 1)) (.eval (.if_ c a .none) env tail d) =
      (run cfg (n + 1) (.eval c env false d) >>= fun v => match v with
        | .bool true => run cfg (n + 1) (.eval a env tail d)
        | .bool false => pure .null
        | v => throw (.rt "CondIsNotBool" (typeName v))) := by
    unfold step; rfl
  have e2 : step cfg (run cfg (n + 1)) (.eval (.if_ c a (.some .null)) env tail d) =
      (run cfg (n + 1) (.eval c env false d) >>= fun v => match v with
        | .bool true => run cfg (n + 1) (.eval a env tail d)
        | .bool false => run cfg (n + 1) (.eval .null env tail d)
        | v => throw (.rt "CondIsNotBool" (typeName v))) := by
    unfold step; rfl
  rw [e1, e2, M_bind_apply, M_bind_apply]
  have hR := triple_elim (run_spec cfg (n + 1) (.eval c env false d) s0)
  cases hx : run cfg (n + 1) (.eval c env false d) s0 with
  | none => rfl
  | some q =>
    obtain ⟨r, s1⟩ := q
    rw [hx] at hR
    have hle : d ≤ s1.deepest := Nat.le_trans hd0 (R.deep hR)
    cases r with
    | error er => rfl
    | ok v =>
      cases v with
      | bool b =>
        cases b with
        | true => rfl
        | false =>
          simp only []
          show (pure Value.null : M Value) s1 = stepN cfg (run cfg n) (.eval .null env tail d) s1
          rw [stepN_apply]
          have e3 : step cfg (run cfg n) (.eval .null env tail d) = pure .null := by unfold step; rfl
          rw [e3, pure_apply, pure_apply]
          simp only [Task.depth]
          have : max s1.deepest d = s1.deepest := Nat.max_eq_left hle
          rw [this]
      | _ => rfl

end Rsj.Eval

open Rsj.Eval in
#print axioms C02_desugar_paren
open Rsj.Eval in
#print axioms C02_desugar_if_without_else
