/-
  C04 / C11 on the evaluator model itself (`RsjModel/Eval.lean`, the model the correspondence
  checks C02, C04, C09, C10 and C11 run against the implementation on every run).

  Store order `R a b` (RsjProofs/EvalOnce.lean): thunk states only advance
  (`pending → inProgress → done`), a finished thunk keeps its value, the computation attached to a
  thunk never changes, and the run counter of a thunk goes up by one exactly when it leaves
  `pending`.  Every evaluator step, for every fuel, every task and every store, ends in a later
  store — whether it returns a value or an error (`run_spec`, verification conditions by `mvcgen`).
-/
import RsjProofs.EvalOnce
namespace Rsj.Eval
open Rsj.Core

/-- **C04 (used parts run once), whole program.** From the empty store, whatever the program, the
    frame limit and the fuel, and whether evaluation ends in a value or in an error: the computation
    of every thunk that exists at the end was started at most once, and never for a thunk that is
    still pending. -/
theorem C04_eval_program_each_thunk_started_at_most_once (cfg : Cfg) (fuel : Nat) (e : Expr)
    (r : Except Err String) (st' : St) (h : programProg cfg fuel e {} = some (r, st')) :
    ∀ t x, st'.thunks[t]? = some x → st'.runsOf t ≤ 1 ∧ (x.isPending → st'.runsOf t = 0) := by
  have := triple_elim (programProg_spec {} cfg fuel e)
  rw [h] at this
  exact (Once_of_R Once_empty this).2

/-- **C04 (used parts run once), one request on a long-lived store.** For every well-formed store
    (counters and thunks of equal length), thunk, limit and fuel, and every outcome: a thunk that
    existed before is started at most once more, and not at all unless it was pending (finished and
    in-progress thunks are never started again); a thunk created by the request is started at most
    once. -/
theorem C04_eval_request_each_thunk_started_at_most_once (cfg : Cfg) (fuel : Nat) (t : TId) (st : St)
    (w : st.WF) (r : Except Err String) (st' : St) (h : requestProg cfg fuel t st = some (r, st')) :
    (∀ u x, st.thunks[u]? = some x →
        st'.runsOf u ≤ st.runsOf u + 1 ∧ (x.isPending = false → st'.runsOf u = st.runsOf u)) ∧
    (∀ u x, st.thunks.size ≤ u → st'.thunks[u]? = some x → st'.runsOf u ≤ 1) := by
  have hR := triple_elim (requestProg_spec st cfg fuel t)
  rw [h] at hR
  exact ⟨fun u x hx => R_runs_le hR w u x hx, fun u x hu hx => (hR.fresh w u x hu hx).1⟩

/-- **C04 / C11 (memoised results are final).** A thunk that is finished keeps its value through any
    later request, successful or failed, including the clean-up after a failure. -/
theorem C11_eval_finished_thunk_keeps_its_value (cfg : Cfg) (fuel : Nat) (t : TId) (st : St) (w : st.WF)
    (u : Nat) (v : Value) (hu : st.thunks[u]? = some (.done v)) :
    (runRequest cfg fuel t st).2.thunks[u]? = some (.done v) := by
  unfold runRequest
  have hR := triple_elim (requestProg_spec st cfg fuel t)
  simp only []
  generalize hx : (requestProg cfg fuel t).run.run st = o at *
  have hx' : requestProg cfg fuel t st = o := hx
  rw [hx'] at hR
  match o, hR with
  | none, _ => exact hu
  | some (.ok s, st'), hR => exact R_done_stable hR w u v hu
  | some (.error er, st'), hR => exact restore_done st' u v (R_done_stable hR w u v hu)

/-- **C04 (the computation of a thunk is fixed).** Whatever a request does, a thunk's pending
    computation is never replaced by another one: a thunk is still pending with the same
    computation, in progress with it, or finished. -/
theorem C04_eval_thunk_computation_fixed (cfg : Cfg) (fuel : Nat) (t : TId) (st : St) (w : st.WF)
    (r : Except Err String) (st' : St) (h : requestProg cfg fuel t st = some (r, st'))
    (u : Nat) (p : Pending) (hu : st.thunks[u]? = some (.pending p)) :
    st'.thunks[u]? = some (.pending p) ∨ st'.thunks[u]? = some (.inProgress p) ∨
      ∃ v, st'.thunks[u]? = some (.done v) := by
  have hR := triple_elim (requestProg_spec st cfg fuel t)
  rw [h] at hR
  obtain ⟨s', hs', hadv, _⟩ := hR.old w u _ hu
  simp only [Adv] at hadv
  rcases hadv with rfl | rfl | ⟨v, rfl⟩
  · exact .inl hs'
  · exact .inr (.inl hs')
  · exact .inr (.inr ⟨v, hs'⟩)

/-- **C01 (no internal assertion trips): `set_done`.** `ThunkData::set_done` starts with
    `assert!(matches!(*state, ThunkState::InProgress))`. In the model the failing branch of that
    assertion sets the ghost flag `tripped` (and reports an internal error). For every task, fuel,
    limit and store whose flag is clear, the flag is clear afterwards — on success and on failure:
    the assertion cannot fail, because a thunk that is in progress stays in progress until its own
    computation returns. -/
theorem C01_eval_set_done_assertion_never_fails (cfg : Cfg) (n : Nat) (task : Task) (st : St)
    (h0 : st.tripped = false) (r : Except Err Value) (st' : St) (h : run cfg n task st = some (r, st')) :
    st'.tripped = false := by
  have hR := triple_elim (run_spec cfg n task st)
  rw [h] at hR
  exact hR.trip h0

/-- the same for a whole program evaluated from the empty store -/
theorem C01_eval_program_set_done_assertion_never_fails (cfg : Cfg) (fuel : Nat) (e : Expr)
    (r : Except Err String) (st' : St) (h : programProg cfg fuel e {} = some (r, st')) :
    st'.tripped = false := by
  have hR := triple_elim (programProg_spec {} cfg fuel e)
  rw [h] at hR
  exact hR.trip rfl

/-- **C11 / C10 (self-dependence is detected, not resolved).** A thunk that is in progress when a
    task starts is still in progress, with the same computation, when the task ends (with a value
    or an error): nothing but its own force can finish it, so reaching it again can only report
    infinite recursion. -/
theorem C11_eval_in_progress_is_kept (cfg : Cfg) (n : Nat) (task : Task) (st : St)
    (r : Except Err Value) (st' : St) (h : run cfg n task st = some (r, st'))
    (u : Nat) (p : Pending) (hu : st.thunks[u]? = some (.inProgress p)) :
    st'.thunks[u]? = some (.inProgress p) := by
  have hR := triple_elim (run_spec cfg n task st)
  rw [h] at hR
  obtain ⟨s', hs', hadv⟩ := hR.adv u _ hu
  simp only [Adv] at hadv
  rw [hs', hadv]

/-- **Fuel-independent form used by the theorems above:** one evaluator task, any fuel. -/
theorem C04_eval_run_later_store (cfg : Cfg) (n : Nat) (t : Task) (st : St) :
    outcomeOk st (run cfg n t st) :=
  triple_elim (run_spec cfg n t st)

/-- the premises are satisfiable: the initial store is well-formed and satisfies `Once` -/
example : ({} : St).WF ∧ ({} : St).Once := ⟨rfl, Once_empty⟩

end Rsj.Eval

open Rsj.Eval in
#print axioms C04_eval_program_each_thunk_started_at_most_once
open Rsj.Eval in
#print axioms C04_eval_request_each_thunk_started_at_most_once
open Rsj.Eval in
#print axioms C11_eval_finished_thunk_keeps_its_value
open Rsj.Eval in
#print axioms C04_eval_thunk_computation_fixed
open Rsj.Eval in
#print axioms C04_eval_run_later_store
open Rsj.Eval in
#print axioms C01_eval_set_done_assertion_never_fails
open Rsj.Eval in
#print axioms C01_eval_program_set_done_assertion_never_fails
open Rsj.Eval in
#print axioms C11_eval_in_progress_is_kept
