"""Shared helpers: run core programs through implementation and model, canonicalise."""
import json
import re
import struct
import vlib
import gen_core as G


def fbits(f):
    return '%016x' % struct.unpack('>Q', struct.pack('>d', float(f)))[0]


def canon_json(v):
    if v is None:
        return 'null'
    if v is True:
        return 'true'
    if v is False:
        return 'false'
    if isinstance(v, (int, float)):
        return 'n' + fbits(v)
    if isinstance(v, str):
        return 's' + G.hx(v)
    if isinstance(v, list):
        return '[' + ','.join(canon_json(x) for x in v) + ']'
    if isinstance(v, dict):
        return '{' + ','.join(G.hx(k) + ':' + canon_json(x) for k, x in v.items()) + '}'
    raise ValueError(v)


def canon_impl(out):
    """Implementation answer -> the model's notation ('ok <canon>' | 'err eval Kind hex' ...), traces kept."""
    tr = ''
    if ' T' in out:
        out, tr = out.rsplit(' T', 1)
        tr = ' T' + tr
    w = out.split(' ')
    if w[0] == 'ok':
        txt = vlib.unhx(w[1]).decode('utf-8')
        try:
            v = json.loads(txt, parse_int=lambda s: float(s))
        except Exception as e:  # not valid JSON: keep raw
            return 'ok RAW' + w[1] + tr
        return 'ok ' + canon_json(v) + tr
    return out + tr


# error details the model does not reproduce exactly: compare the kind only
LOOSE_DETAIL = {'NumericIndexIsNotValid', 'Other'}
# ... except the `Other` messages of the callback builtins, which the model reproduces literally
EXACT_OTHER = ('filter function must return a boolean, got ', 'function must return an array, got ',
               'function must return a string, got ', 'array item must null or string, got ',
               'array item must null or array, got ', 'array item ')


# `Other` messages of the pure builtins (lean/RsjModel/EvalPure.lean) that embed a formatted number or a `{:?}`-quoted
# character: compared up to that part -- the model emits the canonical text on the right
OTHER_CANON = [
    (re.compile(r'^`from` value .* is not a non-negative integer$', re.S), '`from` value'),
    (re.compile(r'^`len` value .* is not a non-negative integer$', re.S), '`len` value'),
    (re.compile(r'^.* is not a valid unicode codepoint$', re.S), 'is not a valid unicode codepoint'),
    (re.compile(r'^`maxsplits` value .* is not an integer$', re.S), '`maxsplits` value, not an integer'),
    (re.compile(r'^`maxsplits` value .* is not -1 or non-negative$', re.S), '`maxsplits` value, not -1 or non-negative'),
    (re.compile(r'^integer without digits: ', re.S), 'integer without digits:'),
    (re.compile(r'^invalid base 10: ', re.S), 'invalid base 10:'),
    (re.compile(r'^octal integer without digits: ', re.S), 'octal integer without digits:'),
    (re.compile(r'^invalid octal digit: ', re.S), 'invalid octal digit:'),
    (re.compile(r'^hexadecimal integer without digits: ', re.S), 'hexadecimal integer without digits:'),
    (re.compile(r'^invalid hexadecimal digit: ', re.S), 'invalid hexadecimal digit:'),
    (re.compile(r'^array item value .* is not a byte$', re.S), 'array item value, not a byte'),
    (re.compile(r'^only numbers between 0 and 255 can be base64 encoded, got ', re.S), 'only numbers between 0 and 255 can be base64 encoded, got'),
    (re.compile(r'^invalid base64 character: ', re.S), 'invalid base64 character:'),
    (re.compile(r'^invalid format conversion code ', re.S), 'invalid format conversion code'),
    (re.compile(r'^invalid format precision value: ', re.S), 'invalid format precision value:'),
    (re.compile(r'^invalid format field width value: ', re.S), 'invalid format field width value:'),
    (re.compile(r'^missing field .* in object formatting$', re.S), 'missing field'),
]
OTHER_CANON_TEXTS = {c for _, c in OTHER_CANON}
# ... and those it reproduces literally
EXACT_OTHER_PURE = ('string is not single-character', 'split delimiter is empty', 'array item must be a number, got ',
                    'array element must be a number, got ', 'only codepoints up to 255 can be base64 encoded',
                    'length of base64 string is not a multiple of 4',
                    'truncated format code', 'format field width is too large', 'format precision is too large',
                    'missing format precision digits', 'not enough array items for format, got ',
                    'too many array items for format: expected ', 'format precision must be a number, got ',
                    'format field width must be a number, got ', "'*' field width cannot be used with object formatting",
                    "'*' precision cannot be used with object formatting", 'mapping keys are required with object formatting',
                    "'c' formatting requires ", "'i' / 'd' formatting requires ", "'o' formatting requires ",
                    "'x' / 'X' formatting requires ", "'e' / 'E' formatting requires ", "'f' / 'F' formatting requires ",
                    "'g' / 'G' formatting requires ")


def canon_other(d):
    """canonical text of an `Other` message of a pure builtin, or None"""
    if d in OTHER_CANON_TEXTS:
        return d
    for rx, c in OTHER_CANON:
        if rx.match(d):
            return c
    if d.startswith(EXACT_OTHER_PURE):
        return d
    return None


def norm(ans):
    """Normalise an answer for model/implementation comparison."""
    tr = ''
    if ' T' in ans:
        ans, tr = ans.rsplit(' T', 1)
        tr = ' T' + tr
    w = ans.split(' ')
    if w[0] == 'err' and len(w) >= 4 and w[1] == 'eval':
        kind = w[2]
        if kind == 'Other':
            d = vlib.unhx(w[3]).decode('utf-8', 'replace')
            c = canon_other(d)
            if c is not None:
                return 'err eval Other %s' % c + tr
            if d.startswith(EXACT_OTHER):
                return 'err eval Other %s' % d + tr
        if kind in LOOSE_DETAIL:
            return 'err eval %s ?' % kind + tr
        if kind == 'InvalidBinaryOpTypes' or kind == 'InvalidUnaryOpType':
            # op names differ in spelling between Rust Debug and Lean Repr: compare types only
            d = vlib.unhx(w[3]).decode('utf-8', 'replace')
            return 'err eval %s %s' % (kind, '/'.join(d.split('/')[1:])) + tr
        if kind == 'InvalidStdFuncArgType' or kind == 'CompareDifferentTypesInequality':
            return 'err eval %s %s' % (kind, vlib.unhx(w[3]).decode('utf-8', 'replace')) + tr
    return ans + tr


def run_pair(progs, max_stack=500, fuel=4000, traces=True, extra=0.0, rng=None, ws=False):
    srcs = [G.to_jsonnet(p, rng, extra, ws) for p in progs]
    il = [vlib.eval_line(s, max_stack=max_stack, traces=1 if traces else 0) for s in srcs]
    ml = ['core %d %d %d %s' % (max_stack, fuel, 1 if traces else 0, G.to_sexp(p)) for p in progs]
    io = [canon_impl(a) for a in vlib.impl(il)]
    mo = vlib.model(ml)
    return srcs, io, mo


# ---------------------------------------------------------------------------
# The whole-pipeline model (op `pipe`): the very source text the implementation evaluates is lexed, parsed,
# lowered, analysed and evaluated by the Lean models (lean/RsjModel/Pipeline.lean).  Three-way agreement:
# implementation / model via S-expression (Python printer `G.to_sexp`) / model via source text (`G.to_jsonnet`
# + Lean lexer, parser, lowering).  A difference between the last two pinpoints a printer or a lowering bug.
# ---------------------------------------------------------------------------

import re
import time

_EXPECTED = re.compile(r'expected: \{(.*)\}, instead: (.*) \}$')


def _tok_names(txt):
    """Rust Debug of ExpectedToken / ActualToken -> the model's notation (RsjModel/Parser.lean `Expected.show`)"""
    out = []
    for w in [x.strip() for x in txt.split(', ') if x.strip()]:
        m = re.match(r'^Simple\((\w+)\)$', w)
        if m:
            out.append('S' + m.group(1))
        elif w == 'EndOfFile':
            out.append('Eof')
        elif re.match(r'^(OtherOp|Ident)\("(.*)"\)$', w):
            m = re.match(r'^(OtherOp|Ident)\("(.*)"\)$', w)
            out.append(('O' if m.group(1) == 'OtherOp' else 'I') + vlib.hx(m.group(2)))
        else:
            out.append(w)
    return out


def norm_static(ans):
    """Answers of the stages before evaluation.  Lexical errors: kind only (the implementation's detail is Rust
    Debug text with opaque span ids).  Syntax errors: kind, the set of expected tokens and the token found."""
    w = ans.split(' ')
    if len(w) >= 3 and w[0] == 'err' and w[1] == 'lex':
        return 'err lex ' + w[2]
    if len(w) >= 4 and w[0] == 'err' and w[1] == 'parse':
        d = vlib.unhx(w[3]).decode('utf-8', 'replace')
        m = _EXPECTED.search(d)
        if m:       # implementation: Expected { span: SpanId(n), expected: {A, B}, instead: C }
            ex = _tok_names(m.group(1))
            act = _tok_names(m.group(2))
            return 'err parse %s %s;%s' % (w[2], ','.join(ex) if ex else '-', act[0] if act else '?')
        parts = d.split(';')
        if len(parts) == 3:    # model: start:stop;A,B;C
            return 'err parse %s %s;%s' % (w[2], parts[1], parts[2])
        return 'err parse ' + w[2]
    return ans


def norm_src(ans):
    return norm_static(norm(ans))


def pipe_line(src, max_stack=500, fuel=4000, traces=True):
    return 'pipe %d %d %d %s' % (max_stack, fuel, 1 if traces else 0, vlib.hx(src))


def _pipe_stats(rep):
    return rep.extra.setdefault('pipeline', {'programs': 0, 'answered': 0, 'unsupported': 0, 'gas': 0, 'static_errors': 0,
                                             'model_seconds': 0.0, 'sampled_share': {}})


def check_pipe(rep, prefix, srcs, io, mo=None, max_stack=500, fuel=4000, traces=True, share=1.0, label=None):
    """Send the source texts `srcs` (whose implementation answers, after `canon_impl`, are `io`) through the
    pipeline model and compare: implementation vs pipeline (`rep.disagreement`), and, where `mo` (the answers of
    op `core` on the S-expression of the same trees) is given, S-expression route vs source route.
    `share` < 1: only that share of the programs (drawn from rep.rng) is sent (quick-tier budget).
    Returns the pipeline answers (None where not sampled)."""
    st = _pipe_stats(rep)
    idx = [i for i in range(len(srcs)) if share >= 1.0 or rep.rng.random() < share]
    st['sampled_share'][label or prefix] = round(len(idx) / max(1, len(srcs)), 3)
    t0 = time.time()
    per = isinstance(max_stack, (list, tuple))     # one frame limit per program
    res = vlib.model([pipe_line(srcs[i], max_stack[i] if per else max_stack, fuel, traces) for i in idx]) if idx else []
    st['model_seconds'] = round(st['model_seconds'] + time.time() - t0, 2)
    po = [None] * len(srcs)
    for i, c in zip(idx, res):
        po[i] = c
        s, a = srcs[i], io[i]
        b = mo[i] if mo is not None else None
        ms = max_stack[i] if per else max_stack
        st['programs'] += 1
        if isinstance(s, bytes):      # a source that need not be UTF-8: the replay record carries the bytes in hex
            rec = {'src': s.decode('utf-8', 'replace'), 'srchex': s.hex()}
            key = prefix + 'pipe:' + s.hex()
        else:
            rec = {'src': s}
            key = prefix + 'pipe:' + s
        if c.startswith('unsupported'):
            st['unsupported'] += 1
            rep.bump('pipe:unsupported')
            continue
        if c.startswith('gas'):
            st['gas'] += 1
            rep.bump('pipe:gas')
            continue
        st['answered'] += 1
        if c.startswith('err lex') or c.startswith('err parse') or c.startswith('err analyze'):
            st['static_errors'] += 1
        rep.bump('pipe:' + ('static-error' if c.startswith('err') and not c.startswith('err eval') else c.split(' ')[0]))
        if a.startswith('panic') or a.startswith('crash'):
            continue    # reported by the caller as a violation
        if norm_src(a) != norm_src(c):
            rep.disagreement(key, 'implementation and pipeline model (lexer+parser+lowering+analysis+evaluator on the source text) disagree',
                             dict(rec, max_stack=ms, fuel=fuel, traces=1 if traces else 0, impl=a, pipe=c, model=b))
            continue
        if b is not None and not (b.startswith('unsupported') or b.startswith('gas')) and (c.startswith('ok') or c.startswith('err eval')):
            if norm(b) != norm(c):
                rep.disagreement(key, 'model via S-expression and model via source text disagree (printer or lowering)',
                                 dict(rec, max_stack=ms, fuel=fuel, traces=1 if traces else 0, impl=a, pipe=c, model=b))
    if st['programs']:
        st['supported_share'] = round(st['answered'] / st['programs'], 4)
        st['seconds_per_1000'] = round(1000.0 * st['model_seconds'] / st['programs'], 2)
    return po


def run_pair_src(rep, prefix, progs, max_stack=500, fuel=4000, traces=True, extra=0.0, rng=None, ws=False, share=1.0):
    """`run_pair` + the pipeline model on the same source texts: (srcs, io, mo, po)."""
    srcs, io, mo = run_pair(progs, max_stack=max_stack, fuel=fuel, traces=traces, extra=extra, rng=rng, ws=ws)
    po = check_pipe(rep, prefix, srcs, io, mo, max_stack=max_stack, fuel=fuel, traces=traces, share=share)
    return srcs, io, mo, po


def replay_pipe(rp, a=None):
    """Re-run the pipeline model on a replay record's source; prints it; returns 1 on a difference with `a`."""
    if 'pipe' not in rp:
        return 0
    src = bytes.fromhex(rp['srchex']) if 'srchex' in rp else rp['src']
    if rp.get('load'):
        c = vlib.model(['pipe load ' + vlib.hx(src)])[0]
    else:
        c = vlib.model([pipe_line(src, rp.get('max_stack', 500), rp.get('fuel', 6000), bool(rp.get('traces', 1)))])[0]
    print('pipe :', c)
    if a is None or c.startswith('unsupported') or c.startswith('gas'):
        return 0
    return 1 if norm_src(a) != norm_src(c) else 0


def check_pipe_load(rep, prefix, srcs, io, label=None):
    """Static stages only: the implementation's `eval <src> load=1` answers `io` ('ok' | 'err lex|parse|analyze ..')
    against `pipe load <src>`."""
    st = _pipe_stats(rep)
    t0 = time.time()
    res = vlib.model(['pipe load ' + vlib.hx(s) for s in srcs]) if srcs else []
    st['model_seconds'] = round(st['model_seconds'] + time.time() - t0, 2)
    st['sampled_share'][label or prefix] = 1.0
    for s, a, c in zip(srcs, io, res):
        st['programs'] += 1
        if c.startswith('unsupported'):
            st['unsupported'] += 1
            rep.bump('pipe:unsupported')
            continue
        st['answered'] += 1
        if c != 'ok':
            st['static_errors'] += 1
        rep.bump('pipe-load:' + ('ok' if c == 'ok' else ' '.join(c.split(' ')[1:3])))
        if a.startswith('panic') or a.startswith('crash'):
            continue
        if norm_static(a) != norm_static(c):
            rep.disagreement(prefix + 'pipe:' + (s if isinstance(s, str) else s.hex()),
                             'static stages (lexer+parser+lowering+analysis on the source text): implementation and pipeline model disagree',
                             {'src': s if isinstance(s, str) else s.decode('utf-8', 'replace'), 'impl': a, 'pipe': c, 'load': 1})
    if st['programs']:
        st['supported_share'] = round(st['answered'] / st['programs'], 4)
        st['seconds_per_1000'] = round(1000.0 * st['model_seconds'] / st['programs'], 2)
    return res


# Hand-written sources for the parts of the front end that the tree generator never prints: every literal
# spelling, text blocks, numbers at the rounding boundaries, `std` rebound by each kind of binder, `tailstrict` in
# and out of tail position, slices with omitted parts, object comprehensions with locals on both sides, `e {..}`
# with a comprehension, named / default arguments, imports, and every kind of static error.
PIPE_DIRECTED = [
    'local std = {length(x): 7}; std.length(1)', 'local f(std) = std.length; f({length: 3})', '[std for std in [1, 2]]',
    '{[std]: std for std in ["a"]}', '{local std = 5, a: std}', 'function(std) std', '(function(std) std + 1)(2)',
    'local a = std.length([1]); local std = 3; std + a', '{a: std.length([1]), local std = {length(x): 9}}',
    '[std.length(x) for x in [[1]] for std in [{length(y): 5}]]', '[std.length(x) for std in [{length(y): 5}] for x in [[1]]]',
    '{[std.toString(std.length([k]))]: 1, local std = 1 for k in ["a"]}', '{local std = {length(x): "L"}, [k]: std.length(k) for k in ["a"]}',
    '{[k]: std.length(k), local std = {length(x): "L"} for k in ["a"]}', '{local a = 1, local b = 1, [k]: 1, local b = 2, local a = 2 for k in []}',
    'local f(x) = 1; (function() if false then 0 else f(error "strict") tailstrict)()', '{[k]: 1 for k in ["a"]} {[k]: 2 for k in ["b"]}',
    'local f(a, b=std.length(a)) = b; f([1, 2])', 'local f(std, b=std.length) = b; f({length: 4})',
    '{f(std): std.length}.f({length: 6})', '{local g(std) = std.length, a: g({length: 8})}.a',
    'std.length(x=[1,2])', 'std.length([1,2]) tailstrict', 'std.length', 'std', 'std.foo(1)', 'std.length(1, 2)',
    'std.sort([3,1,2])', 'std.sort([3,1,2], function(x) -x)', 'std.set([3,1,3])', 'std.__compare(1, 2)',
    '(std.length)([1])', '(std).length([1])', 'std["length"]([1])', 'local obj = {std: 1}; obj.std', '{std: 2}.std',
    '|||\n  text é\n   block\n|||', '|||-\n  stripped\n|||', '|||\n\ttab\n\n\tafter blank\n|||',
    '{ "a b": 1, |||\n  k\n|||: 2, \'c\': 3, @"d\\e": 4, @\'f\'\'g\': 5 }', '{ a: 1 }.a + { "a": 2 }["a"]',
    '"é😀\\n\\t\\\\\\"\'\\/\\b\\f\\r\\u00e9\\ud83d\\ude00"', '\'single "quoted"\'', '@"verb""atim\\n"',
    '1e400', '1E3 + 1e+3 + 1e-3 + 1_000 + 1.5_0 + 0.1e1_0', '0.1 + 0.2', '123456789012345678901234567890',
    '1.7976931348623157e308', '1.7976931348623158e308', '1.7976931348623159e308', '4.9e-324', '2.4703282292062327e-324',
    '2.4703282292062328e-324', '9007199254740993', '9007199254740992.5', '0.' + '0' * 330 + '1', '1' + '0' * 310,
    '1e-400', '5e-324', '0e999999999999999999', '1e99999999999999999999999', '0.1e-9223372036854775808',
    '01', '1.', '1.e3', '1e', '1e+', '1_', '1__0', '"abc', '"\\q"', '"\\u12"', '"\\ud800"', '"\\ud800\\u0041"', '/* unterminated',
    '1 /* c */ + // line\n 2 # hash\n + 3', '|||\nx\n|||', '|||\n  a\n b\n|||', '||| x\n a\n|||', '@', '~', '1 +', '(1', '[1, 2',
    '{a: 1', '{a 1}', '{a: 1,, }', 'local x = 1 x', 'f(', 'if 1 then', '1 2', ')', '1 ||| 2', '1 +++ 2', 'a.1', '{a+(x): 1}',
    '[1 for]', '{[k]: 1 for k in [1], a: 2}', '{[k]: 1, a: 2 for k in []}', '{[k]:: 1 for k in ["a"]}', '{assert true, [k]: 1 for k in ["a"]}',
    'x', 'self', '$', 'super.a', '{a: super.b}', '{a: self.b, b: $.c, c: 1}', 'local x = 1, x = 2; x', '{a: 1, a: 2}', '{a: 1, "a": 2}',
    '{local a = 1, local a = 2}', '{local a = 1, [k]: a, local a = 2 for k in []}', 'function(x, x) x', 'f(x=1, 2)', 'local f(a) = a; f(a=1, 2)',
    '[x for x in y]', '[x for x in x]', '{local x = "a", [x]: 1}', '{local x = "a", [x]: 1 for k in [1]}', '{[k]: 1 for k in [k]}', 'local x = "o"; {local x = "i", [x]: x}',
    'local x = "o"; {local x = "i", [x + k]: x for k in ["1"]}', '[x for y in [x] for x in [1]]', '{[x]: 1 for x in ["a"] if y}', '{[self.a]: 1}', '{a: {[self.a]: 1}}', '{a: 1, [self.a]: 2}.a',
    'local f(a, b=2) = a + b; f(1) + f(1, 3) + f(b=5, a=1)', 'local f(a, b=a*2) = a + b; [f(1), f(b=1, a=2), f(1, b=0)]',
    'local f(x) = x; f(1, 2)', 'local f(x) = x; f(y=1)', 'local f(x) = x; f(1, x=2)', 'local f(x) = x; f()', 'local f(x, y=x, z=y) = [x, y, z]; f(1, z=3)',
    'import "x.libsonnet"', 'importstr "x.txt"', 'importbin "x.bin"', 'import |||\n  x\n|||', 'importstr |||\n  x\n|||', 'import "a" + "b"',
    'import ("x")', 'importstr std.length', 'importbin 1', '[import "a", importstr x]',
    '{a: 1} {a+: 2}', '{a: 1} + {a+: 2} {b: super.a}', '{a: 1} {[k]: super.a + 1 for k in ["b"]}', '{a: 1} {local x = 2, b: x, assert self.a == 1 : "bad"}',
    '{a: 1} {assert self.a == 2 : "bad" + self.a}', '{a: 1} {} {b: 2} {a+: 1}', 'local o = {a: 1}; o {b: self.a} {c: super.b}',
    '{[k + "x"]: v for k in ["a", "b"] for v in [1]}', '{local z = k, [k]: z + y, local y = "!" for k in ["a", "b"]}', '{[k]+: 1 for k in ["a"]}',
    '{a: 1} + {[k]+: 1 for k in ["a"]}', '{["a"]: 1, [null]: 2, ["b"]:: 3, ["c"]::: 4}', '{a:: 1, b::: 2, c+:: 3, d+::: 4, e+: 5}', '{[1]: 1}',
    '{f(x): x + 1, g(x, y=2):: x + y}.f(2)', '{f(x): x + 1}.f', 'local o = {f(x):: self.k + x, k: 1}; o.f(2) + (o {k: 10}).f(2)', '{"f"(x): x}.f(3)',
    '[1, 2, 3][1:]', '[1, 2, 3][:2]', '[1, 2, 3][::2]', '[1, 2, 3][1::2]', '[1, 2, 3][:]', '[1, 2, 3][::]', '[1, 2, 3][0:2:1]', '[1, 2, 3][:2:]', '[1, 2, 3][1::]',
    '"hello"[1:3]', '[1, 2, 3][-1:]', '[1, 2, 3][0:3:0]', '[1,2,3][1:2][0]', '{a: 1, b: "a" in super}', '{a: 1} {b: "a" in super, c: "z" in super}', '"a" in {a: 1}',
    '"a" in super', '{a: 1} { b: super["a"], c: super.a }', '{a: "x" in super.y}', '{a: 1} {b: ("a" in super)}',
    'local f(n) = if n == 0 then 0 else f(n - 1) tailstrict; f(700)', 'local f(n) = if n == 0 then 0 else (f(n - 1) tailstrict); f(700)',
    'local f(n) = if n == 0 then 0 else 1 + f(n - 1) tailstrict; f(100)', 'local f(n, acc) = if n == 0 then acc else f(n - 1, acc + n) tailstrict; f(1000, 0)',
    'local f(n, acc) = if n == 0 then acc else f(n - 1, acc + n); f(1000, 0)', 'local f(n) = local m = n - 1; assert n >= 0; if n == 0 then 0 else f(m) tailstrict; f(700)',
    '(function(x) x)(1) tailstrict', 'local id(x) = x; local f(n) = if n == 0 then 0 else id(f(n - 1) tailstrict); f(600)',
    'local f(x) = 1; [f(error "lazy") tailstrict][0]', 'local f(x) = 1; local g() = f(error "strict") tailstrict; g()', 'local f(x) = 1; local g() = (f(error "lazy") tailstrict); g()',
    'local f(x) = 1; f(error "top-level call is not in tail position") tailstrict', 'local f(x) = 1; {g(): f(error "method body is a tail position") tailstrict}.g()',
    'local f(x) = 1; (function() local y = 2; if true then f(error "strict") tailstrict)()', 'local f(x) = 1; (function() [f(error "lazy") tailstrict])()[0]',
    'local f(x) = 1; (function() -f(error "operand: lazy") tailstrict)()', 'local f(x) = 1; (function() assert true : "m"; f(error "strict") tailstrict)()',
    'local f(x, y=error "default strict") = 1; (function() f(1) tailstrict)()',
    'if true then 1', 'if false then 1', 'if null then 1 else 2', 'if true then if false then 1 else 2', 'assert true; 1', 'assert false; 1', 'assert false : "msg"; 1',
    'assert 1 == 1 : error "not evaluated"; 2', 'assert false : {a: 1}; 1', 'assert 1; 2', 'error "boom"', 'error {a: 1}', 'error 1 + 2',
    '-1 + +2 + ~3', '!true || false && true', '1 < 2 && 2 <= 2 && 3 > 2 && 3 >= 3 && 1 != 2 && 1 == 1', '1 << 2 | 8 >> 1 & 7 ^ 3', '7 % 3 * 2 / 4 - 1',
    '1 - 2 - 3', '2 * 3 % 4', '1 < 2 == true', '- - 1', '!!true', '-1 * -2', '1 - -1', '~ -1',
    '[x * y for x in [1, 2] for y in [3, 4] if x != y]', '[[x, y] for x in [1, 2] if x > 1 for y in [x]]', '[1, 2,]', '[1 for x in [1, 2]]', '[x, for x in [1]]',
    'local x = 1; local x = x + 1; x', 'local x = y, y = 1; x', 'local a = {b: {c: [1, {d: 2}]}}; a.b.c[1].d', '{a: {b: $.c, c: self.d, d: 1}, c: 2}',
    'std.trace("t", 1) + std.trace("u", 2)', 'std.map(function(x) x * 2, [1, 2])', 'std.makeArray(3, function(i) i)', 'std.filter(function(x) x > 1, [1, 2, 3])',
    'std.foldl(function(a, x) a + x, [1, 2, 3], 0)', 'std.join(",", ["a", "b"])', 'std.range(1, 3)', 'std.objectHasEx({a:: 1}, "a", true)',
    'std.objectFieldsEx({a:: 1, b: 2}, false)', 'std.toString([1, "a"])', 'std.assertEqual(1, 1)', 'std.primitiveEquals(1, "1")', 'std.equals([1], [1])',
    'std.member([1, 2], 2) && std.all([true]) && std.any([false, true]) && std.count([1, 1], 1) == 2', 'std.mapWithIndex(function(i, x) i + x, [1, 2])',
    'std.mapWithKey(function(k, v) k + v, {a: "1"})', 'std.flatMap(function(x) [x, x], [1, 2])', 'std.filterMap(function(x) x > 1, function(x) x * 2, [1, 2, 3])',
    'std.foldr(function(x, a) a + x, ["a", "b"], "")', 'std.type(std.length([]))', 'std.length(std.range(1, std.length([1, 2, 3])))',
    'tailstrict', 'local tailstrict = 1; tailstrict', '1 tailstrict', '{a: 1}.a tailstrict', 'f() tailstrict tailstrict', '', ' ', '// only a comment',
]
# ... and sources that are not UTF-8 / contain unusual bytes
PIPE_DIRECTED_BYTES = [b'\xef\xbb\xbf1', b'"\xff"', b'\xc3', b'"a\x00b"', b'1 \xc2\xa0+ 2', b'"\xed\xa0\x80"', b'"\xf4\x90\x80\x80"', b"'\xe2\x82'",
                       b'/*\xff*/ 1', b'|||\n \xff\n|||', b'a\xcc\x81', b'\x00', b'"\xc0\xaf"', b'{"\xf0\x9f\x98\x80": 1}']

_MUT_ALPHABET = list(b' \n\t(){}[],.;:+-*/%<>=!&|^~$@#"\'\\_0123456789abexyzstdlocalfunctionifthenelse') + [0xc3, 0xa9, 0xff, 0x80, 0xf0, 0x9f, 0x98, 0x80, 0]
_MUT_WORDS = [b'std', b'local std = 1;', b' tailstrict', b'|||\n a\n|||', b'/*', b'self', b'super', b' in super', b'1e999', b'import ', b'$', b'function(std) ']


def mutate_source(rng, b):
    """1-3 byte-level edits of a source text: the malformed stream (lexical, syntax and static errors)."""
    b = bytearray(b)
    for _ in range(rng.choice([1, 1, 1, 2, 3])):
        if not b:
            break
        k = rng.random()
        i = rng.randrange(len(b))
        if k < 0.3:
            del b[i]
        elif k < 0.6:
            b.insert(i, rng.choice(_MUT_ALPHABET))
        elif k < 0.75:
            b[i] = rng.choice(_MUT_ALPHABET)
        elif k < 0.85:
            del b[i:]
        elif k < 0.95:
            j = rng.randrange(len(b))
            b[i], b[j] = b[j], b[i]
        else:
            b[i:i] = rng.choice(_MUT_WORDS)
    return bytes(b)


def pipe_directed(rep, prefix, progs, n_mut, max_stack=500, fuel=6000):
    """Sources that only exist as TEXT (no syntax tree, hence no S-expression route): the hand-written corpus
    `PIPE_DIRECTED` and `n_mut` byte-level mutations of printed generated programs.  Implementation vs pipeline
    model; a crash of the implementation is a violation (reported under the caller's property)."""
    rng = rep.rng
    srcs = [s.encode('utf-8') for s in PIPE_DIRECTED] + list(PIPE_DIRECTED_BYTES)
    ndir = len(srcs)
    for _ in range(n_mut):
        p = rng.choice(progs)
        srcs.append(mutate_source(rng, G.to_jsonnet(p, rng, 0.1, True).encode('utf-8')))
    # a mutation can ask for a huge allocation (`std.range(5, 1000000000)`): the implementation runs under an address-space
    # limit, and a crash where the model declines the same program as too large is exhaustion of memory, not a failure
    io = [canon_impl(a) for a in vlib.impl([vlib.eval_line(s, max_stack=max_stack, traces=1) for s in srcs], mem_limit=4 * 1024 ** 3)]
    po = check_pipe(rep, prefix + 'text:', srcs, io, None, max_stack=max_stack, fuel=fuel, traces=True,
                    label='directed corpus + mutated sources')
    for i, (s, a, c) in enumerate(zip(srcs, io, po)):
        rep.bump('pipe-directed' if i < ndir else 'pipe-mutated')
        rep.count(prefix + 'text:' + s.hex(), ' lex ' not in a)
        if a.startswith('panic') or a.startswith('crash'):
            if a.startswith('crash') and c is not None and c.startswith('unsupported') and b'large' in vlib.unhx(c.split(' ')[1]):
                rep.bump('pipe-text:memory-exhaustion-skipped')
                continue
            rep.violation(prefix + 'text:' + s.hex(), 'source text crashed the implementation: ' + a[:200],
                          {'src': s.decode('utf-8', 'replace'), 'srchex': s.hex(), 'impl': a})
    return len(srcs)


# ---------------------------------------------------------------------------
# Shrinking of disagreeing programs
# ---------------------------------------------------------------------------

def _children_exprs(e):
    from checks.c09 import is_expr
    out = []

    def rec(x, top):
        if is_expr(x) and not top:
            out.append(x)
            return
        if isinstance(x, (list, tuple)):
            for y in (x[1:] if is_expr(x) else x):
                rec(y, False)
    rec(e, True)
    return out


def shrink(prog, still_bad, max_rounds=200):
    """Greedy: replace a node by one of its sub-expressions or by a literal while `still_bad` holds."""
    from checks.c09 import walk, replace, get
    cur = prog
    for _ in range(max_rounds):
        nodes = []
        walk(cur, False, [], nodes)
        improved = False
        for path, _ in sorted(nodes, key=lambda p: len(p[0])):
            node = get(cur, path)
            cands = _children_exprs(node) + [('null',), ('num', 1.0), ('array', []), ('object', [])]
            for c in cands:
                if c == node or G.size(c) >= G.size(node):
                    continue
                trial = replace(cur, list(path), c)
                try:
                    if still_bad(trial):
                        cur = trial
                        improved = True
                        break
                except Exception:
                    pass
            if improved:
                break
        if not improved:
            break
    return cur


def compare_cases(rep, progs, prefix, max_stack, traces, desc, fuel=6000, pipe_share=1.0):
    """Programs through implementation and model under one frame limit: crashes are violations, differences are
    disagreements (replay record understood by the replay functions of c02/c04/c10)."""
    srcs, io, mo = run_pair(progs, max_stack=max_stack, fuel=fuel, traces=traces)
    if pipe_share > 0:
        check_pipe(rep, prefix, srcs, io, mo, max_stack=max_stack, fuel=fuel, traces=traces, share=pipe_share)
    for p, s, a, b in zip(progs, srcs, io, mo):
        key = prefix + s
        kind = a.split(' ')[2] if a.startswith('err eval') else a.split(' ')[0]
        rep.bump(prefix + kind)
        rep.count(key, kind not in ('StackOverflow',) and ' analyze ' not in a and ' parse ' not in a)
        if a.startswith('panic') or a.startswith('crash'):
            rep.violation(key, 'evaluation crashed: ' + a[:200], {'src': s, 'max_stack': max_stack, 'impl': a})
            continue
        if ' analyze ' in a or ' parse ' in a or ' lex ' in a:
            rep.disagreement(key, 'directed program does not pass analysis', {'src': s, 'max_stack': max_stack, 'impl': a})
            continue
        if b.startswith('unsupported') or b.startswith('gas'):
            rep.bump(prefix + 'model-' + b.split(' ')[0])
            continue
        if norm(a) != norm(b):
            rep.disagreement(key, desc, {'src': s, 'sexp': G.to_sexp(p), 'max_stack': max_stack, 'impl': a, 'model': b})
