"""Shared helpers: run core programs through implementation and model, canonicalise."""
import json
import struct
import vlib
import gen_core as G


def fbits(f):
    return '%016x' % struct.unpack('>Q', struct.pack('>d', float(f)))[0]


def canon_json(v):
    if v is None:
        return 'null'
    if v is True:
        return 'true'
    if v is False:
        return 'false'
    if isinstance(v, (int, float)):
        return 'n' + fbits(v)
    if isinstance(v, str):
        return 's' + G.hx(v)
    if isinstance(v, list):
        return '[' + ','.join(canon_json(x) for x in v) + ']'
    if isinstance(v, dict):
        return '{' + ','.join(G.hx(k) + ':' + canon_json(x) for k, x in v.items()) + '}'
    raise ValueError(v)


def canon_impl(out):
    """Implementation answer -> the model's notation ('ok <canon>' | 'err eval Kind hex' ...), traces kept."""
    tr = ''
    if ' T' in out:
        out, tr = out.rsplit(' T', 1)
        tr = ' T' + tr
    w = out.split(' ')
    if w[0] == 'ok':
        txt = vlib.unhx(w[1]).decode('utf-8')
        try:
            v = json.loads(txt, parse_int=lambda s: float(s))
        except Exception as e:  # not valid JSON: keep raw
            return 'ok RAW' + w[1] + tr
        return 'ok ' + canon_json(v) + tr
    return out + tr


# error details the model does not reproduce exactly: compare the kind only
LOOSE_DETAIL = {'NumericIndexIsNotValid', 'Other'}
# ... except the `Other` messages of the callback builtins, which the model reproduces literally
EXACT_OTHER = ('filter function must return a boolean, got ', 'function must return an array, got ',
               'function must return a string, got ', 'array item must null or string, got ',
               'array item must null or array, got ', 'array item ')


def norm(ans):
    """Normalise an answer for model/implementation comparison."""
    tr = ''
    if ' T' in ans:
        ans, tr = ans.rsplit(' T', 1)
        tr = ' T' + tr
    w = ans.split(' ')
    if w[0] == 'err' and len(w) >= 4 and w[1] == 'eval':
        kind = w[2]
        if kind == 'Other':
            d = vlib.unhx(w[3]).decode('utf-8', 'replace')
            if d.startswith(EXACT_OTHER):
                return 'err eval Other %s' % d + tr
        if kind in LOOSE_DETAIL:
            return 'err eval %s ?' % kind + tr
        if kind == 'InvalidBinaryOpTypes' or kind == 'InvalidUnaryOpType':
            # op names differ in spelling between Rust Debug and Lean Repr: compare types only
            d = vlib.unhx(w[3]).decode('utf-8', 'replace')
            return 'err eval %s %s' % (kind, '/'.join(d.split('/')[1:])) + tr
        if kind == 'InvalidStdFuncArgType' or kind == 'CompareDifferentTypesInequality':
            return 'err eval %s %s' % (kind, vlib.unhx(w[3]).decode('utf-8', 'replace')) + tr
    return ans + tr


def run_pair(progs, max_stack=500, fuel=4000, traces=True, extra=0.0, rng=None, ws=False):
    srcs = [G.to_jsonnet(p, rng, extra, ws) for p in progs]
    il = [vlib.eval_line(s, max_stack=max_stack, traces=1 if traces else 0) for s in srcs]
    ml = ['core %d %d %d %s' % (max_stack, fuel, 1 if traces else 0, G.to_sexp(p)) for p in progs]
    io = [canon_impl(a) for a in vlib.impl(il)]
    mo = vlib.model(ml)
    return srcs, io, mo


# ---------------------------------------------------------------------------
# Shrinking of disagreeing programs
# ---------------------------------------------------------------------------

def _children_exprs(e):
    from checks.c09 import is_expr
    out = []

    def rec(x, top):
        if is_expr(x) and not top:
            out.append(x)
            return
        if isinstance(x, (list, tuple)):
            for y in (x[1:] if is_expr(x) else x):
                rec(y, False)
    rec(e, True)
    return out


def shrink(prog, still_bad, max_rounds=200):
    """Greedy: replace a node by one of its sub-expressions or by a literal while `still_bad` holds."""
    from checks.c09 import walk, replace, get
    cur = prog
    for _ in range(max_rounds):
        nodes = []
        walk(cur, False, [], nodes)
        improved = False
        for path, _ in sorted(nodes, key=lambda p: len(p[0])):
            node = get(cur, path)
            cands = _children_exprs(node) + [('null',), ('num', 1.0), ('array', []), ('object', [])]
            for c in cands:
                if c == node or G.size(c) >= G.size(node):
                    continue
                trial = replace(cur, list(path), c)
                try:
                    if still_bad(trial):
                        cur = trial
                        improved = True
                        break
                except Exception:
                    pass
            if improved:
                break
        if not improved:
            break
    return cur


def compare_cases(rep, progs, prefix, max_stack, traces, desc, fuel=6000):
    """Programs through implementation and model under one frame limit: crashes are violations, differences are
    disagreements (replay record understood by the replay functions of c02/c04/c10)."""
    srcs, io, mo = run_pair(progs, max_stack=max_stack, fuel=fuel, traces=traces)
    for p, s, a, b in zip(progs, srcs, io, mo):
        key = prefix + s
        kind = a.split(' ')[2] if a.startswith('err eval') else a.split(' ')[0]
        rep.bump(prefix + kind)
        rep.count(key, kind not in ('StackOverflow',) and ' analyze ' not in a and ' parse ' not in a)
        if a.startswith('panic') or a.startswith('crash'):
            rep.violation(key, 'evaluation crashed: ' + a[:200], {'src': s, 'max_stack': max_stack, 'impl': a})
            continue
        if ' analyze ' in a or ' parse ' in a or ' lex ' in a:
            rep.disagreement(key, 'directed program does not pass analysis', {'src': s, 'max_stack': max_stack, 'impl': a})
            continue
        if b.startswith('unsupported') or b.startswith('gas'):
            rep.bump(prefix + 'model-' + b.split(' ')[0])
            continue
        if norm(a) != norm(b):
            rep.disagreement(key, desc, {'src': s, 'sexp': G.to_sexp(p), 'max_stack': max_stack, 'impl': a, 'model': b})
