#!/bin/sh
# Build the framework from files on disk only (offline).
set -e
cd "$(dirname "$0")"
export CARGO_NET_OFFLINE=true
mkdir -p .build/tmp evidence replays
(cd harness && cargo build --release --offline)
cargo build --offline --manifest-path /repo/Cargo.toml -p rsjsonnet --target-dir /verif/.build/cli
(cd lean && lake build)
echo setup-done
