#!/bin/sh
# Build the framework from files on disk only (offline).
cd "$(dirname "$0")"
export CARGO_NET_OFFLINE=true
V="$(pwd)"
export CARGO_TARGET_DIR="$V/.build/cargo"
mkdir -p .build/tmp evidence replays
(cd harness && cargo build --release --offline) || echo "setup: harness build failed"
cargo build --offline --manifest-path /repo/Cargo.toml -p rsjsonnet --target-dir "$V/.build/cli" || echo "setup: cli build failed"
# Lean: property modules of the claimed checks and their model drivers, one target at a
# time so that one broken module cannot block the rest (each check rebuilds what it needs).
props=$(python3 -c "import json;print(' '.join(c['property_id'] for c in json.load(open('MANIFEST.json'))['checks']))")
cd lean
for p in $props; do lake build RsjProps.$p || echo "setup: RsjProps.$p failed"; done
for m in RsjProps.C10Eval RsjProps.C04Eval RsjProps.C02Eval RsjProps.C09Eval RsjProps.C07Eval RsjProps.C08Eval RsjProps.C03Eval RsjProps.C11Eval RsjProps.C04Rewrite RsjProps.C01Eval RsjProps.C17Eval RsjProps.C02Pipeline RsjProps.C09Pipeline RsjProps.C01Pipeline RsjProps.C15NoFault RsjProps.C01Pipeline2 RsjProps.C01Pipeline3 RsjProps.C01EvalNaN; do lake build $m || echo "setup: $m failed"; done
for d in $(ls Drv | sed 's/\.lean$//'); do
  op=$(python3 -c "import sys;sys.path.insert(0,'..');import vlib;print({v:k for k,v in vlib.OP_MODULE.items()}.get('$d',''))")
  [ -n "$op" ] && (lake build drv_$op || echo "setup: drv_$op failed")
done
echo setup-done
