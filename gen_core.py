"""Core-language program generator and printers (Jsonnet text + model S-expression).

AST nodes are tuples, mirroring lean/RsjModel/Core.lean:
  ('null',) ('true',) ('false',) ('self',) ('dollar',) ('str', s) ('num', float) ('var', name)
  ('paren', e) ('array', [e]) ('arrcomp', body, specs) ('object', members) ('objcomp', binds, name, plus, body, specs)
  ('field', e, name) ('index', e, i) ('slice', e, a, b, c)  (a/b/c may be None)
  ('sfield', name) ('sindex', e) ('insuper', e)
  ('call', callee, args, tailstrict)   args: [('p', e) | ('n', name, e)]
  ('local', binds, body)   binds: [(name, params|None, e)]   params: [(name, default|None)]
  ('if', c, t, e|None) ('binary', op, a, b) ('unary', op, a) ('objext', e, members)
  ('func', params, body) ('assert', cond, msg|None, inner) ('error', e)
  ('implit', kind) ('imptb', kind) ('impcomp', kind, e)
  ('std', name, [args])
members: ('local', name, params|None, e) | ('assert', cond, msg|None)
       | ('fix', name, plus, vis, params|None, e) | ('dyn', nameexpr, plus, vis, params|None, e)
specs: ('for', var, e) | ('if', c)
"""
import struct

BINOPS = {
    'mul': ('*', 11), 'div': ('/', 11), 'rem': ('%', 11),
    'add': ('+', 10), 'sub': ('-', 10),
    'shl': ('<<', 9), 'shr': ('>>', 9),
    'lt': ('<', 8), 'le': ('<=', 8), 'gt': ('>', 8), 'ge': ('>=', 8), 'in': ('in', 8),
    'eq': ('==', 7), 'ne': ('!=', 7),
    'band': ('&', 6), 'bxor': ('^', 5), 'bor': ('|', 4),
    'land': ('&&', 3), 'lor': ('||', 2),
}
UNOPS = {'minus': '-', 'plus': '+', 'bnot': '~', 'lnot': '!'}
VIS = {'d': ':', 'h': '::', 'f': ':::'}
IMPORT_KW = {0: 'import', 1: 'importstr', 2: 'importbin'}

P_PREFIX = 0   # local / if / function / assert / error / import: extend to the right
P_UNARY = 12
P_POSTFIX = 13
P_ATOM = 14


def hx(s):
    b = s.encode('utf-8')
    return b.hex() if b else '-'


def fbits(f):
    return struct.unpack('>Q', struct.pack('>d', float(f)))[0]


def num_text(f):
    f = float(f)
    if f == float('inf'):
        return '1e400'      # a literal that rounds to infinity (reported when it is evaluated)
    if f == int(f) and abs(f) < 1e15:
        return str(int(f))
    return repr(f)


def jstr(s):
    out = ['"']
    for ch in s:
        o = ord(ch)
        if ch == '"':
            out.append('\\"')
        elif ch == '\\':
            out.append('\\\\')
        elif ch == '\n':
            out.append('\\n')
        elif o < 0x20 or o == 0x7f:
            out.append('\\u%04x' % o)
        else:
            out.append(ch)
    out.append('"')
    return ''.join(out)


IDENT_OK = set('abcdefghijklmnopqrstuvwxyzABCDEFGHIJKLMNOPQRSTUVWXYZ_0123456789')
KEYWORDS = {'assert', 'else', 'error', 'false', 'for', 'function', 'if', 'import', 'importstr', 'importbin',
            'in', 'local', 'null', 'tailstrict', 'then', 'self', 'super', 'true'}


def is_ident(s):
    return bool(s) and all(c in IDENT_OK for c in s) and not s[0].isdigit() and s not in KEYWORDS


class Printer:
    """Prints with minimal parentheses; `extra` adds redundant parentheses with
    probability p using rng; `ws` varies whitespace."""

    def __init__(self, rng=None, extra=0.0, ws=False):
        self.rng = rng
        self.extra = extra
        self.ws = ws

    def sp(self):
        if self.ws and self.rng is not None:
            return self.rng.choice([' ', ' ', '  ', '\n', ' /*c*/ ', '\t'])
        return ' '

    def maybe(self, s):
        # redundant parentheses are not neutral for `tailstrict` (a parenthesised call is not in tail position)
        if s.endswith('tailstrict'):
            return s
        if self.rng is not None and self.extra > 0 and self.rng.random() < self.extra:
            return '(' + s + ')'
        return s

    def prec(self, e):
        k = e[0]
        if k in ('local', 'if', 'func', 'assert', 'error', 'implit', 'imptb', 'impcomp'):
            return P_PREFIX
        if k == 'binary':
            return BINOPS[e[1]][1]
        if k == 'insuper':
            return 8
        if k == 'unary':
            return P_UNARY
        if k in ('field', 'index', 'slice', 'call', 'objext', 'std'):
            return P_POSTFIX
        if k == 'implib':
            return P_ATOM
        return P_ATOM

    def at(self, e, minprec):
        """print e so that it can stand where precedence >= minprec is required"""
        s = self.expr(e)
        if self.prec(e) < minprec:
            return '(' + s + ')'
        return self.maybe(s)

    def params(self, ps):
        out = []
        for n, d in ps:
            out.append(n if d is None else n + self.sp() + '=' + self.sp() + self.at(d, 0))
        return '(' + (',' + self.sp()).join(out) + ')'

    def binds(self, bs):
        out = []
        for n, ps, e in bs:
            out.append(n + (self.params(ps) if ps is not None else '') + self.sp() + '=' + self.sp() + self.at(e, 0))
        return (',' + self.sp()).join(out)

    def specs(self, ss):
        out = []
        for s in ss:
            if s[0] == 'for':
                out.append('for ' + s[1] + ' in ' + self.at(s[2], 0))
            else:
                out.append('if ' + self.at(s[1], 0))
        return ' '.join(out)

    def fname(self, n):
        return n if is_ident(n) else jstr(n)

    def members(self, ms):
        out = []
        for m in ms:
            if m[0] == 'local':
                out.append('local ' + self.binds([(m[1], m[2], m[3])]))
            elif m[0] == 'assert':
                s = 'assert ' + self.at(m[1], 0)
                if m[2] is not None:
                    s += ' : ' + self.at(m[2], 0)
                out.append(s)
            else:
                kind, n, plus, vis, ps, e = m
                name = self.fname(n) if kind == 'fix' else '[' + self.at(n, 0) + ']'
                out.append(name + (self.params(ps) if ps is not None else '') + ('+' if plus else '') + VIS[vis]
                           + self.sp() + self.at(e, 0))
        return '{' + (',' + self.sp()).join(out) + '}'

    def args(self, args):
        out = []
        for a in args:
            if a[0] == 'p':
                out.append(self.at(a[1], 0))
            else:
                out.append(a[1] + '=' + self.at(a[2], 0))
        return '(' + (',' + self.sp()).join(out) + ')'

    def expr(self, e):
        k = e[0]
        if k == 'null':
            return 'null'
        if k == 'true':
            return 'true'
        if k == 'false':
            return 'false'
        if k == 'self':
            return 'self'
        if k == 'dollar':
            return '$ '   # `$` is an operator character: keep it from fusing with a following `:` etc.
        if k == 'str':
            return jstr(e[1])
        if k == 'num':
            return num_text(e[1])
        if k == 'var':
            return e[1]
        if k == 'paren':
            return '(' + self.expr(e[1]) + ')'
        if k == 'array':
            return '[' + (',' + self.sp()).join(self.at(x, 0) for x in e[1]) + ']'
        if k == 'arrcomp':
            return '[' + self.at(e[1], 0) + ' ' + self.specs(e[2]) + ']'
        if k == 'object':
            return self.members(e[1])
        if k == 'objcomp':
            _, binds, name, plus, body, specs = e
            # object locals may stand before or after the field (same scope either way): a deterministic split by
            # the number of binds so that both printers of one program agree
            cut = len(binds) - (len(binds) // 2 if len(binds) >= 2 else (1 if (len(binds) == 1 and len(self.at(body, 0)) % 2 == 0) else 0))
            parts = ['local ' + self.binds([b]) for b in binds[:cut]]
            parts.append('[' + self.at(name, 0) + ']' + ('+' if plus else '') + ': ' + self.at(body, 0))
            parts += ['local ' + self.binds([b]) for b in binds[cut:]]
            return '{' + ', '.join(parts) + ' ' + self.specs(specs) + '}'

        if k == 'field':
            return self.at(e[1], P_POSTFIX) + '.' + e[2] if is_ident(e[2]) else self.at(e[1], P_POSTFIX) + '[' + jstr(e[2]) + ']'
        if k == 'index':
            return self.at(e[1], P_POSTFIX) + '[' + self.at(e[2], 0) + ']'
        if k == 'slice':
            a, b, c = e[2], e[3], e[4]
            s = self.at(e[1], P_POSTFIX) + '[' + ('' if a is None else self.at(a, 0)) + ':' + ('' if b is None else self.at(b, 0))
            if c is not None:
                s += ':' + self.at(c, 0)
            return s + ']'
        if k == 'sfield':
            return 'super.' + e[1] if is_ident(e[1]) else 'super[' + jstr(e[1]) + ']'
        if k == 'sindex':
            return 'super[' + self.at(e[1], 0) + ']'
        if k == 'insuper':
            return self.at(e[1], 9) + ' in super'
        if k == 'call':
            return self.at(e[1], P_POSTFIX) + self.args(e[2]) + (' tailstrict' if e[3] else '')
        if k == 'local':
            return 'local ' + self.binds(e[1]) + ';' + self.sp() + self.at(e[2], 0)
        if k == 'if':
            if e[3] is not None:
                t = self.at(e[2], 0)
                if open_if(e[2]):
                    t = '(' + t + ')'   # dangling else
                return 'if ' + self.at(e[1], 0) + ' then ' + t + ' else ' + self.at(e[3], 0)
            return 'if ' + self.at(e[1], 0) + ' then ' + self.at(e[2], 0)
        if k == 'binary':
            sym, p = BINOPS[e[1]]
            return self.at(e[2], p) + self.sp() + sym + self.sp() + self.at(e[3], p + 1)
        if k == 'unary':
            operand = self.at(e[2], P_UNARY)
            # consecutive operator characters would lex as one (unknown) operator
            return UNOPS[e[1]] + (' ' if operand[:1] in '!$:~+-&|^=<>*/%' else '') + operand
        if k == 'objext':
            return self.at(e[1], P_POSTFIX) + self.sp() + self.members(e[2])
        if k == 'func':
            return 'function' + self.params(e[1]) + ' ' + self.at(e[2], 0)
        if k == 'assert':
            s = 'assert ' + self.at(e[1], 0)
            if e[2] is not None:
                s += ' : ' + self.at(e[2], 0)
            return s + '; ' + self.at(e[3], 0)
        if k == 'error':
            return 'error ' + self.at(e[1], 0)
        if k == 'implib':
            return '(import ' + jstr(e[1] + '.libsonnet') + ')'
        if k == 'implit':
            return IMPORT_KW[e[1]] + ' "x.libsonnet"'
        if k == 'imptb':
            return IMPORT_KW[e[1]] + ' |||\n  x\n|||'
        if k == 'impcomp':
            return IMPORT_KW[e[1]] + ' ' + self.at(e[2], P_UNARY)
        if k == 'std':
            return 'std.' + e[1] + '(' + ', '.join(self.at(a, 0) for a in e[2]) + ')'
        raise ValueError(k)


def open_if(e):
    """does the text of e end with an else-less `if` (which would capture a following `else`)?"""
    k = e[0]
    if k == 'if':
        return e[3] is None and True or open_if(e[3])
    if k == 'local':
        return open_if(e[2])
    if k == 'func':
        return open_if(e[2])
    if k == 'assert':
        return open_if(e[3])
    if k == 'error':
        return open_if(e[1])
    if k == 'binary':
        return open_if(e[3])
    if k == 'unary':
        return open_if(e[2])
    return False


def to_jsonnet(e, rng=None, extra=0.0, ws=False):
    return Printer(rng, extra, ws).expr(e)


def sx_opt(e):
    return '_' if e is None else sx(e)


def sx_params(ps):
    return '_' if ps is None else '( ' + ' '.join('( %s %s )' % (hx(n), sx_opt(d)) for n, d in ps) + ' )'


def sx_binds(bs):
    return '( ' + ' '.join('( %s %s %s )' % (hx(n), sx_params(ps), sx(e)) for n, ps, e in bs) + ' )'


def sx_specs(ss):
    out = []
    for s in ss:
        if s[0] == 'for':
            out.append('( for %s %s )' % (hx(s[1]), sx(s[2])))
        else:
            out.append('( if %s )' % sx(s[1]))
    return '( ' + ' '.join(out) + ' )'


def sx_members(ms):
    out = []
    for m in ms:
        if m[0] == 'local':
            out.append('( local %s %s %s )' % (hx(m[1]), sx_params(m[2]), sx(m[3])))
        elif m[0] == 'assert':
            out.append('( assert %s %s )' % (sx(m[1]), sx_opt(m[2])))
        elif m[0] == 'fix':
            out.append('( fix %s %s %s %s %s )' % (hx(m[1]), '1' if m[2] else '0', m[3], sx_params(m[4]), sx(m[5])))
        else:
            out.append('( dyn %s %s %s %s %s )' % (sx(m[1]), '1' if m[2] else '0', m[3], sx_params(m[4]), sx(m[5])))
    return '( ' + ' '.join(out) + ' )'


def sx(e):
    k = e[0]
    if k in ('null', 'true', 'false', 'self'):
        return k
    if k == 'dollar':
        return '$'
    if k == 'str':
        return 's:' + hx(e[1])
    if k == 'num':
        return 'n:%016x' % fbits(e[1])
    if k == 'var':
        return 'v:' + hx(e[1])
    if k == 'paren':
        return '( paren %s )' % sx(e[1])
    if k == 'array':
        return '( arr ' + ' '.join(sx(x) for x in e[1]) + ' )' if e[1] else '( arr )'
    if k == 'arrcomp':
        return '( arrc %s %s )' % (sx(e[1]), sx_specs(e[2]))
    if k == 'object':
        return '( obj %s )' % sx_members(e[1])
    if k == 'objcomp':
        _, binds, name, plus, body, specs = e
        return '( objc %s %s %s %s %s )' % (sx_binds(binds), sx(name), '1' if plus else '0', sx(body), sx_specs(specs))
    if k == 'field':
        return '( field %s %s )' % (sx(e[1]), hx(e[2]))
    if k == 'index':
        return '( index %s %s )' % (sx(e[1]), sx(e[2]))
    if k == 'slice':
        return '( slice %s %s %s %s )' % (sx(e[1]), sx_opt(e[2]), sx_opt(e[3]), sx_opt(e[4]))
    if k == 'sfield':
        return '( sfield %s )' % hx(e[1])
    if k == 'sindex':
        return '( sindex %s )' % sx(e[1])
    if k == 'insuper':
        return '( insuper %s )' % sx(e[1])
    if k == 'call':
        args = ' '.join('( p %s )' % sx(a[1]) if a[0] == 'p' else '( n %s %s )' % (hx(a[1]), sx(a[2])) for a in e[2])
        return '( call %s ( %s ) %s )' % (sx(e[1]), args, '1' if e[3] else '0')
    if k == 'local':
        return '( local %s %s )' % (sx_binds(e[1]), sx(e[2]))
    if k == 'if':
        return '( if %s %s %s )' % (sx(e[1]), sx(e[2]), sx_opt(e[3]))
    if k == 'binary':
        return '( bin %s %s %s )' % (e[1], sx(e[2]), sx(e[3]))
    if k == 'unary':
        return '( un %s %s )' % (e[1], sx(e[2]))
    if k == 'objext':
        return '( objext %s %s )' % (sx(e[1]), sx_members(e[2]))
    if k == 'func':
        return '( func %s %s )' % (sx_params(e[1]), sx(e[2]))
    if k == 'assert':
        return '( assert %s %s %s )' % (sx(e[1]), sx_opt(e[2]), sx(e[3]))
    if k == 'error':
        return '( error %s )' % sx(e[1])
    if k == 'implib':
        return 'v:' + hx('$' + e[1])   # the model binds libraries to variables of the root environment
    if k == 'implit':
        return '( implit %d )' % e[1]
    if k == 'imptb':
        return '( imptb %d )' % e[1]
    if k == 'impcomp':
        return '( impcomp %d %s )' % (e[1], sx(e[2]))
    if k == 'std':
        return '( std %s %s )' % (e[1], ' '.join(sx(a) for a in e[2])) if e[2] else '( std %s )' % e[1]
    raise ValueError(k)


def to_sexp(e):
    # normalise spaces: the reader splits on single spaces and drops empties
    return ' '.join(sx(e).split())


# --------------------------------------------------------------------------------------
# Generator
# --------------------------------------------------------------------------------------

NAMES = ['a', 'b', 'c', 'x', 'y', 'f', 'g', 'o', 'p', 'q']
FIELDS = ['a', 'b', 'c', 'd', 'k1', 'k2']
NUMS = [0, 1, 2, 3, 5, 7, 10, 0.5, 1.5, 100, 255, 1e3, 9007199254740991, 1e308, 5e-324, 2.5, 0, 1, 2, 3, 5, 10, float('inf')]
STRS = ['', 'a', 'b', 'ab', 'x y', 'é', '日本', '😀', 'k1', 'a"b', 'line\n']


def num_lit(v):
    """a number as source text denotes it: a negative one is the unary minus applied to a literal"""
    v = float(v)
    return ('unary', 'minus', ('num', -v)) if v < 0 else ('num', v)


class Gen:
    """Type-directed generator of mostly well-typed, well-scoped core programs."""

    def __init__(self, rng, max_depth=5, p_bad_type=0.05, allow_std=True, allow_error=True, allow_tailstrict=False,
                 new_std=True, pure_std=True):
        self.rng = rng
        self.new_std = new_std
        self.pure_std = pure_std
        self.max_depth = max_depth
        self.p_bad = p_bad_type
        self.allow_std = allow_std
        self.allow_error = allow_error
        self.allow_tailstrict = allow_tailstrict
        self.trace_id = 0

    # env: dict name -> type ('num','str','bool','arr','obj','func1','func2','any')
    def pick_var(self, env, ty):
        c = [n for n, t in env.items() if t == ty or t == 'any']
        return self.rng.choice(c) if c else None

    def fresh(self, env):
        return self.rng.choice(NAMES)

    def gen(self, ty, env, d, inobj):
        r = self.rng
        if r.random() < self.p_bad:
            ty = r.choice(['num', 'str', 'bool', 'arr', 'obj', 'null', 'func1'])
        if d <= 0:
            return self.leaf(ty, env, inobj)
        x = r.random()
        # type-independent wrappers
        if x < 0.10:
            return self.gen_local(ty, env, d, inobj)
        if x < 0.16:
            c = self.gen('bool', env, d - 1, inobj)
            t = self.gen(ty, env, d - 1, inobj)
            e = self.gen(ty, env, d - 1, inobj) if r.random() < 0.85 else None
            return ('if', c, t, e)
        if x < 0.21:
            # call of a fresh function literal or a variable function
            return self.gen_call(ty, env, d, inobj)
        if x < 0.25:
            # index into an array literal / field of object literal
            if r.random() < 0.5:
                n = r.randrange(1, 4)
                items = [self.gen(ty if i == 0 else 'any', env, d - 1, inobj) for i in range(n)]
                k = r.randrange(n)
                items[0], items[k] = items[k], items[0]
                return ('index', ('array', items), ('num', float(k)))
            fld = r.choice(FIELDS)
            obj = self.gen_object(env, d - 1, inobj, want={fld: ty})
            return ('field', obj, fld) if r.random() < 0.7 else ('index', obj, ('str', fld))
        if x < 0.27 and self.allow_error:
            return ('assert', self.gen('bool', env, d - 1, inobj),
                    self.gen('str', env, d - 1, inobj) if r.random() < 0.5 else None,
                    self.gen(ty, env, d - 1, inobj))
        if x < 0.29:
            return ('paren', self.gen(ty, env, d - 1, inobj))
        if x < 0.31 and self.allow_std:
            self.trace_id += 1
            return ('std', 'trace', [('str', 't%d' % self.trace_id), self.gen(ty, env, d - 1, inobj)])
        if x < 0.325 and self.allow_error:
            return ('error', self.gen('str', env, d - 1, inobj))
        if x < 0.40:
            v = self.pick_var(env, ty)
            if v:
                return ('var', v)
        if self.allow_std and self.new_std and 0.44 <= x < 0.447:
            return self.gen_fold(ty, env, d, inobj)
        if inobj and x < 0.44:
            fld = r.choice(FIELDS)
            k = r.random()
            if k < 0.5:
                return ('field', ('self',), fld)
            if k < 0.7:
                return ('sfield', fld)
            if k < 0.8:
                return ('field', ('dollar',), fld)
            if k < 0.9:
                return ('sindex', ('str', fld))
        return getattr(self, 'gen_' + ty, self.gen_any)(env, d, inobj)

    def leaf(self, ty, env, inobj):
        r = self.rng
        v = self.pick_var(env, ty)
        if v and r.random() < 0.4:
            return ('var', v)
        if ty == 'num':
            return ('num', float(r.choice(NUMS)))
        if ty == 'str':
            return ('str', r.choice(STRS))
        if ty == 'bool':
            return (r.choice(['true', 'false']),)
        if ty == 'arr':
            return ('array', [])
        if ty == 'obj':
            return ('object', [])
        if ty == 'null':
            return ('null',)
        if ty == 'func1':
            return ('func', [('x', None)], ('var', 'x'))
        if ty == 'func2':
            return ('func', [('x', None), ('y', ('num', 1.0))], ('var', 'y'))
        return r.choice([('null',), ('num', 1.0), ('str', 'a'), ('true',), ('array', []), ('object', [])])

    def gen_any(self, env, d, inobj):
        return self.gen(self.rng.choice(['num', 'str', 'bool', 'arr', 'obj', 'null']), env, d, inobj)

    def gen_null(self, env, d, inobj):
        return ('null',)

    def gen_num(self, env, d, inobj):
        r = self.rng
        if self.allow_std and self.new_std and r.random() < 0.06:
            return self.gen_num_std(env, d, inobj)
        if self.allow_std and self.pure_std and r.random() < 0.05:
            return self.gen_pure('num', env, d, inobj)
        x = r.random()
        if x < 0.25:
            return ('num', float(r.choice(NUMS)))
        if x < 0.65:
            op = r.choice(['add', 'sub', 'mul', 'div', 'rem', 'add', 'sub', 'mul', 'band', 'bor', 'bxor', 'shl', 'shr'])
            return ('binary', op, self.gen('num', env, d - 1, inobj), self.gen('num', env, d - 1, inobj))
        if x < 0.75:
            return ('unary', r.choice(['minus', 'plus', 'bnot']), self.gen('num', env, d - 1, inobj))
        if x < 0.85 and self.allow_std:
            return ('std', 'length', [self.gen(r.choice(['arr', 'str', 'obj', 'func1', 'func2']), env, d - 1, inobj)])
        if x < 0.93:
            return ('index', self.gen_arr(env, d - 1, inobj, elem='num'), ('num', float(r.randrange(0, 3))))
        return ('num', float(r.choice(NUMS)))

    def gen_str(self, env, d, inobj):
        r = self.rng
        if self.allow_std and self.new_std and r.random() < 0.07:
            return self.gen_str_std(env, d, inobj)
        if self.allow_std and self.pure_std and r.random() < 0.08:
            return self.gen_pure('str', env, d, inobj)
        x = r.random()
        if x < 0.3:
            return ('str', r.choice(STRS))
        if x < 0.6:
            return ('binary', 'add', self.gen('str', env, d - 1, inobj), self.gen('str', env, d - 1, inobj))
        if x < 0.7:
            # string + non-string coercion (integers, bools, null, containers)
            other = self.gen(r.choice(['bool', 'null', 'arr', 'obj', 'num']), env, d - 1, inobj)
            s = self.gen('str', env, d - 1, inobj)
            return ('binary', 'add', s, other) if r.random() < 0.5 else ('binary', 'add', other, s)
        if x < 0.78:
            return ('index', self.gen('str', env, d - 1, inobj), ('num', float(r.randrange(0, 3))))
        if x < 0.86:
            return ('slice', self.gen('str', env, d - 1, inobj), self.opt_idx(env, d, inobj), self.opt_idx(env, d, inobj),
                    self.opt_step(env, d, inobj))
        if x < 0.93 and self.allow_std:
            return ('std', 'type', [self.gen_any(env, d - 1, inobj)])
        return ('str', r.choice(STRS))

    def opt_idx(self, env, d, inobj):
        r = self.rng
        x = r.random()
        if x < 0.3:
            return None
        if x < 0.9:
            return ('num', float(r.randrange(0, 5)))
        if x < 0.95:
            return ('unary', 'minus', ('num', float(r.randrange(1, 4))))
        return self.gen('num', env, d - 2, inobj)

    def opt_step(self, env, d, inobj):
        r = self.rng
        x = r.random()
        if x < 0.6:
            return None
        if x < 0.95:
            return ('num', float(r.randrange(1, 4)))
        return ('num', 0.0)

    def gen_bool(self, env, d, inobj):
        r = self.rng
        if self.allow_std and self.new_std and r.random() < 0.09:
            return self.gen_bool_std(env, d, inobj)
        if self.allow_std and self.pure_std and r.random() < 0.05:
            return self.gen_pure('bool', env, d, inobj)
        x = r.random()
        if x < 0.15:
            return (r.choice(['true', 'false']),)
        if x < 0.40:
            t = r.choice(['num', 'str', 'num', 'arr'])
            return ('binary', r.choice(['lt', 'le', 'gt', 'ge']), self.gen(t, env, d - 1, inobj), self.gen(t, env, d - 1, inobj))
        if x < 0.65:
            t = r.choice(['num', 'str', 'arr', 'obj', 'bool', 'null', 'any'])
            return ('binary', r.choice(['eq', 'ne']), self.gen(t, env, d - 1, inobj), self.gen(t, env, d - 1, inobj))
        if x < 0.80:
            return ('binary', r.choice(['land', 'lor']), self.gen('bool', env, d - 1, inobj), self.gen('bool', env, d - 1, inobj))
        if x < 0.87:
            return ('unary', 'lnot', self.gen('bool', env, d - 1, inobj))
        if x < 0.95:
            return ('binary', 'in', ('str', r.choice(FIELDS)), self.gen('obj', env, d - 1, inobj))
        if inobj:
            return ('insuper', ('str', r.choice(FIELDS)))
        return ('true',)

    def gen_arr(self, env, d, inobj, elem=None):
        r = self.rng
        if self.allow_std and self.new_std and d > 0 and r.random() < 0.13:
            return self.gen_arr_std(env, d, inobj, elem)
        if self.allow_std and self.pure_std and d > 0 and elem in (None, 'num', 'str') and r.random() < 0.04:
            return self.gen_pure('arrnum' if elem == 'num' else ('arrstr' if elem == 'str' else r.choice(['arrnum', 'arrstr'])), env, d, inobj)
        x = r.random()
        et = elem or r.choice(['num', 'str', 'any', 'num', 'obj'])
        if x < 0.45 or d <= 0:
            return ('array', [self.gen(et, env, d - 1, inobj) for _ in range(r.randrange(0, 4))])
        if x < 0.65:
            v = self.fresh(env)
            src = self.gen_arr(env, d - 1, inobj, elem='num')
            env2 = dict(env)
            env2[v] = 'num'
            specs = [('for', v, src)]
            if r.random() < 0.4:
                specs.append(('if', self.gen('bool', env2, d - 2, inobj)))
            if r.random() < 0.25:
                v2 = self.fresh(env2)
                specs.append(('for', v2, self.gen_arr(env2, d - 2, inobj, elem='num')))
                env2 = dict(env2)
                env2[v2] = 'num'
            return ('arrcomp', self.gen(et, env2, d - 1, inobj), specs)
        if x < 0.80:
            return ('binary', 'add', self.gen_arr(env, d - 1, inobj, elem), self.gen_arr(env, d - 1, inobj, elem))
        if x < 0.87 and self.allow_std:
            # deferred callback applications: one pending call per element
            fty = r.choice(['func1', 'func1', 'func1', 'func2', 'any'])
            if r.random() < 0.6:
                src = self.gen_arr(env, d - 1, inobj, elem='num') if r.random() < 0.75 else self.gen(r.choice(['str', 'str', 'any']), env, d - 1, inobj)
                return ('std', 'map', [self.gen(fty, env, d - 1, inobj), src])
            n = ('num', float(r.choice([0, 1, 2, 3, 3, 5, -1, 2.5]))) if r.random() < 0.8 else self.gen('num', env, d - 2, inobj)
            return ('std', 'makeArray', [n, self.gen(fty, env, d - 1, inobj)])
        if x < 0.95:
            return ('slice', self.gen_arr(env, d - 1, inobj, elem), self.opt_idx(env, d, inobj), self.opt_idx(env, d, inobj),
                    self.opt_step(env, d, inobj))
        if self.allow_std:
            return ('std', 'objectFieldsEx', [self.gen('obj', env, d - 1, inobj), (r.choice(['true', 'false']),)])
        return ('array', [])

    def gen_obj(self, env, d, inobj):
        r = self.rng
        if self.allow_std and self.new_std and d > 0 and r.random() < 0.05:
            return ('std', 'mapWithKey', [self.cb(['str', 'any'], 'any', env, d, inobj), self.gen('obj', env, d - 1, inobj)])
        x = r.random()
        if x < 0.5 or d <= 0:
            return self.gen_object(env, d, inobj)
        if x < 0.8:
            return ('binary', 'add', self.gen('obj', env, d - 1, inobj), self.gen_object(env, d - 1, inobj))
        if x < 0.9:
            obj = self.gen_object(env, d - 1, inobj)
            return ('objext', self.gen('obj', env, d - 1, inobj), obj[1])
        v = self.fresh(env)
        env2 = dict(env)
        env2[v] = 'str'
        src = ('array', [('str', f) for f in r.sample(FIELDS, r.randrange(0, 4))])
        binds = []
        env3 = dict(env2)
        if r.random() < 0.3:
            ln = self.fresh(env3)
            env3[ln] = 'num'
            binds.append((ln, None, self.gen('num', env3, d - 2, True)))
        return ('objcomp', binds, ('var', v), r.random() < 0.15, self.gen('any', env3, d - 1, True), [('for', v, src)])

    def gen_object(self, env, d, inobj, want=None):
        r = self.rng
        members = []
        env2 = dict(env)
        # object locals (mutually visible)
        nloc = r.choice([0, 0, 0, 1, 2])
        locs = []
        for _ in range(nloc):
            n = self.fresh(env2)
            if n in [l for l, _ in locs]:
                continue
            t = r.choice(['num', 'str', 'func1'])
            env2[n] = t
            locs.append((n, t))
        for n, t in locs:
            if t == 'func1' and r.random() < 0.5:
                envf = dict(env2)
                envf['x'] = 'any'
                members.append(('local', n, [('x', None)], self.gen('any', envf, d - 1, True)))
            else:
                members.append(('local', n, None, self.gen(t, env2, d - 1, True)))
        names = []
        want = dict(want or {})
        for f in list(want.keys()):
            names.append(f)
        for _ in range(r.randrange(0, 4)):
            f = r.choice(FIELDS)
            if f not in names:
                names.append(f)
        r.shuffle(names)
        for f in names:
            ty = want.get(f, r.choice(['num', 'str', 'any', 'num', 'obj', 'arr']))
            vis = r.choice(['d', 'd', 'd', 'h', 'f'])
            plus = r.random() < 0.12
            if r.random() < 0.1:
                envf = dict(env2)
                envf['x'] = 'any'
                members.append(('fix', f, False, vis, [('x', None)], self.gen(ty, envf, d - 1, True)))
            elif r.random() < 0.15:
                nm = ('str', f) if r.random() < 0.8 else self.gen('str', env, d - 2, inobj)
                members.append(('dyn', nm, plus, vis, None, self.gen(ty, env2, d - 1, True)))
            else:
                members.append(('fix', f, plus, vis, None, self.gen(ty, env2, d - 1, True)))
        if r.random() < 0.1 and self.allow_error:
            members.append(('assert', self.gen('bool', env2, d - 1, True),
                            self.gen('str', env2, d - 2, True) if r.random() < 0.5 else None))
        r.shuffle(members)
        return ('object', members)

    # ---- builtins with callbacks / element-wise forcing (std.filter, std.foldl, ... see NEW_STD) ----

    def cb(self, ptys, ret, env, d, inobj):
        """A callback: mostly a function literal with one parameter per expected argument (named x, y, z) and a body
        of type `ret` that may emit a trace (naming the element); a share has too few / too many parameters, an
        extra parameter with a default, or is a function variable in scope."""
        r = self.rng
        if len(ptys) == 1 and r.random() < 0.12:
            v = self.pick_var(env, 'func1')
            if v:
                return ('var', v)
        if r.random() < 0.03:
            return self.gen(r.choice(['func1', 'func2', 'num', 'null']), env, d - 1, inobj)
        names = ['x', 'y', 'z'][:len(ptys)]
        ps = list(zip(names, ptys))
        k = r.random()
        extra = None
        if k < 0.04:
            ps = ps[:-1]
        elif k < 0.08:
            extra = ('w', None)
        elif k < 0.15:
            extra = ('w', 'dflt')
        env2 = dict(env)
        for n, t in ps:
            env2[n] = t
        params = [(n, None) for n, _ in ps]
        if extra:
            params.append(('w', None if extra[1] is None else self.gen('num', env2, d - 2, inobj)))
            env2['w'] = 'num'
        body = self.gen(ret, env2, d - 1, inobj)
        if r.random() < 0.3:
            self.trace_id += 1
            msg = ('str', 't%d' % self.trace_id)
            if ps and r.random() < 0.6:
                msg = ('binary', 'add', ('str', 't%d:' % self.trace_id), ('var', ps[-1][0]))
            body = ('std', 'trace', [msg, body])
        return ('func', params, body)

    def src_arr(self, env, d, inobj, elem='num'):
        r = self.rng
        x = r.random()
        if x < 0.12:
            return ('std', 'range', [num_lit(r.choice([0, 1, 1, 2, -1])), num_lit(r.choice([0, 2, 3, 4, 6, -2]))])
        if x < 0.2:
            return ('array', [self.gen(elem, env, d - 2, inobj) for _ in range(r.randrange(0, 6))])
        return self.gen_arr(env, d - 1, inobj, elem=elem)

    def gen_fold(self, ty, env, d, inobj):
        r = self.rng
        name = r.choice(['foldl', 'foldr'])
        ptys = [ty, 'num'] if name == 'foldl' else ['num', ty]
        return ('std', name, [self.cb(ptys, ty, env, d, inobj), self.src_arr(env, d, inobj), self.gen(ty, env, d - 1, inobj)])

    def gen_arr_std(self, env, d, inobj, elem=None):
        r = self.rng
        et = elem or r.choice(['num', 'str', 'any', 'num'])
        k = r.choice(['filter', 'filter', 'flatMap', 'flatMap', 'mapWithIndex', 'filterMap', 'range', 'join', 'fold', 'sort', 'sort'])
        if k == 'filter':
            return ('std', 'filter', [self.cb([et], 'bool', env, d, inobj), self.src_arr(env, d, inobj, et)])
        if k == 'flatMap':
            if r.random() < 0.85:
                return ('std', 'flatMap', [self.cb(['num'], 'arr', env, d, inobj), self.src_arr(env, d, inobj)])
            return ('std', 'flatMap', [self.cb(['str'], r.choice(['str', 'str', 'null', 'any']), env, d, inobj), self.gen('str', env, d - 1, inobj)])
        if k == 'mapWithIndex':
            src = self.src_arr(env, d, inobj, et) if r.random() < 0.8 else self.gen('str', env, d - 1, inobj)
            return ('std', 'mapWithIndex', [self.cb(['num', et], et, env, d, inobj), src])
        if k == 'filterMap':
            return ('std', 'filterMap', [self.cb(['num'], 'bool', env, d, inobj), self.cb(['num'], et, env, d, inobj), self.src_arr(env, d, inobj)])
        if k == 'range':
            lo = num_lit(r.choice([0, 1, 2, -3, 2.5, 5])) if r.random() < 0.85 else self.gen('num', env, d - 2, inobj)
            hi = num_lit(r.choice([0, 1, 3, 4, 7, -5, 1e10])) if r.random() < 0.85 else self.gen('num', env, d - 2, inobj)
            return ('std', 'range', [lo, hi])
        if k == 'sort':
            name = r.choice(['sort', 'set'])
            t = r.choice(['num', 'num', 'str', 'arr', 'any']) if elem is None else et
            if r.random() < 0.5:
                src = ('array', [self.gen(t, env, d - 2, inobj) for _ in range(r.choice([0, 1, 2, 3, 4, 5, 8]))])
            else:
                src = self.src_arr(env, d, inobj, t)
            if r.random() < 0.5:
                return ('std', name, [src])
            return ('std', name, [src, self.cb([t], r.choice(['num', 'num', 'str', t]), env, d, inobj)])
        if k == 'join':
            parts = [self.gen(r.choice(['arr', 'arr', 'arr', 'null', 'any']), env, d - 2, inobj) for _ in range(r.randrange(0, 4))]
            return ('std', 'join', [self.gen_arr(env, d - 1, inobj, et), ('array', parts) if r.random() < 0.8 else self.gen_arr(env, d - 1, inobj, 'arr')])
        return self.gen_fold('arr', env, d, inobj)

    def gen_num_std(self, env, d, inobj):
        r = self.rng
        k = r.choice(['fold', 'fold', 'count', 'compare', 'length'])
        if k == 'fold':
            return self.gen_fold('num', env, d, inobj)
        if k == 'count':
            return ('std', 'count', [self.src_arr(env, d, inobj, r.choice(['num', 'any'])), self.gen(r.choice(['num', 'any']), env, d - 1, inobj)])
        if k == 'compare':
            t = r.choice(['num', 'str', 'arr', 'any'])
            return ('std', '__compare', [self.gen(t, env, d - 1, inobj), self.gen(t, env, d - 1, inobj)])
        return ('std', 'length', [self.gen_arr_std(env, d - 1, inobj)]) if d > 1 else ('num', 1.0)

    def gen_str_std(self, env, d, inobj):
        r = self.rng
        k = r.choice(['join', 'join', 'toString', 'flatMap', 'fold'])
        if k == 'join':
            parts = [self.gen(r.choice(['str', 'str', 'str', 'null', 'any']), env, d - 2, inobj) for _ in range(r.randrange(0, 5))]
            return ('std', 'join', [self.gen('str', env, d - 1, inobj), ('array', parts) if r.random() < 0.8 else self.gen_arr(env, d - 1, inobj, 'str')])
        if k == 'toString':
            return ('std', 'toString', [self.gen(r.choice(['str', 'arr', 'obj', 'bool', 'null', 'any']), env, d - 1, inobj)])
        if k == 'flatMap':
            return ('std', 'flatMap', [self.cb(['str'], 'str', env, d, inobj), self.gen('str', env, d - 1, inobj)])
        return self.gen_fold('str', env, d, inobj)

    def gen_bool_std(self, env, d, inobj):
        r = self.rng
        k = r.choice(['member', 'all', 'any', 'equals', 'primitiveEquals', 'assertEqual', 'fold'])
        if k == 'member':
            if r.random() < 0.3:
                return ('std', 'member', [self.gen('str', env, d - 1, inobj), self.gen('str', env, d - 1, inobj)])
            t = r.choice(['num', 'any', 'arr'])
            return ('std', 'member', [self.src_arr(env, d, inobj, t), self.gen(t, env, d - 1, inobj)])
        if k in ('all', 'any'):
            if r.random() < 0.5:
                return ('std', k, [('array', [self.gen('bool', env, d - 2, inobj) for _ in range(r.randrange(0, 5))])])
            return ('std', k, [self.gen_arr(env, d - 1, inobj, 'bool')])
        if k == 'fold':
            return self.gen_fold('bool', env, d, inobj)
        t = r.choice(['num', 'str', 'arr', 'obj', 'bool', 'null', 'any', 'func1'] if k == 'primitiveEquals' else ['num', 'str', 'arr', 'obj', 'any', 'arr'])
        return ('std', k, [self.gen(t, env, d - 1, inobj), self.gen(t, env, d - 1, inobj)])

    # ---- pure builtins (strings, numbers, codecs; see PURE_SIGS) ----

    def pure_arg(self, kind, env, d, inobj):
        """An argument of the given kind: mostly a literal from the pool of the kind (boundaries included), sometimes a
        generated expression of the right type; wrong types come from `gen` itself (p_bad_type) and from here."""
        r = self.rng
        ty = PURE_KIND_TYPE[kind]
        x = r.random()
        if x < 0.07:
            return self.gen(r.choice(['num', 'str', 'bool', 'arr', 'obj', 'null', 'func1']), env, d - 1, inobj)
        if x < 0.55:
            return pure_pool(r, kind)
        return self.gen(ty, env, d - 1, inobj)

    def gen_pure(self, res, env, d, inobj):
        r = self.rng
        name = r.choice(PURE_BY_RESULT[res])
        if name == 'format':
            f, v = fmt_case(r)
            if r.random() < 0.15:
                v = self.gen(r.choice(['arr', 'obj', 'num', 'str']), env, d - 1, inobj)
            return ('binary', 'rem', f, v) if r.random() < 0.5 else ('std', 'format', [f, v])
        return ('std', name, [self.pure_arg(k, env, d, inobj) for k in PURE_SIGS[name][0]])

    def gen_func1(self, env, d, inobj):
        env2 = dict(env)
        env2['x'] = 'any'
        return ('func', [('x', None)], self.gen('any', env2, d - 1, inobj))

    def gen_func2(self, env, d, inobj):
        env2 = dict(env)
        env2['x'] = 'any'
        env2['y'] = 'num'
        dflt = self.gen('num', env2, d - 2, inobj)
        return ('func', [('x', None), ('y', dflt)], self.gen('any', env2, d - 1, inobj))

    def gen_local(self, ty, env, d, inobj):
        r = self.rng
        env2 = dict(env)
        names = []
        for _ in range(r.randrange(1, 3)):
            n = self.fresh(env2)
            if n in names:
                continue
            names.append(n)
        kinds = {}
        for n in names:
            kinds[n] = r.choice(['num', 'str', 'arr', 'obj', 'func1', 'func2', 'any', 'num'])
            env2[n] = kinds[n]
        binds = []
        for n in names:
            t = kinds[n]
            if t in ('func1', 'func2') and r.random() < 0.6:
                envf = dict(env2)
                ps = [('x', None)]
                envf['x'] = 'any'
                if t == 'func2':
                    envf['y'] = 'num'
                    ps.append(('y', self.gen('num', envf, d - 2, inobj)))
                binds.append((n, ps, self.gen('any', envf, d - 1, inobj)))
            else:
                binds.append((n, None, self.gen(t, env2, d - 1, inobj)))
        return ('local', binds, self.gen(ty, env2, d - 1, inobj))

    def gen_call(self, ty, env, d, inobj):
        r = self.rng
        fv = self.pick_var(env, 'func1') if r.random() < 0.5 else None
        fv2 = self.pick_var(env, 'func2') if fv is None and r.random() < 0.5 else None
        if fv:
            callee = ('var', fv)
            nparams = 1
        elif fv2:
            callee = ('var', fv2)
            nparams = 2
        else:
            envf = dict(env)
            envf['x'] = ty
            nparams = r.choice([1, 2])
            ps = [('x', None)]
            if nparams == 2:
                envf['y'] = 'num'
                ps.append(('y', self.gen('num', envf, d - 2, inobj) if r.random() < 0.8 else None))
            callee = ('func', ps, self.gen(ty, envf, d - 1, inobj))
        args = []
        k = r.random()
        a0 = self.gen(ty, env, d - 1, inobj)
        if k < 0.6:
            args.append(('p', a0))
        elif k < 0.9:
            args.append(('n', 'x', a0))
        # else: missing argument (error)
        if nparams == 2 and r.random() < 0.5:
            a1 = self.gen('num', env, d - 1, inobj)
            if args and args[-1][0] == 'p' and r.random() < 0.5:
                args.append(('p', a1))
            else:
                args.append(('n', 'y', a1))
        if r.random() < 0.03:
            args.append(('n', r.choice(['z', 'x']), ('num', 1.0)))
        if r.random() < 0.03:
            args.append(('p', ('num', 1.0))) if all(a[0] == 'p' for a in args) else None
        ts = self.allow_tailstrict and r.random() < 0.1
        return ('call', callee, args, ts)

    def program(self, ty=None):
        self.trace_id = 0
        ty = ty or self.rng.choice(['num', 'str', 'bool', 'arr', 'obj', 'obj', 'arr', 'any'])
        return self.gen(ty, {}, self.max_depth, False)


def size(e):
    if isinstance(e, tuple):
        return 1 + sum(size(x) for x in e[1:])
    if isinstance(e, list):
        return sum(size(x) for x in e)
    return 0


# --------------------------------------------------------------------------------------
# Late-binding / forcing-order templates with a closed-form expected result
# --------------------------------------------------------------------------------------

def late_binding_cases(rng, n):
    """Programs where an object is used (forced) before and after being extended: `self` must denote the final
    combined object each time, asserts are those of the combination. Returns [(ast, expected)] with
    expected = ('ok', python value) | ('err', kind, message)."""
    N = lambda x: ('num', float(x))
    V = lambda x: ('var', x)
    S = lambda x: ('str', x)
    out = []
    for _ in range(n):
        kind = rng.randrange(12)
        v1, v2, v3 = rng.sample([1, 2, 3, 5, 7, 10], 3)
        f = rng.choice(['name', 'k1', 'a'])
        g = rng.choice(['greeting', 'g', 'b'])
        if kind == 0:
            # string field depending on self, forced on the base first (or last)
            s1, s2, s3 = rng.sample(['x', 'y', 'zz', 'é', ''], 3)
            base = ('object', [('fix', f, False, 'd', None, S(s1)), ('fix', g, False, rng.choice('dh'), None, ('binary', 'add', S('hi '), ('field', ('self',), f)))])
            items = [(('field', V('base'), g), 'hi ' + s1),
                     (('field', ('binary', 'add', V('base'), ('object', [('fix', f, False, 'd', None, S(s2))])), g), 'hi ' + s2),
                     (('field', ('objext', V('base'), [('fix', f, False, 'd', None, S(s3))]), g), 'hi ' + s3)]
            rng.shuffle(items)
            items.append((('field', V('base'), g), 'hi ' + s1))
            out.append((('local', [('base', None, base)], ('array', [i[0] for i in items])), ('ok', [i[1] for i in items])))
        elif kind == 1:
            # the base is manifested whole first, then extended
            base = ('object', [('fix', f, False, 'd', None, N(v1)), ('fix', g, False, 'd', None, ('binary', 'mul', ('field', ('self',), f), N(2)))])
            ext = ('binary', 'add', V('base'), ('object', [('fix', f, False, 'd', None, N(v2))]))
            order = rng.random() < 0.5
            arr = [V('base'), ext] if order else [ext, V('base')]
            exp = [{f: v1, g: 2 * v1}, {f: v2, g: 2 * v2}]
            out.append((('local', [('base', None, base)], ('array', arr)), ('ok', [dict(sorted(e.items())) for e in (exp if order else exp[::-1])])))
        elif kind == 2:
            # super chain: the middle layer's value depends on what is below it, in each combination
            a = ('object', [('fix', f, False, 'd', None, N(v1))])
            b = ('object', [('fix', f, True, 'd', None, N(v2))])
            prog = ('local', [('a', None, a), ('b', None, b), ('ab', None, ('binary', 'add', V('a'), V('b')))],
                    ('array', [('field', V('ab'), f), ('field', ('binary', 'add', V('ab'), V('b')), f),
                               ('field', ('binary', 'add', ('object', [('fix', f, False, 'd', None, N(v3))]), V('b')), f), ('field', V('ab'), f)]))
            out.append((prog, ('ok', [v1 + v2, v1 + 2 * v2, v3 + v2, v1 + v2])))
        elif kind == 3:
            # an assert that holds for the operands alone but not for the combination, operands forced first
            a = ('object', [('fix', 'x', False, 'd', None, N(v1)), ('assert', ('binary', 'gt', ('field', ('self',), 'x'), N(0)), S('x must stay positive'))])
            b = ('object', [('fix', 'y', False, 'd', None, N(v2))])
            c = ('object', [('fix', 'x', False, 'd', None, ('unary', 'minus', N(v3)))])
            how = rng.randrange(3)
            if how == 0:
                body = ('array', [('field', V('ab'), 'y'), ('field', V('c'), 'x'), ('field', ('binary', 'add', V('ab'), V('c')), 'y')])
            elif how == 1:
                body = ('array', [V('ab'), V('c'), ('binary', 'add', V('ab'), V('c'))])
            else:
                body = ('field', ('binary', 'add', V('ab'), V('c')), 'y')
            prog = ('local', [('a', None, a), ('b', None, b), ('c', None, c), ('ab', None, ('binary', 'add', V('a'), V('b')))], body)
            out.append((prog, ('err', 'AssertFailed', 'x must stay positive')))
        elif kind == 4:
            # the same assert still passes when the combination keeps it true, and `$` follows the combination
            a = ('object', [('fix', 'x', False, 'd', None, N(v1)), ('fix', 'top', False, 'h', None, ('field', ('dollar',), 'x')),
                            ('assert', ('binary', 'gt', ('field', ('self',), 'x'), N(0)), None)])
            prog = ('local', [('a', None, a)], ('array', [('field', V('a'), 'top'),
                                                       ('field', ('binary', 'add', V('a'), ('object', [('fix', 'x', False, 'd', None, N(v2))])), 'top'),
                                                       ('field', V('a'), 'top')]))
            out.append((prog, ('ok', [v1, v2, v1])))
        elif kind == 5:
            # object local and method depending on self, reused across two extensions
            a = ('object', [('local', 'l', None, ('binary', 'add', ('field', ('self',), 'x'), N(1))), ('fix', 'x', False, 'd', None, N(v1)),
                            ('fix', 'm', False, 'h', [('k', None)], ('binary', 'add', V('l'), V('k')))])
            prog = ('local', [('a', None, a)], ('array', [('call', ('field', V('a'), 'm'), [('p', N(10))], False),
                                                       ('call', ('field', ('objext', V('a'), [('fix', 'x', False, 'd', None, N(v2))]), 'm'), [('p', N(20))], False),
                                                       ('call', ('field', V('a'), 'm'), [('p', N(30))], False)]))
            out.append((prog, ('ok', [v1 + 11, v2 + 21, v1 + 31])))
        elif kind == 6:
            # `$` inside an object comprehension nested in an object is the OUTERMOST object (also when the
            # comprehension itself has a field of that name), in the body, in its locals, in a method's default
            key = rng.choice(['x', 'a', 'zz'])
            comp = ('objcomp', [('l', None, ('binary', 'add', ('field', ('dollar',), 'x'), N(100)))], V('k'), False,
                    ('array', [('field', ('dollar',), 'x'), V('l')]), [('for', 'k', ('array', [S(key)]))])
            outer = ('object', [('fix', 'x', False, 'd', None, N(v1)), ('fix', 'inner', False, 'd', None, comp)])
            ext = ('binary', 'add', V('o'), ('object', [('fix', 'x', False, 'd', None, N(v2))]))
            prog = ('local', [('o', None, outer)], ('array', [('field', ('field', V('o'), 'inner'), key),
                                                             ('field', ('field', ext, 'inner'), key),
                                                             ('field', V('o'), 'x')]))
            out.append((prog, ('ok', [[v1, v1 + 100], [v2, v2 + 100], v1])))
        elif kind == 7:
            # a top-level object comprehension IS its own `$`; a plain object nested in it sees the comprehension as `$`
            comp = ('objcomp', [], V('k'), False,
                    ('if', ('binary', 'eq', V('k'), S('x')), N(v1),
                     ('object', [('fix', 'up', False, 'd', None, ('field', ('dollar',), 'x'))])),
                    [('for', 'k', ('array', [S('x'), S('y')]))])
            out.append((('field', ('field', comp, 'y'), 'up'), ('ok', v1)))
        elif kind == 8:
            # `self` / `super` inside a nested comprehension refer to the comprehension object and its own super
            comp = ('objcomp', [], V('k'), False, ('array', [('field', ('self',), 'tag'), ('field', ('dollar',), 'tag')]),
                    [('for', 'k', ('array', [S('v')]))])
            inner = ('binary', 'add', comp, ('object', [('fix', 'tag', False, 'd', None, S('inner'))]))
            outer = ('object', [('fix', 'tag', False, 'd', None, S('outer')), ('fix', 'c', False, 'd', None, inner)])
            out.append((('field', ('field', outer, 'c'), 'v'), ('ok', ['inner', 'outer'])))
        elif kind == 9:
            # a mixin WITHOUT fields still carries its asserts (on either side, with or without locals)
            base = ('object', [('fix', 'x', False, 'd', None, N(v1))])
            mix = ('object', ([('local', 'l', None, N(v1 + 100))] if rng.random() < 0.5 else []) +
                   [('assert', ('binary', 'gt', ('field', ('self',), 'x'), N(v1 + (100 if rng.random() < 0.5 else 0))), S('mixin requires more'))])
            combo = ('binary', 'add', base, mix) if rng.random() < 0.6 else ('binary', 'add', mix, base)
            use = rng.choice([('field', combo, 'x'), combo, ('binary', 'add', combo, ('object', [('fix', 'y', False, 'd', None, N(v2))]))])
            out.append((use, ('err', 'AssertFailed', 'mixin requires more')))
        elif kind == 10:
            # ... and the assert passes when the combination satisfies it; a locals-only mixin changes nothing
            base = ('object', [('fix', 'x', False, 'd', None, N(v1))])
            mix = ('object', [('assert', ('binary', 'ge', ('field', ('self',), 'x'), N(v1)), S('never'))])
            loc = ('object', [('local', 'l', None, ('error', S('unused local')))])
            prog = ('array', [('binary', 'add', ('binary', 'add', base, mix), loc), ('binary', 'add', loc, ('binary', 'add', mix, base)),
                              ('field', ('binary', 'add', ('binary', 'add', base, loc), ('object', [('fix', 'x', True, 'd', None, N(v2))])), 'x')])
            out.append((prog, ('ok', [{'x': v1}, {'x': v1}, v1 + v2])))
        elif kind == 11:
            # an object comprehension below other layers: its fields see ITS layer's super / locals, not the top one's
            comp = ('objcomp', [('l', None, N(v3))], V('k'), False, ('binary', 'add', ('sfield', 'a'), V('l')), [('for', 'k', ('array', [S('c')]))])
            prog = ('binary', 'add', ('binary', 'add', ('binary', 'add', ('object', [('fix', 'a', False, 'd', None, N(v1))]), comp),
                                      ('object', [('fix', 'a', False, 'd', None, N(v2))])), ('object', [('fix', 'z', False, 'd', None, N(0))]))
            out.append((prog, ('ok', {'a': v2, 'c': v1 + v3, 'z': 0})))
    return out


# --------------------------------------------------------------------------------------
# The pure builtins (strings, numbers, codecs) of the evaluator model: lean/RsjModel/EvalPure.lean
# --------------------------------------------------------------------------------------

# name -> (argument kinds, result type)
PURE_SIGS = {
    'substr': (['s', 'idx', 'idx'], 'str'), 'findSubstr': (['pat', 's'], 'arrnum'), 'startsWith': (['s', 'pat'], 'bool'),
    'endsWith': (['s', 'pat'], 'bool'), 'split': (['s', 'pat'], 'arrstr'), 'splitLimit': (['s', 'pat', 'maxsplit'], 'arrstr'),
    'splitLimitR': (['s', 'pat', 'maxsplit'], 'arrstr'), 'strReplace': (['s', 'pat', 's'], 'str'),
    'stripChars': (['s', 'pat'], 'str'), 'lstripChars': (['s', 'pat'], 'str'), 'rstripChars': (['s', 'pat'], 'str'),
    'trim': (['ws'], 'str'), 'asciiUpper': (['s'], 'str'), 'asciiLower': (['s'], 'str'), 'stringChars': (['s'], 'arrstr'),
    'codepoint': (['chr'], 'num'), 'char': (['cp'], 'str'), 'equalsIgnoreCase': (['s', 's'], 'bool'),
    'floor': (['n'], 'num'), 'ceil': (['n'], 'num'), 'sqrt': (['n'], 'num'), 'isEven': (['n'], 'bool'), 'isOdd': (['n'], 'bool'),
    'isInteger': (['n'], 'bool'), 'isDecimal': (['n'], 'bool'), 'modulo': (['n', 'n'], 'num'), 'exponent': (['n'], 'num'),
    'mantissa': (['n'], 'num'), 'deg2rad': (['n'], 'num'), 'rad2deg': (['n'], 'num'),
    'pow': (['n', 'n'], 'num'), 'exp': (['n'], 'num'), 'log': (['n'], 'num'), 'log2': (['n'], 'num'), 'log10': (['n'], 'num'),
    'sin': (['n'], 'num'), 'cos': (['n'], 'num'), 'tan': (['n'], 'num'), 'asin': (['n'], 'num'), 'acos': (['n'], 'num'),
    'atan': (['n'], 'num'), 'atan2': (['n', 'n'], 'num'), 'hypot': (['n', 'n'], 'num'),
    'parseInt': (['dec'], 'num'), 'parseOctal': (['oct'], 'num'), 'parseHex': (['hex'], 'num'),
    'base64': (['b64in'], 'str'), 'base64Decode': (['b64'], 'str'), 'base64DecodeBytes': (['b64'], 'arrnum'),
    'encodeUTF8': (['s'], 'arrnum'), 'decodeUTF8': (['bytes'], 'str'),
    'escapeStringJson': (['esc'], 'str'), 'escapeStringPython': (['esc'], 'str'), 'escapeStringBash': (['esc'], 'str'),
    'escapeStringDollars': (['esc'], 'str'), 'escapeStringXML': (['esc'], 'str'),
    'format': (['fmt'], 'str'),     # one generated pair: the format string and its values (see fmt_case)
}
# the libm functions: only the argument checks are modelled (the model answers `unsupported` for the value)
PURE_LIBM = {'pow', 'exp', 'log', 'log2', 'log10', 'sin', 'cos', 'tan', 'asin', 'acos', 'atan', 'atan2', 'hypot'}
PURE_STD = set(PURE_SIGS)
PURE_KIND_TYPE = {'s': 'str', 'pat': 'str', 'ws': 'str', 'chr': 'str', 'dec': 'str', 'oct': 'str', 'hex': 'str', 'b64': 'str',
                  'idx': 'num', 'maxsplit': 'num', 'cp': 'num', 'n': 'num', 'b64in': 'str', 'bytes': 'arr', 'esc': 'any',
                  'fmt': 'str'}
PURE_BY_RESULT = {}
for _n, (_k, _r) in PURE_SIGS.items():
    # the libm functions once, the others three times: the generated programs mostly use what the model computes
    PURE_BY_RESULT.setdefault(_r, []).extend([_n] if _n in PURE_LIBM else [_n, _n, _n])

PURE_STRS = ['', 'a', 'b', 'ab', 'abc', 'aXbXc', 'aaa', 'aaaa', 'abcabc', 'a,b,,c', ',a,', 'x y', 'é', 'éa', 'aé', '日本', '日本語日本',
             '😀', 'a😀b😀', 'héllo wörld', 'Hello', 'hELLO', 'ÀÉ', 'k1', 'a"b', "it's", '<a href="x">&</a>', '$x$$', 'line\n', 'ǅ',
             'xxxxxxxxxxxxxxxxxxxx']
PURE_PATS = ['', 'a', 'b', 'ab', 'X', ',', 'aa', 'é', '日', '😀', ' ', 'ba', 'abc', 'l', 'xyz', 'aé']
PURE_WS = ['', ' a ', '\t\n x \r\n', '\u0085a\u00a0', '\u000ca\u000c', '\u2003a\u2003', '  ', 'a b', ' é ', '\u00a0\u00a0', 'a']
PURE_CHRS = ['a', 'é', '日', '😀', '', 'ab', '\u0000', '\uffff', 'A', ' ']
PURE_IDX = [0, 1, 2, 3, 5, 100, 1e10, 18446744073709551616.0, 1e300, -1, -2, 0.5, 1.5, -0.5, 'negzero', 2.000001, 4294967296.0, 9007199254740993.0]
PURE_MAXSPLIT = [0, 1, 2, 3, 10, -1, -2, 'negzero', 1.5, -0.5, -1.5, 1e19, 18446744073709551615.0, 1e300, 100]
PURE_CPS = [65, 97, 233, 0x65E5, 0x1F600, 0, 0xD7FF, 0xD800, 0xDFFF, 0xE000, 0x10FFFF, 0x110000, -1, 65.9, -0.5, 'negzero', 4294967296.0, 4294967295.0, 1e300, 127, 128, 255, 256]
PURE_NS = [0, 1, 2, 3, 4, 7, 10, 0.5, 1.5, 2.5, -1, -2, -3, -0.5, -1.5, 'negzero', 1e15, 1e16, 9007199254740991.0, 9007199254740992.0, 9007199254740993.0,
           1e308, -1e308, 5e-324, 2.2250738585072014e-308, 1e-310, 0.1, 0.75, 100, 180, 360, 45, 3.141592653589793, 57.29577951308232, 1e300, 4.5, -4.5,
           16, 17, 2 ** 52 + 1.0, 0.09375, 20]
PURE_DEC = ['0', '1', '123', '-123', '-0', '007', '', '-', '+1', '12a', 'a', '1e3', '1.5', ' 1', '1 ', '--1', '９', '१२', '9' * 30,
            '123456789012345678901234567890', '9007199254740993', '-9007199254740993', '1' + '0' * 308, '1' + '0' * 309, '-1' + '0' * 400, '1_000']
PURE_OCT = ['0', '7', '10', '777', '0777', '', '8', '-1', '+1', '7a', ' 7', '1' * 43, '7' * 43, '7' * 44, '1' + '0' * 60, '1' + '0' * 341, '1' + '0' * 342,
            '0' * 50 + '17', '४', '1' + '0' * 42 + '1', '4' + '0' * 17 + '1']
PURE_HEX = ['0', 'f', 'F', 'ff', 'FF', 'fF', 'deadBEEF', '', 'g', '0x1', '-1', ' f', 'f' * 32, 'f' * 33, '1' + '0' * 255, '1' + '0' * 256, '1' + '0' * 300,
            '0' * 40 + 'a', 'ａ', '20000000000001', '20000000000001' + '0' * 20 + '1', '8' + '0' * 31 + '1']
PURE_B64 = ['', 'YQ==', 'YWI=', 'YWJj', 'aGVsbG8gd29ybGQ=', '/w==', '/+8=', 'AAEC', '+/+/', 'abc', 'a', 'ab!d', '====', 'a===', 'YQ=a', 'Y=Q=', 'é===', 'YQ==YQ==',
             'YWJj\n', 'YWJjYQ==', ' YQ=', '6Q==', 'w6k=', '8J+YgA==']
PURE_B64_STR = ['', 'a', 'ab', 'abc', 'abcd', 'hello world', 'é', 'ÿ', '\u0000\u0001\u0002', '日', 'a日', '😀', 'aĀ', '\u00ff\u0100', '~~~', '\u00fb\u00ff\u00be']


def pure_num(v):
    """a number of the pools: `'negzero'` is `-0`"""
    return ('unary', 'minus', ('num', 0.0)) if v == 'negzero' else num_lit(v)


def pure_bytes(r):
    """an array for std.decodeUTF8 / std.base64: valid UTF-8, truncated / overlong / surrogate sequences, values that are
    not bytes, items that are not numbers"""
    k = r.random()
    if k < 0.35:
        bs = list(r.choice(['', 'a', 'abc', 'é', '日本', '😀', 'aé日😀b', 'hello']).encode('utf-8'))
    elif k < 0.6:
        bs = r.choice([[0xC3], [0xC3, 0x28], [0xE6, 0x97], [0xE6, 0x97, 0x41], [0xF0, 0x9F, 0x98], [0xF0, 0x9F, 0x98, 0x80, 0x80], [0x80], [0xBF, 0x41],
                       [0xC0, 0x80], [0xC1, 0xBF], [0xE0, 0x80, 0x80], [0xE0, 0x9F, 0xBF], [0xED, 0xA0, 0x80], [0xED, 0x9F, 0xBF], [0xF0, 0x80, 0x80, 0x80],
                       [0xF4, 0x8F, 0xBF, 0xBF], [0xF4, 0x90, 0x80, 0x80], [0xF5, 0x80, 0x80, 0x80], [0xFF, 0xFE], [0x41, 0xC3, 0xA9, 0xC3], [0, 255, 128, 127],
                       [0xF0, 0x9F, 0x41], [0xE6, 0xC3, 0xA9]])
    else:
        bs = [r.randrange(256) for _ in range(r.randrange(0, 8))]
    items = [('num', float(b)) for b in bs]
    j = r.random()
    if j < 0.3 and True:
        bad = r.choice([('num', 256.0), num_lit(-1), ('num', 1.5), num_lit(-0.5), ('num', 255.5), pure_num('negzero'), ('num', 1e10), ('str', 'a'), ('null',),
                        ('array', []), ('true',), ('error', ('str', 'item')), ('std', 'trace', [('str', 'it'), ('num', 65.0)]), ('num', 0.999)])
        items.insert(r.randrange(len(items) + 1), bad)
        if r.random() < 0.4:
            items.insert(r.randrange(len(items) + 1), r.choice([('error', ('str', 'item2')), ('str', 'b'), ('num', 300.0),
                                                               ('std', 'trace', [('str', 'it2'), ('num', 66.0)])]))
    return ('array', items)


FMT_INTS = [0, 1, 7, 8, 42, 255, 256, 1000, 65535, -1, -42, 'negzero', 0.5, 1.5, -0.5, 2.75, 1e10, 9007199254740991.0, 9007199254740993.0, 1e20, 1e300, 4294967296.0]
FMT_STRVALS = ['', 'a', 'ab', 'é', '日本', '😀', 'a%b', 'x y']


def fmt_case(r, obj=None):
    """A format string and its values (an array, an object when the directives carry mapping keys, or a single value),
    mostly matching, with a share of wrong counts / types, `*` widths and precisions, items that fail or trace when
    forced (an item that is never consumed must not be forced)."""
    S = lambda x: ('str', x)
    obj = (r.random() < 0.2) if obj is None else obj
    fmt = []
    vals = []        # array form
    fields = []      # object form
    nd = r.choice([0, 1, 1, 1, 1, 2, 2, 2, 3, 3, 4]) if r.random() < 0.9 else 0
    for k in range(nd):
        fmt.append(r.choice(['', '', 'a', ' ', 'é=', '%%', '[', 'x: ']))
        conv = r.choice('dddiuoxXcsssss%ffFeEgG')
        flags = ''.join(r.sample('#0- +', r.choice([0, 0, 1, 1, 2, 3])))
        width = r.choice(['', '', '', '1', '3', '6', '12', '*', '*']) if r.random() < 0.97 else r.choice(['4294967296', '99999999999'])
        prec = r.choice(['', '', '', '.0', '.1', '.3', '.8', '.*']) if r.random() < 0.96 else r.choice(['.', '.99999999999', '.4294967296'])
        lenmod = r.choice(['', '', '', 'h', 'l', 'L'])
        key = ''
        if obj:
            key = '(%s)' % r.choice(['a', 'b', 'k1', 'é', '', 'missing']) if r.random() < 0.93 else ''
            if r.random() < 0.85:
                width = width.replace('*', '4')
                prec = prec.replace('*', '2')
        fmt.append('%' + key + flags + width + prec + lenmod + conv)
        if width == '*':
            vals.append(pure_num(r.choice([0, 1, 3, 8, 20, -1, 2.5, 4294967296.0])) if r.random() < 0.9 else r.choice([S('3'), ('null',), ('error', S('width'))]))
        if prec.startswith('.*'):
            vals.append(pure_num(r.choice([0, 1, 2, 5, 12, -1, 1.5])) if r.random() < 0.9 else r.choice([S('2'), ('true',), ('error', S('prec'))]))
        if conv == '%':
            continue
        x = r.random()
        if conv in 'diuoxX':
            v = pure_num(r.choice(FMT_INTS)) if x < 0.88 else r.choice([S('12'), ('null',), ('array', []), ('true',)])
        elif conv in 'fFeEgG':
            v = pure_num(r.choice(FMT_INTS + [0, 1, 100, 3])) if x < 0.9 else r.choice([S('1.5'), ('null',)])
        elif conv == 'c':
            v = r.choice([S('a'), S('é'), S('😀'), S(''), S('ab'), pure_num(65), pure_num(233), pure_num(0x1F600), pure_num(0xD800), pure_num(-1),
                          pure_num(65.7), pure_num(1e10), ('null',), ('array', [])])
        else:
            v = r.choice([S(r.choice(FMT_STRVALS)), S(r.choice(FMT_STRVALS)), pure_num(r.choice([0, 1, -3, 1e3, 1.5])), ('null',), ('true',),
                          ('array', [('num', 1.0), S('a')]), ('array', []), ('object', [('fix', 'k', False, 'd', None, ('num', 1.0))]), ('object', []),
                          ('func', [('x', None)], ('var', 'x')), ('array', [('error', S('inner'))])])
        y = r.random()
        if y < 0.05:
            v = ('error', S('item%d' % k))
        elif y < 0.12:
            v = ('std', 'trace', [S('f%d' % k), v])
        vals.append(v)
        if obj and key.startswith('(') and key != '(missing)':
            fields.append((key[1:-1], v))
    fmt.append(r.choice(['z', ' 100%%', '%', '%(', '%5', '%.', '%y', '%(a', '%-', '%l']) if r.random() < 0.12 else '')
    z = r.random()
    if z < 0.08 and vals:
        vals.pop(r.randrange(len(vals)))
    elif z < 0.2:
        vals.insert(r.randrange(len(vals) + 1), r.choice([('error', S('extra')), ('num', 9.0), ('std', 'trace', [S('extra'), ('num', 9.0)])]))
    if obj:
        seen = []
        ms = []
        for n, v in fields:
            if n not in seen:
                seen.append(n)
                ms.append(('fix', n, False, r.choice('ddh'), None, v))
        if r.random() < 0.15:
            ms.append(('assert', r.choice([('true',), ('false',), ('std', 'trace', [S('as'), ('true',)])]), None))
        vexpr = ('object', ms)
    elif len(vals) == 1 and r.random() < 0.4 and vals[0][0] not in ('array',):
        vexpr = vals[0]          # a single value stands for a one-element array
    else:
        vexpr = ('array', vals)
    f = S(''.join(fmt))
    if r.random() < 0.04:
        f = r.choice([('num', 1.0), ('null',), ('array', []), ('error', S('fmt'))])
    return f, vexpr


def pure_pool(r, kind):
    """a literal argument of the kind, boundaries included"""
    S = lambda x: ('str', x)
    if kind == 's':
        return S(r.choice(PURE_STRS))
    if kind == 'pat':
        return S(r.choice(PURE_PATS))
    if kind == 'ws':
        return S(r.choice(PURE_WS + PURE_STRS[:8]))
    if kind == 'chr':
        return S(r.choice(PURE_CHRS))
    if kind == 'dec':
        return S(r.choice(PURE_DEC))
    if kind == 'oct':
        return S(r.choice(PURE_OCT))
    if kind == 'hex':
        return S(r.choice(PURE_HEX))
    if kind == 'b64':
        return S(r.choice(PURE_B64))
    if kind == 'idx':
        return pure_num(r.choice(PURE_IDX + [0, 1, 2, 3, 1, 2]))
    if kind == 'maxsplit':
        return pure_num(r.choice(PURE_MAXSPLIT))
    if kind == 'cp':
        return pure_num(r.choice(PURE_CPS))
    if kind == 'n':
        return pure_num(r.choice(PURE_NS))
    if kind == 'b64in':
        return S(r.choice(PURE_B64_STR)) if r.random() < 0.5 else pure_bytes(r)
    if kind == 'bytes':
        return pure_bytes(r)
    if kind == 'esc':
        k = r.random()
        if k < 0.7:
            return S(r.choice(PURE_STRS + ['\u0000\u001f\u007f\u0080\u009f', "'", '$', '&<>"\'', 'tab\there', 'back\\slash']))
        return r.choice([('num', 1.0), num_lit(-3), ('null',), ('true',), ('array', [('num', 1.0), S('a')]), ('array', []),
                         ('object', [('fix', 'a', False, 'd', None, S('<x>'))]), ('object', []), ('num', 1.5),
                         ('func', [('x', None)], ('var', 'x')), ('array', [('error', S('inner'))])])
    raise ValueError(kind)


PURE_WRONG = [('null',), ('true',), ('num', 1.0), ('str', 'a'), ('array', []), ('array', [('num', 1.0)]), ('object', []),
              ('func', [('x', None)], ('var', 'x'))]


def pure_cases(rng, n, names=None):
    """Directed programs for the pure builtins: every argument position with right and wrong types, boundary numbers
    (negative, fractional, -0, 2^32, 2^64, 1e300), non-ASCII strings; arguments that fail lazily (`error`) or emit a trace
    when forced, so that the forcing order and "which error wins" are observable."""
    names = sorted(names or PURE_STD)
    weights = [1 if nm in PURE_LIBM else (40 if nm == 'format' else 6) for nm in names]
    out = []
    for _ in range(n):
        name = rng.choices(names, weights)[0]
        if name == 'format':
            f, v = fmt_case(rng)
            for _ in range(2):
                if rng.random() < 0.06:
                    f = ('std', 'trace', [('str', 'fa'), f])
                if rng.random() < 0.06:
                    v = ('std', 'trace', [('str', 'va'), v])
            out.append(('binary', 'rem', f, v) if rng.random() < 0.5 else ('std', 'format', [f, v]))
            continue
        kinds = PURE_SIGS[name][0]
        args = []
        for i, k in enumerate(kinds):
            a = pure_pool(rng, k)
            x = rng.random()
            if x < 0.10:
                a = rng.choice(PURE_WRONG)
            elif x < 0.16:
                a = ('error', ('str', 'arg%d' % i))
            if rng.random() < 0.25:
                a = ('std', 'trace', [('str', 'a%d' % i), a])
            args.append(a)
        e = ('std', name, args)
        y = rng.random()
        if y < 0.08:
            # the result used by another pure builtin / operator
            e = rng.choice([('std', 'length', [e]), ('std', 'type', [e]), ('binary', 'add', ('str', '>'), e), ('std', 'toString', [e]),
                            ('std', 'stringChars', [e]), ('std', 'asciiUpper', [e]), ('std', 'base64', [e]), ('std', 'decodeUTF8', [e]),
                            ('std', 'codepoint', [e]), ('std', 'encodeUTF8', [e])])
        elif y < 0.12:
            # the call is made through a variable bound to the arguments (thunks shared between two calls)
            vs = ['v%d' % i for i in range(len(args))]
            call = ('std', name, [('var', v) for v in vs])
            e = ('local', [(v, None, a) for v, a in zip(vs, args)], ('array', [call, call]))
        out.append(e)
    return out


def uses_str_format_op(e):
    """a `%` whose left operand is a string literal (std.format through the operator)"""
    if isinstance(e, tuple):
        if e and e[0] == 'binary' and e[1] == 'rem' and isinstance(e[2], tuple) and e[2][0] == 'str':
            return True
        return any(uses_str_format_op(x) for x in e[1:])
    if isinstance(e, list):
        return any(uses_str_format_op(x) for x in e)
    return False


def uses_pure_std(e):
    return bool(std_names(e) & PURE_STD) or uses_str_format_op(e)


# builtins added to the evaluator model after std.makeArray (callbacks, element-wise forcing, equality)
NEW_STD = {'filter', 'foldl', 'foldr', 'flatMap', 'mapWithIndex', 'mapWithKey', 'filterMap', 'join', 'range', 'member', 'count',
           'all', 'any', 'equals', '__compare', 'primitiveEquals', 'assertEqual', 'toString', 'sort', 'set'}


def std_names(e, acc=None):
    """names of the builtins applied anywhere in a program"""
    acc = set() if acc is None else acc
    if isinstance(e, tuple):
        if e and e[0] == 'std' and isinstance(e[1], str):
            acc.add(e[1])
        for x in e[1:]:
            std_names(x, acc)
    elif isinstance(e, list):
        for x in e:
            std_names(x, acc)
    return acc


def uses_new_std(e):
    return bool(std_names(e) & NEW_STD)


def std_shapes(D):
    """Recursion / width shapes of size D through the callback builtins: (name, program).  Every level (or element)
    needs at least one frame: `std.filter`, `std.flatMap`, `std.filterMap` push one `Call` frame per ELEMENT before the
    first callback runs; folds, joins, equality push them one level at a time."""
    N = lambda x: ('num', float(x))
    V = lambda x: ('var', x)
    call = lambda f, *a: ('call', f, [('p', x) for x in a], False)
    std = lambda n, *a: ('std', n, list(a))
    fn = lambda ps, b: ('func', [(p, None) for p in ps], b)
    dec = ('binary', 'sub', V('n'), N(1))
    is0 = ('binary', 'eq', V('n'), N(0))
    rng = std('range', N(1), N(D))
    out = []
    out.append(('filter-wide', std('filter', fn(['x'], ('binary', 'gt', V('x'), N(1))), rng)))
    out.append(('flatmap-wide', std('flatMap', fn(['x'], ('array', [V('x'), V('x')])), rng)))
    out.append(('filtermap-wide', std('filterMap', fn(['x'], ('binary', 'gt', V('x'), N(1))), fn(['x'], ('binary', 'mul', V('x'), N(2))), rng)))
    out.append(('sort-wide', std('sort', std('map', fn(['x'], ('binary', 'sub', N(0), V('x'))), rng))))
    out.append(('set-key-wide', std('set', rng, fn(['x'], ('binary', 'rem', V('x'), N(3))))))
    out.append(('flatmap-str-wide', std('flatMap', fn(['x'], ('binary', 'add', V('x'), V('x'))), ('str', 'a' * D))))

    def rec(name, body):
        out.append((name, ('local', [('f', [('n', None)], body)], call(V('f'), N(D)))))
    # exactly ONE recursive call per level (the other elements do not recurse), so the work is linear in D
    one = lambda v, other, recur: ('if', ('binary', 'eq', V(v), N(1)), recur, other)
    rec('foldl-rec', ('if', is0, N(0), std('foldl', fn(['a', 'x'], ('binary', 'add', V('a'), call(V('f'), dec))), ('array', [N(1)]), N(0))))
    rec('foldr-rec', ('if', is0, N(0), std('foldr', fn(['x', 'a'], one('x', V('a'), ('binary', 'add', V('a'), call(V('f'), dec)))), ('array', [N(1), N(2)]), N(0))))
    rec('foldl-init-rec', ('if', is0, N(0), std('foldl', fn(['a', 'x'], V('a')), ('array', []), call(V('f'), dec))))
    rec('filter-rec', ('if', is0, ('array', []), std('filter', fn(['x'], one('x', ('true',), ('binary', 'eq', std('length', call(V('f'), dec)), N(0)))), ('array', [N(0), N(1)]))))
    rec('flatmap-rec', ('if', is0, ('array', [N(0)]), std('flatMap', fn(['x'], one('x', ('array', []), call(V('f'), dec))), ('array', [N(0), N(1)]))))
    rec('map-rec', ('if', is0, N(0), ('index', std('map', fn(['x'], ('binary', 'add', call(V('f'), dec), V('x'))), ('array', [N(1)])), N(0))))
    rec('mapwithindex-rec', ('if', is0, N(0), ('index', std('mapWithIndex', fn(['i', 'x'], ('binary', 'add', call(V('f'), dec), V('i'))), ('array', [N(1)])), N(0))))
    rec('mapwithkey-rec', ('if', is0, N(0), ('field', std('mapWithKey', fn(['k', 'v'], ('binary', 'add', call(V('f'), dec), V('v'))),
                                                        ('object', [('fix', 'a', False, 'd', None, N(1))])), 'a')))
    rec('join-rec', ('if', is0, ('str', ''), std('join', ('str', '-'), ('array', [call(V('f'), dec), ('str', 'a')]))))
    rec('all-rec', ('if', is0, ('true',), std('all', ('array', [('true',), call(V('f'), dec)]))))
    rec('any-rec', ('if', is0, ('false',), std('any', ('array', [('false',), call(V('f'), dec)]))))
    rec('count-rec', ('if', is0, N(0), std('count', ('array', [N(1), call(V('f'), dec)]), N(1))))
    rec('sort-rec', ('if', is0, N(0), ('index', std('sort', ('array', [N(2), N(1)]), fn(['x'], one('x', ('binary', 'add', call(V('f'), dec), V('x')), N(0)))), N(0))))
    rec('tostring-rec', ('if', is0, N(0), std('length', std('toString', ('array', [call(V('f'), dec)])))))
    mk = [('mk', [('n', None)], ('if', is0, ('array', []), ('array', [call(V('mk'), dec)])))]
    a, b = call(V('mk'), N(D)), call(V('mk'), N(D))
    out.append(('std-equals-nested', ('local', mk, std('equals', a, b))))
    out.append(('std-compare-nested', ('local', mk, std('__compare', a, b))))
    out.append(('std-assertequal-nested', ('local', mk, std('assertEqual', a, b))))
    out.append(('std-member-nested', ('local', mk, std('member', ('array', [N(1), a]), b))))
    out.append(('std-tostring-nested', ('local', mk, std('length', std('toString', a)))))
    return out


def std_cases(rng, n):
    """Directed programs for the callback / element-wise builtins: small arrays (integers with repeats, strings, nested
    arrays, mixed values with failing elements), callbacks that trace the element they see, have the wrong arity or the
    wrong result type; keys with ties for std.sort / std.set (the order of equal keys is the implementation's)."""
    N = num_lit
    S = lambda x: ('str', x)
    V = lambda x: ('var', x)
    std = lambda nm, *a: ('std', nm, list(a))
    fn = lambda ps, b: ('func', [(p, None) for p in ps], b)
    A = lambda xs: ('array', list(xs))

    def tr(tag, v, body):
        return std('trace', ('binary', 'add', S(tag + ':'), v), body)

    def val(depth=2):
        k = rng.random()
        if k < 0.45 or depth == 0:
            return N(rng.choice([0, 1, 2, 3, 3, 5, -1, 7]))
        if k < 0.6:
            return S(rng.choice(['', 'a', 'b', 'ab', 'é']))
        if k < 0.7:
            return rng.choice([('null',), ('true',), ('false',)])
        if k < 0.9:
            return A([val(depth - 1) for _ in range(rng.randrange(0, 3))])
        if k < 0.95:
            return ('object', [('fix', 'a', False, 'd', None, val(depth - 1))])
        return ('error', S('boom'))

    def arr(kind=None, n=None):
        n = rng.randrange(0, 9) if n is None else n
        kind = kind or rng.choice(['int', 'int', 'str', 'mixed', 'arr'])
        if kind == 'int':
            return A([N(rng.randrange(-2, 6)) for _ in range(n)])
        if kind == 'str':
            return A([S(rng.choice(['', 'a', 'b', 'ab', 'ba', 'é'])) for _ in range(n)])
        if kind == 'arr':
            return A([A([N(rng.randrange(0, 3)) for _ in range(rng.randrange(0, 3))]) for _ in range(n)])
        return A([val() for _ in range(n)])

    def keyf():
        k = rng.randrange(7)
        x = V('x')
        return [fn(['x'], ('unary', 'minus', x)), fn(['x'], ('binary', 'rem', x, N(3))), fn(['x'], tr('k', x, ('binary', 'rem', x, N(2)))),
                fn(['x'], tr('k', x, x)), fn(['x'], std('length', x)), fn(['x'], A([('binary', 'rem', x, N(2)), x])), fn(['x', 'y'], x)][k]

    def pred():
        k = rng.randrange(6)
        x = V('x')
        return [fn(['x'], ('binary', 'gt', x, N(1))), fn(['x'], tr('p', x, ('binary', 'eq', ('binary', 'rem', x, N(2)), N(0)))),
                fn(['x'], tr('p', x, ('binary', 'lt', x, N(3)))), fn(['x'], x), fn([], ('true',)),
                fn(['x'], ('if', ('binary', 'eq', x, N(3)), ('error', S('three')), ('true',)))][k]

    def fold_fn(left):
        k = rng.randrange(6)
        ps = ['a', 'x'] if left else ['x', 'a']
        return [fn(ps, ('binary', 'add', V('a'), V('x'))), fn(ps, tr('f', V('x'), ('binary', 'add', V('a'), V('x')))),
                fn(ps, tr('f', V('x'), A([V('a'), V('x')]))), fn(ps, tr('f', V('x'), V('a'))), fn(ps[:1], V(ps[0])),
                fn(ps, ('binary', 'add', ('binary', 'add', S(''), V('a')), V('x')))][k]

    def case():
        k = rng.randrange(20)
        if k == 0:
            return std(rng.choice(['sort', 'set']), arr(rng.choice(['int', 'str', 'arr', 'mixed'])))
        if k == 1:
            return std(rng.choice(['sort', 'set']), arr('int', rng.randrange(0, 14)), keyf())
        if k == 2:
            return std('filter', pred(), arr(rng.choice(['int', 'mixed'])))
        if k == 3:
            return std('foldl', fold_fn(True), arr(rng.choice(['int', 'str'])), rng.choice([N(0), S(''), A([])]))
        if k == 4:
            return std('foldr', fold_fn(False), arr(rng.choice(['int', 'str'])), rng.choice([N(0), S(''), A([])]))
        if k == 5:
            return std('flatMap', rng.choice([fn(['x'], A([V('x'), V('x')])), fn(['x'], tr('m', V('x'), A([V('x')]))), fn(['x'], V('x')),
                                              fn(['x'], ('binary', 'add', V('x'), V('x')))]),
                       rng.choice([arr('int'), arr('arr'), S('abé'), arr('mixed')]))
        if k == 6:
            return std('mapWithIndex', rng.choice([fn(['i', 'x'], A([V('i'), V('x')])), fn(['i', 'x'], tr('m', V('i'), V('x'))), fn(['i'], V('i'))]),
                       rng.choice([arr(), S('héllo')]))
        if k == 7:
            return std('mapWithKey', rng.choice([fn(['k', 'v'], ('binary', 'add', V('k'), V('v'))), fn(['k', 'v'], tr('m', V('k'), V('v'))), fn(['k'], V('k'))]),
                       ('object', [('fix', f, False, rng.choice('dhf'), None, val()) for f in rng.sample(['a', 'b', 'c', 'd'], rng.randrange(0, 4))]
                        + ([('assert', ('binary', 'gt', std('length', ('self',)), N(rng.randrange(0, 3))), S('too small'))] if rng.random() < 0.3 else [])))
        if k == 8:
            return std('filterMap', pred(), rng.choice([fn(['x'], ('binary', 'mul', V('x'), N(2))), fn(['x'], tr('m', V('x'), V('x'))), fn([], N(1))]),
                       arr(rng.choice(['int', 'mixed'])))
        if k == 9:
            return std('join', rng.choice([S(','), S(''), A([N(0)]), A([]), N(1)]),
                       rng.choice([arr('str'), arr('arr'), arr('mixed'), A([S('a'), ('null',), S('b')]), A([('null',), A([N(1)]), ('null',), A([])])]))
        if k == 10:
            return std('range', rng.choice([N(0), N(1), N(-3), N(2.5), S('a')]), rng.choice([N(0), N(4), N(-5), N(1e10), N(3.5), ('null',)]))
        if k == 11:
            return std('member', rng.choice([arr(), S('hello'), S(''), N(1)]), rng.choice([val(), S('ll'), S(''), N(1)]))
        if k == 12:
            return std('count', rng.choice([arr(), arr('int'), N(1)]), val())
        if k == 13:
            return std(rng.choice(['all', 'any']), A([rng.choice([('true',), ('false',), tr('b', N(1), ('true',)), tr('b', N(0), ('false',)), N(1), ('error', S('boom'))])
                                                     for _ in range(rng.randrange(0, 5))]))
        if k == 14:
            return std(rng.choice(['equals', '__compare', 'primitiveEquals', 'assertEqual']), val(3), val(3))
        if k == 15:
            v = val(3)
            return std(rng.choice(['equals', '__compare', 'primitiveEquals', 'assertEqual']), v, v)
        if k == 16:
            return std('toString', val(3))
        if k == 17:
            return std('length', std('filter', pred(), std('range', N(1), N(rng.randrange(0, 9)))))
        if k == 18:
            return std('sort', std('map', keyf(), arr('int')), keyf())
        return std('set', arr('int', rng.randrange(2, 10)), keyf())
    # the pure builtins (strings, numbers, codecs, std.format / %): at least 600 directed cases
    pure = pure_cases(rng, max(n // 3, 600))
    return [case() for _ in range(n - n // 3)] + pure
