#!/usr/bin/env python3
"""Inventory of every panic-capable construct of /repo's sources (property C01).

Scans  <root>/rsjsonnet-lang/src, <root>/rsjsonnet-front/src, <root>/rsjsonnet/src
(<root> = $RSJ_SRC_ROOT or /repo; READ ONLY), skipping `tests.rs`, items under
`#[cfg(test)]` and the feature-gated `gc/verif.rs`, and lists every

  unwrap   `.unwrap()` / `.unwrap_err()`
  expect   `.expect(..)` / `.expect_err(..)`
  macro    `panic!` `unreachable!` `assert!` `assert_eq!` `assert_ne!` `unimplemented!` `todo!`
           (not `debug_assert*`), and `print!` `println!` `eprint!` `eprintln!` `dbg!`, which
           panic when the write to stdout / stderr fails
  index    `recv[i]`           (slice / Vec / array / str / map indexing)
  slice    `recv[a..b]`        (range slicing)
  divrem   `/` `%` `/=` `%=` whose right operand is not a numeric literal
  api      calls of std methods that panic on a violated precondition and have no
           `Option`-returning spelling at the call site: RefCell `borrow`/`borrow_mut`,
           `split_at(_mut)`, `swap_remove`, `split_off`, `copy_from_slice`,
           `clone_from_slice`, `drain(<range other than ..>)`, `swap(i, j)`, `remove(i)` (not
           `remove(&key)`), `copy_within`, `rotate_left/right`, and `step_by` / `chunks` /
           `chunks_exact` / `rchunks` / `windows` with a size that is not a non-zero literal

as a key that is stable under line shifts:

    file::fn::kind::normalised-snippet#k

`fn` is `Type.fn` / `Type:Trait.fn` inside an `impl`, the bare name otherwise (`<top>`
outside any function); the snippet is the whitespace-normalised receiver chain (and
argument / index text, string literals kept, comments dropped), cut to its last
SNIP_MAX characters; `k` is the ordinal among equal (file, fn, kind, snippet) in source
order.

tools/panic_sites.toml classifies every key (regex rules for the bulk classes, individual
entries for the rest -- individual entries win).  The generated
lean/RsjModel/PanicSites.lean holds the table (key, class); RsjProps/C01.lean proves by
`decide` that every class is in the fixed vocabulary (a site matched by nothing gets the
class "UNMAPPED", which is not), that there is no stale entry / dead rule, that every
`proved:<Theorem>` names a theorem that exists, and pins the number of sites per class.

If a source file cannot be scanned (unbalanced brackets, unterminated literal, no `fn`
found where one is expected, implausibly few sites) the extractor RAISES ExtractError: a
broken tie, never a silent skip.

Arithmetic overflow (`+ - *` in debug builds), allocation failure, native stack
exhaustion and panics inside other crates are outside this inventory.
"""
import os
import re
import sys

try:
    import tomllib
except ImportError:  # pragma: no cover
    tomllib = None

HERE = os.path.dirname(os.path.abspath(__file__))
DEFAULT_ROOT = "/repo"
SUBDIRS = ("rsjsonnet-lang/src", "rsjsonnet-front/src", "rsjsonnet/src")
MAP = os.path.join(HERE, "panic_sites.toml")
OUT = os.path.join(HERE, "..", "lean", "RsjModel", "PanicSites.lean")
SNIP_MAX = 96
CHUNK = 64          # rows per Lean chunk definition
SKIP_FILES = ("tests.rs",)
SKIP_PATHS = ("rsjsonnet-lang/src/gc/verif.rs",)
MIN_SITES = 400     # the tree has ~900; far fewer means the scanner lost its footing

KINDS = ("unwrap", "expect", "macro", "index", "slice", "divrem", "api")

KEYWORDS = {
    "as", "break", "const", "continue", "crate", "dyn", "else", "enum", "extern", "fn", "for",
    "if", "impl", "in", "let", "loop", "match", "mod", "move", "mut", "pub", "ref", "return",
    "static", "struct", "trait", "type", "unsafe", "use", "where", "while", "async",
    "await", "box", "yield",
}
# (`self`, `Self`, `super`, `true`, `false` can start / be part of an expression)

PANIC_MACROS = ("panic", "unreachable", "assert", "assert_eq", "assert_ne", "unimplemented", "todo",
                # these panic when the write to stdout / stderr fails
                "print", "println", "eprint", "eprintln", "dbg")
API_METHODS = ("borrow", "borrow_mut", "split_at", "split_at_mut", "swap_remove", "split_off",
               "copy_from_slice", "clone_from_slice", "drain", "swap", "remove", "step_by", "chunks",
               "chunks_exact", "rchunks", "windows", "copy_within", "rotate_left", "rotate_right")


class ExtractError(Exception):
    pass


def src_root():
    return os.environ.get("RSJ_SRC_ROOT") or DEFAULT_ROOT


def rust_files(root):
    res = []
    for sub in SUBDIRS:
        top = os.path.join(root, sub)
        if not os.path.isdir(top):
            raise ExtractError("source directory %s does not exist" % top)
        for d, _, files in os.walk(top):
            for f in files:
                if not f.endswith(".rs"):
                    continue
                p = os.path.join(d, f)
                rel = os.path.relpath(p, root).replace(os.sep, "/")
                if f in SKIP_FILES or rel in SKIP_PATHS:
                    continue
                res.append((rel, p))
    res.sort()
    if len(res) < 30:
        raise ExtractError("implausibly few source files under %s (%d)" % (root, len(res)))
    return res


# ----------------------------------------------------------------------------------------
# lexical cleaning


def strip_source(src, rel):
    """Returns (nocomment, clean): both have the length and the newlines of `src`;
    `nocomment` has comments blanked, `clean` additionally has the contents of string,
    byte-string, raw-string and char literals blanked (delimiters kept)."""
    noc = list(src)
    cln = list(src)
    i, n = 0, len(src)

    def blank(a, b, both_only_clean=False):
        for k in range(a, b):
            if src[k] != "\n":
                cln[k] = " "
                if not both_only_clean:
                    noc[k] = " "

    def line_of(p):
        return src.count("\n", 0, p) + 1

    while i < n:
        c = src[i]
        if src.startswith("//", i):
            j = src.find("\n", i)
            if j < 0:
                j = n
            blank(i, j)
            i = j
        elif src.startswith("/*", i):
            depth, j = 0, i
            while j < n:
                if src.startswith("/*", j):
                    depth += 1
                    j += 2
                elif src.startswith("*/", j):
                    depth -= 1
                    j += 2
                    if depth == 0:
                        break
                else:
                    j += 1
            if depth != 0:
                raise ExtractError("%s:%d: unterminated block comment" % (rel, line_of(i)))
            blank(i, j)
            i = j
        elif c == '"' or (c in "br" and re.match(r'(?:b?r#*"|b")', src[i:i + 12]) and
                          (i == 0 or not (src[i - 1].isalnum() or src[i - 1] == "_"))):
            m = re.match(r'(b?)(r(#*))?"', src[i:i + 12])
            if m.group(2):          # raw string
                term = '"' + m.group(3)
                body = i + m.end()
                j = src.find(term, body)
                if j < 0:
                    raise ExtractError("%s:%d: unterminated raw string" % (rel, line_of(i)))
                blank(body, j, True)
                i = j + len(term)
            else:
                body = i + m.end()
                j = body
                while j < n and src[j] != '"':
                    if src[j] == "\\":
                        j += 1
                    j += 1
                if j >= n:
                    raise ExtractError("%s:%d: unterminated string literal" % (rel, line_of(i)))
                blank(body, j, True)
                i = j + 1
        elif c == "'" or (c == "b" and src.startswith("b'", i) and
                          (i == 0 or not (src[i - 1].isalnum() or src[i - 1] == "_"))):
            q = i + (1 if c == "b" else 0)
            m = re.match(r"'(\\u\{[0-9a-fA-F_]+\}|\\x[0-9a-fA-F]{2}|\\.|[^\\'\n])'", src[q:q + 16])
            if m:
                blank(q + 1, q + m.end() - 1, True)
                i = q + m.end()
            else:
                # lifetime / loop label
                if not re.match(r"'[A-Za-z_]", src[q:q + 2]):
                    raise ExtractError("%s:%d: stray quote" % (rel, line_of(i)))
                i = q + 1
        else:
            i += 1
    return "".join(noc), "".join(cln)


OPEN = {"(": ")", "[": "]", "{": "}"}
CLOSE = {")": "(", "]": "[", "}": "{"}


def bracket_table(clean, rel):
    """match[i] = index of the partner of the bracket at i (all three kinds, checked)."""
    match = {}
    stack = []
    for i, ch in enumerate(clean):
        if ch in OPEN:
            stack.append(i)
        elif ch in CLOSE:
            if not stack or clean[stack[-1]] != CLOSE[ch]:
                raise ExtractError("%s:%d: unbalanced `%s`" % (rel, clean.count("\n", 0, i) + 1, ch))
            o = stack.pop()
            match[o] = i
            match[i] = o
    if stack:
        raise ExtractError("%s:%d: unclosed `%s`" % (rel, clean.count("\n", 0, stack[-1]) + 1, clean[stack[-1]]))
    return match


def blank_cfg_test(clean, noc, match, rel):
    """Blank every item that carries `#[cfg(test)]` (to its `;` or through its body)."""
    cl, nc = list(clean), list(noc)
    for m in re.finditer(r"#\s*\[\s*cfg\s*\(\s*test\s*\)\s*\]", clean):
        k = m.end()
        n = len(clean)
        while k < n:
            ch = clean[k]
            if ch == "#":           # further attributes
                b = clean.find("[", k)
                if b < 0:
                    raise ExtractError("%s: malformed attribute after #[cfg(test)]" % rel)
                k = match[b] + 1
            elif ch in "([":
                k = match[k] + 1
            elif ch == ";":
                k += 1
                break
            elif ch == "{":
                k = match[k] + 1
                break
            else:
                k += 1
        else:
            raise ExtractError("%s: item after #[cfg(test)] has no end" % rel)
        for p in range(m.start(), k):
            if cl[p] != "\n":
                cl[p] = " "
                nc[p] = " "
    return "".join(cl), "".join(nc)


# ----------------------------------------------------------------------------------------
# enclosing items

FN_RE = re.compile(r"\bfn\s+([A-Za-z_][A-Za-z0-9_]*)\s*[<(]")
IMPL_RE = re.compile(r"\bimpl\b")


def item_body(clean, match, k, rel, what):
    """From offset k (inside an item header) to its body `{`; None if the item ends with `;`."""
    n = len(clean)
    while k < n:
        ch = clean[k]
        if ch in "([":
            k = match[k] + 1
        elif ch == ";":
            return None
        elif ch == "{":
            return k
        elif ch == "}":
            break
        else:
            k += 1
    raise ExtractError("%s:%d: %s without body or `;`" % (rel, clean.count("\n", 0, min(k, n - 1)) + 1, what))


def strip_generics(s):
    out, depth = [], 0
    i = 0
    while i < len(s):
        ch = s[i]
        if ch == "<":
            depth += 1
        elif ch == ">" and depth > 0 and not (i > 0 and s[i - 1] == "-"):
            depth -= 1
        elif depth == 0:
            out.append(ch)
        i += 1
    return "".join(out)


def last_ident(path):
    ids = re.findall(r"[A-Za-z_][A-Za-z0-9_]*", path)
    ids = [x for x in ids if x not in ("mut", "dyn", "const", "crate", "super", "self")]
    return ids[-1] if ids else "?"


def find_items(clean, match, rel):
    fns, impls = [], []
    for m in FN_RE.finditer(clean):
        b = item_body(clean, match, m.end() - 1, rel, "fn %s" % m.group(1))
        if b is None:
            continue
        fns.append((b, match[b], m.group(1)))
    for m in IMPL_RE.finditer(clean):
        # `impl` in type position (`-> impl Trait`, `x: impl Fn()`) has no body of its own:
        # accept only item position (previous token is `}` `;` `]` `{` or start / `unsafe`)
        p = m.start() - 1
        while p >= 0 and clean[p].isspace():
            p -= 1
        if p >= 0 and clean[p] not in "};]{":
            if not re.search(r"\bunsafe\s*$", clean[:m.start()]):
                continue
        b = item_body(clean, match, m.end(), rel, "impl")
        if b is None:
            continue
        head = strip_generics(clean[m.end():b])
        head = re.split(r"\bwhere\b", head)[0]
        parts = re.split(r"\bfor\b", head)
        if len(parts) == 2:
            name = "%s:%s" % (last_ident(parts[1]), last_ident(parts[0]))
        else:
            name = last_ident(parts[0])
        impls.append((b, match[b], name))
    return fns, impls


def innermost(items, pos):
    best = None
    for bo, bc, name in items:
        if bo < pos < bc and (best is None or bo > best[0]):
            best = (bo, bc, name)
    return best


# ----------------------------------------------------------------------------------------
# expressions


def is_ident_char(ch):
    return ch.isalnum() or ch == "_"


def chain_start(clean, match, end):
    """Start of the postfix expression chain that ends just before offset `end`
    (identifiers, paths, calls, index groups, `?`, macro calls, turbofish)."""
    i = end
    state = "need-operand"      # right after `.` / `::` or at the very end
    while True:
        j = i
        while j > 0 and clean[j - 1].isspace():
            j -= 1
        if j == 0:
            return i
        c = clean[j - 1]
        if state in ("need-operand", "after-group", "after-q"):
            if c in ")]":
                i = match[j - 1]
                state = "after-group"
                continue
            if c == "?":
                # `x?[..]`, `f()?.unwrap()`
                i = j - 1
                state = "after-q"
                continue
            if c == "!" and state == "after-group":
                # macro call `name!(..)`
                k = j - 1
                while k > 0 and is_ident_char(clean[k - 1]):
                    k -= 1
                if k == j - 1:
                    return i
                i = k
                state = "after-ident"
                continue
            if c == ">" and state == "after-group" and j >= 2 and clean[j - 2] != "-" and clean[j - 2] != "=":
                # turbofish `::<T>(..)`
                depth, k = 0, j - 1
                while k >= 0:
                    if clean[k] == ">":
                        depth += 1
                    elif clean[k] == "<":
                        depth -= 1
                        if depth == 0:
                            break
                    elif clean[k] in ";{}":
                        return i
                    k -= 1
                if k < 2 or clean[k - 2:k] != "::":
                    return i
                i = k - 2
                state = "need-operand"
                continue
            if is_ident_char(c):
                k = j - 1
                while k > 0 and is_ident_char(clean[k - 1]):
                    k -= 1
                word = clean[k:j]
                if word in KEYWORDS:
                    return i
                if state != "need-operand" and j != i:
                    # whitespace between an identifier and a following group / `?`:
                    # `match x [..]` does not occur; be conservative and stop
                    return i
                i = k
                state = "after-ident"
                continue
            return i
        # after an identifier: only a connector continues the chain
        if c == "." and not (j >= 2 and clean[j - 2] == "."):
            i = j - 1
            state = "need-operand"
            continue
        if c == ":" and j >= 2 and clean[j - 2] == ":":
            i = j - 2
            state = "need-operand"
            continue
        return i


def chain_end(clean, match, start):
    """End of the operand that starts at / after offset `start` (prefix operators, then a
    postfix chain: paths, calls, index groups, fields, `?`, `as T` casts)."""
    n = len(clean)
    e = start
    while e < n and (clean[e].isspace() or clean[e] in "-!*&"):
        e += 1
    while e < n:
        ch = clean[e]
        if ch in "([":
            e = match[e] + 1
        elif is_ident_char(ch) or ch == "?":
            e += 1
        elif ch == "." and clean[e + 1:e + 2] != ".":
            e += 1
        elif clean.startswith("::", e):
            e += 2
        elif re.match(r"\s+as\s+[A-Za-z_]", clean[e:e + 16]):
            e += re.match(r"\s+as\s+", clean[e:e + 16]).end()
        else:
            break
    return e


def norm(s):
    s = re.sub(r"\s+", " ", s.strip())
    s = re.sub(r"([(\[]) ", r"\1", s)           # no blank after an opening bracket
    s = re.sub(r" ([)\],;?])", r"\1", s)        # nor before a closing one, `,` `;` `?`
    s = re.sub(r"(?<![. ]) ?\.(?!\.) ?", ".", s)    # method chains spread over lines
    s = re.sub(r",(?! )", ", ", s)
    s = re.sub(r", ([)\]])", r"\1", s)          # trailing comma
    return s.strip()


def cut(s):
    return s if len(s) <= SNIP_MAX else "…" + s[-(SNIP_MAX - 1):]


NUM_LIT = re.compile(r"\(*\s*-?\s*(?:0[xob][0-9a-fA-F_]+|[0-9][0-9_]*(?:\.[0-9_]+)?(?:[eE][+-]?[0-9_]+)?)(?:_?[iuf](?:8|16|32|64|128|size))?\b")


def scan_file(rel, path):
    try:
        src = open(path, encoding="utf-8").read()
    except Exception as e:  # noqa
        raise ExtractError("cannot read %s: %r" % (path, e))
    noc, clean = strip_source(src, rel)
    match = bracket_table(clean, rel)
    clean, noc = blank_cfg_test(clean, noc, match, rel)
    fns, impls = find_items(clean, match, rel)
    found = []      # (offset, kind, snippet)

    def text(a, b):
        return norm(noc[a:b])

    # --- method-shaped sites
    for m in re.finditer(r"\.\s*(unwrap|unwrap_err|expect|expect_err|%s)\s*\(" % "|".join(API_METHODS), clean):
        name = m.group(1)
        dot = m.start()
        par = m.end() - 1
        close = match[par]
        recv = chain_start(clean, match, dot)
        args = clean[par + 1:close].strip()
        if name in ("unwrap", "unwrap_err"):
            if args:
                continue            # not Option/Result::unwrap
            kind = "unwrap"
        elif name in ("expect", "expect_err"):
            kind = "expect"
        else:
            if name in ("borrow", "borrow_mut") and args:
                continue            # Borrow::borrow(x) style, not RefCell
            if name == "drain" and re.fullmatch(r"\.\.", args):
                continue            # drain(..) cannot panic
            if name == "remove" and args.startswith("&"):
                continue            # map.remove(&key) returns an Option; Vec::remove takes an index
            if name == "swap" and "," not in args:
                continue            # Cell::swap(&other); slice::swap(a, b) has two indices
            if name in ("step_by", "chunks", "chunks_exact", "rchunks", "windows") and \
                    re.fullmatch(r"[1-9][0-9_]*(usize)?", args):
                continue            # non-zero literal size
            kind = "api"
        found.append((dot, kind, text(recv, close + 1)))

    # --- macros
    for m in re.finditer(r"\b(%s)\s*!\s*([(\[{])" % "|".join(PANIC_MACROS), clean):
        if m.start() > 0 and clean[m.start() - 1] in "._":
            continue
        par = m.end() - 1
        close = match[par]
        found.append((m.start(), "macro", "%s!(%s)" % (m.group(1), text(par + 1, close).rstrip(", "))))
    for m in re.finditer(r"\b(?:core|std)\s*::\s*(?:panicking|process)\s*::\s*(panic|abort|exit)\b|\bunreachable_unchecked\b", clean):
        if m.group(1) == "exit":
            continue
        found.append((m.start(), "macro", norm(m.group(0))))

    # --- indexing / slicing
    for i, ch in enumerate(clean):
        if ch != "[":
            continue
        j = i
        while j > 0 and clean[j - 1].isspace():
            j -= 1
        if j == 0:
            continue
        p = clean[j - 1]
        if is_ident_char(p):
            k = j - 1
            while k > 0 and is_ident_char(clean[k - 1]):
                k -= 1
            word = clean[k:j]
            if word in KEYWORDS or word[0].isdigit():
                continue
            if k > 0 and clean[k - 1] == "'":
                continue            # `&'a [T]`
            if j != i and "\n" in clean[j:i]:
                continue            # identifier, newline, `[`: a new statement / pattern
        elif p in ")]?":
            if p == "]" :
                # `#[attr] [..]` cannot be told from `a[0] [1]`; attributes are followed
                # by items, not by `[`
                o = match[j - 1]
                q = o
                while q > 0 and clean[q - 1].isspace():
                    q -= 1
                if q > 0 and clean[q - 1] in "#!":
                    continue
        else:
            continue
        close = match[i]
        inner = clean[i + 1:close]
        if not inner.strip():
            continue                # `x[]` is not an expression
        # range at bracket depth 0 of the index expression?
        depth, is_range = 0, False
        for q in range(i + 1, close):
            cq = clean[q]
            if cq in OPEN:
                depth += 1
            elif cq in CLOSE:
                depth -= 1
            elif depth == 0 and cq == "." and clean[q + 1] == "." :
                is_range = True
        recv = chain_start(clean, match, i)
        if recv == i:
            continue
        found.append((i, "slice" if is_range else "index", text(recv, close + 1)))

    # --- division / remainder by a non-literal
    for m in re.finditer(r"(?<![/*<])([/%])(=?)(?![/*>])", clean):
        after = clean[m.end():m.end() + 48]
        if NUM_LIT.match(after.lstrip()):
            continue
        # operands: left chain and the token(s) to the right up to a delimiter
        left = chain_start(clean, match, m.start())
        found.append((m.start(), "divrem", text(left, chain_end(clean, match, m.end()))))

    found.sort()
    sites = []
    for off, kind, snippet in found:
        f = innermost(fns, off)
        im = innermost(impls, off)
        fname = "<top>" if f is None else f[2]
        if im is not None:
            # the innermost impl around the site (normally the one that holds the function)
            fname = "%s.%s" % (im[2], fname)
        sites.append({
            "file": rel, "fn": fname, "kind": kind, "snippet": cut(snippet),
            "line": clean.count("\n", 0, off) + 1,
        })
    return sites


def extract(root=None):
    root = root or src_root()
    sites = []
    for rel, path in rust_files(root):
        try:
            sites.extend(scan_file(rel, path))
        except ExtractError:
            raise
        except Exception as e:  # noqa  (a scanner bug is a broken tie too, not a skipped file)
            raise ExtractError("scanner crashed on %s: %r" % (rel, e))
    seen = {}
    for s in sites:
        base = "%s::%s::%s::%s" % (s["file"], s["fn"], s["kind"], s["snippet"])
        k = seen.get(base, 0)
        seen[base] = k + 1
        s["key"] = "%s#%d" % (base, k)
    if len(sites) < MIN_SITES:
        raise ExtractError("implausibly few panic-capable sites (%d < %d): scanner broken?" % (len(sites), MIN_SITES))
    return sites


# ----------------------------------------------------------------------------------------
# classification


def load_map():
    if tomllib is None:
        raise ExtractError("python tomllib not available")
    try:
        with open(MAP, "rb") as f:
            data = tomllib.load(f)
    except Exception as e:  # noqa
        raise ExtractError("cannot read %s: %r" % (MAP, e))
    classes = data.get("classes", {})
    rules = data.get("rule", [])
    entries = data.get("sites", {})
    if not classes:
        raise ExtractError("%s: no [classes]" % MAP)
    for i, r in enumerate(rules):
        for fld in ("class", "why"):
            if not r.get(fld):
                raise ExtractError("%s: rule #%d lacks `%s`" % (MAP, i, fld))
        if not any(r.get(x) for x in ("file", "fn", "snippet")):
            raise ExtractError("%s: rule #%d matches everything" % (MAP, i))
        for fld in ("file", "fn", "kind", "snippet"):
            if fld in r:
                try:
                    r["_" + fld] = re.compile(r[fld])
                except re.error as e:
                    raise ExtractError("%s: rule #%d: bad regex for %s: %s" % (MAP, i, fld, e))
        check_class(r["class"], classes, "rule #%d" % i)
        if "count" in r and not isinstance(r["count"], int):
            raise ExtractError("%s: rule #%d: count must be an integer" % (MAP, i))
    for k, v in entries.items():
        if not isinstance(v, dict) or not v.get("class") or not v.get("why"):
            raise ExtractError("%s: entry %r needs { class = .., why = .. }" % (MAP, k))
        check_class(v["class"], classes, "entry %r" % k)
    return classes, rules, entries


def check_class(c, classes, where):
    base = "proved" if c.startswith("proved:") else c
    if base not in classes:
        raise ExtractError("%s: %s uses the unknown class %r" % (MAP, where, c))


def rule_matches(r, s):
    for fld in ("file", "fn", "kind", "snippet"):
        rx = r.get("_" + fld)
        if rx is not None and not rx.fullmatch(s[fld]):
            return False
    return True


def classify(sites, rules, entries):
    """Sets s['class'], s['via'].  Returns (unmapped keys, stale: entries that name no site,
    rules that match no site or whose pinned `count` is off)."""
    used_rules = [0] * len(rules)
    keys = set()
    unmapped = []
    for s in sites:
        keys.add(s["key"])
        e = entries.get(s["key"])
        if e is not None:
            s["class"], s["via"] = e["class"], "entry"
            continue
        for i, r in enumerate(rules):
            if rule_matches(r, s):
                used_rules[i] += 1
                s["class"], s["via"] = r["class"], "rule %d" % i
                break
        else:
            s["class"], s["via"] = "UNMAPPED", "-"
            unmapped.append(s["key"])
    stale = ["entry " + k for k in entries if k not in keys]
    for i, r in enumerate(rules):
        label = "rule#%d[%s]" % (i, r.get("snippet") or r.get("fn") or r.get("file"))
        if used_rules[i] == 0:
            stale.append("dead " + label)
        elif "count" in r and r["count"] != used_rules[i]:
            stale.append("count %s: pinned %d, found %d" % (label, r["count"], used_rules[i]))
    return unmapped, stale


# ----------------------------------------------------------------------------------------
# rendering


def lean_str(s):
    out = []
    for ch in s:
        if ch == "\\":
            out.append("\\\\")
        elif ch == '"':
            out.append('\\"')
        elif ch == "\n":
            out.append("\\n")
        elif ch == "\t":
            out.append("\\t")
        elif ord(ch) < 32:
            out.append("\\x%02x" % ord(ch))
        else:
            out.append(ch)
    return '"' + "".join(out) + '"'


def render(sites, classes, stale, root_note):
    by_class = {}
    for s in sites:
        by_class[s["class"]] = by_class.get(s["class"], 0) + 1
    L = [
        "/-",
        "  GENERATED by tools/extract_panic_sites.py from %s -- do not edit." % root_note,
        "  Every panic-capable construct of rsjsonnet-lang/src, rsjsonnet-front/src, rsjsonnet/src",
        "  (without tests.rs, #[cfg(test)] items, gc/verif.rs): (key, class).",
        "  key = file::fn::kind::snippet#ordinal ; classes come from tools/panic_sites.toml:",
        "",
    ]
    for c, why in classes.items():
        L.append("    %-24s %s" % (c + ("<:Theorem>" if c == "proved" else ""), why.replace("-/", "- /")))
    L += [
        "",
        "  `UNMAPPED` = matched by no rule and no entry of the toml (not a class: the",
        "  obligation C01_panic_sites_all_classified of RsjProps/C01.lean then fails).",
        "-/",
        "namespace Rsj.PanicSites",
        "",
    ]
    chunks = [sites[i:i + CHUNK] for i in range(0, len(sites), CHUNK)]
    for ci, ch in enumerate(chunks):
        L.append("def sites%d : List (String × String) := [" % ci)
        L.append(",\n".join("  (%s, %s)" % (lean_str(s["key"]), lean_str(s["class"])) for s in ch))
        L.append("]")
        L.append("")
    L.append("/-- the table, in chunks of %d rows (so that each chunk can be `decide`d) -/" % CHUNK)
    L.append("def chunks : List (List (String × String)) := [%s]" % ", ".join("sites%d" % i for i in range(len(chunks))))
    L.append("")
    L.append("def sites : List (String × String) := chunks.flatten")
    L.append("")
    L.append("/-- entries of the toml that name no site, rules that match nothing, pinned counts that are off -/")
    L.append("def stale : List String := [%s]" % ", ".join(lean_str(x) for x in stale))
    L.append("")
    L.append("/-- number of rows -/")
    L.append("def total : Nat := %d" % len(sites))
    L.append("")
    L.append("end Rsj.PanicSites")
    return "\n".join(L) + "\n"


def main_write(root=None, out=None):
    """Regenerate PanicSites.lean; returns (sites, unmapped keys, stale entries / dead rules).
    Raises ExtractError when the sources or the toml cannot be read."""
    root = root or src_root()
    out = out or os.environ.get("RSJ_PANIC_SITES_OUT") or OUT
    note = "/repo" if os.path.abspath(root) == DEFAULT_ROOT else "a copy of /repo's sources"
    try:
        sites = extract(root)
        classes, rules, entries = load_map()
        unmapped, stale = classify(sites, rules, entries)
    except ExtractError as e:
        # never leave the previous table in place as if it still described the sources: the
        # table becomes one UNMAPPED row (the obligations of RsjProps/C01.lean then fail even
        # if the caller swallows the exception)
        poison = [{"key": "EXTRACTOR-FAILED", "class": "UNMAPPED"}]
        write_if_changed(out, render(poison, {}, ["extractor failed: %s" % e], note))
        raise
    text = render(sites, classes, stale, note)
    write_if_changed(out, text)
    return sites, unmapped, stale


def write_if_changed(out, text):
    old = None
    if os.path.exists(out):
        old = open(out, encoding="utf-8").read()
    if old != text:
        tmp = out + ".tmp%d" % os.getpid()
        with open(tmp, "w", encoding="utf-8") as f:
            f.write(text)
        os.replace(tmp, out)


def main(argv):
    try:
        if "--list" in argv:
            # raw inventory, no toml needed
            for s in extract():
                print("%s\t(line %d)" % (s["key"], s["line"]))
            return 0
        sites, unmapped, stale = main_write()
    except ExtractError as e:
        print("extract_panic_sites: FAILED:", e)
        return 2
    if "-v" in argv:
        for s in sites:
            print("%-28s %-8s %s  (line %d)" % (s["class"], s["via"], s["key"], s["line"]))
    counts = {}
    for s in sites:
        counts[s["class"]] = counts.get(s["class"], 0) + 1
    print("%d sites, %d unmapped, %d stale" % (len(sites), len(unmapped), len(stale)))
    for c in sorted(counts):
        print("  %-40s %d" % (c, counts[c]))
    for k in unmapped:
        print("UNMAPPED", k)
    for k in stale:
        print("STALE", k)
    return 1 if unmapped or stale else 0


if __name__ == "__main__":
    sys.exit(main(sys.argv[1:]))
