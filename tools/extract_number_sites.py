#!/usr/bin/env python3
"""List every place of /repo's evaluator that *constructs* a number value.

Scans rsjsonnet-lang/src/program/**/*.rs for `ValueData::Number` and keeps the
occurrences that are expressions (not patterns).  For each construction site it records

  file, enclosing fn, the argument expression (whitespace-normalised), an index among
  equal (file, fn, expr) triples, and `gated`: whether the *same function* applies
  `check_number_value(<expr>, ..)` / an `<expr>.is_finite()` test to the constructed
  expression before the construction (looked up between the start of the function -- or
  the start of the enclosing match arm -- and the site).

tools/number_sites.toml maps every key `file::fn::expr#k` to the name of a producer of
lean/RsjModel/Num.lean or to a justified class.  The generated
lean/RsjModel/NumberSites.lean contains the list (key, mapped, gated); RsjProps/C06.lean
proves by `decide` that every site is mapped to a known name and that every site mapped
to a producer that the model gates *at the site* is gated in the source.  A new site, a
removed gate or a vanished site therefore breaks the proof (the key is then mapped to
"UNMAPPED", or a stale key of the map is reported as an extractor failure).
"""
import os
import re
import sys

try:
    import tomllib
except ImportError:  # pragma: no cover
    tomllib = None

HERE = os.path.dirname(os.path.abspath(__file__))
SRC_ROOT = "/repo/rsjsonnet-lang/src/program"
MAP = os.path.join(HERE, "number_sites.toml")
OUT = os.path.join(HERE, "..", "lean", "RsjModel", "NumberSites.lean")


class ExtractError(Exception):
    pass


def rust_files():
    res = []
    for root, _, files in os.walk(SRC_ROOT):
        for f in sorted(files):
            if f.endswith(".rs"):
                res.append(os.path.join(root, f))
    return sorted(res)


def strip_comments(src):
    """Blank out // and /* */ comments and the contents of string literals (keeping
    offsets and newlines) so that brackets inside them do not confuse the scanner."""
    out = list(src)
    i, n = 0, len(src)
    while i < n:
        c = src[i]
        if src.startswith("//", i):
            while i < n and src[i] != "\n":
                out[i] = " "
                i += 1
        elif src.startswith("/*", i):
            depth = 0
            while i < n:
                if src.startswith("/*", i):
                    depth += 1
                    out[i] = out[i + 1] = " "
                    i += 2
                elif src.startswith("*/", i):
                    depth -= 1
                    out[i] = out[i + 1] = " "
                    i += 2
                    if depth == 0:
                        break
                else:
                    if src[i] != "\n":
                        out[i] = " "
                    i += 1
        elif c == '"':
            i += 1
            while i < n and src[i] != '"':
                if src[i] == "\\":
                    out[i] = " "
                    i += 1
                if i < n and src[i] != "\n":
                    out[i] = " "
                i += 1
            i += 1
        elif c == "'":
            # char literal or lifetime: 'x' | '\n' | '\u{..}' | 'p
            m = re.match(r"'(\\u\{[0-9a-fA-F]+\}|\\.|[^\\'])'", src[i:])
            if m:
                for k in range(i + 1, i + m.end() - 1):
                    out[k] = " "
                i += m.end()
            else:
                i += 1
        else:
            i += 1
    return "".join(out)


def matching_paren(s, i):
    """s[i] == '(' -> index of the matching ')'."""
    depth = 0
    for k in range(i, len(s)):
        if s[k] in "([{":
            depth += 1
        elif s[k] in ")]}":
            depth -= 1
            if depth == 0:
                return k
    raise ExtractError("unbalanced parenthesis")


def norm(e):
    return re.sub(r"\s+", " ", e.strip())


FN_RE = re.compile(r"\bfn\s+([A-Za-z0-9_]+)\s*[<(]")


def is_pattern(clean, start, end):
    """Is the occurrence clean[start:end] (`ValueData::Number(..)`) a pattern?"""
    ls = clean.rfind("\n", 0, start) + 1
    le = clean.find("\n", end)
    if le < 0:
        le = len(clean)
    before = clean[ls:start]
    after = clean[end:le]
    if re.search(r"\blet\s+(\(\s*)?$", before) or re.search(r"\bif\s+let\s+$", before):
        return True
    if re.search(r"matches!\([^;]*$", before):
        return True
    if "=>" not in before and "=>" in after:
        # `PAT => ...`, `(.., PAT, PAT) => ...`
        return True
    if "=>" not in before and re.match(r"^\s*\)?\s*=[^=>]", after):
        # `let (..PAT) = ...` spread over lines
        return True
    return False


def gate_region_start(clean, fn_start, site):
    """Start of the text in which a gate counts for the site: the innermost enclosing
    match arm (`=> {`) if there is one after the function start, else the function."""
    depth = 0
    k = site
    while k > fn_start:
        k -= 1
        ch = clean[k]
        if ch in ")]}":
            depth += 1
        elif ch in "([{":
            if depth == 0:
                if ch == "{" and re.search(r"=>\s*$", clean[fn_start:k]):
                    return k
            else:
                depth -= 1
    return fn_start


def extract():
    sites = []
    for path in rust_files():
        rel = os.path.relpath(path, SRC_ROOT)
        src = open(path, encoding="utf-8").read()
        clean = strip_comments(src)
        fns = []
        for fm in FN_RE.finditer(clean):
            # body = first `{` after the signature (a `;` first means a declaration only)
            k = fm.end()
            while k < len(clean) and clean[k] not in "{;":
                k += 1
            if k >= len(clean) or clean[k] == ";":
                continue
            fns.append((k, matching_paren(clean, k), fm.group(1)))
        for m in re.finditer(r"\bValueData::Number\b|\bSelf::Number(?=\()", clean):
            # (`Self::Number(..)` inside `impl ValueData`; the unit variants `Self::Number`
            #  of other enums have no argument list and are not matched)
            start = m.start()
            # skip the enum declaration / impls that are not expressions
            after = clean[m.end():m.end() + 1]
            fn_name, fn_start = "<top>", 0
            for bopen, bclose, name in fns:
                # innermost enclosing function body
                if bopen < start < bclose and bopen >= fn_start:
                    fn_name, fn_start = name, bopen
            if after == "(":
                close = matching_paren(clean, m.end())
                expr = norm(src[m.end() + 1:close])
                if is_pattern(clean, start, close + 1):
                    continue
            else:
                expr = "<fn-ref>"
                close = m.end()
            line = clean.count("\n", 0, start) + 1
            # gate detection
            rs = gate_region_start(clean, fn_start, start)
            region = clean[rs:start]
            e = re.escape(expr)
            gated = False
            if expr != "<fn-ref>":
                if re.search(r"check_number_value\(\s*" + e + r"\s*,", region):
                    gated = True
                elif re.search(r"!\s*" + e + r"\s*\.is_finite\(\)\s*\{\s*return\s+Err", region):
                    gated = True
                else:
                    # same-line guard: `.. if <expr>.is_finite() => Some(ValueData::Number(<expr>))`
                    ls = clean.rfind("\n", 0, start) + 1
                    if re.search(r"\bif\s+" + e + r"\.is_finite\(\)\s*=>", clean[ls:start]):
                        gated = True
            sites.append({"file": rel, "fn": fn_name, "expr": expr, "line": line, "gated": gated})
    # stable keys
    seen = {}
    for s in sites:
        base = "%s::%s::%s" % (s["file"], s["fn"], s["expr"])
        k = seen.get(base, 0)
        seen[base] = k + 1
        s["key"] = "%s#%d" % (base, k)
    if len(sites) < 20:
        raise ExtractError("implausibly few number construction sites (%d): scanner broken?" % len(sites))
    return sites


def extract_gate():
    """Arms of `check_number_value`: [(FpCategory, is_error, error kind)] in source order."""
    path = os.path.join(SRC_ROOT, "eval", "mod.rs")
    clean = strip_comments(open(path, encoding="utf-8").read())
    m = re.search(r"fn\s+check_number_value\s*\(", clean)
    if not m:
        raise ExtractError("fn check_number_value not found in eval/mod.rs")
    k = clean.index("{", m.end())
    body = clean[k:matching_paren(clean, k) + 1]
    if not re.search(r"match\s+value\.classify\(\)\s*\{", body):
        raise ExtractError("check_number_value does not `match value.classify()`")
    arms = []
    # split the match body into arms at top-level `=>`
    mb = body[body.index("{", body.index("classify")):]
    mb = mb[1:matching_paren(mb, 0)]
    depth, cur, parts = 0, "", []
    i = 0
    while i < len(mb):
        ch = mb[i]
        if ch in "([{":
            depth += 1
        elif ch in ")]}":
            depth -= 1
        if depth == 0 and ch == "," or (depth == 0 and ch == "}" ):
            cur += ch if ch == "}" else ""
            parts.append(cur)
            cur = ""
        else:
            cur += ch
        i += 1
    if cur.strip():
        parts.append(cur)
    for part in parts:
        if "=>" not in part:
            if part.strip():
                raise ExtractError("unparsed text in check_number_value: %r" % part.strip()[:60])
            continue
        pat, rhs = part.split("=>", 1)
        cats = re.findall(r"FpCategory::([A-Za-z]+)", pat)
        if not cats or re.sub(r"std::num::FpCategory::[A-Za-z]+|[\s|]", "", pat):
            raise ExtractError("unsupported pattern in check_number_value: %r" % norm(pat))
        rhs_n = norm(rhs)
        if re.fullmatch(r"Ok\(\(\)\)", rhs_n):
            kind = "ok"
        else:
            mk = re.search(r"Err\(self\.report_error\(EvalErrorKind::([A-Za-z]+)\s*\{", rhs_n)
            if not mk:
                raise ExtractError("unsupported arm body in check_number_value: %r" % rhs_n[:80])
            kind = mk.group(1)
        for c in cats:
            arms.append((c, kind))
    return arms


def load_map():
    if tomllib is None:
        raise ExtractError("python tomllib not available")
    try:
        with open(MAP, "rb") as f:
            data = tomllib.load(f)
    except Exception as e:  # noqa
        raise ExtractError("cannot read %s: %r" % (MAP, e))
    return data.get("sites", {})


def lean_str(s):
    return '"' + s.replace("\\", "\\\\").replace('"', '\\"') + '"'


def render(sites, mapping, arms=None):
    lines = [
        "/-",
        "  GENERATED by tools/extract_number_sites.py from /repo/rsjsonnet-lang/src/program -- do not edit.",
        "  Every construction site of a number value: (key, mapped producer / class, gated at the site).",
        "-/",
        "namespace Rsj.NumberSites",
        "",
        "structure Site where",
        "  key : String",
        "  mapped : String",
        "  gated : Bool",
        "",
        "def sites : List Site := [",
    ]
    items = []
    for s in sites:
        mapped = mapping.get(s["key"], "UNMAPPED")
        items.append("  { key := %s, mapped := %s, gated := %s }" % (
            lean_str(s["key"]), lean_str(mapped), "true" if s["gated"] else "false"))
    lines.append(",\n".join(items))
    lines.append("]")
    lines.append("")
    lines.append("/-- arms of `check_number_value` (`match value.classify()`): category -> outcome -/")
    lines.append("def gateArms : List (String × String) := [")
    lines.append(",\n".join("  (%s, %s)" % (lean_str(c), lean_str(k)) for c, k in (arms or [])))
    lines.append("]")
    lines.append("")
    lines.append("end Rsj.NumberSites")
    return "\n".join(lines) + "\n"


def main_write():
    """Regenerate NumberSites.lean; returns (sites, unmapped keys, stale keys)."""
    sites = extract()
    mapping = load_map()
    keys = {s["key"] for s in sites}
    unmapped = [s["key"] for s in sites if s["key"] not in mapping]
    stale = [k for k in mapping if k not in keys]
    text = render(sites, mapping, extract_gate())
    old = None
    if os.path.exists(OUT):
        old = open(OUT, encoding="utf-8").read()
    if old != text:
        tmp = OUT + ".tmp%d" % os.getpid()
        with open(tmp, "w", encoding="utf-8") as f:
            f.write(text)
        os.replace(tmp, OUT)
    return sites, unmapped, stale


if __name__ == "__main__":
    try:
        sites, unmapped, stale = main_write()
    except ExtractError as e:
        print("extract_number_sites: FAILED:", e)
        sys.exit(2)
    if "-v" in sys.argv:
        for s in sites:
            print("%-5s %s  (line %d)" % ("gated" if s["gated"] else "-", s["key"], s["line"]))
    print("%d sites, %d unmapped, %d stale map entries" % (len(sites), len(unmapped), len(stale)))
    for k in unmapped:
        print("UNMAPPED", k)
    for k in stale:
        print("STALE", k)
    sys.exit(1 if unmapped or stale else 0)
