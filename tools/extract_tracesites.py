#!/usr/bin/env python3
"""Derive the trace-site table of the evaluator from the Rust sources (property C10).

Reads   /repo/rsjsonnet-lang/src/program/eval/*.rs
Writes  /verif/lean/RsjModel/TraceSites.lean

Three generated definitions (namespace Rsj.TraceStack):

  traceSites : List (String x Code)
      One entry per Rust function that calls `push_trace_item` / `delay_trace_item` (or touches the
      counter primitives) directly, or that calls -- directly or through other functions -- such a
      function.  The big `match state { .. }` of `run` is split: every arm is its own entry
      `run/<pattern>` and `run` itself refers to the arms by `call`.  The `Code` of an entry is the
      push structure of the body in source order:
          P                push_trace_item(..)
          D                delay_trace_item()
          O                state_stack.push(..)                (any other state)
          call "f"         call of table function f  (`.f(`, `::f(` or bare `f(`)
          seq              statements in sequence
          alt              if / else if / else, match arms, `let .. else { }`  (all are followed;
                           alternatives without any push are merged into a single `skip`)
          star             body of for / while / loop, and body of a closure `|..| ..`
      In a comment each entry is also shown in the flat notation  P D O @f [ loop ] ( a | b ).
      `RsjProps/C10.lean` proves by `decide` that every entry satisfies the bracketing criterion
      `lo` (RsjModel/TraceStack.lean); `generate()` evaluates the same criterion in Python only to be
      able to *name* offending entries (returned under key "violations"); it never hides them.

  counterSites : List (String x String)
      Every place (function, what) in eval/*.rs that mentions the counter or the trace states other
      than through push_trace_item/delay_trace_item: the field `stack_trace_len`, calls of
      `inc_trace_len`/`dec_trace_len`, the tokens `State::TraceItem` / `DelayedTraceItem`, and every
      method of `state_stack` other than `push`.  C10.lean compares it with the expected list, so a
      new place that manipulates the counter or the stack breaks the build.

  primitiveBodies : List (String x String)
      Normalised token text of the bodies of push_trace_item, delay_trace_item, inc_trace_len,
      dec_trace_len, of the two trace arms of `run`, of the limit check at the end of the loop body
      of `run`, of the `match stack_item` of get_stack_trace and of the asserts at the end of `eval`.
      C10.lean compares them with the text the model TraceStack.lean was written against.

How the scan works (deliberately simple): the file is tokenised (comments, string/char literals and
lifetimes are recognised and dropped/neutralised), functions are found as `fn NAME ... { body }`, and a
body is parsed by brace matching with a handful of keywords:
    if / else if / else, `if let PAT = e`, let-chains     -> seq[cond, alt[then, else|skip]]
    match e { PAT (if guard)? => body, ... }              -> seq[e, alt[arms]]
    for PAT in e { } / while c { } / while let / loop { } -> seq[header, star[body]]
    let PAT = e else { .. };                              -> alt[else-block, skip]
    closures `|args| body` / `move |args| body` / `|| body`  -> star[body]   (only if the body has events)
    nested `fn`                                           -> separate entry `outer::inner`
    any other `{ .. }` (plain block, struct literal, unsafe) -> inline
    call arguments are scanned before the call's own event.
`return`, `?`, `break`, `continue` are ignored on purpose: they only cut a path short, and the
criterion is closed under cutting paths short (the Lean language `Lang` lets every loop iteration,
every callee and every function stop after any prefix).

What it does NOT understand (documented limits of the tie):
  * macros that hide control flow or pushes (none are used for pushes today; `matches!`, `assert!`,
    `unreachable!`, `vec!`, `format!` are scanned as ordinary token sequences);
  * pushes made through anything but the identifiers above (e.g. a renamed helper, a `Vec::extend`
    on state_stack -- the latter shows up in counterSites and breaks the build);
  * function pointers / trait objects: `State::FnFallible(Self::do_std_x)` is not a call; that is
    sound because *every* function is checked as a handler of its own (from balance 0);
  * calls are matched by bare name, across all files; two table functions with the same name are
    both admitted as callee (conservative);
  * match-arm guards or `if let`/`match` patterns containing events raise ExtractError;
  * an expression-bodied match arm is assumed to end at the next `,` at nesting depth 0 (rustfmt
    layout); a stray `=>` inside such a body raises ExtractError.
Any parse problem raises ExtractError (broken tie), it is never skipped silently.
"""
import glob
import os
import sys

HERE = os.path.dirname(os.path.abspath(__file__))
SRC_DIR = "/repo/rsjsonnet-lang/src/program/eval"
OUT = os.path.normpath(os.path.join(HERE, "..", "lean", "RsjModel", "TraceSites.lean"))


class ExtractError(Exception):
    pass


# ---------------------------------------------------------------------------------------------
# tokenizer

PUNCT3 = ("..=", "<<=", ">>=", "...")
PUNCT2 = ("=>", "::", "->", "||", "&&", "==", "!=", "<=", ">=", "..", "+=", "-=", "*=", "/=",
          "%=", "^=", "&=", "|=", "<<", ">>")


def tokenize(src, fname):
    toks = []
    i, n = 0, len(src)
    while i < n:
        c = src[i]
        if c.isspace():
            i += 1
            continue
        if src.startswith("//", i):
            j = src.find("\n", i)
            i = n if j < 0 else j
            continue
        if src.startswith("/*", i):
            depth, i = 1, i + 2
            while i < n and depth:
                if src.startswith("/*", i):
                    depth, i = depth + 1, i + 2
                elif src.startswith("*/", i):
                    depth, i = depth - 1, i + 2
                else:
                    i += 1
            if depth:
                raise ExtractError("%s: unterminated block comment" % fname)
            continue
        # raw strings r"..", r#".."#, br#".."#
        if c in "rb":
            j = i
            if src.startswith("br", j):
                j += 2
            elif c == "r":
                j += 1
            else:
                j = -1
            if j > 0:
                k = j
                while k < n and src[k] == "#":
                    k += 1
                if k < n and src[k] == '"' and (k > j or src[j] == '"'):
                    hashes = k - j
                    end = src.find('"' + "#" * hashes, k + 1)
                    if end < 0:
                        raise ExtractError("%s: unterminated raw string" % fname)
                    toks.append("STR")
                    i = end + 1 + hashes
                    continue
        if c == '"' or (c == "b" and i + 1 < n and src[i + 1] == '"'):
            i += 1 if c == '"' else 2
            while i < n and src[i] != '"':
                i += 2 if src[i] == "\\" else 1
            if i >= n:
                raise ExtractError("%s: unterminated string" % fname)
            toks.append("STR")
            i += 1
            continue
        if c == "'" or (c == "b" and i + 1 < n and src[i + 1] == "'"):
            j = i + (1 if c == "'" else 2)
            if j < n and src[j] == "\\":
                k = src.find("'", j + 2)
                if k < 0:
                    raise ExtractError("%s: unterminated char literal" % fname)
                toks.append("CHR")
                i = k + 1
                continue
            if j + 1 < n and src[j + 1] == "'":
                toks.append("CHR")
                i = j + 2
                continue
            # lifetime / label
            k = j
            while k < n and (src[k].isalnum() or src[k] == "_"):
                k += 1
            toks.append("LT")
            i = k
            continue
        if c.isalpha() or c == "_":
            j = i
            while j < n and (src[j].isalnum() or src[j] == "_"):
                j += 1
            toks.append(src[i:j])
            i = j
            continue
        if c.isdigit():
            j = i
            while j < n and (src[j].isalnum() or src[j] == "_" or
                             (src[j] == "." and j + 1 < n and src[j + 1].isdigit())):
                j += 1
            toks.append(src[i:j])
            i = j
            continue
        if src[i:i + 3] in PUNCT3:
            toks.append(src[i:i + 3])
            i += 3
            continue
        if src[i:i + 2] in PUNCT2:
            toks.append(src[i:i + 2])
            i += 2
            continue
        toks.append(c)
        i += 1
    return toks


OPEN = {"(": ")", "[": "]", "{": "}"}
CLOSE = {")", "]", "}"}


def match_close(toks, i, fname):
    """toks[i] is an opening bracket; index of the matching closing bracket."""
    stack = []
    j = i
    while j < len(toks):
        t = toks[j]
        if t in OPEN:
            stack.append(OPEN[t])
        elif t in CLOSE:
            if not stack or stack[-1] != t:
                raise ExtractError("%s: unbalanced bracket near token %d" % (fname, j))
            stack.pop()
            if not stack:
                return j
        j += 1
    raise ExtractError("%s: unclosed bracket at token %d" % (fname, i))


def find_depth0(toks, i, end, targets, braces_count=True):
    """first index in [i, end) of a token in `targets` at nesting depth 0 (of (), [] and -- if
    braces_count -- {}); with braces_count=False a `{` in targets is found at paren depth 0."""
    depth = 0
    j = i
    while j < end:
        t = toks[j]
        if depth == 0 and t in targets:
            return j
        if t in ("(", "[") or (t == "{" and braces_count):
            depth += 1
        elif t in (")", "]") or (t == "}" and braces_count):
            depth -= 1
            if depth < 0:
                return -1
        j += 1
    return -1


# ---------------------------------------------------------------------------------------------
# code trees: ("P",) ("D",) ("O",) ("call", f) ("prim", what) ("seq", [..]) ("alt", [..]) ("star", x)

SKIP = ("seq", [])


def mk_seq(xs):
    out = []
    for x in xs:
        if x[0] == "seq":
            out.extend(x[1])
        else:
            out.append(x)
    if len(out) == 1:
        return out[0]
    return ("seq", out)


def is_empty(x):
    return x[0] == "seq" and not x[1]


def mk_alt(xs):
    """alternatives; several event-free alternatives are merged into one `skip`"""
    if all(is_empty(x) for x in xs):
        return SKIP
    out, seen_empty = [], False
    for x in xs:
        if is_empty(x):
            if seen_empty:
                continue
            seen_empty = True
        out.append(x)
    return ("alt", out)


def mk_star(x):
    if is_empty(x):
        return SKIP
    return ("star", x)


def has_events(x, kinds=("P", "D", "prim", "call", "O")):
    if x[0] in ("P", "D", "O", "call", "prim"):
        return x[0] in kinds
    if x[0] in ("seq", "alt"):
        return any(has_events(y, kinds) for y in x[1])
    if x[0] == "star":
        return has_events(x[1], kinds)
    raise AssertionError(x)


PRIM_CALLS = ("inc_trace_len", "dec_trace_len")
CLOSURE_PREV = {"(", ",", "=", "move", "return", "=>", "{", ";", "[", None}
EXPR_END = {",", ")", ";", "]", "}"}


class Parser:
    def __init__(self, toks, fname, table_names):
        self.toks = toks
        self.fname = fname
        self.table_names = table_names
        self.functions = []        # (name, tree, (body_start, body_end))
        self.sites = []            # counter sites (function, what)
        self.fn_stack = []
        self.arm_bodies = {}       # run arms: name -> (start, end) token range

    def err(self, msg, i):
        ctx = " ".join(self.toks[max(0, i - 8): i + 8])
        raise ExtractError("%s: %s (near: %s)" % (self.fname, msg, ctx))

    def cur_fn(self):
        return "::".join(self.fn_stack) if self.fn_stack else "<top>"

    # -- top level ---------------------------------------------------------------------------
    def parse_file(self):
        i = 0
        toks = self.toks
        while i < len(toks):
            if toks[i] == "fn" and i + 1 < len(toks) and toks[i + 1] not in ("(", "<"):
                i = self.parse_fn(i)
            else:
                i += 1

    def parse_fn(self, i):
        """toks[i] == 'fn'; registers the function, returns index after its body (or after `;`)."""
        toks = self.toks
        name = toks[i + 1]
        j = i + 2
        if j < len(toks) and toks[j] == "<":
            depth = 0
            while j < len(toks):
                if toks[j] in ("<", "<<"):
                    depth += len(toks[j])
                elif toks[j] in (">", ">>"):
                    depth -= len(toks[j])
                    if depth == 0:
                        j += 1
                        break
                j += 1
        # generics skipped; find the parameter list
        k = find_depth0(toks, j, len(toks), {"("})
        if k < 0:
            self.err("fn %s: no parameter list" % name, i)
        pe = match_close(toks, k, self.fname)
        b = find_depth0(toks, pe + 1, len(toks), {"{", ";"}, braces_count=False)
        if b < 0:
            self.err("fn %s: no body" % name, i)
        if toks[b] == ";":
            return b + 1
        be = match_close(toks, b, self.fname)
        self.fn_stack.append(name)
        full = self.cur_fn()
        tree = self.parse_seq(b + 1, be)
        self.fn_stack.pop()
        self.functions.append((full, tree, (b + 1, be)))
        return be + 1

    # -- statements --------------------------------------------------------------------------
    def parse_seq(self, i, end):
        toks = self.toks
        out = []
        while i < end:
            t = toks[i]
            prev = toks[i - 1] if i > 0 else None
            nxt = toks[i + 1] if i + 1 < end else None
            if t == "fn" and nxt not in ("(", "<", None) and prev != "::":
                i = self.parse_fn(i)
            elif t == "if":
                node, i = self.parse_if(i, end)
                out.append(node)
            elif t == "match":
                node, i = self.parse_match(i, end)
                out.append(node)
            elif t in ("while", "loop") or (t == "for" and nxt != "<"):
                node, i = self.parse_loop(i, end)
                out.append(node)
            elif t == "else":
                # `let PAT = e else { diverging }` (the `else` of an `if` is consumed by parse_if)
                if nxt != "{":
                    self.err("unexpected `else`", i)
                be = match_close(toks, i + 1, self.fname)
                body = self.parse_seq(i + 2, be)
                out.append(mk_alt([body, SKIP]))
                i = be + 1
            elif t == "{":
                be = match_close(toks, i, self.fname)
                out.append(self.parse_seq(i + 1, be))
                i = be + 1
            elif t in ("|", "||") and prev in CLOSURE_PREV:
                node, i = self.parse_closure(i, end)
                out.append(node)
            elif nxt == "(" and (t[0].isalpha() or t[0] == "_") and t not in ("STR", "CHR", "NUM", "LT"):
                pe = match_close(toks, i + 1, self.fname)
                args = self.parse_seq(i + 2, pe)
                out.append(args)
                ev = self.call_event(t, i)
                if ev is not None:
                    out.append(ev)
                i = pe + 1
            else:
                self.note_site(i, end)
                i += 1
        return mk_seq(out)

    def note_site(self, i, end):
        toks = self.toks
        t = toks[i]
        if t == "stack_trace_len":
            self.sites.append((self.cur_fn(), "stack_trace_len"))
        elif t == "DelayedTraceItem":
            self.sites.append((self.cur_fn(), "State::DelayedTraceItem"))
        elif t == "state_stack" and i + 2 < len(toks) and toks[i + 1] == "." and toks[i + 2] != "push":
            self.sites.append((self.cur_fn(), "state_stack." + toks[i + 2]))

    def call_event(self, name, i):
        toks = self.toks
        prev = toks[i - 1] if i > 0 else None
        if name == "push_trace_item":
            return ("P",)
        if name == "delay_trace_item":
            return ("D",)
        if name in PRIM_CALLS:
            self.sites.append((self.cur_fn(), name + "()"))
            return ("prim", name)
        if name == "push" and prev == "." and i >= 2 and toks[i - 2] == "state_stack":
            return ("O",)
        if name == "TraceItem" and prev == "::" and i >= 2 and toks[i - 2] == "State":
            self.sites.append((self.cur_fn(), "State::TraceItem"))
            return None
        if name in self.table_names and prev != "fn":
            return ("call", name)
        return None

    def skip_pattern(self, i, end, stop):
        """skip a pattern starting at i up to the token `stop` at depth 0; patterns have no events."""
        j = find_depth0(self.toks, i, end, {stop})
        if j < 0:
            self.err("pattern without `%s`" % stop, i)
        for k in range(i, j):
            if self.toks[k] in ("push_trace_item", "delay_trace_item") + PRIM_CALLS:
                self.err("event inside a pattern", k)
            self.note_site_pattern(k)
        return j

    def note_site_pattern(self, k):
        toks = self.toks
        if toks[k] == "DelayedTraceItem":
            self.sites.append((self.cur_fn(), "State::DelayedTraceItem"))
        elif toks[k] == "TraceItem" and k >= 2 and toks[k - 1] == "::" and toks[k - 2] == "State":
            self.sites.append((self.cur_fn(), "State::TraceItem"))

    def parse_cond(self, i, end):
        """condition of if/while starting at i: returns (tree, index of the `{` of the block)."""
        toks = self.toks
        parts = []
        j = i
        seg = i
        depth = 0
        while j < end:
            t = toks[j]
            if depth == 0 and t == "let":
                parts.append(self.parse_seq(seg, j))
                j = self.skip_pattern(j + 1, end, "=") + 1
                seg = j
                continue
            if depth == 0 and t == "{":
                parts.append(self.parse_seq(seg, j))
                return mk_seq(parts), j
            if t in ("(", "["):
                depth += 1
            elif t in (")", "]"):
                depth -= 1
            elif t == "{":
                # brace inside parentheses (closure body / struct literal in a call argument)
                j = match_close(toks, j, self.fname)
            j += 1
        self.err("condition without block", i)

    def parse_if(self, i, end):
        toks = self.toks
        cond, b = self.parse_cond(i + 1, end)
        be = match_close(toks, b, self.fname)
        then = self.parse_seq(b + 1, be)
        j = be + 1
        if j < end and toks[j] == "else":
            if j + 1 < end and toks[j + 1] == "if":
                els, j = self.parse_if(j + 1, end)
            elif j + 1 < end and toks[j + 1] == "{":
                ee = match_close(toks, j + 1, self.fname)
                els = self.parse_seq(j + 2, ee)
                j = ee + 1
            else:
                self.err("`else` without block", j)
        else:
            els = SKIP
        return mk_seq([cond, mk_alt([then, els])]), j

    def parse_loop(self, i, end):
        toks = self.toks
        t = toks[i]
        if t == "loop":
            if toks[i + 1] != "{":
                self.err("`loop` without block", i)
            header, b = SKIP, i + 1
        elif t == "while":
            header, b = self.parse_cond(i + 1, end)
        else:
            k = self.skip_pattern(i + 1, end, "in")
            header, b = self.parse_cond(k + 1, end)
        be = match_close(toks, b, self.fname)
        body = self.parse_seq(b + 1, be)
        if t == "while":
            node = mk_seq([mk_star(mk_seq([header, body])), header])
        else:
            node = mk_seq([header, mk_star(body)])
        return node, be + 1

    def parse_closure(self, i, end):
        toks = self.toks
        if toks[i] == "||":
            j = i + 1
        else:
            j = i + 1
            while j < end and toks[j] != "|":
                j += 1
            if j >= end:
                self.err("closure parameter list not closed", i)
            j += 1
        if j < end and toks[j] == "->":
            b = find_depth0(toks, j, end, {"{"}, braces_count=False)
            if b < 0:
                self.err("closure with return type but no block", i)
            j = b
        if j < end and toks[j] == "{":
            be = match_close(toks, j, self.fname)
            body = self.parse_seq(j + 1, be)
            return mk_star(body) if has_events(body, ("P", "D", "prim", "call")) else SKIP, be + 1
        k = find_depth0(toks, j, end, EXPR_END)
        if k < 0:
            k = end
        body = self.parse_seq(j, k)
        return mk_star(body) if has_events(body, ("P", "D", "prim", "call")) else SKIP, k

    def parse_match(self, i, end):
        toks = self.toks
        b = find_depth0(toks, i + 1, end, {"{"}, braces_count=False)
        if b < 0:
            self.err("`match` without block", i)
        scrut = self.parse_seq(i + 1, b)
        be = match_close(toks, b, self.fname)
        split_run = (self.fn_stack == ["run"] and toks[i + 1:b] == ["state"])
        arms = []
        p = b + 1
        while p < be:
            q = find_depth0(toks, p, be, {"=>"})
            if q < 0:
                self.err("match arm without `=>`", p)
            g = find_depth0(toks, p, q, {"if"})
            pat_end = q if g < 0 else g
            for k in range(p, pat_end):
                if toks[k] in ("push_trace_item", "delay_trace_item") + PRIM_CALLS:
                    self.err("event inside a pattern", k)
                self.note_site_pattern(k)
            if g >= 0:
                guard = self.parse_seq(g + 1, q)
                if has_events(guard, ("P", "D", "prim", "call")):
                    self.err("match guard with events", g)
            if q + 1 < be and toks[q + 1] == "{":
                ae = match_close(toks, q + 1, self.fname)
                bs, bnd = q + 2, ae
                nxt = ae + 1
                # `{ .. }.method()` style bodies are not used; a block body ends the arm
                if nxt < be and toks[nxt] == ",":
                    nxt += 1
                elif nxt < be and toks[nxt] in (".", "?"):
                    k = find_depth0(toks, nxt, be, {","})
                    k = be if k < 0 else k
                    bnd2 = k
                    bs, bnd, nxt = q + 1, bnd2, min(k + 1, be)
            else:
                k = find_depth0(toks, q + 1, be, {","})
                if k < 0:
                    k = be
                bs, bnd, nxt = q + 1, k, min(k + 1, be)
                if find_depth0(toks, bs, bnd, {"=>"}) >= 0:
                    self.err("expression-bodied match arm swallows the next arm", q)
            if split_run:
                name = "run/" + "".join(self.pattern_name(p, pat_end))
                save = self.fn_stack
                self.fn_stack = [name]
                body = self.parse_seq(bs, bnd)
                self.fn_stack = save
                self.functions.append((name, body, (bs, bnd)))
                arms.append(("call", name))
            else:
                arms.append(self.parse_seq(bs, bnd))
            p = nxt
        return mk_seq([scrut, mk_alt(arms) if not split_run else ("alt", arms)]), be + 1

    def pattern_name(self, p, e):
        out = []
        for k in range(p, e):
            if self.toks[k] in ("{", "("):
                break
            out.append(self.toks[k])
        return out


# ---------------------------------------------------------------------------------------------
# criterion (mirror of `lo` in RsjModel/TraceStack.lean), only used to name offenders

def prune(x, known):
    """calls of functions that are not table entries (run arms without events) become skip"""
    k = x[0]
    if k == "call":
        return x if x[1] in known else SKIP
    if k in ("seq", "alt"):
        ys = [prune(y, known) for y in x[1]]
        return mk_seq(ys) if k == "seq" else mk_alt(ys)
    if k == "star":
        return mk_star(prune(x[1], known))
    return x


def lo(x, b):
    k = x[0]
    if k in ("O", "call", "prim"):
        return b
    if k == "P":
        return b + 1
    if k == "D":
        return None if b == 0 else b - 1
    if k == "seq":
        for y in x[1]:
            b = lo(y, b)
            if b is None:
                return None
        return b
    if k == "alt":
        rs = [lo(y, b) for y in x[1]]
        return None if any(r is None for r in rs) else min(rs)
    if k == "star":
        return None if lo(x[1], 0) is None else b
    raise AssertionError(x)


def flat(x):
    k = x[0]
    if k in ("P", "D", "O"):
        return k
    if k == "prim":
        return "#" + x[1]
    if k == "call":
        return "@" + x[1]
    if k == "seq":
        return " ".join(flat(y) for y in x[1]) if x[1] else "."
    if k == "alt":
        return "( " + " | ".join(flat(y) for y in x[1]) + " )"
    if k == "star":
        return "[ " + flat(x[1]) + " ]"
    raise AssertionError(x)


def lean(x):
    k = x[0]
    if k in ("P", "D", "O"):
        return "." + k
    if k == "prim":
        return ".skip"
    if k == "call":
        return '.call "%s"' % x[1]
    if k == "seq":
        if not x[1]:
            return ".skip"
        return "seqs [" + ", ".join(lean(y) for y in x[1]) + "]"
    if k == "alt":
        return "alts [" + ", ".join(lean(y) for y in x[1]) + "]"
    if k == "star":
        return ".star (" + lean(x[1]) + ")"
    raise AssertionError(x)


# ---------------------------------------------------------------------------------------------

PRIMITIVE_DEFS = ("push_trace_item", "delay_trace_item", "inc_trace_len", "dec_trace_len")
PRIMITIVE_FNS = ("push_trace_item", "delay_trace_item", "inc_trace_len", "dec_trace_len",
                 "run/State::TraceItem", "run/State::DelayedTraceItem")


def parse_all(files, table_names):
    res = []
    for path, toks in files:
        p = Parser(toks, os.path.basename(path), table_names)
        p.parse_file()
        res.append((path, p))
    return res


def find_sub(toks, lo_, hi, pat):
    for i in range(lo_, hi - len(pat) + 1):
        if toks[i:i + len(pat)] == pat:
            return i
    return -1


def extract(src_dir=SRC_DIR):
    paths = sorted(glob.glob(os.path.join(src_dir, "*.rs")))
    if not paths:
        raise ExtractError("no sources in %s" % src_dir)
    files = []
    for path in paths:
        with open(path, encoding="utf-8") as f:
            files.append((path, tokenize(f.read(), os.path.basename(path))))

    # fixed point: functions with direct events, then everything that calls into them
    names = set()
    for _ in range(50):
        parsed = parse_all(files, names)
        new = set()
        for _, p in parsed:
            for name, tree, _ in p.functions:
                if has_events(tree, ("P", "D", "prim", "call")):
                    new.add(name.split("::")[-1] if not name.startswith("run/") else name)
        if new == names:
            break
        names = new
    else:
        raise ExtractError("call-graph closure did not converge")

    entries = []
    sites = []
    prims = {}
    for path, p in parsed:
        base = os.path.basename(path)
        order = sorted(p.functions, key=lambda f: f[2][0])
        for name, tree, (bs, be) in order:
            if has_events(tree, ("P", "D", "prim", "call")) and name not in PRIMITIVE_DEFS:
                entries.append((name, base, tree))
            if name in PRIMITIVE_FNS:
                if name in prims:
                    raise ExtractError("two definitions of %s" % name)
                prims[name] = " ".join(p.toks[bs:be])
            if name == "run":
                pat = ["if", "self", ".", "stack_trace_len"]
                k = find_sub(p.toks, bs, be, pat)
                if k < 0:
                    raise ExtractError("run: limit check `if self.stack_trace_len ..` not found")
                b = find_depth0(p.toks, k, be, {"{"}, braces_count=False)
                e = match_close(p.toks, b, p.fname)
                if find_sub(p.toks, k + 1, be, pat) >= 0:
                    raise ExtractError("run: more than one limit check")
                prims["run/limit-check"] = " ".join(p.toks[k:e + 1])
                # shape of the loop: everything of the body of `run` except the arms of
                # `match state { .. }` (so: the pop, the match, the check right after it, the rest)
                m = find_sub(p.toks, bs, be, ["match", "state", "{"])
                if m < 0:
                    raise ExtractError("run: `match state {` not found")
                me = match_close(p.toks, m + 2, p.fname)
                prims["run/loop-shape"] = " ".join(
                    p.toks[bs:m + 3]) + " ... " + " ".join(p.toks[me:be])
            if name == "get_stack_trace":
                k = find_sub(p.toks, bs, be, ["match", "stack_item"])
                if k < 0:
                    raise ExtractError("get_stack_trace: `match stack_item` not found")
                b = find_depth0(p.toks, k, be, {"{"}, braces_count=False)
                e = match_close(p.toks, b, p.fname)
                prims["get_stack_trace/loop"] = " ".join(
                    p.toks[bs:find_sub(p.toks, bs, be, ["fn", "conv_trace_item"])]) \
                    + " ... " + " ".join(p.toks[k:be])
            if name == "eval":
                k = find_sub(p.toks, bs, be, ["assert_eq", "!", "(", "this", ".", "stack_trace_len"])
                if k < 0:
                    raise ExtractError("eval: final assert_eq!(this.stack_trace_len, 0) not found")
                e = find_depth0(p.toks, k, be, {";"})
                prims["eval/final-assert"] = " ".join(p.toks[k:e + 1])
        sites.extend(p.sites)

    for need in PRIMITIVE_FNS + ("run/limit-check", "run/loop-shape", "get_stack_trace/loop",
                                 "eval/final-assert"):
        if need not in prims:
            raise ExtractError("primitive %s not found in the sources" % need)
    if not any(has_events(t, ("P",)) for _, _, t in entries) or \
            not any(has_events(t, ("D",)) for _, _, t in entries):
        raise ExtractError("no push_trace_item / delay_trace_item call found at all")
    if "run" not in [n for n, _, _ in entries]:
        raise ExtractError("function `run` not found")
    n_arms = sum(1 for _, p in parsed for f in p.functions if f[0].startswith("run/"))
    if n_arms < 50:
        raise ExtractError("`match state` of `run` could not be split into arms")

    # compress counter sites: (function, what) with multiplicity, in source order
    sites_c = []
    for s in sites:
        if sites_c and sites_c[-1][0] == s:
            sites_c[-1][1] += 1
        else:
            sites_c.append([s, 1])
    sites_out = [(f, w if c == 1 else "%s x%d" % (w, c)) for (f, w), c in sites_c]

    known = set(n for n, _, _ in entries)
    entries = [(n, b, prune(t, known)) for n, b, t in entries]
    violations = [n for n, _, t in entries if lo(t, 0) is None]
    prim_out = [(k, prims[k]) for k in sorted(prims)]
    return entries, sites_out, prim_out, violations


def lean_str(s):
    return '"' + s.replace("\\", "\\\\").replace('"', '\\"') + '"'


def render(entries, sites, prims):
    out = []
    out.append("/-")
    out.append("  GENERATED by /verif/tools/extract_tracesites.py from")
    out.append("  /repo/rsjsonnet-lang/src/program/eval/*.rs (regenerated by checks/c10.py; do not edit).")
    out.append("  See the doc comment of the extractor for what the entries mean and what the scan does")
    out.append("  not understand.  Flat notation in the comments: P D O @callee [ loop ] ( alt | alt ).")
    out.append("-/")
    out.append("import RsjModel.TraceStack")
    out.append("namespace Rsj.TraceStack")
    out.append("open Code in")
    out.append("def traceSites : List (String × Code) := [")
    for idx, (name, base, tree) in enumerate(entries):
        comma = "," if idx + 1 < len(entries) else ""
        out.append("  -- %s  %s :  %s" % (base, name, flat(tree)))
        out.append("  (%s, %s)%s" % (lean_str(name), lean(tree), comma))
    out.append("]")
    out.append("")
    out.append("def counterSites : List (String × String) := [")
    for idx, (f, w) in enumerate(sites):
        comma = "," if idx + 1 < len(sites) else ""
        out.append("  (%s, %s)%s" % (lean_str(f), lean_str(w), comma))
    out.append("]")
    out.append("")
    out.append("def primitiveBodies : List (String × String) := [")
    for idx, (k, v) in enumerate(prims):
        comma = "," if idx + 1 < len(prims) else ""
        out.append("  (%s,\n   %s)%s" % (lean_str(k), lean_str(v), comma))
    out.append("]")
    out.append("")
    out.append("end Rsj.TraceStack")
    return "\n".join(out) + "\n"


def generate(src_dir=SRC_DIR, out_path=OUT):
    """(Re)write lean/RsjModel/TraceSites.lean from the current sources.
    Raises ExtractError if the sources can no longer be parsed.  Returns a summary dict."""
    entries, sites, prims, violations = extract(src_dir)
    text = render(entries, sites, prims)
    old = None
    if os.path.exists(out_path):
        with open(out_path, encoding="utf-8") as f:
            old = f.read()
    if old != text:
        tmp = out_path + ".tmp%d" % os.getpid()
        with open(tmp, "w", encoding="utf-8") as f:
            f.write(text)
        os.replace(tmp, out_path)
    n_p = sum(flat(t).split().count("P") for _, _, t in entries)
    n_d = sum(flat(t).split().count("D") for _, _, t in entries)
    return {"entries": len(entries), "push_sites": n_p, "delay_sites": n_d,
            "counter_sites": len(sites), "violations": violations, "changed": old != text,
            "out": out_path}


if __name__ == "__main__":
    try:
        info = generate(*(sys.argv[1:3]))
    except ExtractError as e:
        print("extract_tracesites: cannot parse the sources: %s" % e, file=sys.stderr)
        sys.exit(2)
    print("extract_tracesites: %(entries)d entries, %(push_sites)d push sites, %(delay_sites)d delay "
          "sites, %(counter_sites)d counter sites, changed=%(changed)s -> %(out)s" % info)
    if info["violations"]:
        print("entries violating the bracketing criterion (the Lean build will fail): %s"
              % ", ".join(info["violations"]))
        sys.exit(1)
