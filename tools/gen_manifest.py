#!/usr/bin/env python3
"""Regenerate /verif/MANIFEST.json from the table below (kept valid at all times)."""
import json, os, subprocess
V = os.path.dirname(os.path.dirname(os.path.abspath(__file__)))
props = [json.loads(l) for l in open(os.path.join(V, "properties.jsonl"))]

# id -> (level text, level note, technique, design_ref)
CLAIMED = {
 "C16": ("Lean 4 theorems over the SpanManager model (round trip on both encodings for any number/size of contexts, stability under later registrations, idempotence, accepted registrations are in range), the --max-trace cropping arithmetic (slices in range, disjoint, exactly max-trace items for every size) and line/column bounds; tied to span.rs by a differential run of registration scripts with lengths to 2^40. Every span of every error and stack-trace entry of generated failing programs (lexical, syntactic, static, run-time, in imported files, multi-byte/CRLF/tab lines) is checked to lie inside its file, and the real CLI report (plain and coloured, all crop sizes) must exit 1 and name file:line:col of a span of the error; sourceannot's rendering itself is outside the model (partial).",
         "Lean kernel + propext/Classical.choice/Quot.sound; model hand-written, tie = differential scripts + direct oracle; u64 arithmetic modelled in Nat (sum of lengths < 2^63); binary_search_by_key by contract.",
         "Lean 4 proof (invariant over API operation sequences) + model/implementation correspondence", "DESIGN.md §5 C16"),
}
CLAIMED.update({
 "C02": ("Lean 4 evaluator model of the core language (store-passing call-by-need interpreter with thunk states, environments, object layers, argument binding, per-step trace depth) with kernel-checked theorems: fuel monotonicity and determinism of outcomes (via monotonicity of one evaluator level in the flat order, proved compositionally), and the specification's desugaring equations as equalities of outcomes; tied to the code by a differential run of generated programs (value / error kind+message / std.trace sequence) and by the same equations and parenthesisation-invariance checked directly on the implementation. Partial: 'model = specification' is trusted reading, not a theorem (C02_core_semantics_full).",
         "Lean kernel + propext/Classical.choice/Quot.sound; Lean Float stands for IEEE binary64; model hand-written from the spec in the shape of eval/*.rs; unsupported model corners (float formatting, fmod range, %, import) skipped and counted.",
         "Lean 4 proof (order-theoretic monotonicity, definitional desugaring laws) + model/implementation correspondence", "DESIGN.md §5 C02"),
 "C07": ("Lean 4 theorems over the object-layer model (associativity and identities of extension observed through lookup/visibility/order/values, self/super resolution, visibility merge rules, agreement of the five existence views, exactness of objectRemoveKey incl. values of fields that do not read the removed key), tied to data.rs by generated object chains in every bracketing evaluated by implementation and model, plus implementation-only oracles (assoc, identity, views agree, removeKey exact).",
         "Lean kernel + standard axioms; model hand-written (per-name fold equivalent to the BTreeMap fold: assumption, differentially tested); asserts outside the model.",
         "Lean 4 proof (structural induction over layer lists) + correspondence + direct algebraic oracles", "DESIGN.md §5 C07"),
 "C09": ("Lean 4 model of analyze.rs (traversal order, first error) proved equivalent to a declarative well-scopedness predicate for every syntax tree and environment (mutual structural induction): accepted iff well scoped, dead code included; tied to the code by fault injection at every node kind (expected error kind+name known by construction) and by evaluating accepted programs under catch_unwind (no unbound-variable/self/$ panic).",
         "Lean kernel + propext/Quot.sound; model hand-written; spans not compared (C16).",
         "Lean 4 proof (analyze = ok iff WellScoped) + correspondence + fault injection", "DESIGN.md §5 C09"),
 "C18": ("Lean 4 theorems over a code-point/byte-offset model of the string builtins (length, index, slice, substr, findSubstr bookkeeping, split/splitLimit/splitLimitR, join, strip, replace, char/codepoint, reverse, map/flatMap, field padding), tied to stdlib.rs/expr.rs by generated mixed-width strings through implementation and model and by Python str as independent oracle.",
         "Lean kernel + standard axioms; Rust std str primitives modelled from their documented contracts; strings < usize::MAX chars.",
         "Lean 4 proof + correspondence + Python reference oracle", "DESIGN.md §5 C18"),
 "C08": ("Lean 4 theorems: the equality and ordering state machines of the evaluator (explicit state/value/bool/ordering stacks, early exits) refine the declarative structural equality and lexicographic comparison with balanced stacks; on the specifications: reflexivity, symmetry, transitivity, != is the negation, == iff same JSON value, compare swap/transitivity/trichotomy, derived <= >= __compare __compare_array, unordered kinds are errors, UTF-8 byte order = code-point order; tied to eval/mod.rs by pairs/triples of generated values through all nine operations on implementation and model, with Python comparison of decoded values as independent oracle.",
         "Lean kernel + standard axioms; model numbers are integers (fractions checked on the implementation only); compared objects have no asserts/self/super; a thunk is a value or a failure.",
         "Lean 4 proof (machine refinement + order laws) + correspondence + Python reference oracle", "DESIGN.md §5 C08"),
 "C05": ("Lean 4 theorems over the manifestation model: the JSON escaper emits only RFC 8259 string characters and is inverted by the JSON string lexer, the escape table extracted from manifest.rs on every run covers all control characters and equals the model, parseJson(manifest fmt v) = v for every whitespace-format (default output, toString, minified, manifestJson(Ex)) and every value with valid number tokens and distinct keys, emitted keys are the visible fields strictly sorted, TOML bare-key safety; YAML plain-key safety partial (the full YAML-1.2 statement is proved false with witness key 1e3, recorded). Tied to manifest.rs/parse_json.rs byte-for-byte through implementation and model, with Python json (strict), ast.literal_eval, tomllib and PyYAML/std.parseYaml as independent decoders.",
         "Lean kernel + standard axioms; f64 Display/parse are opaque number tokens (validated, not proved); TOML table writer and YAML emitter checked by oracle only.",
         "Lean 4 proof (round trip by structural induction, decide over extracted table) + correspondence + foreign-parser oracles", "DESIGN.md §5 C05"),
 "C14": ("Lean 4 theorems over a literal model of the lexer: tokens tile the input up to an EOF token, a failure is one error with a span inside the input, no unwrap/slice site is reachable and fuel never runs out, dropping trivia commutes with lexing, UTF-8 continuation decoding equals one step of lossy decoding (maximal subpart rule), string/verbatim/escape/surrogate values, number tokens denote the literal's exact rational, text-block stripping (partial: CRLF forms and the acceptance direction open). Tied to lexer/mod.rs by ~80k byte strings per quick run (operator clusters exhaustively, corpus mutations, invalid UTF-8 classes) with tokens, payloads and spans compared, plus independent Python oracles for tiling, lossy decoding, escapes and number values.",
         "Lean kernel + standard axioms; model hand-written statement by statement; C14_textblock_strip_full and C14_string_value_full kept as unproved defs.",
         "Lean 4 proof (invariants over the cursor, structural induction) + correspondence + Python reference oracles", "DESIGN.md §5 C14"),
 "C17": ("Lean 4 theorems over a literal model of the sort/set state machines, for every length, every threshold >= 1 and every lawful key order: sort is a stable sorted permutation (hence unique and threshold-independent), uniq/set specifications, union/intersection/difference/membership by key on strictly sorted inputs with the tie side, binary search total and correct, first minimal/maximal element. Tied to stdlib.rs by arrays of every length 0..200 with many duplicates (threshold extracted from the source) through implementation and model and by Python's stable sort and set definitions as independent oracle.",
         "Lean kernel + standard axioms; keys are integers in the model driver (theorems are over an abstract lawful order); comparison machine is C08's business.",
         "Lean 4 proof + correspondence + Python reference oracle", "DESIGN.md §5 C17"),
 "C01": ("Whole-pipeline crash freedom: kernel-checked no-panic theorems of the component models (lexer totality, span interning, radix/format/slice/search guards, trace-counter balance; restated in RsjProps/C01.lean) plus, on the implementation, exhaustive-by-construction fault hunting: random/mutated byte strings and generated programs as source, every member of std (listed by the implementation itself) on a grid of boundary arguments of every type, operators/slices/format on the same grid — all in-process under catch_unwind with overflow checks and debug assertions on — and the real CLI (exit status in {0,1,2}, no signal, no panic text) incl. ext-var/TLA bindings and nesting-depth probes. Partial: the evaluator's explicit stacks are modelled as a recursive interpreter (balance covered by correspondence), native-stack exhaustion of the recursive parser/analyzer is a known finding, allocator exhaustion is out of scope.",
         "Lean kernel + standard axioms for the component theorems; the builtin grid and byte-string hunt are testing (they validate and search, they are not the proof); address space capped at 6 GiB, allocation failures and time-outs recorded separately.",
         "Lean 4 proof (component no-panic theorems) + whole-pipeline differential/fault search", "DESIGN.md §5 C01"),
 "C20": ("Lean 4 theorems for every input: base64 round trip, canonical form and exact acceptance set (RFC 4648), radix parsing = round-to-nearest-even of the exact integer for every length (sticky-bit lemma) with exact errors and no panic, UTF-8 encode/lossy-decode round trip and maximal-subpart specification, inverses of the bash/dollars/xml/json escapers, hex strings, parseJson inverts the escaper and never accepts duplicate keys (exact RFC 8259 acceptance: partial, validated against Python json); tied to the code through implementation and model on digit strings to 400 digits with a non-digit at every position, all scalar values, invalid UTF-8, mutated JSON/YAML documents; Python int/json/base64/codecs/hashlib as independent oracles; std.parseYaml totality and YAML=JSON agreement by the differential run only.",
         "Lean kernel + standard axioms; digests, str::parse::<f64>, u128->f64, from_utf8_lossy and the saphyr YAML scanner are trusted/opaque; parseJson rejects lone-surrogate escapes and 1e999 by design (recorded assumption).",
         "Lean 4 proof + correspondence + Python reference oracles", "DESIGN.md §5 C20"),
 "C03": ("Lean 4 theorems about the literal executable model of GcContext::gc (count / mark / sweep with the Vec order, direct destruction releasing out-edges, mark stack), for heaps of any size: survivors = objects reachable from external handles or views (both inclusions, so cyclic garbage dies and nothing reachable is reclaimed), survivors are reset, idempotence, return to baseline, scripts never hit 'destroyed object', inserting collections anywhere in a heap script changes no other answer; the GcTrace field-coverage table is regenerated from data.rs on every run and proved complete by decide. Tied to gc/mod.rs by heap scripts (exhaustive small shapes in thorough) through the verif-hooks driver vs the model, with a Python reachability oracle; schedule invisibility for real programs (collection period 0/1/2/3/7/default/random via the hook) and baseline object counts are checked on the implementation.",
         "Lean kernel + standard axioms; evaluator-level invisibility is validated by the schedule sweep, not proved (the scripted mutator is proved); hooks: cargo feature verif-hooks.",
         "Lean 4 proof (phase invariants, reachability) + generated-table decide + correspondence + schedule sweep", "DESIGN.md §5 C03"),
 "C04": ("Lean 4 theorems on the abstract thunk machine (pending/inProgress/done protocol of DoThunk/GotThunk with restore-on-failure): a computation starts at most once per request, a thunk never forced is never run and may be replaced by a failing one without changing outcome, traces or the rest of the store (simulation), memoised results are transparent, traces compose in forcing order, aliasing a thunk (local / identity function / one-element array / one-field object) or adding dead thunks preserves outcomes one frame deeper. Program-level rewrite invariance is partial (stated over Core syntax, C04_rewrite_invariance_full) and is decided by the metamorphic run: every rewrite kind at random sites of generated programs must leave value, error and std.trace output unchanged on the implementation; evaluation-count templates; trace sequences compared with the evaluator model.",
         "Lean kernel + standard axioms; the coincidence lemma between the full evaluator model and the thunk machine is not proved; rewrites add frames, so StackOverflow outcomes are skipped.",
         "Lean 4 proof (state-order invariant, simulation) + metamorphic testing + correspondence", "DESIGN.md §5 C04"),
 "C10": ("Lean 4 theorems: every handler of the evaluator is bracketed (decide over the push/delay table extracted from eval/*.rs on every run, plus token-level checks of the accounting primitives), hence on the abstract state-stack machine len = #trace - #delayed in every reachable state, no counter underflow, get_stack_trace never fails, len = 0 on an empty stack, an overflow is reported at once and larger limits change no non-overflow outcome; self-dependency through a cycle of k thunks ends in InfiniteRecursion iff k <= limit else StackOverflow; and on the full evaluator model: raising the limit never changes a non-overflow outcome (C10_eval_limit_monotone, relational argument). Tied to the code by recursion shapes x limits around the boundary (exact agreement of the overflow boundary with the model), monotonicity in the limit checked on the implementation, and native-stack probes to depth 2*10^5.",
         "Lean kernel + standard axioms; the extractor's path language over-approximates control flow (documented); an endless tailstrict self-call is outside the property's antecedent.",
         "Lean 4 proof (generated-table decide, machine invariant, relational monotonicity) + correspondence", "DESIGN.md §5 C10"),
 "C11": ("Lean 4 theorems on the thunk machine with request histories: memoisation consistency is an invariant of every request (successful, failing, gc), every memoised value is the thunk's denotation, re-evaluating a thunk gives the same outcome, the i-th outcome of any history equals the pristine outcome unless that is StackOverflow (then it is StackOverflow or the larger-limit value: the recorded caveat, with witness), collections are irrelevant. Tied to the code by generated histories over sources sharing imported libraries (shared vs fresh Program per request, same limit) and by the evaluator-model history; failing requests, limit changes and explicit gc interleaved.",
         "Lean kernel + standard axioms; std.trace output is not compared across histories; known finding c11:memoised-depth.",
         "Lean 4 proof (invariant over request histories) + correspondence + fresh-vs-shared differential oracle", "DESIGN.md §5 C11"),
 "C19": ("Lean 4 theorems over a literal model of format.rs for every host digit generator, code, value, width and precision: a field has at least `width` characters (array, object and whole-format forms), flag laws (-, 0, +, space, #), integer digit strings evaluate back to the value in radix 8/10/16, precision = minimum digits, %% literal, parser totality with the exact error, argument accounting, host precision never above 1100 (no host panic). Tied to the code through implementation and model (host digit strings supplied by the implementation), with Python's % operator as digit-exact oracle on the shared subset and shape invariants for g/G.",
         "Lean kernel + standard axioms; the host formatter's digit generation is a parameter (trusted); %g below 1, -0.0 sign and negative * are recorded deviations from C/Python, not violations.",
         "Lean 4 proof + correspondence + Python reference oracle", "DESIGN.md §5 C19"),
})
NOT_YET = "check not built yet in this round (no machinery committed for it)"

hooks_commits = subprocess.run(["git", "-C", "/repo", "log", "--format=%H", "--grep=^verif-hooks"],
                               capture_output=True, text=True).stdout.split()
m = {
 "version": 1,
 "setup_cmd": "cd /verif && ./setup.sh",
 "hooks": {
  "guard": "cargo feature verif-hooks on rsjsonnet-lang",
  "enable": "the harness crate /verif/harness depends on /repo/rsjsonnet-lang with features=[\"verif-hooks\"]; the CLI is built without it",
  "baseline_off_cmd": "cd /repo && cargo test --workspace --no-fail-fast --offline",
  "source_commits": hooks_commits,
  "add_only": True,
 },
 "engines": [
  {"name": "lean-model", "path": "/verif/lean", "serves_properties": sorted(CLAIMED),
   "kind_free_text": "Lean 4 models (RsjModel, import-free, compiled driver rsjmodel), lemmas (RsjProofs), property theorems (RsjProps)"},
  {"name": "rust-harness", "path": "/verif/harness", "serves_properties": sorted(CLAIMED),
   "kind_free_text": "line-protocol driver over the real rsjsonnet-lang / rsjsonnet-front crates built from /repo's working tree with verif-hooks"},
  {"name": "orchestrator", "path": "/verif/check.py", "serves_properties": sorted(CLAIMED),
   "kind_free_text": "generators, differential comparison, direct oracles, evidence and verdicts"},
 ],
 "checks": [],
 "not_applicable": [],
 "notes": "All checks: python3 check.py <Cxx> --tier quick|thorough; honour VERIF_SEED / VERIF_TIER. Known findings: /verif/known_findings.json.",
}
for p in props:
    i = p["id"]
    if i in CLAIMED:
        t, note, tech, ref = CLAIMED[i]
        m["checks"].append({
         "property_id": i,
         "quick_cmd": "python3 check.py %s --tier quick" % i,
         "thorough_cmd": "python3 check.py %s --tier thorough" % i,
         "evidence_file": "/verif/evidence/%s.json" % i,
         "replay_cmd_template": "python3 check.py %s --replay {path}" % i,
         "engine": "lean-model",
         "level_claimed": {"category": "proof", "text": t, "design_ref": ref},
         "level_note": note,
         "technique": tech,
        })
    else:
        m["not_applicable"].append({"property_id": i, "reason": NOT_YET})
json.dump(m, open(os.path.join(V, "MANIFEST.json"), "w"), indent=1)
print("claimed", len(m["checks"]), "unclaimed", len(m["not_applicable"]))
