#!/usr/bin/env python3
"""Apply a confirmed seeded change to /repo, run the given checks (quick tier), record which detect it, undo.
usage: seed_run.py <seed-dir-name> <Cxx> [<Cyy> ...]"""
import json, os, subprocess, sys, time
V = os.path.dirname(os.path.dirname(os.path.abspath(__file__)))

def sh(cmd, cwd=V, timeout=3600):
    p = subprocess.run(cmd, cwd=cwd, shell=True, stdout=subprocess.PIPE, stderr=subprocess.STDOUT, timeout=timeout)
    return p.returncode, p.stdout.decode('utf-8', 'replace')

def main():
    seed, props = sys.argv[1], sys.argv[2:]
    d = os.path.join(V, 'seeded', seed)
    rc, o = sh('git -C /repo status --short')
    if o.strip():
        print('repo not clean:', o); return 2
    rc, o = sh('git -C /repo apply %s' % os.path.join(d, 'patch.diff'))
    if rc != 0:
        # the seed was made against an older HEAD: try a 3-way apply
        rc, o = sh('git -C /repo apply --3way %s' % os.path.join(d, 'patch.diff'))
        if rc != 0:
            print('patch does not apply:', o); sh('git -C /repo checkout -- .'); return 2
    results = {}
    try:
        for p in props:
            t = time.time()
            rc, o = sh('VERIF_ALLOW_STALE=0 python3 check.py %s --tier quick' % p, timeout=3000)
            lines = [l for l in o.splitlines() if l.startswith('VIOLATION') or l.startswith('KNOWN') or ': ok ' in l or ': FAIL ' in l]
            viol = [l for l in lines if l.startswith('VIOLATION')]
            kind = 'none'
            if viol:
                kind = 'no-failing-input-found' if all('no-failing-input-found' in l for l in viol) else 'failing-input'
            detail = ''
            if viol:
                path = viol[0].split('replay=')[1].split()[0]
                try:
                    r = json.load(open(path))
                    detail = (r.get('description') or json.dumps(r.get('broken') or r.get('disagreements'))[:300])[:300]
                except Exception as e:
                    detail = repr(e)
            results[p] = {'exit': rc, 'detected': bool(viol), 'kind': kind, 'first': detail, 'wall_s': round(time.time() - t, 1)}
            print(seed, p, results[p])
    finally:
        sh('git -C /repo checkout -- .')
        sh('git -C /repo status --short')
        sh('python3 -c "import vlib; vlib.refresh_tables()"')   # source-derived Lean tables back to the clean tree
    mp = os.path.join(d, 'meta.json')
    m = json.load(open(mp))
    m['detected_by'] = dict((m.get('detected_by') or {}), **results)
    m['ran'] = (m.get('ran') or []) + ['git -C /repo apply seeded/%s/patch.diff' % seed] + ['python3 check.py %s --tier quick' % p for p in props] + ['git -C /repo checkout -- .']
    json.dump(m, open(mp, 'w'), indent=1, ensure_ascii=False)
    return 0

if __name__ == '__main__':
    sys.exit(main())
