#!/usr/bin/env python3
"""Confirm seeded changes delivered by an independent agent in /tmp/seed/out-<P>/ inside the scratch worktree
/tmp/seed/<P>: the change applies, builds, passes the existing suite, and its demonstration fails with it and
passes without it. Confirmed changes are stored as /verif/seeded/<P>-<n>/ (patch.diff, demo.sh, meta.json)."""
import json, os, shutil, subprocess, sys
V = os.path.dirname(os.path.dirname(os.path.abspath(__file__)))

def sh(cmd, cwd, timeout=3600):
    p = subprocess.run(cmd, cwd=cwd, shell=True, stdout=subprocess.PIPE, stderr=subprocess.STDOUT, timeout=timeout)
    return p.returncode, p.stdout.decode('utf-8', 'replace')

def main(P, base='/tmp/seed', offset=0):
    wt, out = base + '/' + P, base + '/out-' + P
    meta = json.load(open(os.path.join(out, 'meta.json')))
    res = []
    sh('git checkout -- .', wt)
    for n in (1, 2, 3):
        diff, demo = os.path.join(out, 'change%d.diff' % n), os.path.join(out, 'demo%d.sh' % n)
        if not os.path.exists(diff):
            continue
        info = {'property': P, 'n': n + offset}
        rc, o = sh('cargo build --offline 2>&1 | tail -2', wt)
        rc0, o0 = sh('bash %s %s' % (demo, wt), wt, 900)
        info['demo_unchanged_exit'] = rc0
        rc, o = sh('git apply %s' % diff, wt)
        info['applies'] = rc == 0
        rc, o = sh('cargo build --offline 2>&1 | tail -3', wt)
        info['builds'] = 'Finished' in o
        rc1, o1 = sh('bash %s %s' % (demo, wt), wt, 900)
        info['demo_changed_exit'] = rc1
        rc, o = sh('cargo test --workspace --no-fail-fast --offline 2>&1 | grep -E "^test result|FAILED|failed" | head -20', wt, 7200)
        info['tests'] = o.strip().splitlines()
        info['tests_pass'] = bool(o.strip()) and 'FAILED' not in o and ' failed;' not in o.replace(' 0 failed;', '')
        sh('git checkout -- .', wt)
        ok = info['applies'] and info['builds'] and rc0 == 0 and rc1 != 0 and info['tests_pass']
        info['confirmed'] = ok
        res.append(info)
        if ok:
            d = os.path.join(V, 'seeded', '%s-%d' % (P, n + offset))
            os.makedirs(d, exist_ok=True)
            shutil.copy(diff, os.path.join(d, 'patch.diff'))
            shutil.copy(demo, os.path.join(d, 'demo.sh'))
            ch = meta['changes'][n - 1] if len(meta.get('changes', [])) >= n else {}
            json.dump({'property': P, 'breaks': P, 'summary': ch.get('summary'), 'file': ch.get('file'),
                       'needs': ch.get('needs'), 'expected_unchanged': ch.get('expected_unchanged'),
                       'observed_changed': ch.get('observed_changed'),
                       'confirmed_by_lead': {'applies': True, 'builds': True, 'existing_tests_pass': True,
                                             'demo_exit_unchanged': rc0, 'demo_exit_changed': rc1,
                                             'commands': ['git apply patch.diff', 'cargo build --offline', 'bash demo.sh <worktree>',
                                                          'cargo test --workspace --no-fail-fast --offline']},
                       'detected_by': None}, open(os.path.join(d, 'meta.json'), 'w'), indent=1, ensure_ascii=False)
    sh('cargo build --offline 2>&1 | tail -1', wt)
    json.dump(res, open(base + '/confirm-%s.json' % P, 'w'), indent=1)
    print(json.dumps(res, indent=1))

if __name__ == '__main__':
    main(sys.argv[1], *(sys.argv[2:3] or ['/tmp/seed']), offset=int(sys.argv[3]) if len(sys.argv) > 3 else 0)
