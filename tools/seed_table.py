#!/usr/bin/env python3
"""Write seeded/README.md: which checks catch which seeded changes (from seeded/*/meta.json)."""
import json, os, glob
V = os.path.dirname(os.path.dirname(os.path.abspath(__file__)))
rows = []
for d in sorted(glob.glob(os.path.join(V, 'seeded', 'C*-*'))):
    m = json.load(open(os.path.join(d, 'meta.json')))
    det = m.get('detected_by') or {}
    cells = []
    for p, r in sorted(det.items()):
        cells.append('%s: %s' % (p, ('**%s**' % r['kind']) if r['detected'] else 'missed'))
    rows.append('| %s | %s | %s | %s | %s |' % (os.path.basename(d), m.get('file') or '', (m.get('summary') or '').replace('|', '/')[:160],
                                              (m.get('needs') or '').replace('|', '/')[:160], '; '.join(cells) or 'not run yet'))
out = ['# Seeded changes and which checks catch them', '',
       'Each directory holds `patch.diff` (applies to /repo), `demo.sh` (exit 0 on the unchanged tree, 1 with the patch) and',
       '`meta.json`. Every change was written by an independent agent that saw only the property text, compiles, passes the',
       'existing test suite, and was confirmed by the lead in a scratch worktree (tools/seed_confirm.py). Detection was',
       'measured with tools/seed_run.py (patch applied to /repo, quick tier, patch reverted).', '',
       '| seed | file | change | needs | detected by |', '|---|---|---|---|---|'] + rows
open(os.path.join(V, 'seeded', 'README.md'), 'w').write('\n'.join(out) + '\n')
print('\n'.join(out[-len(rows):]))
