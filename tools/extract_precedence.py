#!/usr/bin/env python3
"""Extract the operator-precedence machinery of `parse_expr` from
/repo/rsjsonnet-lang/src/parser/expr.rs and write it as Lean definitions to
/verif/lean/RsjModel/PrecedenceTable.lean (only rewritten when the content changes).

Extracted on every run of checks/c15.py:
  * `enum BinOpKind { ... }`                         -> `inductive BinKind`
  * `BinOpKind::next_state`                          -> `BinKind.nextState`
  * `init_state()`                                   -> `initKind`
  * the `let op = match kind { ... }` of `State::BinaryRhs`
        (token tried, in order, and the `ast::BinaryOp` it yields) -> `BinKind.ops`
  * the `in super` guard (peeked tokens)             -> `inSuperHead`, `inSuperExclude`
  * the `State::Unary` chain                         -> `unaryOps`
The Lean model (RsjModel/Parser.lean) *uses* these definitions, and
`C15_precedence_table` (RsjProps/C15.lean) states that they are the Jsonnet table.
Exit code != 0 when the source no longer has the expected shape.
"""
import os
import re
import sys

V = os.path.dirname(os.path.dirname(os.path.abspath(__file__)))
SRC = os.environ.get("RSJ_PARSER_EXPR", "/repo/rsjsonnet-lang/src/parser/expr.rs")
OUT = os.environ.get("RSJ_PRECEDENCE_OUT", os.path.join(V, "lean", "RsjModel", "PrecedenceTable.lean"))

STOK_RENAME = {"True": "True_", "False": "False_"}


def die(msg):
    sys.stderr.write("extract_precedence: " + msg + "\n")
    sys.exit(2)


def block_after(src, start_idx, open_ch="{", close_ch="}"):
    """Text of the balanced {...} block starting at the first open_ch at/after start_idx."""
    i = src.index(open_ch, start_idx)
    depth = 0
    j = i
    while j < len(src):
        c = src[j]
        if c == open_ch:
            depth += 1
        elif c == close_ch:
            depth -= 1
            if depth == 0:
                return src[i + 1 : j], j + 1
        j += 1
    die("unbalanced block")


def stok(n):
    return ".%s" % STOK_RENAME.get(n, n)


def extract(src):
    # 1. enum BinOpKind
    m = re.search(r"enum\s+BinOpKind\s*\{", src)
    if not m:
        die("enum BinOpKind not found")
    body, _ = block_after(src, m.start())
    kinds = [k.strip() for k in body.split(",") if k.strip()]
    if not kinds or not all(re.fullmatch(r"[A-Za-z_]\w*", k) for k in kinds):
        die("cannot read BinOpKind variants: %r" % kinds)

    # 2. next_state
    m = re.search(r"fn\s+next_state\b", src)
    if not m:
        die("next_state not found")
    body, _ = block_after(src, m.start())
    nxt = {}
    for a, b, c in re.findall(
            r"BinOpKind::(\w+)\s*=>\s*State::(?:Binary\(\s*BinOpKind::(\w+)\s*\)|(Unary))", body):
        if a in nxt:
            die("duplicate next_state arm for " + a)
        nxt[a] = b if b else None
    if set(nxt) != set(kinds):
        die("next_state arms %r do not cover BinOpKind %r" % (sorted(nxt), kinds))

    # 3. init_state
    m = re.search(r"fn\s+init_state\b", src)
    if not m:
        die("init_state not found")
    body, _ = block_after(src, m.start())
    mi = re.search(r"State::Binary\(\s*BinOpKind::(\w+)\s*\)", body)
    if not mi:
        die("init_state is not State::Binary(..)")
    init = mi.group(1)

    # 4. operator tokens per kind
    m = re.search(r"State::BinaryRhs\(kind,\s*lhs\)\s*=>\s*\{", src)
    if not m:
        die("State::BinaryRhs arm not found")
    rhs_body, _ = block_after(src, m.end() - 1)
    m2 = re.search(r"let\s+op\s*=\s*match\s+kind\s*\{", rhs_body)
    if not m2:
        die("`let op = match kind` not found")
    mbody, _ = block_after(rhs_body, m2.end() - 1)
    arm_pos = [(mm.start(), mm.group(1)) for mm in re.finditer(r"BinOpKind::(\w+)\s*=>", mbody)]
    # only arms at nesting depth 0 of the match body
    arms = []
    for pos, name in arm_pos:
        depth = mbody[:pos].count("{") - mbody[:pos].count("}")
        if depth == 0:
            arms.append((pos, name))
    if [a for _, a in arms] != kinds and set(a for _, a in arms) != set(kinds):
        die("operator match arms %r do not cover BinOpKind" % [a for _, a in arms])
    ops = {}
    in_guard = None
    for i, (pos, name) in enumerate(arms):
        end = arms[i + 1][0] if i + 1 < len(arms) else len(mbody)
        text = mbody[pos:end]
        evs = [(mm.start(), "tok", mm.group(1)) for mm in
               re.finditer(r"eat_simple\(\s*STokenKind::(\w+)\s*,\s*false\s*\)", text)]
        evs += [(mm.start(), "op", mm.group(1)) for mm in re.finditer(r"ast::BinaryOp::(\w+)", text)]
        evs.sort()
        pairs = []
        pending = None
        for _, k, v in evs:
            if k == "tok":
                if pending is not None:
                    die("token %s without operator in arm %s" % (pending, name))
                pending = v
            else:
                if pending is None:
                    die("operator %s without token in arm %s" % (v, name))
                pairs.append((pending, v))
                pending = None
        if pending is not None:
            die("token %s without operator in arm %s" % (pending, name))
        if not pairs:
            die("no operators in arm " + name)
        ops[name] = pairs
        if "ExprKind::InSuper" in text:
            pk = re.findall(r"(!?)\s*self\s*\.\s*peek_simple\(\s*STokenKind::(\w+)\s*,\s*(\d+)\s*\)", text)
            head = [t for neg, t, i in pk if not neg and i == "0"]
            excl = [t for neg, t, i in pk if neg and i == "1"]
            if len(head) != 1 or len(pk) != 1 + len(excl):
                die("unexpected `in super` guard: %r" % pk)
            cond = re.search(r"if\s+self\.peek_simple.*?\{", text, re.S).group(0)
            if "||" in cond or cond.count("&&") != len(excl):
                die("`in super` guard is not a conjunction")
            in_guard = (name, head[0], excl)
    if in_guard is None:
        die("`in super` special case not found")
    # after the match: Some(op) => push + next_state, None => Parsed(lhs)
    tail = rhs_body[m2.end():]
    if not re.search(r"stack\.push\(StackItem::BinaryRhs\(kind,[^;]*\)\);\s*state\s*=\s*kind\.next_state\(\);", tail):
        die("BinaryRhs does not continue with kind.next_state()")

    # 5. unary chain
    m = re.search(r"State::Unary\s*=>\s*\{", src)
    if not m:
        die("State::Unary arm not found")
    ubody, _ = block_after(src, m.end() - 1)
    un = re.findall(r"eat_simple\(\s*STokenKind::(\w+)\s*,\s*false\s*\)\s*\{\s*stack\.push\(StackItem::Unary\(ast::UnaryOp::(\w+)",
                    ubody)
    if not un:
        die("no unary operators found")
    return kinds, nxt, init, ops, in_guard, un


def render(kinds, nxt, init, ops, in_guard, un):
    L = []
    L.append("/-")
    L.append("  GENERATED by /verif/tools/extract_precedence.py from")
    L.append("  /repo/rsjsonnet-lang/src/parser/expr.rs (parse_expr) — do not edit by hand.")
    L.append("  Regenerated on every run of checks/c15.py; `C15_precedence_table` is about this file.")
    L.append("-/")
    L.append("import RsjModel.Ast")
    L.append("namespace Rsj.Parser")
    L.append("")
    L.append("/-- `enum BinOpKind` (declaration order). -/")
    L.append("inductive BinKind where")
    L.append("  " + " ".join("| " + k for k in kinds))
    L.append("deriving DecidableEq, Repr")
    L.append("")
    L.append("def BinKind.all : List BinKind := [" + ", ".join("." + k for k in kinds) + "]")
    L.append("")
    L.append("/-- `BinOpKind::next_state`: `some k` = `State::Binary(k)`, `none` = `State::Unary`. -/")
    L.append("def BinKind.nextState : BinKind → Option BinKind")
    for k in kinds:
        L.append("  | .%s => %s" % (k, ("some .%s" % nxt[k]) if nxt[k] else "none"))
    L.append("")
    L.append("/-- `init_state()` = `State::Binary(initKind)`. -/")
    L.append("def initKind : BinKind := .%s" % init)
    L.append("")
    L.append("/-- `State::BinaryRhs`: tokens tried (in this order) and the operator each yields. -/")
    L.append("def BinKind.ops : BinKind → List (STok × BinaryOp)")
    for k in kinds:
        L.append("  | .%s => [%s]" % (k, ", ".join("(%s, .%s)" % (stok(t), o) for t, o in ops[k])))
    L.append("")
    L.append("/-- `e in super`: taken in the arm of this kind when the token after `in` is")
    L.append("    `inSuperHead` and the one after that is none of `inSuperExclude`. -/")
    L.append("def inSuperKind : BinKind := .%s" % in_guard[0])
    L.append("def inSuperHead : STok := %s" % stok(in_guard[1]))
    L.append("def inSuperExclude : List STok := [%s]" % ", ".join(stok(t) for t in in_guard[2]))
    L.append("")
    L.append("/-- `State::Unary`: tokens tried (in this order) and the operator each yields. -/")
    L.append("def unaryOps : List (STok × UnaryOp) := [%s]" %
             ", ".join("(%s, .%s)" % (stok(t), o) for t, o in un))
    L.append("")
    L.append("end Rsj.Parser")
    return "\n".join(L) + "\n"


def main():
    src = open(SRC, encoding="utf-8").read()
    text = render(*extract(src))
    old = open(OUT, encoding="utf-8").read() if os.path.exists(OUT) else None
    if old != text:
        tmp = OUT + ".tmp%d" % os.getpid()
        open(tmp, "w", encoding="utf-8").write(text)
        os.replace(tmp, OUT)
        print("extract_precedence: wrote", OUT)
    else:
        print("extract_precedence: unchanged")
    return 0


if __name__ == "__main__":
    sys.exit(main())
