#!/usr/bin/env python3
"""Derive the `GcTrace` coverage table from the Rust sources (property C03).

Reads  /repo/rsjsonnet-lang/src/program/data.rs   (heap data types + their `impl GcTrace`)
       /repo/rsjsonnet-lang/src/gc/trace.rs       (pass-through impls for Option/RefCell/...)
Writes /verif/lean/RsjModel/GcTraceTable.lean

For every struct and every enum variant of a type `X` with `impl GcTrace for X` in data.rs the
table has one entry:
    fields   all field names in declaration order (tuple-variant fields are "0", "1", ...)
    handles  sorted indices of the fields whose type carries a collector handle: the type text
             mentions `Gc<` (NOT `GcView<`, which is a strong view kept alive by reference
             counting and deliberately not traced), directly or below the pass-through wrappers
             Option / OnceCell / RefCell / Cell / Box / Vec / [T] / FHashMap<_, V> / tuples, or
             mentions another data.rs type (or type alias) that itself carries a handle
    traced   sorted indices (with multiplicity) of the fields on which the `trace` body of the
             impl calls `.trace(ctx)`
`RsjProps/C03.lean` proves `handles = traced` for every entry by `decide`; a missing or doubled
`trace()` call therefore breaks the proof.

What it understands in a `trace` body (everything else is an ExtractError = broken tie):
    self.F.trace(ctx);                         self.F.borrow().trace(ctx);
    for PAT in self.F<.values()/.iter()/...> { V.trace(ctx); }     (V bound in PAT; counts F once)
    match self { Self::V(a, b) => a.trace(ctx), Self::V { f, g: h, .. } => { f.trace(ctx); h.trace(ctx); }
                 Self::V => {}, Self::V(_) => {}, _ => {} }
    if let Self::V { f, .. } = self { f.trace(ctx); }
What it does NOT understand (raises): handles below any other generic wrapper (Rc<..>, HashSet<..>,
keys of FHashMap), `.trace(` calls on anything but `self.F` / a pattern binding, helper functions
called from `trace`, conditional tracing (`if cond { .. }`), macros, where-clauses on impls other than
the standard one, GcTrace impls in other files than data.rs (eval/state.rs holds evaluator state that
lives on the Rust stack, not in the heap; it is not heap data and is skipped on purpose), a type with a
handle-carrying field but without `impl GcTrace` that is stored in a traced field (rustc rejects that
itself, since `.trace` would not resolve).
"""
import os
import re
import sys

REPO_SRC = "/repo/rsjsonnet-lang/src"
DATA_RS = os.path.join(REPO_SRC, "program", "data.rs")
TRACE_RS = os.path.join(REPO_SRC, "gc", "trace.rs")
OUT = os.path.join(os.path.dirname(os.path.dirname(os.path.abspath(__file__))), "lean", "RsjModel", "GcTraceTable.lean")

PASS_THROUGH = {"Option", "OnceCell", "RefCell", "Cell", "Box", "Vec", "FHashMap", "Gc"}
# wrappers that need an `impl GcTrace for W<T>` in gc/trace.rs (FHashMap is iterated by hand)
NEED_IMPL = {"Option": r"Option<T>", "OnceCell": r"(std::cell::)?OnceCell<T>", "RefCell": r"(std::cell::)?RefCell<T>",
             "Box": r"Box<T>", "Vec": r"Vec<T>", "slice": r"\[T\]", "Cell": r"(std::cell::)?Cell<T>"}


class ExtractError(Exception):
    pass


def strip_comments(src):
    out = []
    i, n = 0, len(src)
    while i < n:
        if src.startswith("//", i):
            while i < n and src[i] != "\n":
                i += 1
        elif src.startswith("/*", i):
            j = src.find("*/", i + 2)
            if j < 0:
                raise ExtractError("unterminated block comment")
            i = j + 2
        elif src[i] == '"':
            j = i + 1
            while j < n and src[j] != '"':
                j += 2 if src[j] == "\\" else 1
            out.append('""')
            i = j + 1
        else:
            out.append(src[i])
            i += 1
    return "".join(out)


def match_brace(src, i, open_ch="{", close_ch="}"):
    """src[i] == open_ch; index of the matching close."""
    assert src[i] == open_ch
    depth = 0
    for j in range(i, len(src)):
        if src[j] == open_ch:
            depth += 1
        elif src[j] == close_ch:
            depth -= 1
            if depth == 0:
                return j
    raise ExtractError("unbalanced %s at offset %d" % (open_ch, i))


def split_top(s, sep=","):
    """Split at `sep` outside of <>, (), [], {}."""
    parts, depth, cur = [], 0, []
    i = 0
    while i < len(s):
        ch = s[i]
        if ch in "<([{":
            depth += 1
        elif ch in ")]}":
            depth -= 1
        elif ch == ">" and not (i > 0 and s[i - 1] in "-="):
            depth -= 1
        if ch == sep and depth == 0:
            parts.append("".join(cur))
            cur = []
        else:
            cur.append(ch)
        i += 1
    if "".join(cur).strip():
        parts.append("".join(cur))
    return [p.strip() for p in parts if p.strip()]


VIS = re.compile(r"^(?:#\[[^\]]*\]\s*)*(?:pub(?:\([^)]*\))?\s+)?")


def parse_named_fields(body):
    fields = []
    for item in split_top(body):
        item = VIS.sub("", item.strip())
        m = re.match(r"^(\w+)\s*:\s*(.+)$", item, re.S)
        if not m:
            raise ExtractError("cannot parse field declaration %r" % item[:80])
        fields.append((m.group(1), " ".join(m.group(2).split())))
    return fields


def parse_types(src):
    """-> structs {name: [(field, type)]}, enums {name: [(variant, kind, [(field, type)])]}, aliases {name: type}"""
    structs, enums, aliases = {}, {}, {}
    for m in re.finditer(r"\bstruct\s+(\w+)\s*(<[^{;(]*>)?\s*([{;(])", src):
        name = m.group(1)
        if m.group(3) == "{":
            i = m.end() - 1
            j = match_brace(src, i)
            structs[name] = parse_named_fields(src[i + 1:j])
        elif m.group(3) == "(":
            i = m.end() - 1
            j = match_brace(src, i, "(", ")")
            structs[name] = [(str(k), " ".join(VIS.sub("", t).split())) for k, t in enumerate(split_top(src[i + 1:j]))]
        else:
            structs[name] = []
    for m in re.finditer(r"\benum\s+(\w+)\s*(<[^{;]*>)?\s*\{", src):
        name = m.group(1)
        i = m.end() - 1
        j = match_brace(src, i)
        variants = []
        for item in split_top(src[i + 1:j]):
            item = VIS.sub("", item.strip())
            vm = re.match(r"^(\w+)\s*(.*)$", item, re.S)
            if not vm:
                raise ExtractError("cannot parse variant %r of enum %s" % (item[:60], name))
            vname, rest = vm.group(1), vm.group(2).strip()
            if rest == "" or rest.startswith("="):
                variants.append((vname, "unit", []))
            elif rest.startswith("("):
                k = match_brace(rest, 0, "(", ")")
                variants.append((vname, "tuple", [(str(n), " ".join(VIS.sub("", t).split())) for n, t in enumerate(split_top(rest[1:k]))]))
            elif rest.startswith("{"):
                k = match_brace(rest, 0)
                variants.append((vname, "struct", parse_named_fields(rest[1:k])))
            else:
                raise ExtractError("cannot parse variant %r of enum %s" % (item[:60], name))
        enums[name] = variants
    for m in re.finditer(r"\btype\s+(\w+)\s*(<[^=;]*>)?\s*=\s*([^;]+);", src):
        aliases[m.group(1)] = " ".join(m.group(3).split())
    return structs, enums, aliases


def type_idents(ty):
    return set(re.findall(r"\b[A-Z]\w*\b", ty))


def compute_carriers(structs, enums, aliases):
    """Names of data.rs types (and aliases) that carry a collector handle, transitively."""
    def direct(ty):
        return re.search(r"\bGc<", ty) is not None
    all_types = {}
    for n, fs in structs.items():
        all_types[n] = [t for _, t in fs]
    for n, vs in enums.items():
        all_types[n] = [t for _, _, fs in vs for _, t in fs]
    for n, t in aliases.items():
        all_types[n] = [t]
    carriers = set()
    changed = True
    while changed:
        changed = False
        for n, tys in all_types.items():
            if n in carriers:
                continue
            if any(direct(t) or (type_idents(t) & carriers) for t in tys):
                carriers.add(n)
                changed = True
    return carriers


def parse_type(ty):
    """Tiny Rust type parser -> nested tuples:
       ("path", name, [args]) | ("slice", T) | ("tuple", [Ts]) | ("ref", T) | ("other", text)"""
    toks = re.findall(r"'\w+|\w+|::|->|[<>\[\]\(\),;&]|\S", ty)
    pos = [0]

    def peek():
        return toks[pos[0]] if pos[0] < len(toks) else None

    def eat(t=None):
        x = peek()
        if t is not None and x != t:
            raise ExtractError("type `%s`: expected %s, found %s" % (ty, t, x))
        pos[0] += 1
        return x

    def one():
        t = peek()
        if t == "&":
            eat()
            if peek() and peek().startswith("'"):
                eat()
            if peek() == "mut":
                eat()
            return ("ref", one())
        if t == "[":
            eat()
            inner = one()
            if peek() == ";":
                while peek() != "]":
                    eat()
            eat("]")
            return ("slice", inner)
        if t == "(":
            eat()
            items = []
            while peek() != ")":
                items.append(one())
                if peek() == ",":
                    eat()
            eat(")")
            return ("tuple", items)
        if t in ("dyn", "impl", "fn", "*", "!") or t is None:
            raise ExtractError("type `%s`: construct not understood at `%s`" % (ty, t))
        name = eat()
        while peek() == "::":
            eat()
            name = eat()
        args = []
        if peek() == "<":
            eat()
            while peek() != ">":
                if peek().startswith("'"):
                    eat()
                else:
                    args.append(one())
                if peek() == ",":
                    eat()
            eat(">")
        return ("path", name, args)

    res = one()
    if pos[0] != len(toks):
        raise ExtractError("type `%s`: trailing tokens" % ty)
    return res


def carries(t, carriers, local_types, where, used):
    """Does a value of (parsed) type `t` hold a collector handle that `trace` must visit?"""
    kind = t[0]
    if kind == "ref":
        if carries(t[1], carriers, local_types, where, used):
            raise ExtractError("%s: handle behind a reference" % where)
        return False
    if kind == "slice":
        r = carries(t[1], carriers, local_types, where, used)
        if r:
            used.add("slice")
        return r
    if kind == "tuple":
        if any(carries(x, carriers, local_types, where, used) for x in t[1]):
            raise ExtractError("%s: handle inside a tuple (no GcTrace impl for tuples)" % where)
        return False
    name, args = t[1], t[2]
    if name == "Gc":
        return True
    if name == "GcView":
        return False          # strong view: kept alive by reference counting, not traced
    if name in ("Option", "OnceCell", "RefCell", "Cell", "Box", "Vec") and len(args) == 1:
        r = carries(args[0], carriers, local_types, where, used)
        if r:
            used.add(name)
        return r
    if name == "FHashMap" and len(args) == 2:
        if carries(args[0], carriers, local_types, where, used):
            raise ExtractError("%s: handle in the KEY of a map" % where)
        return carries(args[1], carriers, local_types, where, used)
    if name in local_types:
        return name in carriers
    if any(carries(a, carriers, local_types, where, used) for a in args):
        raise ExtractError("%s: handle below a wrapper the extractor does not understand: %s" % (where, name))
    return False


def find_trace_impls(src):
    """-> {type name: body text of fn trace}"""
    res = {}
    for m in re.finditer(r"\bimpl\s*(<[^>]*>)?\s*GcTrace\s+for\s+(\w+)\s*(<[^{]*>)?\s*\{", src):
        name = m.group(2)
        i = m.end() - 1
        j = match_brace(src, i)
        block = src[i + 1:j]
        fm = re.search(r"\bfn\s+trace\b", block)
        if not fm:
            raise ExtractError("impl GcTrace for %s: no fn trace" % name)
        k = block.find("{", fm.end())
        # skip the `where Self: 'a,` clause: the body is the first `{` after the signature
        e = match_brace(block, k)
        if name in res:
            raise ExtractError("two GcTrace impls for %s" % name)
        res[name] = block[k + 1:e]
    return res


TRACE_CALL = re.compile(r"\.trace\s*\(")


def analyse_stmts(text, binding_to_field, where):
    """Sequence of statements: returns the list of traced field names."""
    traced = []
    rest = text
    # for loops over self.F / a binding
    while True:
        m = re.search(r"\bfor\s+(.+?)\s+in\s+(self\s*\.\s*(\w+)|(\w+))\b([^{]*)\{", rest, re.S)
        if not m:
            break
        i = m.end() - 1
        j = match_brace(rest, i)
        body = rest[i + 1:j]
        pat_ids = set(re.findall(r"\b[a-z_]\w*\b", m.group(1)))
        if m.group(3):
            field = m.group(3)
        else:
            if m.group(4) not in binding_to_field:
                raise ExtractError("%s: for-loop over unknown `%s`" % (where, m.group(4)))
            field = binding_to_field[m.group(4)]
        calls = re.findall(r"\b(\w+)\s*\.trace\s*\(\s*ctx\s*\)", body)
        if len(calls) != len(TRACE_CALL.findall(body)) or any(c not in pat_ids for c in calls):
            raise ExtractError("%s: cannot attribute trace calls in for-loop body `%s`" % (where, body.strip()[:80]))
        if re.search(r"\b(if|match|while|return|continue|break)\b", body):
            raise ExtractError("%s: conditional code in for-loop body" % where)
        # the loop visits every element of the field: counts as one visit of the field per call
        traced.extend([field] * len(calls))
        rest = rest[:m.start()] + rest[j + 1:]
    for stmt in [s.strip() for s in rest.split(";")]:
        if not stmt:
            continue
        m = re.match(r"^self\s*\.\s*(\w+)\s*(?:\.\s*borrow\s*\(\s*\))?\s*\.\s*trace\s*\(\s*ctx\s*\)$", stmt)
        if m:
            traced.append(m.group(1))
            continue
        m = re.match(r"^(\w+)\s*\.\s*trace\s*\(\s*ctx\s*\)$", stmt)
        if m and m.group(1) in binding_to_field:
            traced.append(binding_to_field[m.group(1)])
            continue
        raise ExtractError("%s: statement not understood: `%s`" % (where, stmt[:100]))
    return traced


def parse_pattern(pat, where):
    """`Self::V`, `Self::V(a, _)`, `Self::V { f, g: h, .. }` -> (variant, {binding: field})"""
    pat = pat.strip()
    m = re.match(r"^Self\s*::\s*(\w+)\s*(.*)$", pat, re.S)
    if not m:
        raise ExtractError("%s: pattern not understood: `%s`" % (where, pat[:60]))
    v, rest = m.group(1), m.group(2).strip()
    b = {}
    if rest == "":
        pass
    elif rest.startswith("(") and rest.endswith(")"):
        for k, x in enumerate(split_top(rest[1:-1])):
            x = re.sub(r"^(ref\s+)?(mut\s+)?", "", x.strip())
            if x == "_" or x == "..":
                continue
            if not re.match(r"^\w+$", x):
                raise ExtractError("%s: tuple pattern element not understood: `%s`" % (where, x))
            b[x] = str(k)
    elif rest.startswith("{") and rest.endswith("}"):
        for x in split_top(rest[1:-1]):
            x = x.strip()
            if x == "..":
                continue
            fm = re.match(r"^(?:ref\s+)?(\w+)\s*(?::\s*(?:ref\s+)?(\w+))?$", x)
            if not fm:
                raise ExtractError("%s: struct pattern element not understood: `%s`" % (where, x))
            b[fm.group(2) or fm.group(1)] = fm.group(1)
    else:
        raise ExtractError("%s: pattern not understood: `%s`" % (where, pat[:60]))
    return v, b


def analyse_enum_body(name, body, variants):
    """-> {variant: [traced fields]}"""
    where = "impl GcTrace for " + name
    res = {v: [] for v, _, _ in variants}
    seen = set()
    body = body.strip()
    m = re.match(r"^match\s+(?:\*\s*)?self\s*\{", body)
    if m:
        i = m.end() - 1
        j = match_brace(body, i)
        if body[j + 1:].strip(" ;\n"):
            raise ExtractError("%s: code after `match self`" % where)
        arms_src = body[i + 1:j]
        # split arms: at top-level commas, but block arms may omit the comma
        arms = []
        pos = 0
        while pos < len(arms_src):
            am = re.compile(r"\s*(.+?)\s*=>\s*", re.S).match(arms_src, pos)
            if not am:
                if arms_src[pos:].strip():
                    raise ExtractError("%s: match arm not understood: `%s`" % (where, arms_src[pos:].strip()[:60]))
                break
            pat = am.group(1)
            p = am.end()
            if arms_src[p] == "{":
                e = match_brace(arms_src, p)
                expr = arms_src[p + 1:e]
                p = e + 1
            else:
                depth, e = 0, p
                while e < len(arms_src) and not (arms_src[e] == "," and depth == 0):
                    if arms_src[e] in "([{":
                        depth += 1
                    elif arms_src[e] in ")]}":
                        depth -= 1
                    e += 1
                expr = arms_src[p:e]
                p = e
            while p < len(arms_src) and arms_src[p] in ", \n\t":
                p += 1
            arms.append((pat, expr))
            pos = p
        for pat, expr in arms:
            if pat.strip() == "_":
                if TRACE_CALL.search(expr):
                    raise ExtractError("%s: trace call in wildcard arm" % where)
                continue
            if " if " in pat:
                raise ExtractError("%s: match guard" % where)
            for alt in split_top(pat, "|"):
                v, b = parse_pattern(alt, where)
                if v not in res:
                    raise ExtractError("%s: unknown variant %s" % (where, v))
                if v in seen:
                    raise ExtractError("%s: variant %s matched twice" % (where, v))
                seen.add(v)
                res[v] = analyse_stmts(expr, b, where + "::" + v)
        return res
    m = re.match(r"^if\s+let\s+(.+?)\s*=\s*self\s*\{", body, re.S)
    if m:
        i = m.end() - 1
        j = match_brace(body, i)
        if body[j + 1:].strip(" ;\n"):
            raise ExtractError("%s: code after `if let`" % where)
        v, b = parse_pattern(m.group(1), where)
        if v not in res:
            raise ExtractError("%s: unknown variant %s" % (where, v))
        res[v] = analyse_stmts(body[i + 1:j], b, where + "::" + v)
        return res
    if not body:
        return res
    raise ExtractError("%s: body of an enum impl is neither `match self` nor `if let`: `%s`" % (where, body[:80]))


def check_wrappers(used):
    src = strip_comments(open(TRACE_RS, encoding="utf-8").read())
    for w in sorted(used):
        pat = NEED_IMPL.get(w)
        if pat is None:
            continue
        m = re.search(r"impl\s*<[^>]*>\s*GcTrace\s+for\s+" + pat + r"\s*\{", src)
        if not m:
            raise ExtractError("gc/trace.rs: no `impl GcTrace for %s` (needed by a handle field)" % w)
        i = m.end() - 1
        j = match_brace(src, i)
        if len(re.findall(r"T::trace\s*\(", src[i:j])) != 1:
            raise ExtractError("gc/trace.rs: impl for %s does not forward to exactly one T::trace" % w)


def extract():
    try:
        raw = open(DATA_RS, encoding="utf-8").read()
    except OSError as e:
        raise ExtractError("cannot read %s: %s" % (DATA_RS, e))
    src = strip_comments(raw)
    structs, enums, aliases = parse_types(src)
    impls = find_trace_impls(src)
    if len(impls) < 5:
        raise ExtractError("only %d `impl GcTrace` blocks found in data.rs (expected the heap data types)" % len(impls))
    if len(TRACE_CALL.findall(src)) == 0:
        raise ExtractError("no trace calls found")
    carriers = compute_carriers(structs, enums, aliases)
    local_types = set(structs) | set(enums) | set(aliases)
    entries = []
    used_wrappers = set()
    total_calls = 0
    for name in sorted(impls):
        body = impls[name]
        total_calls += len(TRACE_CALL.findall(body))
        if name in structs:
            fields = structs[name]
            traced = analyse_stmts(body, {}, "impl GcTrace for " + name)
            groups = [(name, fields, traced)]
        elif name in enums:
            per = analyse_enum_body(name, body, enums[name])
            groups = [(name + "::" + v, fs, per[v]) for v, _, fs in enums[name]]
        else:
            raise ExtractError("impl GcTrace for %s: type definition not found in data.rs" % name)
        for ename, fields, traced in groups:
            names = [f for f, _ in fields]
            handles = []
            for k, (f, ty) in enumerate(fields):
                if carries(parse_type(ty), carriers, local_types, ename + "." + f, used_wrappers):
                    handles.append(k)
            tidx = []
            for f in traced:
                if f not in names:
                    raise ExtractError("%s: trace visits unknown field `%s`" % (ename, f))
                tidx.append(names.index(f))
            entries.append((ename, names, sorted(handles), sorted(tidx)))
    # every `.trace(` inside an impl body was attributed
    if total_calls != sum(len(e[3]) for e in entries):
        raise ExtractError("attributed %d of %d trace calls" % (sum(len(e[3]) for e in entries), total_calls))
    # every handle-carrying data.rs type that is stored inside a traced type must itself implement
    # GcTrace (types that only live on the Rust stack, e.g. builders, hold *external* handles)
    stored = set()
    todo = []
    for ename, names, handles, _ in entries:
        base = ename.split("::")[0]
        fl = structs[base] if base in structs else [f for v, _, fs in enums[base] if v == ename.split("::")[1] for f in fs]
        for k in handles:
            todo.append(fl[k][1])
    while todo:
        t = todo.pop()
        for n in type_idents(t) & carriers:
            if n in stored:
                continue
            stored.add(n)
            if n in aliases:
                todo.append(aliases[n])
            elif n not in impls:
                raise ExtractError("type %s carries a Gc handle and is stored in heap data but has no `impl GcTrace` in data.rs" % n)
    # aliases of handle carriers must be built from pass-through wrappers only
    for n, t in aliases.items():
        if n in carriers:
            if not carries(parse_type(t), carriers, local_types, "type " + n, used_wrappers):
                raise ExtractError("type alias %s: inconsistent handle analysis" % n)
    check_wrappers(used_wrappers)
    return entries


def render(entries):
    def lst(xs, q=False):
        return "[" + ", ".join(('"%s"' % x) if q else str(x) for x in xs) + "]"
    lines = [
        "/-",
        "  GENERATED by /verif/tools/extract_gctrace.py from /repo/rsjsonnet-lang/src/program/data.rs",
        "  (regenerated on every run of checks/c03.py; do not edit).",
        "  One entry per struct / enum variant with `impl GcTrace`: `handles` = indices of the fields whose",
        "  type carries a `Gc<..>` handle, `traced` = indices (with multiplicity) visited by `trace`.",
        "-/",
        "namespace Rsj.Gc",
        "",
        "structure TraceEntry where",
        "  name : String",
        "  fields : List String",
        "  handles : List Nat",
        "  traced : List Nat",
        "",
        "def gcTraceTable : List TraceEntry := [",
    ]
    rows = []
    for name, fields, handles, traced in entries:
        rows.append('  { name := "%s", fields := %s, handles := %s, traced := %s }' % (name, lst(fields, True), lst(handles), lst(traced)))
    lines.append(",\n".join(rows))
    lines.append("]")
    lines.append("")
    lines.append("end Rsj.Gc")
    return "\n".join(lines) + "\n"


def main_write():
    entries = extract()
    text = render(entries)
    old = None
    if os.path.exists(OUT):
        old = open(OUT, encoding="utf-8").read()
    if old != text:
        with open(OUT, "w", encoding="utf-8") as f:
            f.write(text)
    return entries


if __name__ == "__main__":
    try:
        es = main_write()
    except ExtractError as e:
        print("extract_gctrace: " + str(e))
        sys.exit(1)
    for name, fields, handles, traced in es:
        print("%-28s fields=%s handles=%s traced=%s%s" % (name, fields, handles, traced, "" if handles == traced else "   <-- MISMATCH"))
