import sys, os; sys.path.insert(0, os.path.dirname(os.path.dirname(os.path.abspath(__file__))))
import random, sys, vlib, gen_core as G, core_cmp as C
from collections import Counter
def differs(p, ms):
    srcs, io, mo = C.run_pair([p], max_stack=ms)
    a, b = C.norm(io[0]), C.norm(mo[0])
    if b.startswith('unsupported') or b.startswith('gas') or b.startswith('panic') or 'parse' in a or 'analyze' in a or ' lex ' in a: return False
    return a != b
found=[]
tot=Counter()
for seed in range(4):
    rng = random.Random(int(sys.argv[1])+seed)
    g = G.Gen(rng, max_depth=5)
    progs = [g.program() for _ in range(500)]
    for ms in [3,5,8,12]:
        srcs, io, mo = C.run_pair(progs, max_stack=ms)
        for p,s,a,b in zip(progs, srcs, io, mo):
            na, nb = C.norm(a), C.norm(b)
            tot[(a.split(' ')[0] + (':SO' if 'StackOverflow' in a else ''), b.split(' ')[0]+ (':SO' if 'StackOverflow' in b else ''))] += 1
            if nb.startswith('unsupported') or nb.startswith('gas') or ' lex ' in na: continue
            if na != nb: found.append((p, ms))
print(len(found), tot)
seen=set()
for p, ms in found[:25]:
    q = C.shrink(p, lambda t: differs(t, ms))
    src = G.to_jsonnet(q)
    if src in seen: continue
    seen.add(src)
    srcs, io, mo = C.run_pair([q], max_stack=ms)
    print(ms, src, '\n   impl', io[0][:80], '\n   model', mo[0][:80])
