#!/usr/bin/env python3
"""Derive the escape table of `escape_string_json` from /repo's manifest.rs.

Parses the `match chr { ... }` of `escape_string_json` arm by arm (in source order) and
writes lean/RsjModel/EscapeTable.lean: a list of (lo, hi, kind) with kind = literal
replacement text | `\\u{:04x}` format | raw push.  RsjProofs/JsonEscapeTable.lean proves
that the hand-written model `escapeChar` equals first-match lookup in this table, so a
change of any arm of the real code breaks the proof (or, if the table cannot be parsed,
the extractor fails).
"""
import os
import re
import sys

HERE = os.path.dirname(os.path.abspath(__file__))
SRC = "/repo/rsjsonnet-lang/src/program/eval/manifest.rs"
OUT = os.path.join(HERE, "..", "lean", "RsjModel", "EscapeTable.lean")


class ExtractError(Exception):
    pass


def rust_char(tok):
    """'x' | '\\n' | '\\u{1f}' | '"' | '\\\\' -> code point"""
    tok = tok.strip()
    if not (tok.startswith("'") and tok.endswith("'")):
        raise ExtractError("not a char literal: %r" % tok)
    body = tok[1:-1]
    simple = {"\\n": 10, "\\t": 9, "\\r": 13, "\\\\": 92, "\\'": 39, '\\"': 34, "\\0": 0}
    if body in simple:
        return simple[body]
    m = re.fullmatch(r"\\u\{([0-9a-fA-F]+)\}", body)
    if m:
        return int(m.group(1), 16)
    m = re.fullmatch(r"\\x([0-9a-fA-F]{2})", body)
    if m:
        return int(m.group(1), 16)
    if len(body) == 1:
        return ord(body)
    raise ExtractError("unsupported char literal: %r" % tok)


def rust_str(tok):
    """"\\\\b" -> code points of the Rust string literal"""
    tok = tok.strip()
    if not (tok.startswith('"') and tok.endswith('"')):
        raise ExtractError("not a string literal: %r" % tok)
    body = tok[1:-1]
    out = []
    i = 0
    while i < len(body):
        c = body[i]
        if c == "\\":
            e = body[i + 1]
            mp = {"n": 10, "t": 9, "r": 13, "\\": 92, '"': 34, "'": 39, "0": 0}
            if e not in mp:
                raise ExtractError("unsupported escape in %r" % tok)
            out.append(mp[e])
            i += 2
        else:
            out.append(ord(c))
            i += 1
    return out


def split_alternatives(pat):
    """split a pattern on top-level `|` (char literals may contain `|`)"""
    parts, cur, inq = [], "", False
    i = 0
    while i < len(pat):
        c = pat[i]
        if c == "'" :
            # char literal: find closing quote, honouring backslash
            j = i + 1
            if pat[j] == "\\":
                j += 2
                while pat[j] != "'":
                    j += 1
            else:
                j += 1
            cur += pat[i:j + 1]
            i = j + 1
            continue
        if c == "|":
            parts.append(cur)
            cur = ""
        else:
            cur += c
        i += 1
    parts.append(cur)
    return [p.strip() for p in parts if p.strip()]


def extract():
    src = open(SRC, encoding="utf-8").read()
    m = re.search(r"fn escape_string_json\(s: &str, result: &mut String\) \{(.*?)\n\}\n", src, re.S)
    if not m:
        raise ExtractError("escape_string_json not found")
    body = m.group(1)
    if "result.push('\"');" not in body.split("for chr in s.chars()")[0]:
        raise ExtractError("opening quote push not found")
    if not body.rstrip().endswith("result.push('\"');"):
        raise ExtractError("closing quote push not found")
    mm = re.search(r"match chr \{(.*)\n        \}\n    \}", body, re.S)
    if not mm:
        raise ExtractError("match chr { .. } not found")
    text = mm.group(1)
    # arms: `PATTERN => EXPR,` or `PATTERN => { ... }`
    arms = []
    pos = 0
    arm_re = re.compile(r"\s*(.+?)\s*=>\s*", re.S)
    while True:
        rest = text[pos:]
        if not rest.strip():
            break
        m2 = arm_re.match(rest)
        if not m2:
            raise ExtractError("cannot parse arm at: %r" % rest[:60])
        pat = m2.group(1)
        p = m2.end()
        if rest[p] == "{":
            depth, q = 0, p
            while True:
                if rest[q] == "{":
                    depth += 1
                elif rest[q] == "}":
                    depth -= 1
                    if depth == 0:
                        break
                q += 1
            expr = rest[p:q + 1]
            q += 1
        else:
            q = rest.index(",\n", p) if ",\n" in rest[p:] else len(rest)
            expr = rest[p:q]
        while q < len(rest) and rest[q] in ", \n":
            q += 1
        pos += q
        arms.append((pat.strip(), " ".join(expr.split()).rstrip(",").strip()))
    table = []
    saw_default = False
    for pat, expr in arms:
        if saw_default:
            raise ExtractError("arm after the default arm")
        if pat == "_":
            if expr != "result.push(chr)":
                raise ExtractError("default arm is not a raw push: %r" % expr)
            saw_default = True
            continue
        m3 = re.fullmatch(r'result\.push_str\((".*")\)', expr)
        if m3:
            kind = ("lit", rust_str(m3.group(1)))
        elif re.fullmatch(r'\{ write!\(result, "\\\\u\{:04x\}", chr as u32\)\.unwrap\(\); \}', expr):
            kind = ("uhex", None)
        else:
            raise ExtractError("unsupported arm body: %r" % expr)
        for alt in split_alternatives(pat):
            if "..=" in alt:
                lo, hi = alt.split("..=")
                table.append((rust_char(lo), rust_char(hi), kind))
            else:
                c = rust_char(alt)
                table.append((c, c, kind))
    if not saw_default:
        raise ExtractError("no default arm")
    return table


def render(table):
    rows = []
    for lo, hi, (k, t) in table:
        if k == "lit":
            rows.append("  (%d, %d, some [%s])" % (lo, hi, ", ".join(str(x) for x in t)))
        else:
            rows.append("  (%d, %d, none)" % (lo, hi))
    return ("/-\n  GENERATED by tools/extract_escape_table.py from\n"
            "  /repo/rsjsonnet-lang/src/program/eval/manifest.rs (`escape_string_json`) — do not edit.\n"
            "  One row per pattern alternative, in source order: (lo, hi, replacement);\n"
            "  `some text` = `push_str(text)`, `none` = `write!(\"\\\\u{:04x}\", chr as u32)`;\n"
            "  characters matched by no row are pushed raw (the `_` arm).\n-/\n"
            "namespace Rsj.Json\n\n"
            "def escapeTable : List (Nat × Nat × Option (List Nat)) := [\n" + ",\n".join(rows) + "\n]\n\n"
            "end Rsj.Json\n")


def main_write():
    table = extract()
    text = render(table)
    old = open(OUT, encoding="utf-8").read() if os.path.exists(OUT) else None
    if old != text:
        with open(OUT, "w", encoding="utf-8") as f:
            f.write(text)
    return table


if __name__ == "__main__":
    try:
        t = main_write()
    except ExtractError as e:
        print("extract_escape_table: " + str(e))
        sys.exit(1)
    for row in t:
        print(row)
