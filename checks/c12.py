"""C12 — the command-line contract (exit status, streams, output modes, ext vars, TLAs).

The real binary (debug build, so a panic would show as exit 101) is run in a
fresh scratch directory per case.  Three computations are compared:
  * the binary: (exit, stdout bytes, stderr non-empty, files created, -o file),
  * the contract itself, re-implemented in Python (`expected`)        -> rep.violation,
  * the Lean model `Rsj.Cli.mainInner` fed the same arguments and a World
    derived from the injected faults                                   -> rep.disagreement.
Manifestation text is not recomputed: the default-mode output of every
(sub-)value is taken from the binary itself (checked to parse as JSON equal to
the value) and the other modes are required to be views of it.
"""
import itertools
import json
import os
import shutil
import subprocess
import tempfile
import threading
from concurrent.futures import ThreadPoolExecutor

import vlib
from checks.c13 import rjoin

# ---------------------------------------------------------------- expressions
# ["atom", i] | ["str", s] | ["arr", [e..]] | ["obj", [[name, hidden, e]..]] | ["func", id, [[name, default|None]..], body]
# | ["ext", name] | ["param", name] | ["err"]

ATOMS = [("null", None), ("true", True), ("false", False), ("1", 1), ("(-2.5)", -2.5), ("12345678", 12345678), ("0", 0)]


class EvalFail(Exception):
    pass


class PyFunc:
    def __init__(self, fid, params, body):
        self.fid, self.params, self.body = fid, params, body

    def __repr__(self):
        return "<func %d>" % self.fid


def to_src(e):
    t = e[0]
    if t == "atom":
        return ATOMS[e[1]][0]
    if t == "str":
        return vlib.jsonnet_str(e[1])
    if t == "arr":
        return "[" + ", ".join(to_src(x) for x in e[1]) + "]"
    if t == "obj":
        return "{" + ", ".join("%s%s %s" % (vlib.jsonnet_str(n), "::" if h is True else (":::" if h == "force" else ":"), to_src(x)) for n, h, x in e[1]) + "}"
    if t == "func":
        ps = ", ".join(n if d is None else "%s=%s" % (n, to_src(d)) for n, d in e[2])
        return "(function(%s) %s)" % (ps, to_src(e[3]))
    if t == "ext":
        return "std.extVar(%s)" % vlib.jsonnet_str(e[1])
    if t == "param":
        return e[1]
    if t == "err":
        return '(error "boom")'
    raise ValueError(e)


def to_spec(e):
    t = e[0]
    if t == "atom":
        return ["a%d" % e[1]]
    if t == "str":
        return ["s" + vlib.hx(e[1])]
    if t == "arr":
        return ["[%d" % len(e[1])] + [x for it in e[1] for x in to_spec(it)]
    if t == "obj":
        out = ["{%d" % len(e[1])]
        for n, h, x in sorted(e[1], key=lambda f: f[0]):
            out.append(("h" if h is True else "v") + vlib.hx(n))
            out += to_spec(x)
        return out
    if t == "func":
        out = ["f%d/%d" % (e[1], len(e[2]))]
        for n, d in e[2]:
            if d is None:
                out.append("p" + vlib.hx(n))
            else:
                out.append("d" + vlib.hx(n))
                out += to_spec(d)
        return out + to_spec(e[3])
    if t == "ext":
        return ["x" + vlib.hx(e[1])]
    if t == "param":
        return ["r" + vlib.hx(e[1])]
    if t == "err":
        return ["!"]
    raise ValueError(e)


def py_eval(e, ext, penv, code, depth=0):
    """Deep evaluation -> python value (dict with sorted keys, list, str, atoms, PyFunc)."""
    if depth > 40:
        raise EvalFail("depth")
    t = e[0]

    def thunk(th):
        if th[0] == "str":
            return th[1]
        if th[1] not in code:
            raise EvalFail("unknown code")
        return py_eval(code[th[1]], ext, {}, code, depth + 1)
    if t == "atom":
        return ATOMS[e[1]][1]
    if t == "str":
        return e[1]
    if t == "arr":
        return [py_eval(x, ext, penv, code, depth + 1) for x in e[1]]
    if t == "obj":
        return {n: py_eval(x, ext, penv, code, depth + 1) for n, h, x in sorted(e[1], key=lambda f: f[0]) if h is not True}
    if t == "func":
        return PyFunc(e[1], e[2], e[3])
    if t == "ext":
        if e[1] not in ext:
            raise EvalFail("unknown ext var")
        return thunk(ext[e[1]])
    if t == "param":
        b = penv.get(e[1])
        if b is None:
            raise EvalFail("unbound")
        if b[0] == "arg":
            return thunk(b[1])
        return py_eval(b[1], ext, penv, code, depth + 1)
    if t == "err":
        raise EvalFail("boom")
    raise ValueError(e)


def has_func(v):
    if isinstance(v, PyFunc):
        return True
    if isinstance(v, list):
        return any(has_func(x) for x in v)
    if isinstance(v, dict):
        return any(has_func(x) for x in v.values())
    return False


def value_spec(v):
    """Closed expression tokens of an evaluated value (key of the model's manifest table)."""
    if isinstance(v, PyFunc):
        return ["f%d/0" % v.fid, "a0"]
    if isinstance(v, str):
        return ["s" + vlib.hx(v)]
    if isinstance(v, list):
        return ["[%d" % len(v)] + [x for it in v for x in value_spec(it)]
    if isinstance(v, dict):
        out = ["{%d" % len(v)]
        for n in sorted(v):
            out.append("v" + vlib.hx(n))
            out += value_spec(v[n])
        return out
    for i, (_, a) in enumerate(ATOMS):
        if type(a) is type(v) and a == v:
            return ["a%d" % i]
    raise ValueError(v)


# ---------------------------------------------------------------- running the binary

def run_bin(argv, cwd, env=None, stdin=b"", stdout_mode="pipe", timeout=60):
    e = dict(os.environ, NO_COLOR="1")
    e.pop("RUST_BACKTRACE", None)
    if env:
        e.update(env)
    kw = {}
    close_after = []
    if stdin == "dir":
        fd = os.open(cwd, os.O_RDONLY)
        kw["stdin"] = fd
        close_after.append(fd)
        inp = None
    else:
        inp = stdin
    if stdout_mode == "pipe":
        kw["stdout"] = subprocess.PIPE
    elif stdout_mode == "full":
        fd = os.open("/dev/full", os.O_WRONLY)
        kw["stdout"] = fd
        close_after.append(fd)
    elif stdout_mode == "epipe":
        r, w = os.pipe()
        os.close(r)
        kw["stdout"] = w
        close_after.append(w)
    elif stdout_mode == "closed":
        kw["stdout"] = None
        kw["preexec_fn"] = lambda: os.close(1)
    try:
        if inp is not None:
            p = subprocess.run([vlib.CLI_BIN] + argv, cwd=cwd, env=e, input=inp, stderr=subprocess.PIPE,
                               timeout=timeout, **kw)
        else:
            p = subprocess.run([vlib.CLI_BIN] + argv, cwd=cwd, env=e, stderr=subprocess.PIPE, timeout=timeout, **kw)
        return p.returncode, (p.stdout or b""), p.stderr
    except subprocess.TimeoutExpired:
        return "timeout", b"", b""
    finally:
        for fd in close_after:
            os.close(fd)


_base_cache = {}
_base_lock = threading.Lock()
_base_bad = []


def base_text(v, cwd):
    """Default-mode text (no trailing newline) of a function-free value, from the binary itself."""
    if has_func(v):
        return None
    src = json.dumps(v, ensure_ascii=True, sort_keys=True)
    with _base_lock:
        if src in _base_cache:
            return _base_cache[src]
    rc, out, err = run_bin(["--no-trailing-newline", "-"], cwd, stdin=src.encode("utf-8"))
    ok = rc == 0
    if ok:
        try:
            ok = json.loads(out.decode("utf-8")) == v and type(json.loads(out.decode("utf-8"))) is type(v)
        except Exception:
            ok = False
    txt = out.decode("utf-8", "replace") if ok else None
    with _base_lock:
        _base_cache[src] = txt
        if not ok:
            _base_bad.append((src, rc, out[:200], err[-200:]))
    return txt


# ---------------------------------------------------------------- a case

M_DIR = "m"
O_FILE = "out.txt"
SENTINEL = b"previous content of the -o file\n"


def default_case():
    return {"flags": [], "input": "e", "root": ["atom", 3], "ext": [], "tla": [], "env": {}, "fault": None,
            "extra": [], "mdir": M_DIR, "ofile": O_FILE, "order": 0, "preexist_o": False, "subdirs": []}


def var_arg(item):
    """The raw command-line value of an ext/TLA item and the side files / env it needs."""
    k, var, via = item["k"], item["var"], item.get("via", "arg")
    if k in ("xs", "ts", "xc", "tc"):
        text = item["s"] if k in ("xs", "ts") else to_src(item["expr"]) if "expr" in item else item["text"]
        if via == "env":
            return var, {var: text}, {}
        if via == "noenv":
            return var, {}, {}
        return var + "=" + text, {}, {}
    # file kinds
    path = item.get("path", "v_%s_%d.txt" % (k, item.get("n", 0)))
    if k in ("xsf", "tsf"):
        data = bytes.fromhex(item["hex"]) if "hex" in item else item["s"].encode("utf-8")
    else:
        data = (to_src(item["expr"]) if "expr" in item else item["text"]).encode("utf-8")
    if item.get("noeq"):
        return var, {}, {}
    files = {} if item.get("missing") else {path: data}
    return var + "=" + path, {}, files


OPT = {"xs": "--ext-str", "xsf": "--ext-str-file", "xc": "--ext-code", "xcf": "--ext-code-file",
       "ts": "--tla-str", "tsf": "--tla-str-file", "tc": "--tla-code", "tcf": "--tla-code-file"}
SHORT = {"xs": "-V", "ts": "-A"}


def build(case, C):
    """Create the scratch directory content; -> (argv, env, stdin, stdout_mode, created inputs)."""
    os.makedirs(C)
    argv, env, inputs = [], dict(case["env"]), set()
    fl = case["flags"]
    fault = case["fault"]
    root_src = to_src(case["root"]) if "root_text" not in case else case["root_text"]
    var_args = []
    for item in case["ext"] + case["tla"]:
        raw, e2, files = var_arg(item)
        env.update(e2)
        for p, data in files.items():
            with open(os.path.join(C, p), "wb") as fh:
                fh.write(data)
            inputs.add(p)
        opt = OPT[item["k"]]
        if item.get("short") and item["k"] in SHORT:
            var_args.append([SHORT[item["k"]], raw])
        elif item.get("eqform"):
            var_args.append([opt + "=" + raw])
        else:
            var_args.append([opt, raw])
    mode_args = []
    if "S" in fl:
        mode_args.append(["-S"])
    if "y" in fl:
        mode_args.append(["-y"])
    if "ntn" in fl:
        mode_args.append(["--no-trailing-newline"])
    if "m" in fl:
        mode_args.append(["-m", case["mdir"]])
        if fault != "m-missing":
            os.makedirs(os.path.join(C, case["mdir"]), exist_ok=True)
            for sd in case["subdirs"]:
                os.makedirs(os.path.join(C, case["mdir"], sd), exist_ok=True)
    if "o" in fl:
        mode_args.append(["-o", case["ofile"]])
        if fault == "o-isdir":
            os.makedirs(os.path.join(C, case["ofile"]))
        elif case["preexist_o"] and fault != "o-missing-dir":
            with open(os.path.join(C, case["ofile"]), "wb") as fh:
                fh.write(SENTINEL)
    extra = [list(case["extra"])] if case["extra"] else []
    stdin = b""
    if case["input"] == "e":
        in_args = [["-e", root_src]]
    elif case["input"] == "stdin":
        in_args = [["-"]]
        stdin = "dir" if fault == "stdin-dir" else root_src.encode("utf-8")
    else:
        path = case.get("inpath", "in.jsonnet")
        in_args = [[path]]
        if fault == "in-missing":
            pass
        elif fault == "in-dir":
            os.makedirs(os.path.join(C, path))
        else:
            with open(os.path.join(C, path), "wb") as fh:
                fh.write(root_src.encode("utf-8"))
            inputs.add(path)
            if fault == "in-unreadable":
                os.chmod(os.path.join(C, path), 0)
    groups = mode_args + var_args + extra
    # deterministic shuffle of the option groups; options of the same kind keep their relative order
    # (clap collects per option, main.rs then processes kind by kind)
    pos = len(groups)
    if case["order"]:
        import random
        r = random.Random(case["order"])
        r.shuffle(groups)
        it = iter(var_args)
        groups = [next(it) if any(g is v for v in var_args) else g for g in groups]
        pos = r.randrange(len(groups) + 1)
    groups = groups[:pos] + in_args + groups[pos:]
    for g in groups:
        argv += g
    stdout_mode = {"full": "full", "closed": "closed", "epipe": "epipe"}.get(fault, "pipe")
    return argv, env, stdin, stdout_mode, inputs


def collect_files(C, inputs, case):
    found = {}
    for root, dirs, files in os.walk(C):
        for f in files:
            rel = os.path.relpath(os.path.join(root, f), C)
            if rel in inputs:
                continue
            try:
                with open(os.path.join(root, f), "rb") as fh:
                    found[rel] = fh.read()
            except OSError:
                found[rel] = None
    return found


# ---------------------------------------------------------------- the contract (python)

class Stage(Exception):
    """A stage failed -> exit 1 (or 2 for usage)."""

    def __init__(self, code, why, files=None):
        super().__init__(why)
        self.code, self.why, self.files = code, why, files or {}


def split_var(raw):
    if "=" in raw:
        i = raw.index("=")
        return raw[:i], raw[i + 1:]
    return raw, None


def expected(case, C):
    """-> dict(exit, stdout, files{rel: bytes}, ofile (bytes|None), mf [(valuespec, text)], why)."""
    fl = case["fault"]
    flags = case["flags"]
    code = {}            # code text -> expr
    mf = {}
    wfail = []

    def text_of(v):
        t = base_text(v, C)
        if t is not None:
            mf[",".join(value_spec(v))] = t
        return t
    try:
        if case.get("usage"):
            raise Stage(2, case["usage"])
        for item in case["ext"] + case["tla"]:
            if item["k"] in ("xsf", "xcf", "tsf", "tcf") and item.get("noeq"):
                raise Stage(2, "var=file without '='")
        if "S" in flags and "y" in flags:
            raise Stage(2, "-S with -y")
        # input
        if fl in ("stdin-dir", "in-missing", "in-dir", "in-unreadable"):
            raise Stage(1, "input: " + fl)
        if "root_text" in case:
            raise Stage(1, "root does not load")
        code[to_src(case["root"])] = case["root"]
        # ext vars, in main.rs order (by kind), duplicates fatal
        ext = {}
        for kind in ("xs", "xsf", "xc", "xcf"):
            for item in case["ext"]:
                if item["k"] != kind:
                    continue
                raw, _, _ = var_arg(item)
                var, val = split_var(raw)
                if var in ext:
                    raise Stage(1, "duplicate ext var")
                ext[var] = thunk_of(item, var, val, case, code)
        tla = []
        for kind in ("ts", "tsf", "tc", "tcf"):
            for item in case["tla"]:
                if item["k"] != kind:
                    continue
                raw, _, _ = var_arg(item)
                var, val = split_var(raw)
                tla.append((var, thunk_of(item, var, val, case, code)))
        try:
            v = py_eval(case["root"], ext, {}, code)
        except EvalFail as e:
            raise Stage(1, "evaluation failed: %s" % e)
        if isinstance(v, PyFunc):
            names = [n for n, _ in tla]
            pnames = [n for n, _ in v.params]
            for n in names:
                if n not in pnames:
                    raise Stage(1, "unknown parameter")
            if len(set(names)) != len(names):
                raise Stage(1, "repeated parameter")
            penv = {}
            for n, d in v.params:
                if n in names:
                    penv[n] = ("arg", dict(tla)[n])
                elif d is not None:
                    penv[n] = ("dflt", d)
                else:
                    raise Stage(1, "parameter not bound")
            try:
                v = py_eval(v.body, ext, penv, code)
            except EvalFail as e:
                raise Stage(1, "call failed: %s" % e)
        elif tla:
            raise Stage(1, "TLAs but root is not a function")

        ntn = "ntn" in flags

        def chomp(s):
            if ntn:
                assert s.endswith("\n")
                return s[:-1]
            return s

        def repr_of(x, files):
            if "S" in flags:
                if not isinstance(x, str):
                    raise Stage(1, "-S on a non-string", files)
                return chomp(x + "\n")
            if "y" in flags:
                if not isinstance(x, list):
                    raise Stage(1, "-y on a non-array", files)
                ts = []
                for it in x:
                    t = text_of(it)
                    if t is None:
                        raise Stage(1, "item does not manifest", files)
                    ts.append(t)
                if not ts:
                    return ""
                return chomp("".join("---\n" + t + "\n" for t in ts) + "...\n")
            t = text_of(x)
            if t is None:
                raise Stage(1, "value does not manifest", files)
            return chomp(t + "\n")

        files = {}
        if "m" in flags:
            if not isinstance(v, dict):
                raise Stage(1, "-m on a non-object")
            lines = []
            for name in sorted(v):
                r = repr_of(v[name], dict(files))
                path = rjoin(case["mdir"], name)
                if fl == "m-missing" or name in case.get("bad_fields", []):
                    wfail.append(path)
                    raise Stage(1, "cannot write " + path, dict(files))
                files[os.path.normpath(path)] = r.encode("utf-8")
                lines.append(path + "\n")
            out = "".join(lines)
        else:
            out = repr_of(v, {})
        outb = out.encode("utf-8")
        if "o" in flags:
            if fl in ("o-missing-dir", "o-isdir"):
                raise Stage(1, "cannot write -o file", files)
            return {"exit": 0, "stdout": b"", "files": files, "ofile": outb, "mf": mf, "why": "ok", "silent": True, "wfail": wfail}
        if fl in ("full", "epipe", "closed") and outb:
            raise Stage(1, "stdout not writable", files)
        return {"exit": 0, "stdout": outb, "files": files, "ofile": None, "mf": mf, "why": "ok", "silent": True, "wfail": wfail}
    except Stage as s:
        return {"exit": s.code, "stdout": b"", "files": s.files, "ofile": None, "mf": mf, "why": s.why, "silent": False, "wfail": wfail}


def thunk_of(item, var, val, case, code):
    k = item["k"]
    if k in ("xs", "ts", "xc", "tc"):
        if val is None:
            if item.get("via") != "env":
                raise Stage(1, "environment variable not defined")
            val = item["s"] if k in ("xs", "ts") else (to_src(item["expr"]) if "expr" in item else item["text"])
        if k in ("xs", "ts"):
            return ("str", val)
        if "expr" not in item:
            raise Stage(1, "ext code does not load")
        code[val] = item["expr"]
        return ("code", val)
    if item.get("missing"):
        raise Stage(1, "var file missing")
    if k in ("xsf", "tsf"):
        data = bytes.fromhex(item["hex"]) if "hex" in item else item["s"].encode("utf-8")
        try:
            return ("str", data.decode("utf-8"))
        except UnicodeDecodeError:
            raise Stage(1, "var file is not UTF-8")
    if "expr" not in item:
        raise Stage(1, "ext code file does not load")
    text = to_src(item["expr"])
    code[text] = item["expr"]
    return ("code", text)


# ---------------------------------------------------------------- the model request

def model_line(case, exp):
    toks = []
    root_src = to_src(case["root"]) if "root_text" not in case else case["root_text"]
    fl = case["fault"]
    codes = {}
    if "root_text" in case:
        toks.append("badcode=" + vlib.hx(root_src))
    else:
        codes[root_src] = case["root"]
    if case["input"] == "e":
        toks.append("in=e:" + vlib.hx(root_src))
    elif case["input"] == "stdin":
        toks.append("in=s")
        toks.append("stdin=!" if fl == "stdin-dir" else "stdin=" + vlib.hx(root_src))
    else:
        path = case.get("inpath", "in.jsonnet")
        toks.append("in=f:" + vlib.hx(path))
        if fl not in ("in-missing", "in-dir", "in-unreadable"):
            toks.append("rfile=%s:%s" % (vlib.hx(path), vlib.hx(root_src)))
    for f in case["flags"]:
        if f == "m":
            toks.append("m=" + vlib.hx(case["mdir"]))
        elif f == "o":
            toks.append("o=" + vlib.hx(case["ofile"]))
        else:
            toks.append(f)
    for item in case["ext"] + case["tla"]:
        raw, env2, files = var_arg(item)
        toks.append("%s=%s" % (item["k"], vlib.hx(raw)))
        k = item["k"]
        for n, v in env2.items():
            toks.append("env=%s:%s" % (vlib.hx(n), vlib.hx(v)))
        if k in ("xc", "tc", "xcf", "tcf"):
            if "expr" in item:
                codes[to_src(item["expr"])] = item["expr"]
            else:
                toks.append("badcode=" + vlib.hx(item["text"]))
        for p, data in files.items():
            if k in ("xsf", "tsf"):
                try:
                    toks.append("sfile=%s:%s" % (vlib.hx(p), vlib.hx(data.decode("utf-8"))))
                except UnicodeDecodeError:
                    toks.append("sfilebad=" + vlib.hx(p))
            else:
                toks.append("rfile=%s:%s" % (vlib.hx(p), vlib.hx(data)))
    for n, v in case["env"].items():
        toks.append("env=%s:%s" % (vlib.hx(n), vlib.hx(v)))
    for text, e in codes.items():
        toks.append("code=%s:%s" % (vlib.hx(text), ",".join(to_spec(e))))
    for spec, text in exp["mf"].items():
        toks.append("mf=%s:%s" % (spec, vlib.hx(text)))
    if fl in ("o-missing-dir", "o-isdir"):
        toks.append("wfail=" + vlib.hx(case["ofile"]))
    for p in exp["wfail"]:
        toks.append("wfail=" + vlib.hx(p))
    if fl in ("full", "epipe"):
        toks.append("full")
    return "cli run " + " ".join(toks)


def canon_model(ans):
    """Sort the file list by normalised path (order on disk is not observable)."""
    try:
        parts = dict(p.split("=", 1) for p in ans.split(" "))
        fs = parts["files"][1:-1]
        items = []
        if fs:
            for it in fs.split(","):
                p, c = it.split(":")
                items.append((os.path.normpath(vlib.unhx(p).decode("utf-8")), c))
        items.sort()
        of = parts["ofile"]
        if of != "none":
            p, c = of.split(":")
            of = vlib.hx(os.path.normpath(vlib.unhx(p).decode("utf-8"))) + ":" + c
        return "exit=%s out=%s err=%s files=[%s] ofile=%s" % (
            parts["exit"], parts["out"], parts["err"], ",".join(vlib.hx(p) + ":" + c for p, c in items), of)
    except Exception:
        return ans


def impl_answer(case, rc, out, err, found):
    files = dict(found)
    of = "none"
    if "o" in case["flags"]:
        key = os.path.normpath(case["ofile"])
        if key in files:
            data = files.pop(key)
            if not (case["preexist_o"] and data == SENTINEL and rc != 0):
                of = vlib.hx(key) + ":" + vlib.hx(data)
    items = sorted((p, vlib.hx(d if d is not None else b"?")) for p, d in files.items())
    return "exit=%s out=%s err=%d files=[%s] ofile=%s" % (
        rc, vlib.hx(out), 1 if err else 0, ",".join(vlib.hx(p) + ":" + c for p, c in items), of)


def judge(case, exp, rc, out, err, found):
    """The contract as direct oracle -> None or a description of the violation."""
    if rc not in (0, 1, 2):
        return "exit status %r (panic / signal / hang); stderr tail: %s" % (rc, err.decode("utf-8", "replace")[-300:])
    if rc != exp["exit"]:
        return "exit %r, the contract requires %r (%s); stderr tail: %s" % (
            rc, exp["exit"], exp["why"], err.decode("utf-8", "replace")[-200:])
    files = dict(found)
    okey = os.path.normpath(case["ofile"])
    odata = files.pop(okey, None) if "o" in case["flags"] else None
    if rc != 0:
        if out:
            return "exit %d but stdout is not empty: %r" % (rc, out[:80])
        if not err:
            return "exit %d without any explanation on stderr" % rc
        if odata is not None and not (case["preexist_o"] and odata == SENTINEL):
            return "exit %d but the -o file was written / modified" % rc
        if "m" not in case["flags"] and files:
            return "exit %d but files were created: %r" % (rc, sorted(files))
        if files != exp["files"]:
            return "exit %d in -m mode: files on disk %r are not the fields manifested before the failure %r" % (
                rc, sorted(files), sorted(exp["files"]))
        return None
    # success
    if case["fault"] == "closed":
        return None if not exp["stdout"] else "unreachable"
    if "o" in case["flags"]:
        if out:
            return "-o given but stdout is not empty"
        if odata != exp["ofile"]:
            return "-o file content %r differs from the expected view %r" % ((odata or b"")[:120], exp["ofile"][:120])
    elif case["fault"] not in ("full", "epipe") and out != exp["stdout"]:
        return "stdout %r differs from the expected view %r" % (out[:160], exp["stdout"][:160])
    if files != exp["files"]:
        return "files created %r differ from the expected %r" % (sorted(files.items())[:4], sorted(exp["files"].items())[:4])
    if exp["silent"] and err:
        return "success but stderr is not empty: %r" % err[:120]
    return None


def run_case(base, idx, case):
    C = os.path.join(base, "c%d" % idx)
    try:
        argv, env, stdin, stdout_mode, inputs = build(case, C)
        rc, out, err = run_bin(argv, C, env=env, stdin=stdin, stdout_mode=stdout_mode)
        found = collect_files(C, inputs, case)
        exp = expected(case, C)
    finally:
        for root, dirs, files in os.walk(C):
            for f in files:
                try:
                    os.chmod(os.path.join(root, f), 0o600)
                except OSError:
                    pass
        shutil.rmtree(C, ignore_errors=True)
    return {"case": case, "argv": argv, "rc": rc, "out": out, "err": err, "found": found, "exp": exp}


# ---------------------------------------------------------------- generators

TRICKY = ["a=b", "=", "x=y=z", 'say "hi"', "it's", "line1\nline2\n", "héllo wörld ✓ 𝄞", "", " ", "a\tb", "\\n", "{}",
          "é=\"q\"\n=ü", "-e", "--", "%s"]
VARNAMES = ["x", "y", "v1", "long_name", "é", "a b", 'q"t', "a.b", "X-Y"]
ENVNAMES = ["RSJ_C12_A", "RSJ_C12_B"]
PNAMES = ["p", "q", "r2"]


def S(s):
    return ["str", s]


VALUES = [
    ("string", S('héllo\n"q"=x')),
    ("string-empty", S("")),
    ("string-nl", S("ends with newline\n")),
    ("array-mixed", ["arr", [["atom", 3], S("a"), ["arr", []], ["obj", []], ["atom", 0]]]),
    ("array-strings", ["arr", [S("one"), S("two\n")]]),
    ("array-empty", ["arr", []]),
    ("array-one", ["arr", [["obj", [["k", False, ["atom", 4]]]]]]),
    ("object-mixed", ["obj", [["z", False, ["arr", [["atom", 3], ["atom", 4]]]], ["a", False, S("x")],
                             ["h", True, ["err"]], ["é k", False, ["atom", 3]]]]),
    ("object-strings", ["obj", [["b", False, S("s2\n")], ["a", False, S("s1")], ["hid", True, S("no")]]]),
    ("object-arrays", ["obj", [["a", False, ["arr", [["atom", 3]]]], ["b", False, ["arr", []]],
                               ["c", False, ["arr", [S("x"), ["atom", 0]]]]]]),
    ("object-empty", ["obj", []]),
    ("object-forced-visible", ["obj", [["a", False, S("x")], ["dbg", "force", S("shown")], ["hid", True, S("no")]]]),
    ("object-forced-visible-json", ["obj", [["z", "force", ["arr", [["atom", 3]]]], ["a", False, ["obj", [["k", "force", ["atom", 4]]]]]]]),
    ("number", ["atom", 4]),
    ("null", ["atom", 0]),
    ("func-defaults", ["func", 1, [["p", S("dflt")], ["q", ["atom", 3]]],
                       ["obj", [["a", False, ["param", "p"]], ["b", False, ["arr", [["param", "q"]]]]]]]),
    ("func-string", ["func", 2, [["p", S("from default")]], ["param", "p"]]),
    ("array-with-func", ["arr", [["atom", 3], ["func", 3, [], ["atom", 3]], ["atom", 4]]]),
    ("object-with-func", ["obj", [["a", False, S("first")], ["b", False, ["func", 4, [], ["atom", 3]]],
                                  ["c", False, S("third")]]]),
    ("error", ["err"]),
    ("object-nested-name", ["obj", [["a", False, S("x")], ["sub/n", False, S("y")]]]),
]


def mode_matrix(rng, tier):
    cases = []
    subsets = []
    for r in range(6):
        subsets += [list(c) for c in itertools.combinations(["S", "y", "ntn", "m", "o"], r)]
    kinds = ["e", "stdin", "file"]
    for name, v in VALUES:
        for fl in subsets:
            for kind in (kinds if tier != "quick" else [rng.choice(kinds)]):
                c = default_case()
                c.update({"flags": fl, "input": kind, "root": v, "label": "mode:" + name,
                          "order": rng.randrange(0, 50) if rng.random() < 0.5 else 0,
                          "preexist_o": rng.random() < 0.4})
                if name == "object-nested-name":
                    if rng.random() < 0.5:
                        c["subdirs"] = ["sub"]
                    else:
                        c["bad_fields"] = ["sub/n"]
                if rng.random() < 0.2:
                    c["extra"] = rng.choice([["-s", "500"], ["-t", "5"], ["--max-stack", "300", "--max-trace", "0"]])
                if rng.random() < 0.15:
                    c["mdir"] = rng.choice(["./m", "m/", "m/."])
                cases.append(c)
    return cases


def gen_var_case(rng):
    """External variables / top-level arguments of every kind with tricky values."""
    c = default_case()
    c["label"] = "vars"
    nx = rng.choice([0, 1, 1, 2, 3])
    nt = rng.choice([0, 0, 1, 2])
    fields = []
    names = rng.sample(VARNAMES, nx)
    fid = 10
    for i, var in enumerate(names):
        k = rng.choice(["xs", "xs", "xsf", "xc", "xcf"])
        item = {"k": k, "var": var, "n": i}
        if k in ("xs", "xsf"):
            item["s"] = rng.choice(TRICKY)
            if k == "xsf" and rng.random() < 0.06:
                item["hex"] = b"bad \xff utf8".hex()
        else:
            item["expr"] = rng.choice([S(rng.choice(TRICKY)), ["arr", [["atom", 3], S("=")]],
                                       ["obj", [["k", False, S(rng.choice(TRICKY))]]], ["atom", 4]])
        if k in ("xs", "xc") and rng.random() < 0.3 and var.isascii() and var.isidentifier():
            item["via"] = "env"
        if k == "xs" and rng.random() < 0.3:
            item["short"] = True
        if rng.random() < 0.2:
            item["eqform"] = True
        c["ext"].append(item)
        if rng.random() < 0.85:
            fields.append(["e%d" % i, False, ["ext", var]])
    if rng.random() < 0.3:
        # lazily evaluated code that is never used (or is used -> failure)
        used = rng.random() < 0.3
        c["ext"].append({"k": rng.choice(["xc", "xcf"]), "var": "lazy", "expr": ["err"], "n": 9})
        if used:
            fields.append(["lz", False, ["ext", "lazy"]])
    if rng.random() < 0.1:
        fields.append(["unk", False, ["ext", "never_defined"]])
    if rng.random() < 0.06 and c["ext"]:
        d = dict(rng.choice(c["ext"]))
        d["k"] = rng.choice(["xs", "xc"])
        d.pop("hex", None)
        d["s"] = "dup"
        d["expr"] = S("dup")
        d["n"] = 8
        d.pop("via", None)
        c["ext"].append(d)                      # duplicate external variable
    body_fields = list(fields)
    if nt or rng.random() < 0.3:
        params = []
        pn = rng.sample(PNAMES, rng.choice([1, 2, 3]))
        for p in pn:
            params.append([p, rng.choice([None, S("default of " + p), ["atom", 3], S("d=\n")])])
            body_fields.append(["t_" + p, False, ["param", p]])
        for j in range(nt):
            k = rng.choice(["ts", "ts", "tsf", "tc", "tcf"])
            free = [p for p in pn if p not in [t["var"] for t in c["tla"]]]
            var = rng.choice(free) if free and rng.random() < 0.85 else rng.choice(pn + ["zz", "a b"])
            item = {"k": k, "var": var, "n": 20 + j}
            if k in ("ts", "tsf"):
                item["s"] = rng.choice(TRICKY)
            else:
                item["expr"] = rng.choice([S(rng.choice(TRICKY)), ["arr", [S("t")]], ["atom", 5]])
            if k == "ts" and rng.random() < 0.3:
                item["short"] = True
            c["tla"].append(item)
        body_fields = [[n, (rng.choice([False, "force", "force", True]) if rng.random() < 0.3 else h), x] for n, h, x in body_fields]
        root = ["func", fid, params, ["obj", body_fields]]
        if rng.random() < 0.1:
            root = ["obj", body_fields[:len(fields)]]      # TLAs given but the root is not a function
    else:
        body_fields = [[n, (rng.choice([False, "force", "force", True]) if rng.random() < 0.3 else h), x] for n, h, x in body_fields]
        root = ["obj", body_fields]
    c["root"] = root
    c["flags"] = rng.choice([[], [], ["ntn"], ["m"], ["o"], ["m", "o"], ["m", "ntn"], ["o", "ntn"], ["m"], ["o"], ["y"], ["S"]])
    c["input"] = rng.choice(["e", "stdin", "file"])
    c["order"] = rng.randrange(0, 100)
    return c


def fault_cases(rng, can_chmod):
    out = []

    def mk(label, **kw):
        c = default_case()
        c["label"] = "fault:" + label
        c.update(kw)
        out.append(c)
    obj = VALUES[8][1]
    mk("in-missing", input="file", fault="in-missing")
    mk("in-missing-o", input="file", fault="in-missing", flags=["o"], preexist_o=True)
    mk("in-missing-m", input="file", fault="in-missing", flags=["m"], root=obj)
    mk("in-dir", input="file", fault="in-dir")
    mk("in-dir-o", input="file", fault="in-dir", flags=["o", "ntn"])
    if can_chmod:
        mk("in-unreadable", input="file", fault="in-unreadable")
    mk("stdin-dir", input="stdin", fault="stdin-dir")
    mk("stdin-dir-o", input="stdin", fault="stdin-dir", flags=["o"], preexist_o=True)
    for fl in ([], ["ntn"], ["S"], ["S", "ntn"], ["y"], ["y", "ntn"], ["m"], ["m", "S", "ntn"]):
        root = S("abc") if "S" in fl and "m" not in fl else ["arr", [["atom", 3]]] if "y" in fl else obj if "m" in fl else ["atom", 3]
        for f in ("full", "epipe", "closed"):
            mk(f + "-" + "".join(fl), fault=f, flags=fl, root=root, input=rng.choice(["e", "stdin", "file"]))
    # nothing to write: an empty output on a full / closed stdout is not a failed write
    mk("full-empty-yaml", fault="full", flags=["y"], root=["arr", []])
    mk("full-empty-string", fault="full", flags=["S", "ntn"], root=S(""))
    mk("full-empty-multi", fault="full", flags=["m"], root=["obj", []])
    mk("full-with-o", fault="full", flags=["o"], root=S("to the file"))
    mk("large-full", fault="full", root=["arr", [S("x" * 3000)] * 20])
    mk("large-epipe", fault="epipe", root=["arr", [S("x" * 3000)] * 20], flags=["ntn"])
    for fl in (["o"], ["o", "ntn"], ["o", "S"], ["o", "m"], ["o", "y"]):
        root = S("abc") if "S" in fl else obj if "m" in fl else ["arr", [["atom", 3]]]
        mk("o-missing-dir", fault="o-missing-dir", flags=fl, root=root, ofile="nodir/out.txt")
        mk("o-isdir", fault="o-isdir", flags=fl, root=root)
    for fl in (["m"], ["m", "o"], ["m", "S"], ["m", "ntn"]):
        mk("m-missing", fault="m-missing", flags=fl, root=obj, preexist_o=True)
    mk("m-missing-empty-object", fault="m-missing", flags=["m"], root=["obj", []])
    # loading failures
    mk("root-syntax", root_text="{ a: ", input="e")
    mk("root-syntax-file-o", root_text="local x = ; x", input="file", flags=["o"], preexist_o=True)
    mk("root-syntax-stdin-m", root_text="[1, 2", input="stdin", flags=["m"])
    mk("root-static-error", root_text="undefined_variable", input="e")
    # regression: zero-width characters in a lexer error used to panic (exit 101)
    for i, t in enumerate(["\ufeff", "\ufeff1", "\u200b", "1 \u0301", "\u00ad", "{a: \ufeff}"]):
        mk("zero-width-%d" % i, root_text=t, input=rng.choice(["e", "file", "stdin"]))
    mk("ext-code-syntax", ext=[{"k": "xc", "var": "x", "text": "("}])
    mk("ext-code-syntax-unused-o", ext=[{"k": "xc", "var": "x", "text": "1 +"}], flags=["o"])
    mk("ext-code-file-syntax", ext=[{"k": "xcf", "var": "x", "text": "}"}])
    mk("ext-code-file-missing", ext=[{"k": "xcf", "var": "x", "expr": ["atom", 5], "missing": True}])
    mk("ext-str-file-missing", ext=[{"k": "xsf", "var": "x", "s": "1", "missing": True}], flags=["o"])
    mk("ext-str-file-bad-utf8", ext=[{"k": "xsf", "var": "x", "hex": "61ff62"}])
    mk("tla-str-file-missing", tla=[{"k": "tsf", "var": "p", "s": "1", "missing": True}], root=VALUES[14][1])
    mk("tla-code-syntax", tla=[{"k": "tc", "var": "p", "text": "[,"}], root=VALUES[14][1])
    mk("ext-env-missing", ext=[{"k": "xs", "var": "RSJ_C12_UNDEFINED", "s": "", "via": "noenv"}])
    mk("ext-code-env-missing-o", ext=[{"k": "xc", "var": "RSJ_C12_UNDEFINED", "expr": ["atom", 3], "via": "noenv"}], flags=["o"])
    mk("tla-env", tla=[{"k": "ts", "var": "p", "s": "from=env\n", "via": "env"}], root=VALUES[14][1], flags=["S"])
    mk("ext-lazy-unused", ext=[{"k": "xc", "var": "x", "expr": ["err"]}], root=S("fine"), flags=["S"])
    mk("ext-lazy-used", ext=[{"k": "xc", "var": "x", "expr": ["err"]}], root=["arr", [["ext", "x"]]], flags=["o"])
    mk("ext-dup-across-kinds", ext=[{"k": "xc", "var": "x", "expr": ["atom", 3]}, {"k": "xs", "var": "x", "s": "1"}])
    mk("tla-dup", tla=[{"k": "ts", "var": "p", "s": "1"}, {"k": "tc", "var": "p", "expr": ["atom", 3]}], root=VALUES[14][1])
    mk("tla-nonfunction", tla=[{"k": "ts", "var": "p", "s": "1"}], root=S("s"), flags=["S", "o"])
    mk("tla-unknown", tla=[{"k": "ts", "var": "nope", "s": "1"}], root=VALUES[14][1])
    mk("tla-missing", root=["func", 7, [["p", None]], ["param", "p"]])
    mk("tla-ok", tla=[{"k": "ts", "var": "p", "s": "a=b\n\"c\""}], root=["func", 7, [["p", None]], ["param", "p"]], flags=["S", "ntn"])
    # usage errors
    mk("usage-S-y", flags=["S", "y"], root=S("x"))
    mk("usage-varfile-noeq", ext=[{"k": "xsf", "var": "x", "s": "1", "noeq": True}])
    mk("usage-tla-varfile-noeq", tla=[{"k": "tcf", "var": "x", "expr": ["atom", 5], "noeq": True}], flags=["o"])
    mk("usage-unknown-flag", extra=["--definitely-not-a-flag"], usage="unknown flag", flags=["o"])
    mk("usage-bad-number", extra=["-s", "many"], usage="bad -s value")
    return out


# ---------------------------------------------------------------- parser tie (in-process)

def optval_tie(rep):
    raws = list(TRICKY) + [v + "=" + s for v in VARNAMES for s in TRICKY[:8]] + ["novalue", "é", "=lead", "trail="]
    for _ in range(200 if rep.tier == "quick" else 5000):
        raws.append("".join(rep.rng.choice("ab=é\n\" ") for _ in range(rep.rng.randrange(0, 8))))
    lines = ["cli optval " + vlib.hx(r) for r in raws] + ["cli varfile " + vlib.hx(r) for r in raws]
    mo = vlib.model(lines)
    for r, l, m in zip(raws + raws, lines, mo):
        rep.count(l, False)
        rep.bump("parser_cases")
        var, val = split_var(r)
        if " optval " in l:
            exp = vlib.hx(var) + " " + ("none" if val is None else "some:" + vlib.hx(val))
        else:
            exp = "usage" if val is None else vlib.hx(var) + " " + vlib.hx(val)
        if m != exp:
            rep.disagreement(l, "var[=val] parser: model differs from split_once('=')", {"op": l, "model": m, "python": exp})


# ---------------------------------------------------------------- run

def nontrivial(case):
    return len(case["flags"]) >= 2 or case["fault"] is not None or bool(case.get("usage")) or "root_text" in case \
        or len(case["ext"]) + len(case["tla"]) >= 2


def case_key(case):
    return json.dumps(case, sort_keys=True, ensure_ascii=True)


def run(rep):
    rep.rule = ("real binary: every subset of {-S,-y,--no-trailing-newline,-m,-o} x 19 root values (string, arrays, "
                "objects with hidden / function / nested-name fields, numbers, functions, error) x input kind "
                "(-e / stdin / file; all three in thorough) with shuffled option order and optional -s/-t; generated "
                "ext/TLA sets of all eight kinds with values containing '=', quotes, newlines, non-ASCII, supplied "
                "inline / via environment / via file; faults: missing / directory input, stdin unreadable, -o into a "
                "missing directory / onto a directory, -m directory missing, /dev/full, closed stdout, reader-closed "
                "pipe, load errors, usage errors. non-trivial = >= 2 mode flags, or a fault / load / usage error, or "
                ">= 2 ext/TLA definitions; distinct by the full case description")
    can_chmod = os.geteuid() != 0
    rep.assumptions = [
        "a failed write delivers nothing (true for /dev/full, EPIPE, missing directory); partially written output on a disk filling up mid-write is outside the model",
        "manifestation text of a (sub-)value = the binary's own default-mode output for that value (checked to parse as JSON equal to the value); the JSON format itself is C05's",
        "visible fields are ordered by code point (C07); values are small, so -s/-t do not change the outcome",
        "exit status 2 for unknown flags / missing <filename> is clap's, produced before main_inner runs",
    ]
    if not can_chmod:
        rep.assumptions.append("check ran as root: chmod 000 does not block reads, so the 'unreadable input file' "
                               "fault was NOT exercised on the binary (the read-failure branch is exercised by "
                               "'input is a directory' and 'stdin is a directory')")
    vlib.prelude(rep, cli=True)
    optval_tie(rep)
    base = os.path.realpath(tempfile.mkdtemp(prefix="rsj-c12-", dir="/tmp"))
    try:
        cases = fault_cases(rep.rng, can_chmod)
        cases += mode_matrix(rep.rng, rep.tier)
        for _ in range(150 if rep.tier == "quick" else 4000):
            cases.append(gen_var_case(rep.rng))
        with ThreadPoolExecutor(max_workers=4) as ex:
            results = list(ex.map(lambda ic: run_case(base, ic[0], ic[1]), enumerate(cases)))
        for src, rc, out, err in _base_bad:
            rep.violation("c12:base:" + src, "default mode on the JSON literal %s: exit %r, output %r does not parse "
                          "back to the value (stderr %r)" % (src[:200], rc, out, err), {"argv": ["--no-trailing-newline", "-"], "stdin": src})
        rep.extra["t_runs_s"] = round(__import__("time").time() - rep.t0, 1)
        lines = [model_line(r["case"], r["exp"]) for r in results]
        mo = vlib.model(lines)
        rep.extra["t_model_s"] = round(__import__("time").time() - rep.t0, 1)
        for r, line, m in zip(results, lines, mo):
            case = r["case"]
            key = case_key(case)
            nt = nontrivial(case)
            rep.count(key, nt, sample={"argv": r["argv"], "exit": r["rc"], "stdout": r["out"][:120].decode("utf-8", "replace"),
                                       "why": r["exp"]["why"]} if nt and len(rep.samples) < 12 and rep.rng.random() < 0.05 else None)
            rep.bump("exit-%s" % r["rc"])
            rep.bump(case.get("label", "?").split(":")[0])
            if case["fault"]:
                rep.bump("fault-" + case["fault"])
            replay = {"case": case}
            bad = judge(case, r["exp"], r["rc"], r["out"], r["err"], r["found"])
            if case["fault"] == "closed" and r["rc"] == 0 and r["exp"]["exit"] == 1:
                # Rust's std swallows EBADF on a closed fd 1: the tool cannot see the failed write.
                rep.violation("c12:closed-stdout", "stdout closed before start (>&-): exit 0 although nothing could be written",
                              replay)
                continue
            if bad:
                rep.violation("c12:" + key, "%s | argv=%r" % (bad, r["argv"]), replay)
                continue
            if case["fault"] == "closed" or case.get("usage"):
                continue
            got = impl_answer(case, r["rc"], r["out"] if case["fault"] not in ("full", "epipe") else b"", r["err"], r["found"])
            if got != canon_model(m):
                rep.disagreement("c12:" + key, "cli: implementation and model differ",
                                 {"case": case, "argv": r["argv"], "impl": got[:1500], "model": canon_model(m)[:1500]})
    finally:
        shutil.rmtree(base, ignore_errors=True)


def replay(record):
    r = record["replay"]
    if "op" in r:
        m = vlib.model([r["op"]])[0]
        print("model :", m)
        print("python:", r.get("python"))
        return 1 if m != r.get("python") else 0
    vlib.build_cli()
    if "argv" in r and "case" not in r:
        rc, out, err = run_bin(r["argv"], "/tmp", stdin=r.get("stdin", "").encode("utf-8"))
        print("exit:", rc, "stdout:", out, "stderr:", err[-400:])
        return 1
    base = os.path.realpath(tempfile.mkdtemp(prefix="rsj-c12-", dir="/tmp"))
    try:
        res = run_case(base, 0, r["case"])
    finally:
        shutil.rmtree(base, ignore_errors=True)
    case = r["case"]
    bad = judge(case, res["exp"], res["rc"], res["out"], res["err"], res["found"])
    line = model_line(case, res["exp"])
    m = canon_model(vlib.model([line])[0])
    got = impl_answer(case, res["rc"], res["out"] if case["fault"] not in ("full", "epipe") else b"", res["err"], res["found"])
    print("argv  :", res["argv"])
    print("exit  :", res["rc"])
    print("stdout:", res["out"][:500])
    print("stderr:", res["err"][-500:])
    print("files :", sorted(res["found"]))
    print("expect:", res["exp"]["exit"], res["exp"]["why"])
    print("oracle:", bad)
    print("impl  :", got)
    print("model :", m)
    closed_known = case["fault"] == "closed" and res["rc"] == 0 and res["exp"]["exit"] == 1
    return 1 if bad or closed_known or (case["fault"] != "closed" and got != m) else 0
