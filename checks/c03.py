"""C03 — garbage collection is invisible to programs and exact about reachability.

(a) scripted heaps: the real `GcContext` (hook `gcscript`) against the Lean model `Rsj.Gc`;
(b) direct oracle (independent of the model): live set after every `gc` == set reachable from
    nodes with an external handle or view, `num_objects == |live|`, `end#0`, no panic;
(c) schedule invisibility on generated Jsonnet programs (`eval ... gc=<period>`);
(d) baseline object count returns after results are dropped (`hist`).
The source-derived table `RsjModel/GcTraceTable.lean` is regenerated first (tools/extract_gctrace.py).
"""
import itertools
import os
import resource
import sys

import vlib

sys.path.insert(0, os.path.join(vlib.VERIF, "tools"))

# ----------------------------------------------------------------------------------------------
# (b) reference semantics of the scripted driver: reachability, nothing else
# ----------------------------------------------------------------------------------------------


def reference(ops):
    """Expected answers of `gcscript` if the collector reclaims exactly the unreachable objects."""
    held = []    # [handles, views] per node
    edges = []   # out-edges per node (list, with multiplicity)
    alive = []   # value not dropped
    out = []
    stats = {"freed": 0, "kept": 0, "cyclic_freed": 0}
    for op in ops:
        p = op.split(":")

        def arg(k):
            if k >= len(p) or not p[k].isdigit():
                return None
            i = int(p[k])
            return i if i < len(held) else None

        def can(i):
            return i is not None and (held[i][0] > 0 or held[i][1] > 0)

        if p[0] == "a" or p[0] == "av":
            held.append([1, 0] if p[0] == "a" else [0, 1])
            edges.append([])
            alive.append(True)
            out.append("n%d" % (len(held) - 1))
        elif p[0] == "h" or p[0] == "v":
            i = arg(1)
            if can(i):
                held[i][0 if p[0] == "h" else 1] += 1
                out.append("ok")
            else:
                out.append("skip")
        elif p[0] == "dh" or p[0] == "dv":
            i = arg(1)
            k = 0 if p[0] == "dh" else 1
            if i is not None and held[i][k] > 0:
                held[i][k] -= 1
                out.append("ok")
            else:
                out.append("skip")
        elif p[0] == "e":
            i, j = arg(1), arg(2)
            if can(i) and can(j):
                edges[i].append(j)
                out.append("ok")
            else:
                out.append("skip")
        elif p[0] == "d":
            i, j = arg(1), arg(2)
            if can(i) and j is not None and j in edges[i]:
                edges[i].remove(j)
                out.append("ok")
            else:
                out.append("skip")
        elif p[0] == "gc":
            roots = [i for i in range(len(held)) if alive[i] and (held[i][0] > 0 or held[i][1] > 0)]
            seen = set(roots)
            work = list(roots)
            while work:
                x = work.pop()
                for y in edges[x]:
                    if alive[y] and y not in seen:
                        seen.add(y)
                        work.append(y)
            dead = [i for i in range(len(held)) if alive[i] and i not in seen]
            # garbage that has an in-edge from garbage (cycle or chain) is not directly destroyable
            indeg_from_dead = set(y for x in dead for y in edges[x])
            stats["cyclic_freed"] += sum(1 for i in dead if i in indeg_from_dead)
            stats["freed"] += len(dead)
            if dead and seen:
                stats["kept"] += 1
            for i in dead:
                alive[i] = False
                edges[i] = []
            live = sorted(seen)
            out.append("live[%s]#%d" % (",".join(map(str, live)), len(live)))
        else:
            out.append("bad")
    out.append("end#0")
    return out, stats


def oracle_script(ops, answer):
    if answer.startswith("panic") or answer.startswith("crash"):
        msg = answer
        try:
            msg = vlib.unhx(answer.split(" ")[1]).decode("utf-8", "replace")
        except Exception:
            pass
        return "driver failure: " + msg[:200], None
    exp, stats = reference(ops)
    got = answer.split(";")
    if len(got) != len(exp):
        return "wrong number of answers (%d, expected %d)" % (len(got), len(exp)), stats
    for k, (g, e) in enumerate(zip(got, exp)):
        if g != e:
            what = ops[k] if k < len(ops) else "final drop-everything + gc"
            if e.startswith("live["):
                gl = set(g[5:g.index("]")].split(",")) - {""} if g.startswith("live[") else set()
                el = set(e[5:e.index("]")].split(",")) - {""}
                if el - gl:
                    return "reachable objects %s reclaimed at op #%d (%s): got %s expected %s" % (
                        sorted(el - gl), k, what, g, e), stats
                if gl - el:
                    return "unreachable objects %s survive the collection at op #%d (%s): got %s expected %s" % (
                        sorted(gl - el), k, what, g, e), stats
            return "answer to op #%d (%s) is %s, reachability semantics says %s" % (k, what, g, e), stats
    return None, stats


# ----------------------------------------------------------------------------------------------
# script generators
# ----------------------------------------------------------------------------------------------

def shape_script(kinds, edge_list, finals, tail=True):
    """Build a heap shape, then reduce what the driver holds to `finals`, collect; then drop the
    rest one by one (collecting after each drop)."""
    n = len(kinds)
    ops = []
    for k in kinds:
        ops.append(k)
    for (i, j) in edge_list:
        ops.append("e:%d:%d" % (i, j))
    # bring every node to its final (handles, views)
    for i in range(n):
        h, v = (1, 0) if kinds[i] == "a" else (0, 1)
        fh, fv = finals[i]
        # take before drop so that the node stays accessible
        while h < fh:
            ops.append("h:%d" % i)
            h += 1
        while v < fv:
            ops.append("v:%d" % i)
            v += 1
        while h > fh:
            ops.append("dh:%d" % i)
            h -= 1
        while v > fv:
            ops.append("dv:%d" % i)
            v -= 1
    ops.append("gc")
    if tail:
        ops.append("gc")
        for i in range(n):
            fh, fv = finals[i]
            if fh or fv:
                for _ in range(fh):
                    ops.append("dh:%d" % i)
                for _ in range(fv):
                    ops.append("dv:%d" % i)
                ops.append("gc")
    return ops


def exhaustive_shapes(n):
    pairs = [(i, j) for i in range(n) for j in range(n)]
    node_opts = [(k, f) for k in ("a", "av") for f in ((0, 0), (1, 0), (0, 1), (1, 1))]
    for combo in itertools.product(node_opts, repeat=n):
        kinds = [c[0] for c in combo]
        finals = [c[1] for c in combo]
        for mask in range(1 << len(pairs)):
            el = [pairs[b] for b in range(len(pairs)) if mask >> b & 1]
            yield shape_script(kinds, el, finals)


def exhaustive_handles4():
    """All 4-node heaps held through plain handles: every edge subset (2^16, self loops included)
    x every keep/drop assignment (2^4); one collection."""
    pairs = [(i, j) for i in range(4) for j in range(4)]
    for keep in range(16):
        finals = [((keep >> i) & 1, 0) for i in range(4)]
        for mask in range(1 << 16):
            el = [pairs[b] for b in range(16) if mask >> b & 1]
            yield shape_script(["a"] * 4, el, finals, tail=False)


def sampled_exhaustive3(rng, count):
    """A random sample of the 3-node exhaustive scope (the whole scope runs in the thorough tier)."""
    pairs = [(i, j) for i in range(3) for j in range(3)]
    node_opts = [(k, f) for k in ("a", "av") for f in ((0, 0), (1, 0), (0, 1), (1, 1))]
    for _ in range(count):
        combo = [rng.choice(node_opts) for _ in range(3)]
        mask = rng.randrange(1 << 9)
        el = [pairs[b] for b in range(9) if mask >> b & 1]
        yield shape_script([c[0] for c in combo], el, [c[1] for c in combo])


def random_shape(rng, n):
    kinds = [rng.choice(("a", "av")) for _ in range(n)]
    finals = [rng.choice(((0, 0), (0, 0), (1, 0), (0, 1), (1, 1), (2, 0), (0, 2))) for _ in range(n)]
    dens = rng.choice((0.15, 0.3, 0.5))
    el = []
    for i in range(n):
        for j in range(n):
            while rng.random() < dens:
                el.append((i, j))
                if rng.random() < 0.7:
                    break
    rng.shuffle(el)
    return shape_script(kinds, el, finals, tail=rng.random() < 0.7)


def random_script(rng, nops, maxn):
    ops = []
    n = 0
    for _ in range(nops):
        r = rng.random()
        if n == 0 or (r < 0.18 and n < maxn):
            ops.append(rng.choice(("a", "a", "av")))
            n += 1
            continue
        i = rng.randrange(n + (1 if rng.random() < 0.03 else 0))
        j = rng.randrange(n)
        if r < 0.45:
            # edges, biased to back edges / cycles
            if rng.random() < 0.3:
                j = max(0, i - 1)
            ops.append("e:%d:%d" % (i, j))
        elif r < 0.52:
            ops.append("d:%d:%d" % (i, j))
        elif r < 0.58:
            ops.append("h:%d" % i)
        elif r < 0.64:
            ops.append("v:%d" % i)
        elif r < 0.78:
            ops.append("dh:%d" % i)
        elif r < 0.86:
            ops.append("dv:%d" % i)
        else:
            ops.append("gc")
    ops.append("gc")
    return ops


def ring_scripts():
    """Doubly linked rings / chains (the shapes of gc/tests.rs), several sizes."""
    res = []
    for n in (2, 3, 5, 9, 17):
        for kind in ("a", "av"):
            ops = [kind] * n
            for i in range(n):
                ops.append("e:%d:%d" % (i, (i + 1) % n))
                ops.append("e:%d:%d" % ((i + 1) % n, i))
            drop = "dh" if kind == "a" else "dv"
            for i in range(n - 1):
                ops.append("%s:%d" % (drop, i))
            ops.append("gc")
            ops.append("%s:%d" % (drop, n - 1))
            ops.append("gc")
            res.append(ops)
            # chain with a tail of garbage pointing into the live part
            ops = [kind] * n
            for i in range(n - 1):
                ops.append("e:%d:%d" % (i, i + 1))
            ops.append("e:%d:%d" % (n - 1, n // 2))
            for i in range(n):
                if i != n // 2:
                    ops.append("%s:%d" % (drop, i))
            ops.append("gc")
            ops.append("gc")
            res.append(ops)
    return res


CORPUS_SCRIPTS = [
    "a a e:0:1 e:1:0 gc dh:0 gc dh:1 gc",
    "av a e:0:1 dh:1 gc dv:0 gc",
    "a a a e:0:1 e:1:2 e:2:0 dh:1 dh:2 gc dh:0 gc v:0 h:5 x",
    "a e:0:0 e:0:0 d:0:0 gc dh:0 gc",
    "a av a e:2:1 e:1:0 e:0:2 dh:0 dh:2 gc dv:1 gc",
    "a a a e:0:1 e:0:1 e:1:2 dh:1 dh:2 gc d:0:1 gc d:0:1 gc",
    "av a a e:1:0 e:2:1 v:1 dh:1 dh:2 gc dv:1 gc",
    "a a e:0:1 dh:0 dh:1 a e:2:2 gc",
    "a a a a e:3:2 e:2:1 e:1:0 dh:0 dh:1 dh:2 gc dh:3 gc",
    "a a a a e:0:1 e:1:2 e:2:3 dh:3 dh:2 dh:1 gc dh:0 gc",
    "a av e:0:1 e:1:0 dv:1 gc h:1 dh:0 gc e:1:1 gc",
]

# ----------------------------------------------------------------------------------------------
# (c) Jsonnet program generator
# ----------------------------------------------------------------------------------------------

PRELUDE = """local fib(n) = if n < 2 then n else fib(n - 1) + fib(n - 2);
local sumTo(n) = if n <= 0 then 0 else n + sumTo(n - 1);
local build(n) = if n <= 0 then [] else [n] + build(n - 1);
local mk(n) = { a: n, b: self.a + 1, c: [self.a, self.b], d:: "h" + n, e: { p: $.a, q: self.p * 2 } };
local ext(o) = o + { a+: 1, f: super.a, g: self.b, c+: [self.f] };
local cyc = { x: self, y: $.x.x.z, z: 3, w: [self.x.z, $.y] };
local lazy(x, y) = x;
local compose(f, g) = function(x) f(g(x));
local twice(f) = compose(f, f);
local chain(n, o) = if n <= 0 then o else chain(n - 1, o + { a+: n, ['k' + n]: super.a });
local tree(d) = if d <= 0 then { v: 1 } else { l: tree(d - 1), r: tree(d - 1), v: self.l.v + self.r.v };
local counter(n) = std.foldl(function(acc, i) acc + { n+: i, hist+: [self.n] }, std.range(1, n), { n: 0, hist: [] });
"""


class ProgGen:
    def __init__(self, rng):
        self.rng = rng
        self.uid = 0

    def fresh(self):
        self.uid += 1
        return "v%d" % self.uid

    def pick(self, env, ty):
        c = [n for (n, t) in env if t == ty]
        return self.rng.choice(c) if c else None

    def small(self):
        return str(self.rng.randrange(0, 12))

    def gen(self, ty, d, env):
        r = self.rng
        if d <= 0 or r.random() < 0.12:
            v = self.pick(env, ty)
            if v and r.random() < 0.6:
                return v
            return self.leaf(ty)
        if r.random() < 0.03:
            return 'error ' + self.gen("S", d - 1, env)
        if r.random() < 0.12:
            t2 = r.choice(["N", "S", "AN", "O", "F"])
            x = self.fresh()
            e1 = self.gen(t2, d - 1, env)
            return "(local %s = %s; %s)" % (x, e1, self.gen(ty, d - 1, env + [(x, t2)]))
        if r.random() < 0.05:
            return "lazy(%s, %s)" % (self.gen(ty, d - 1, env), self.gen(r.choice(["N", "S", "AN", "O"]), d - 1, env))
        if r.random() < 0.04:
            return "std.trace(%s, %s)" % (self.gen("S", d - 1, env), self.gen(ty, d - 1, env))
        return getattr(self, "gen_" + ty)(d, env)

    def leaf(self, ty):
        r = self.rng
        if ty == "N":
            return r.choice([self.small(), self.small(), "1.5", "-3", "100"])
        if ty == "S":
            return r.choice(['"a"', '"bc"', '""', '"x y"', '"%d"', '"é"'])
        if ty == "B":
            return r.choice(["true", "false"])
        if ty == "AN":
            return r.choice(["[]", "[1, 2, 3]", "[3, 1, 2, 1]", "std.range(0, %d)" % r.randrange(0, 9), "build(%d)" % r.randrange(0, 9)])
        if ty == "AS":
            return r.choice(['[]', '["a", "b"]', '["z", "y", "y"]'])
        if ty == "O":
            return r.choice(["{}", "{ a: 1 }", "mk(%s)" % self.small(), "cyc", "{ a: 1, b: self.a }"])
        if ty == "F":
            return r.choice(["function(x) x + 1", "function(x) x * 2", "function(x) fib(x % 10)", "sumTo", "function(x) x"])
        return "null"

    def gen_N(self, d, env):
        r = self.rng
        g = lambda t: self.gen(t, d - 1, env)
        k = r.randrange(22)
        if k == 0:
            return "(%s + %s)" % (g("N"), g("N"))
        if k == 1:
            return "(%s * %s)" % (g("N"), g("N"))
        if k == 2:
            return "(%s - %s)" % (g("N"), g("N"))
        if k == 3:
            return "(%s %% (1 + std.abs(%s)))" % (g("N"), g("N"))
        if k == 4:
            return "std.length(%s)" % g(r.choice(["AN", "S", "O", "AS"]))
        if k == 5:
            return "(if %s then %s else %s)" % (g("B"), g("N"), g("N"))
        if k == 6:
            return "fib(%d)" % r.randrange(0, 11)
        if k == 7:
            return "sumTo(std.floor(%s) %% 40)" % g("N")
        if k == 8:
            return "std.foldl(function(a, b) a + b, %s, 0)" % g("AN")
        if k == 9:
            return "%s.a" % g("O")
        if k == 10:
            return "(%s)[%s]" % (g("AN"), r.choice(["0", "1", self.small(), "std.length(%s) - 1" % g("AN")]))
        if k == 11:
            return "%s(%s)" % (self.genf(d - 1, env), g("N"))
        if k == 12:
            return "std.foldr(function(x, acc) acc * 2 + x, %s, 0) %% 1000" % g("AN")
        if k == 13:
            return "std.sum(%s)" % g("AN")
        if k == 14:
            return "ext(%s).f" % g("O")
        if k == 15:
            return "tree(%d).v" % r.randrange(0, 6)
        if k == 16:
            return "chain(%d, %s).a" % (r.randrange(0, 8), g("O"))
        if k == 17:
            return "counter(%d).n" % r.randrange(0, 15)
        if k == 18:
            return "std.count(%s, %s)" % (g("AN"), g("N"))
        if k == 19:
            return "(%s / %s)" % (g("N"), g("N"))
        if k == 20:
            return "std.parseInt(std.toString(std.floor(std.abs(%s))))" % g("N")
        return "std.max(%s, %s)" % (g("N"), g("N"))

    def genf(self, d, env):
        f = self.gen("F", d, env)
        return f if f[0].isalpha() and " " not in f else "(" + f + ")"

    def gen_B(self, d, env):
        r = self.rng
        g = lambda t: self.gen(t, d - 1, env)
        k = r.randrange(8)
        if k == 0:
            return "(%s < %s)" % (g("N"), g("N"))
        if k == 1:
            return "(%s == %s)" % (g("AN"), g("AN"))
        if k == 2:
            return "(%s && %s)" % (g("B"), g("B"))
        if k == 3:
            return "(%s || %s)" % (g("B"), g("B"))
        if k == 4:
            return "std.objectHas(%s, %s)" % (g("O"), r.choice(['"a"', '"d"', '"zz"']))
        if k == 5:
            return "(%s == %s)" % (g("O"), g("O"))
        if k == 6:
            return "std.member(%s, %s)" % (g("AN"), g("N"))
        return "!%s" % g("B")

    def gen_S(self, d, env):
        r = self.rng
        g = lambda t: self.gen(t, d - 1, env)
        k = r.randrange(12)
        if k == 0:
            return "(%s + %s)" % (g("S"), g("S"))
        if k == 1:
            return '("%%d-%%s" %% [%s, %s])' % (g("N"), g("S"))
        if k == 2:
            return "std.toString(%s)" % g(r.choice(["N", "AN", "O", "S"]))
        if k == 3:
            return 'std.join(",", %s)' % g("AS")
        if k == 4:
            return 'std.manifestJsonEx(%s, " ")' % g(r.choice(["O", "AN", "N"]))
        if k == 5:
            return "std.substr(%s, %s, %s)" % (g("S"), self.small(), self.small())
        if k == 6:
            return "(%s + %s)" % (g("S"), g("N"))
        if k == 7:
            return 'std.format("%%05d|%%s", [%s, %s])' % (g("N"), g("S"))
        if k == 8:
            return "(if %s then %s else %s)" % (g("B"), g("S"), g("S"))
        if k == 9:
            return "std.foldl(function(a, b) a + b, %s, \"\")" % g("AS")
        if k == 10:
            return "std.asciiUpper(%s)" % g("S")
        return "std.repeat(%s, %d)" % (g("S"), r.randrange(0, 4))

    def gen_AN(self, d, env):
        r = self.rng
        g = lambda t: self.gen(t, d - 1, env)
        k = r.randrange(16)
        x = self.fresh()
        envx = env + [(x, "N")]
        if k == 0:
            return "[%s for %s in %s]" % (self.gen("N", d - 1, envx), x, g("AN"))
        if k == 1:
            return "[%s for %s in %s if %s]" % (self.gen("N", d - 1, envx), x, g("AN"), self.gen("B", d - 1, envx))
        if k == 2:
            return "std.map(%s, %s)" % (self.gen("F", d - 1, env), g("AN"))
        if k == 3:
            return "std.sort(%s)" % g("AN")
        if k == 4:
            return "(%s + %s)[:40]" % (g("AN"), g("AN"))
        if k == 5:
            return "std.filter(function(%s) %s, %s)" % (x, self.gen("B", d - 1, envx), g("AN"))
        if k == 6:
            return "std.makeArray(std.abs(std.floor(%s)) %% 12, function(%s) %s)" % (g("N"), x, self.gen("N", d - 1, envx))
        if k == 7:
            return "std.reverse(%s)" % g("AN")
        if k == 8:
            return "std.set(%s)" % g("AN")
        if k == 9:
            return "%s.c" % g("O")
        if k == 10:
            return "(%s)[%s:%s]" % (g("AN"), self.small(), self.small())
        if k == 11:
            y = self.fresh()
            return "[%s + %s for %s in (%s)[:5] for %s in (%s)[:5]]" % (x, y, x, g("AN"), y, g("AN"))
        if k == 12:
            return "std.flattenArrays([%s, %s])" % (g("AN"), g("AN"))
        if k == 13:
            return "counter(%d).hist" % r.randrange(0, 12)
        if k == 14:
            return "std.setUnion(%s, std.set(%s))" % ("std.set(%s)" % g("AN"), g("AN"))
        return "[%s, %s, %s]" % (g("N"), g("N"), g("N"))

    def gen_AS(self, d, env):
        r = self.rng
        g = lambda t: self.gen(t, d - 1, env)
        k = r.randrange(6)
        x = self.fresh()
        if k == 0:
            return "std.objectFields(%s)" % g("O")
        if k == 1:
            return "[std.toString(%s) for %s in %s]" % (x, x, g("AN"))
        if k == 2:
            return "[%s, %s]" % (g("S"), g("S"))
        if k == 3:
            return "std.sort(%s)" % g("AS")
        if k == 4:
            return 'std.split(%s, " ")' % g("S")
        return "std.objectFieldsAll(%s)" % g("O")

    def gen_O(self, d, env):
        r = self.rng
        g = lambda t: self.gen(t, d - 1, env)
        k = r.randrange(14)
        x = self.fresh()
        if k == 0:
            return "{ a: %s, b: self.a, c: [self.b], s: %s }" % (g("N"), g("S"))
        if k == 1:
            return "(%s + { a+: %s, z: super.a })" % (g("O"), g("N"))
        if k == 2:
            return "ext(%s)" % g("O")
        if k == 3:
            return "mk(%s)" % g("N")
        if k == 4:
            return "{ [std.toString(%s)]: %s * 2 for %s in %s } + { a: 0, c: [] }" % (x, x, x, g("AN"))
        if k == 5:
            return "(%s + %s)" % (g("O"), g("O"))
        if k == 6:
            return "{ local %s = %s, a: %s, b: $.a + 1, c: [%s, self.b], n: { m: $.a } }" % (x, g("N"), x, x)
        if k == 7:
            return "std.mergePatch(%s, { a: %s, c: null })" % (g("O"), g("N"))
        if k == 8:
            return "chain(%d, %s)" % (r.randrange(0, 6), g("O"))
        if k == 9:
            return "tree(%d) + { a: self.v, c: [self.l.v] }" % r.randrange(1, 5)
        if k == 10:
            # (not on arbitrary objects: std.prune of a cyclic object does not terminate in rsjsonnet)
            return "std.prune(mk(%s) + { n: null, e: {}, a: %s })" % (g("N"), g("N"))
        if k == 11:
            return "{ a: %s, assert self.a >= %s : %s, c: [1] }" % (g("N"), g("N"), g("S"))
        if k == 12:
            return "(mk(%s).e + { a: self.p, c: [self.q] })" % g("N")
        return "{ a: 1, b:: %s, c: [self.b], f(y):: y + $.a, g: self.f(%s) }" % (g("N"), g("N"))

    def gen_F(self, d, env):
        r = self.rng
        k = r.randrange(7)
        x = self.fresh()
        envx = env + [(x, "N")]
        if k == 0:
            return "function(%s) %s" % (x, self.gen("N", d - 1, envx))
        if k == 1:
            return "twice(%s)" % self.genf(d - 1, env)
        if k == 2:
            return "compose(%s, %s)" % (self.genf(d - 1, env), self.genf(d - 1, env))
        if k == 3:
            y = self.fresh()
            return "(local %s = %s; function(%s) %s + %s)" % (y, self.gen("N", d - 1, env), x, x, y)
        if k == 4:
            return "(function(%s) %s.a + %s)" % (x, self.gen("O", d - 1, env), x)
        if k == 5:
            # (a function with a default parameter must not reach std.map: rsjsonnet panics
            #  "variable not found" on std.map(function(x, k=1) x + k, [1]) under every schedule)
            return "(function(%s) (function(y, k=%s) y + k)(%s))" % (x, self.gen("N", d - 1, env), x)
        return self.leaf("F")

    def program(self):
        r = self.rng
        self.uid = 0
        ty = r.choice(["N", "S", "AN", "O", "O", "AN", "AS", "B"])
        d = r.choice([3, 4, 4, 5, 5, 6])
        k = r.random()
        body = self.gen(ty, d, [])
        opts = {}
        if k < 0.06:
            # deep recursion against a small stack limit
            body = "[%s, sumTo(%d)]" % (body, r.choice([50, 300, 2000]))
            opts["max_stack"] = r.choice([20, 60, 250])
        elif k < 0.085:
            # enough objects for the default heuristic (> 1000 objects, doubled since last gc)
            n = r.choice([400, 1100])
            body = "local big = std.map(function(i) mk(i), std.range(1, %d)); [std.foldl(function(a, o) a + o.b, big, 0), %s, std.length(std.sort([o.e.q for o in big]))]" % (n, body)
            opts["heavy"] = 1
        elif k < 0.11:
            body = "local big = std.foldl(function(acc, i) acc + { ['f' + (i %% 7)]+: [i], n+: 1 }, std.range(1, %d), { n: 0 }); [big.n, std.length(big.f3), %s]" % (r.choice([100, 250]), body)
            opts["heavy"] = 1
        elif k < 0.15:
            body = "[%s, error %s]" % (body, self.gen("S", 2, []))
        return PRELUDE + body, opts


CORPUS_PROGRAMS = [
    ("local a = { x: self, y: [self.x.x.z], z: 1 }; [a.y, a.x.x.x.z]", {}),
    ("local f(n) = if n == 0 then { v: 0 } else f(n - 1) + { v+: n, ['k' + n]: super.v }; f(30)", {}),
    ("local f(n) = n + f(n + 1); f(0)", {"max_stack": 50}),
    ("local o = { a: [1, 2, 3], b: std.map(function(x) x * $.c, self.a), c: 2 }; std.manifestJsonEx(o + { a+: [4] }, '  ')", {}),
    ("std.foldl(function(a, b) a + [std.length(a) + b], std.range(1, 600), [])[599]", {"heavy": 1}),
    ("local t(d) = if d == 0 then { v: 1 } else { l: t(d - 1), r: t(d - 1), v: self.l.v + self.r.v }; t(9).v", {"heavy": 1}),
    ("[std.trace('t' + i, i) for i in std.range(1, 5)] + [error 'boom ' + std.toString({ a: 1 })]", {}),
    ("std.sort(std.makeArray(300, function(i) (i * 7919) % 1000))[:5]", {"heavy": 1}),
    ("std.length(std.makeArray(1500, function(i) { a: i, b: [self.a] })) + std.length([{ x: i } for i in std.range(1, 1200)])", {"heavy": 1}),
    # cycles through every kind of heap edge, partly unforced (what is never forced keeps its environment alive)
    ("local o = { [k]: [k, o] for k in ['a', 'b'] }; o.a[0]", {}),
    ("local o = { local l = o, [k]: [l, k] for k in ['a', 'b', 'c'] }; std.length(o)", {}),
    ("local o = { [k]: { up: o, me: k } for k in ['a', 'b'] } + { c: 1 }; o.c", {}),
    ("local f(x) = x + 1, ys = std.map(f, [1, 2, 3]), zs = std.map(function(i) ys, ys); std.length(zs)", {}),
    ("local a = std.makeArray(3, function(i) a), b = std.mapWithIndex(function(i, x) [a, b], a); std.length(b)", {}),
    ("local o = { f(x, y=o):: [x, y], g: std.mapWithKey(function(k, v) o, { p: 1 }), h: std.filterMap(function(x) true, function(x) o, [1, 2]) }; std.length(o.h)", {}),
    ("local o = { local me = self, assert std.isObject(me), a+: [o], b: [i for i in [o, me]] }; std.length(({ a: [] } + o).b)", {}),
    ("local a = [a, [a for i in [1, 2]], { x: a }, function() a]; std.length(a)", {}),
    ("local o = { a: 1 } + { a+: 2, s: super.a, t:: o }; [o.a, std.objectFieldsAll(o)]", {}),
    ("local mk(n) = { n: n, next:: if n == 0 then null else mk(n - 1), back:: self }; std.length(std.toString(mk(5)))", {}),
    ("local big = std.map(function(i) { a: i, b: [self.a, i], c: { d: $.a } }, std.range(1, 1500)); std.foldl(function(acc, o) acc + o.b[0] + o.c.d, big, 0)", {"heavy": 1}),
]

# ----------------------------------------------------------------------------------------------


class MemLimit:
    """Address-space limit for child processes started inside the block (a generated program that
    runs away must not take the machine down); restored afterwards (lake/lean need more)."""

    def __init__(self, gib):
        self.lim = gib << 30

    def __enter__(self):
        self.old = resource.getrlimit(resource.RLIMIT_AS)
        resource.setrlimit(resource.RLIMIT_AS, (self.lim, self.old[1]))

    def __exit__(self, *a):
        resource.setrlimit(resource.RLIMIT_AS, self.old)


def regenerate_table():
    try:
        import extract_gctrace
    except Exception as e:  # not yet written / broken
        raise vlib.BrokenTie("tools/extract_gctrace.py cannot be imported", repr(e))
    try:
        extract_gctrace.main_write()
    except extract_gctrace.ExtractError as e:
        raise vlib.BrokenTie("extract_gctrace: cannot derive the GcTrace table from /repo sources", str(e))


def schedules(rng, heavy):
    """Collection periods (0 = never, None = the default heuristic). Programs that build > 1000
    objects get sparser schedules (a collection after every step costs steps x heap size)."""
    if heavy:
        extra = rng.sample([13, 29, 211, 1000], 2)
        return [("gc", "0"), (None, None), ("gc", "7"), ("gc", "50"), ("gc", "101")] + [("gc", str(p)) for p in extra]
    extra = rng.sample([4, 5, 11, 13, 50, 101, 1000], 2)
    return [("gc", "0"), ("gc", "1"), ("gc", "2"), ("gc", "3"), ("gc", "7"), (None, None)] + [("gc", str(p)) for p in extra]


def run(rep):
    rep.rule = ("(a/b) heap scripts alloc/alloc_view/handle/view/drop/edge/del-edge/gc: corpus, rings/chains, random "
                "scripts (<= 10 nodes, <= 45 ops), random shapes (<= 6 nodes) and exhaustive shapes (every edge subset incl. "
                "self loops x every created-as/handle/view assignment; <= 2 nodes quick, <= 3 nodes thorough, plus all 2^20 "
                "4-node handle-only heaps in thorough); non-trivial = "
                "some gc of the script reclaims >= 1 object and keeps >= 1; distinct by script text. (c) generated Jsonnet "
                "programs under gc period 0,1,2,3,7,default + 2 random periods: answer line incl. error detail, stack-trace "
                "depth and std.trace output must be identical; non-trivial = program loads (no static error); (d) hist: "
                "object count after load/eval/drop equals the count before")
    rep.assumptions = [
        "a heap object's `edges` are exactly the Gc handles its GcTrace::trace visits (discharged for data.rs by the generated obligation C03_trace_covers_handles)",
        "Rc strong/weak counts are as documented by std: strong_count>1 iff a GcView exists; weak_count = number of Gc handles (outside + inside live values)",
        "the evaluator reaches heap objects only through Gc/GcView handles (schedule invisibility itself is validated by the sweep (c), not proved for the full evaluator)",
    ]
    regenerate_table()
    vlib.prelude(rep, extra_modules=['RsjProps.C03Eval'])
    dynamic(rep)


def search(rep):
    """Failing-input search when the tie is broken before the proofs could be checked
    (e.g. the extractor no longer understands data.rs): the dynamic parts still run."""
    vlib.build_harness()
    dynamic(rep)


def dynamic(rep):
    rng = rep.rng
    thorough = rep.tier != "quick"

    # ---------------- (a) + (b) scripted heaps ----------------
    def script_stream():
        for sc in CORPUS_SCRIPTS:
            yield sc.split(" ")
        for sc in ring_scripts():
            yield sc
        for n in (1, 2):
            for sc in exhaustive_shapes(n):
                yield sc
        if thorough:
            for sc in exhaustive_shapes(3):
                yield sc
            for sc in exhaustive_handles4():
                yield sc
        else:
            for sc in sampled_exhaustive3(rng, 2500):
                yield sc
        for _ in range(1500 if not thorough else 60000):
            yield random_script(rng, rng.randrange(4, 46), rng.choice((3, 4, 6, 10)))
        for _ in range(1500 if not thorough else 60000):
            yield random_shape(rng, rng.choice((3, 3, 4, 4, 5, 6)))

    stream = script_stream()
    while True:
        batch = list(itertools.islice(stream, 100000))
        if not batch:
            break
        cases = [{"key": " ".join(sc), "ops": sc} for sc in batch]
        lines = ["gcscript " + c["key"] for c in cases]
        io = vlib.impl(lines)
        mo = vlib.model(lines)
        for c, a in zip(cases, io):
            bad, stats = oracle_script(c["ops"], a)
            nontriv = bool(stats and stats["kept"] > 0)
            rep.count("S:" + c["key"], nontriv,
                      sample={"script": c["key"], "impl": a[:300]} if nontriv and rng.random() < 0.01 else None)
            rep.bump("scripts")
            if stats:
                rep.bump("objects_freed", stats["freed"])
                rep.bump("objects_freed_not_directly_destroyable", stats["cyclic_freed"])
                rep.bump("gc_freeing_some_keeping_some", stats["kept"])
            if bad:
                rep.violation("gcscript:" + c["key"], bad, {"op": "gcscript " + c["key"], "impl": a[:1000]})
        vlib.compare(rep, cases, io, mo, label="gc script")

    # ---------------- (c) schedule invisibility ----------------
    gen = ProgGen(rng)
    progs = list(CORPUS_PROGRAMS)
    nprog = 500 if not thorough else 12000
    for _ in range(nprog):
        progs.append(gen.program())
    plines = []
    index = []
    for pi, (src, opts) in enumerate(progs):
        for (k, v) in schedules(rng, "heavy" in opts):
            o = {kk: vv for kk, vv in opts.items() if kk != "heavy"}
            o["tracedepth"] = 1
            o["traces"] = 1
            if k:
                o[k] = v
            plines.append(vlib.eval_line(src, **o))
            index.append((pi, v if k else "default"))
    with MemLimit(6):
        pout = vlib.impl(plines, timeout=900)
    if any(a.startswith("crash rc=timeout") for a in pout):
        raise vlib.BrokenTie("schedule sweep: a generated program did not finish within the time limit (generator bug, not a verdict)",
                             next(l for l, a in zip(plines, pout) if a.startswith("crash rc=timeout"))[:3000])
    by_prog = {}
    for (pi, sched), line, ans in zip(index, plines, pout):
        by_prog.setdefault(pi, []).append((sched, line, ans))
    for pi, runs in by_prog.items():
        src, opts = progs[pi]
        base_sched, base_line, base = runs[0]
        loads = not base.startswith("err lex") and not base.startswith("err parse") and not base.startswith("err analyze")
        rep.count("P:" + src + repr(opts), loads,
                  sample={"program": src[len(PRELUDE):][:300], "answer": base[:120]} if loads and rng.random() < 0.02 else None)
        rep.bump("programs")
        rep.bump("prog_" + (base.split(" ")[2] if base.startswith("err") and len(base.split(" ")) > 2 else base.split(" ")[0]))
        for sched, line, ans in runs:
            failed = ans.startswith("panic") or ans.startswith("crash")
            msg = ans
            if failed:
                try:
                    msg = vlib.unhx(ans.split(" ")[1]).decode("utf-8", "replace")
                except Exception:
                    pass
            if failed and ("destroyed object" in msg or ans != base):
                rep.violation("eval-panic:" + line, "evaluation with gc schedule %s fails: %s (gc=%s gives %s)" % (
                    sched, msg[:200], base_sched, base[:120]),
                              {"op": line, "base_op": base_line, "impl": ans[:1000], "base": base[:1000]})
                break
            if ans != base:
                rep.violation("eval-sched:" + line,
                              "outcome depends on the collection schedule: gc=%s gives %s, gc=%s gives %s" % (
                                  base_sched, base[:200], sched, ans[:200]),
                              {"op": line, "base_op": base_line, "impl": ans[:1000], "base": base[:1000]})
                break
        else:
            if base.startswith("panic") or base.startswith("crash"):
                # the same failure under every schedule, also when the collector never runs: not a
                # statement about the collector (reported to the lead as a finding for "no panics")
                rep.bump("prog_fails_identically_under_all_schedules")

    # ---------------- (d) baseline returns ----------------
    hlines = []
    hprogs = progs[: (120 if not thorough else 1500)]
    for (src, opts) in hprogs:
        h = vlib.hx(src)
        ms = ["maxstack:%d" % opts["max_stack"]] if "max_stack" in opts else []
        hlines.append(" ".join(["hist", "objs"] + ms + ["load:" + h, "eval:0", "objs", "evalv:0", "load:" + h, "eval:1", "drop:0", "gc", "eval:1", "drop:1", "objs"]))
    with MemLimit(6):
        hout = vlib.impl(hlines, timeout=900)
    for line, ans in zip(hlines, hout):
        rep.count("H:" + line, True)
        rep.bump("hist_runs")
        if ans.startswith("panic") or ans.startswith("crash"):
            msg = ans
            try:
                msg = vlib.unhx(ans.split(" ")[1]).decode("utf-8", "replace")
            except Exception:
                pass
            if "destroyed object" in msg or ans.startswith("crash"):
                rep.violation("hist-panic:" + line, "long-lived program fails: " + msg[:200], {"op": line, "impl": ans[:1000]})
            else:
                rep.bump("hist_panics_not_about_the_collector")
            continue
        parts = ans.split(";")
        objs = [int(p[4:]) for p in parts if p.startswith("objs")]
        if len(objs) != 3:
            rep.violation("hist-shape:" + line, "unexpected hist answer " + ans[:200], {"op": line, "impl": ans[:1000]})
            continue
        if objs[2] != objs[0]:
            rep.violation("hist-baseline:" + line,
                          "object count does not return to baseline after results are dropped: before=%d, while held=%d, after=%d" % tuple(objs),
                          {"op": line, "impl": ans[:1000]})
        if objs[1] < objs[0]:
            rep.violation("hist-lost:" + line, "objects of the baseline were reclaimed while still held: %r" % (objs,),
                          {"op": line, "impl": ans[:1000]})
        reqs = line.split(" ")[1:]
        evals = [p for q, p in zip(reqs, parts) if q.startswith("eval:")]
        # (re-evaluating a thunk whose first evaluation FAILED is a different question — an object whose
        #  assert failed is not re-checked — so only successful results are compared)
        if len(parts) == len(reqs) and len(evals) == 3 and evals[0].startswith("ok_") and not (evals[0] == evals[1] == evals[2]):
            rep.violation("hist-repeat:" + line, "re-evaluation after an explicit collection differs: %r" % ([e[:60] for e in evals],),
                          {"op": line, "impl": ans[:1000]})


def replay(r):
    rp = r["replay"]
    line = rp.get("op") or ("gcscript " + rp["case"]["key"])
    vlib.build_harness()
    rc = 0
    a = vlib.impl([line])[0]
    print("op   :", line[:2000])
    print("impl :", a[:2000])
    if line.startswith("gcscript"):
        b = vlib.model([line])[0]
        print("model:", b[:2000])
        bad, _ = oracle_script(line.split(" ")[1:], a)
        print("oracle:", bad)
        rc = 1 if bad or a != b else 0
    elif line.startswith("eval"):
        if a.startswith("panic") and "destroyed object" in vlib.parse_eval(a)[1]:
            rc = 1
        if "base_op" in rp:
            b = vlib.impl([rp["base_op"]])[0]
            print("base op:", rp["base_op"][:2000])
            print("base  :", b[:2000])
            if a != b:
                rc = 1
    elif line.startswith("hist"):
        objs = [int(p[4:]) for p in a.split(";") if p.startswith("objs")]
        print("object counts:", objs)
        rc = 1 if (a.startswith("panic") or len(objs) != 3 or objs[0] != objs[2] or objs[1] < objs[0]) else 0
    return rc
