"""C04 — evaluation is call-by-need: unused parts never run, used parts run once."""
import vlib
import gen_core as G
import core_cmp as C
from checks.c09 import walk, replace, get, is_expr


def mentions_object(e):
    """does the subtree mention self / super / $ anywhere?"""
    if is_expr(e):
        if e[0] in ('self', 'dollar', 'sfield', 'sindex', 'insuper'):
            return True
        return any(mentions_object(x) for x in e[1:])
    if isinstance(e, (list, tuple)):
        return any(mentions_object(x) for x in e)
    return False


DEAD = ('error', ('str', 'dead code was evaluated'))

REWRITES = [
    ('name with a local', lambda n: ('local', [('zz_v', None, n)], ('var', 'zz_v')), False),
    ('identity function', lambda n: ('call', ('func', [('zz_x', None)], ('var', 'zz_x')), [('p', n)], False), False),
    ('identity function, named argument', lambda n: ('call', ('func', [('zz_x', None)], ('var', 'zz_x')), [('n', 'zz_x', n)], False), False),
    ('one-element array', lambda n: ('index', ('array', [n]), ('num', 0.0)), False),
    ('one-field object', lambda n: ('field', ('object', [('fix', 'zz_f', False, 'd', None, n)]), 'zz_f'), True),
    ('one-field hidden object', lambda n: ('index', ('object', [('fix', 'zz_f', False, 'h', None, n)]), ('str', 'zz_f')), True),
    ('dead local', lambda n: ('local', [('zz_dead', None, DEAD)], n), False),
    ('dead second local', lambda n: ('local', [('zz_v', None, n), ('zz_dead', None, DEAD)], ('var', 'zz_v')), False),
    ('dead array element', lambda n: ('index', ('array', [n, DEAD]), ('num', 0.0)), False),
    ('dead default argument', lambda n: ('call', ('func', [('zz_x', None), ('zz_dead', DEAD)], ('var', 'zz_x')), [('p', n)], False), False),
    ('dead passed argument', lambda n: ('call', ('func', [('zz_x', None), ('zz_dead', None)], ('var', 'zz_x')), [('p', n), ('p', DEAD)], False), False),
    ('dead field', lambda n: ('field', ('object', [('fix', 'zz_f', False, 'd', None, n), ('fix', 'zz_dead', False, 'd', None, DEAD)]), 'zz_f'), True),
    ('dead object local', lambda n: ('field', ('object', [('local', 'zz_dead', None, DEAD), ('fix', 'zz_f', False, 'd', None, n)]), 'zz_f'), True),
    ('dead branch', lambda n: ('if', ('true',), n, DEAD), False),
]


def once_templates(rng, gen):
    """(program, message, expected count if the program succeeds)"""
    out = []
    for _ in range(1):
        e = gen.gen(rng.choice(['num', 'str', 'arr', 'obj']), {}, 2, False)
        t = ('std', 'trace', [('str', 'ONCE'), e])
        v = ('var', 'zz_v')
        out.append((('local', [('zz_v', None, t)], ('array', [v, v, v])), 1))
        out.append((('local', [('zz_v', None, t)], ('array', [('num', 1.0)])), 0))
        out.append((('call', ('func', [('zz_x', None)], ('array', [('var', 'zz_x'), ('var', 'zz_x')])), [('p', t)], False), 1))
        out.append((('call', ('func', [('zz_x', None), ('zz_y', t)], ('array', [('var', 'zz_y'), ('var', 'zz_y')])), [('p', ('num', 1.0))], False), 1))
        out.append((('local', [('zz_a', None, ('array', [t]))],
                     ('array', [('index', ('var', 'zz_a'), ('num', 0.0)), ('index', ('var', 'zz_a'), ('num', 0.0))])), 1))
        out.append((('local', [('zz_o', None, ('object', [('fix', 'f', False, 'd', None, t)]))],
                     ('array', [('field', ('var', 'zz_o'), 'f'), ('field', ('var', 'zz_o'), 'f')])), 1))
        out.append((('object', [('local', 'zz_v', None, t), ('fix', 'a', False, 'd', None, v), ('fix', 'b', False, 'd', None, v)]), 1))
        out.append((('local', [('zz_o', None, ('object', [('fix', 'f', False, 'h', None, t), ('fix', 'g', False, 'd', None, ('field', ('self',), 'f')),
                                                         ('fix', 'h', False, 'd', None, ('field', ('self',), 'f'))]))], ('var', 'zz_o')), 1))
        out.append((('arrcomp', ('var', 'zz_v'), [('for', 'zz_i', ('array', [('num', 1.0), ('num', 2.0)])), ('for', 'zz_v', ('array', [t]))]), 2))
        out.append((('local', [('zz_v', None, t)], ('binary', 'eq', v, v)), 1))
    return out


def sharing_templates(rng, gen, n):
    """Binding site x consuming site: the delayed expression t is bound once (local, positional/named/default argument,
    object local with and without asserts, field, array element, comprehension variable, method argument) and its name
    is consumed several times (array, fields, ==, assert, re-bound local, default of an omitted parameter, object assert).
    Expected: exactly one evaluation when the program succeeds, at most one when it fails."""
    R = ('var', 'zz_r')
    Q = ('var', 'zz_q')
    one = ('num', 1.0)
    s_ = lambda x: ('str', x)
    eq = lambda a, b: ('binary', 'eq', a, b)
    fld = lambda n, e, vis='d': ('fix', n, False, vis, None, e)
    binders = [
        ('local', lambda t, B: ('local', [('zz_r', None, t)], B)),
        ('positional', lambda t, B: ('call', ('func', [('zz_r', None)], B), [('p', t)], False)),
        ('named', lambda t, B: ('call', ('func', [('zz_r', None)], B), [('n', 'zz_r', t)], False)),
        ('default', lambda t, B: ('call', ('func', [('zz_q', None), ('zz_r', t)], B), [('p', one)], False)),
        ('positional+default-uses-it', lambda t, B: ('call', ('func', [('zz_r', None), ('zz_q', R)], ('array', [Q, B])), [('p', t)], False)),
        ('positional+2-defaults', lambda t, B: ('call', ('func', [('zz_r', None), ('zz_q', R), ('zz_p', Q)], ('array', [('var', 'zz_p'), B, Q])), [('p', t)], False)),
        ('named+default-uses-it', lambda t, B: ('call', ('func', [('zz_r', None), ('zz_q', R)], ('array', [Q, B])), [('n', 'zz_r', t)], False)),
        ('local-function+default', lambda t, B: ('local', [('zz_f', [('zz_r', None), ('zz_q', ('array', [R]))], ('array', [Q, B]))],
                                                 ('call', ('var', 'zz_f'), [('p', t)], False))),
        ('method+default', lambda t, B: ('call', ('field', ('object', [('fix', 'm', False, 'h', [('zz_r', None), ('zz_q', R)], ('array', [Q, B]))]), 'm'), [('p', t)], False)),
        ('object-local', lambda t, B: ('field', ('object', [('local', 'zz_r', None, t), fld('out', B)]), 'out')),
        ('object-local+assert', lambda t, B: ('field', ('object', [('local', 'zz_r', None, t), ('assert', eq(R, R), None), fld('out', B)]), 'out')),
        ('object-local+2-asserts', lambda t, B: ('object', [('local', 'zz_r', None, t), ('assert', eq(R, R), None),
                                                            ('assert', ('binary', 'ne', ('std', 'type', [R]), s_('')), s_('m')), fld('out', B), fld('out2', R)])),
        ('object-local+assert+inherit', lambda t, B: ('binary', 'add', ('object', [('local', 'zz_r', None, t), ('assert', eq(R, R), None), fld('out', B)]),
                                                      ('object', [fld('more', ('sfield', 'out')), ('assert', eq(('field', ('self',), 'out'), ('sfield', 'out')), None)]))),
        # the first access goes through a field of another layer / a literal field, so the asserts run before the
        # layer of the local has any other use
        ('object-local+assert, other layer read first', lambda t, B: ('local', [('zz_o', None, ('binary', 'add',
            ('object', [('local', 'zz_r', None, t), ('assert', eq(R, R), None), fld('out', B)]), ('object', [fld('b', one)])))],
            ('array', [('field', ('var', 'zz_o'), 'b'), ('field', ('var', 'zz_o'), 'out')]))),
        ('object-local+assert, literal field read first', lambda t, B: ('local', [('zz_o', None,
            ('object', [('local', 'zz_r', None, t), ('assert', eq(R, R), None), fld('lit', one), fld('out', B)]))],
            ('array', [('field', ('var', 'zz_o'), 'lit'), ('field', ('var', 'zz_o'), 'out')]))),
        ('object-local+assert, extended twice, upper read first', lambda t, B: ('local', [('zz_o', None, ('binary', 'add', ('binary', 'add',
            ('object', [('local', 'zz_r', None, t), ('assert', eq(R, R), None), fld('out', B)]), ('object', [fld('b', one)])),
            ('object', [fld('c', ('sfield', 'b'))])))],
            ('array', [('field', ('var', 'zz_o'), 'c'), ('field', ('var', 'zz_o'), 'out'), ('field', ('var', 'zz_o'), 'b')]))),
        ('hidden-field', lambda t, B: ('local', [('zz_o', None, ('object', [fld('f', t, 'h')]))], ('local', [('zz_r', None, ('field', ('var', 'zz_o'), 'f'))], B))),
        ('array-element', lambda t, B: ('local', [('zz_a', None, ('array', [t]))], ('local', [('zz_r', None, ('index', ('var', 'zz_a'), ('num', 0.0)))], B))),
        ('self-field', lambda t, B: ('field', ('object', [fld('zz_h', t, 'h'), fld('out', ('local', [('zz_r', None, ('field', ('self',), 'zz_h'))], B))]), 'out')),
        ('super-field', lambda t, B: ('field', ('binary', 'add', ('object', [fld('zz_h', t, 'h')]),
                                                ('object', [fld('out', ('local', [('zz_r', None, ('sfield', 'zz_h'))], B))])), 'out')),
        ('self-field-manifested', lambda t, B: ('binary', 'add', ('object', [fld('zz_h', t, 'h'), fld('out', ('local', [('zz_r', None, ('field', ('self',), 'zz_h'))], B))]),
                                                ('object', [fld('extra', ('field', ('self',), 'zz_h'))]))),
        ('comprehension-var', lambda t, B: ('index', ('arrcomp', B, [('for', 'zz_r', ('array', [t]))]), ('num', 0.0))),
        ('std.map-callback', lambda t, B: ('index', ('std', 'map', [('func', [('zz_r', None)], B), ('array', [t])]), ('num', 0.0))),
        ('local-function', lambda t, B: ('local', [('zz_f', [('zz_r', None)], B)], ('call', ('var', 'zz_f'), [('p', t)], False))),
    ]
    consumers = [
        ('array', ('array', [R, R, R])),
        ('fields', ('object', [fld('a', R), fld('b', R)])),
        ('eq', eq(R, R)),
        ('assert-expr', ('assert', eq(R, R), None, R)),
        ('rebound', ('local', [('zz_s', None, R)], ('array', [('var', 'zz_s'), R]))),
        ('into-default', ('call', ('func', [('a', None), ('b', ('var', 'a'))], ('array', [('var', 'a'), ('var', 'b'), R])), [('p', R)], False)),
        ('if', ('if', eq(R, R), R, R)),
        ('object-assert', ('object', [('assert', eq(R, R), None), fld('a', R)])),
        ('object-local-again', ('object', [('local', 'zz_l', None, R), ('assert', eq(('var', 'zz_l'), R), None), fld('a', ('var', 'zz_l')), fld('b', ('var', 'zz_l'))])),
        ('mixed', eq(('index', ('array', [R]), ('num', 0.0)), ('field', ('object', [fld('x', R)]), 'x'))),
    ]
    combos = [(b, c) for b in binders for c in consumers]
    if n < len(combos):
        combos = rng.sample(combos, n)
    out = []
    for (bn, b), (cn, c) in combos:
        e = gen.gen(rng.choice(['num', 'str', 'arr', 'obj']), {}, 2, False)
        t = ('std', 'trace', [('str', 'ONCE'), e])
        out.append((b(t, c), 1, bn + ' / ' + cn))
    return out


def lazy_builtin_templates(rng, gen):
    """Library functions whose specification (std.jsonnet) does not look at the elements: the traced
    element is never needed by the result, so it must not run (expected count 0)."""
    out = []
    e = gen.gen(rng.choice(['num', 'str', 'arr', 'obj']), {}, 2, False)
    T = G.to_jsonnet(('std', 'trace', [('str', 'ONCE'), e]))
    for src in [
        'std.length(std.sort([%s]))', 'std.length(std.sort([]))+std.length([%s])', 'std.length(std.map(function(x) x, [%s, 1]))',
        'std.length(std.makeArray(2, function(i) %s))', 'std.length(std.reverse([%s, 1]))', 'std.length([%s, 1, 2][0:2])',
        'std.length(std.repeat([%s], 2))', 'std.length([%s] + [1])', 'std.objectFields({a: %s})', 'std.length({a: %s, b:: 1})',
        'std.length(std.filter(function(x) true, [%s]))', 'std.foldl(function(a, x) a + 1, [%s, 2], 0)',
        'std.length(std.mapWithIndex(function(i, x) x, [%s]))', 'std.objectHas({a: %s}, "a")', 'std.length(std.set([]))+std.length([%s])',
        'std.isArray([%s])', 'std.type({a: %s})', 'std.length(std.flatMap(function(x) [x, x], [%s]))', 'std.length(std.slice([%s, 1], 0, 1, 1))',
        'std.length(std.objectValues({a: %s}))', 'std.length(std.prune([1, [%s][1:]]))', 'local a = [%s]; std.length(a + a)',
        'std.length(std.mapWithKey(function(k, v) v, {a: %s}))', '[%s, 5][1]', '{a: %s, b: 5}.b', 'std.get({a: %s, b: 5}, "b")',
        # an accumulator / default / argument the callback or the result never looks at
        'std.foldl(function(a, x) x, [1, 2], %s)', 'std.foldr(function(x, a) x, [1, 2], %s)', 'std.foldl(function(a, x) 7, [1], %s)',
        'std.foldr(function(x, a) 7, [1, 2, 3], %s)', 'std.get({a: 1}, "a", %s)', 'std.mapWithKey(function(k, v) k, {a: %s}).a',
        'std.objectHasAll({a:: %s}, "a")', 'std.length(std.objectValuesAll({a:: %s}))', 'std.length(std.objectFieldsAll({a:: %s}))',
        'std.length(std.removeAt([%s, 1], 1))', 'std.length(std.flattenArrays([[%s], [1]]))', 'std.length(std.join([], [[%s], [2]]))',
        'if true then 1 else %s', 'true || %s', 'false && %s', 'local f(x, y) = x; f(1, %s)', 'local f(x, y=%s) = x; f(1)',
        'std.length(std.filterMap(function(x) false, function(x) %s, [1, 2]))', 'std.length(std.mapWithIndex(function(i, x) %s, [1]))',
        'std.length(std.makeArray(3, function(i) %s)[1:])', 'std.length(std.objectKeysValues({a: %s}))', 'std.map(function(x) 1, [%s])[0]',
        'std.length(std.sort([%s], function(x) 1))', 'std.length(std.sort([], function(x) %s))', 'std.length(std.uniq([%s]))',
        'std.length(std.set([%s]))', 'std.reverse([%s, 5])[0]', 'std.repeat([%s, 5], 2)[3]',
    ]:
        out.append((src % T, 0, 'lazy builtin'))
    return out


def run(rep):
    rep.rule = ("generated core programs; for each, rewrite sites chosen uniformly among all expression nodes x rewrite "
                "kinds (name with local, identity function, one-element array, one-field object when the node does not "
                "mention self/super/$, dead local/argument/element/field/branch); std.trace planted by the generator and by "
                "evaluation-count templates (binding site x consuming site); non-trivial = rewrite below the root of a program that passes analysis, or a "
                "program emitting >= 1 trace; distinct by source text")
    rep.assumptions = ["programs whose original or rewritten outcome is StackOverflow are skipped (rewrites add frames)",
                       "tailstrict is not generated (a parenthesised or renamed call is not in tail position by design)"]
    vlib.prelude(rep, extra_modules=['RsjProps.C04Eval', 'RsjProps.C04Rewrite'])
    rng = rep.rng
    n = 1500 if rep.tier == 'quick' else 12000
    gen = G.Gen(rng, max_depth=5)
    progs = [gen.program() for _ in range(n)]
    # 1. correspondence (values, errors, trace sequences)
    srcs, io, mo = C.run_pair(progs, max_stack=500, fuel=6000)
    # the same source texts through the whole-pipeline model (lexer + parser + lowering + analysis + evaluator)
    C.check_pipe(rep, 'c04:', srcs, io, mo, max_stack=500, fuel=6000, label='generated')
    ok_prog = []
    for p, s, a, b in zip(progs, srcs, io, mo):
        ntr = a.count(',') + (1 if a.split(' T')[-1] else 0) if ' T' in a else 0
        rep.bump('traces:%d' % min(ntr, 5))
        rep.count(s, ntr >= 1, sample={'src': s[:300], 'impl': a[:200]} if ntr >= 2 else None)
        if a.startswith('panic') or a.startswith('crash'):
            rep.violation('c04:' + s, 'evaluation crashed: ' + a[:200], {'src': s, 'impl': a})
            continue
        if ' analyze ' in a or ' parse ' in a or ' lex ' in a:
            continue
        ok_prog.append((p, a))
        if b.startswith('unsupported') or b.startswith('gas'):
            continue
        if C.norm(a) != C.norm(b):
            rep.disagreement('c04:' + s, 'outcome or std.trace sequence differs from the model',
                             {'src': s, 'sexp': G.to_sexp(p), 'impl': a, 'model': b})
    # 1b. directed cases for the callback builtins (std.filter, std.foldl, std.sort, ...): value, error, order of the traces
    C.compare_cases(rep, G.std_cases(rng, 600 if rep.tier == 'quick' else 10000), 'c04std:', 500, True,
                    'callback builtin: outcome or std.trace sequence differs from the model')
    # 2. rewrites on the implementation
    cases = []
    for p, a in ok_prog:
        nodes = []
        walk(p, False, [], nodes)
        for _ in range(3):
            path, inobj = rng.choice(nodes)
            node = get(p, path)
            name, mk, needs_free = rng.choice(REWRITES)
            if needs_free and mentions_object(node):
                continue
            q = replace(p, list(path), mk(node))
            cases.append((name, p, a, q, len(path)))
    outs = [C.canon_impl(x) for x in vlib.impl([vlib.eval_line(G.to_jsonnet(q), max_stack=500, traces=1) for _, _, _, q, _ in cases])]
    C.check_pipe(rep, 'c04rw:', [G.to_jsonnet(q) for _, _, _, q, _ in cases], outs, None, max_stack=500, fuel=6000, label='rewritten programs')
    for (name, p, a, q, depth), b in zip(cases, outs):
        rep.bump('rewrite:' + name)
        src2 = G.to_jsonnet(q)
        rep.count(src2, depth >= 1)
        if 'StackOverflow' in a or 'StackOverflow' in b:
            rep.bump('skipped:stackoverflow')
            continue
        if C.norm(a) != C.norm(b):
            rep.violation('c04rw:' + src2, 'rewrite "%s" changed value, error or std.trace output' % name,
                          {'src': G.to_jsonnet(p), 'src2': src2, 'impl': a, 'impl2': b, 'rewrite': name})
    # 3. evaluated at most once
    tcases = []
    for _ in range(40 if rep.tier == 'quick' else 1500):
        tcases += once_templates(rng, gen)
    tcases = [(p, e, 'basic') for p, e in tcases]
    tcases += sharing_templates(rng, gen, 100000)
    if rep.tier != 'quick':
        for _ in range(20):
            tcases += sharing_templates(rng, gen, 100000)
    lazy = []
    for _ in range(3 if rep.tier == 'quick' else 100):
        lazy += lazy_builtin_templates(rng, gen)
    louts = vlib.impl([vlib.eval_line(src, max_stack=500, traces=1) for src, _, _ in lazy])
    for (src, expect, label), a in zip(lazy, louts):
        rep.count(src, True)
        rep.bump('lazy-builtin-template')
        if a.startswith('panic') or a.startswith('crash'):
            rep.violation('c04:' + src, 'evaluation crashed: ' + a[:200], {'src': src, 'impl': a})
            continue
        tr = a.rsplit(' T', 1)[1].split(',') if ' T' in a else []
        cnt = sum(1 for t in tr if t == vlib.hx('ONCE'))
        if cnt != 0:
            rep.violation('c04lazy:' + src, 'an element the result does not depend on was evaluated (%d times)' % cnt,
                          {'src': src, 'impl': a, 'expected_count': 0})
    outs = vlib.impl([vlib.eval_line(G.to_jsonnet(p), max_stack=500, traces=1) for p, _, _ in tcases])
    # the same templates through the model: value and std.trace sequence
    tsrcs, tio, tmo = C.run_pair([p for p, _, _ in tcases], max_stack=500, fuel=6000)
    C.check_pipe(rep, 'c04once:', tsrcs, tio, [None if l.startswith('std.map') else m for (_, _, l), m in zip(tcases, tmo)],
                 max_stack=500, fuel=6000, label='sharing templates')
    for (p, _, label), a, b in zip(tcases, tio, tmo):
        if b.startswith('unsupported') or b.startswith('gas') or ' analyze ' in a or ' parse ' in a or label.startswith('std.map'):
            continue   # (the core model has no std.map)
        rep.bump('template-vs-model')
        if C.norm(a) != C.norm(b):
            rep.disagreement('c04:' + G.to_jsonnet(p), 'outcome or std.trace sequence of a sharing template (%s) differs from the model' % label,
                             {'src': G.to_jsonnet(p), 'sexp': G.to_sexp(p), 'impl': a, 'model': b})
    once_hex = vlib.hx('ONCE')
    for (p, expect, label), a in zip(tcases, outs):
        src = G.to_jsonnet(p)
        rep.count(src, True)
        rep.bump('once-template' if label == 'basic' else 'sharing-template')
        if label != 'basic' and (' parse ' in a or ' analyze ' in a or ' lex ' in a):
            rep.disagreement('c04once:' + src, 'sharing template (%s) does not pass analysis' % label, {'src': src, 'impl': a})
            continue
        if a.startswith('panic') or a.startswith('crash'):
            rep.violation('c04:' + src, 'evaluation crashed: ' + a[:200], {'src': src, 'impl': a})
            continue
        tr = a.rsplit(' T', 1)[1].split(',') if ' T' in a else []
        cnt = sum(1 for t in tr if t == once_hex)
        if a.startswith('ok'):
            if cnt != expect:
                rep.violation('c04once:' + src, 'delayed expression evaluated %d times, expected %d' % (cnt, expect),
                              {'src': src, 'impl': a, 'expected_count': expect})
        elif cnt > max(expect, 1):
            rep.violation('c04once:' + src, 'delayed expression evaluated %d times' % cnt, {'src': src, 'impl': a})


def replay(r):
    vlib.build_harness()
    rp = r['replay']
    a = C.canon_impl(vlib.impl([vlib.eval_line(rp['src'], max_stack=500, traces=1)])[0])
    print('impl :', a)
    bad = 0
    if 'src2' in rp:
        a2 = C.canon_impl(vlib.impl([vlib.eval_line(rp['src2'], max_stack=500, traces=1)])[0])
        print('impl2:', a2)
        bad |= C.norm(a) != C.norm(a2)
    if 'sexp' in rp:
        b = vlib.model(['core 500 6000 1 ' + rp['sexp']])[0]
        print('model:', b)
        bad |= C.norm(a) != C.norm(b)
    if 'expected_count' in rp:
        tr = a.rsplit(' T', 1)[1].split(',') if ' T' in a else []
        bad |= sum(1 for t in tr if t == vlib.hx('ONCE')) != rp['expected_count']
    bad |= C.replay_pipe(rp, a)
    return 1 if bad else 0
