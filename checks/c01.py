"""C01 — every input is answered with a value or a diagnosed error, never a crash."""
import glob
import itertools
import json
import os
import shutil
import subprocess
import tempfile
import vlib
import gen_core as G

MEM_LIMIT = 6 * 1024 ** 3

BOUNDARY = [
    'null', 'true', 'false', '0', '-0', '1', '-1', '0.5', '-2.5', '1e308', '-1e308', '1.7976931348623157e308', '5e-324',
    '9007199254740991', '9007199254740992', '9007199254740994', '-9007199254740992', '4294967296', '65536', '1e18', '3',
    '""', '"a"', '"é😀"', '"%"', '"0"', '"-1"', '"1e999"', '"{"', '" \\n\\t"', '"aaaaaaaaaaaaaaaaaaaaaaaaaaaaaaaaaaaaaaaa"',
    '"\\u0000"', '"\\ud800\\udc00"', '[]', '[1]', '[1, "a", null]', '["a", "b"]', '[[]]', '[[1, 2], [3]]', '[0, 255, 256, -1, 1.5]',
    '{}', '{a: 1}', '{a: 1, b:: 2, c::: 3}', '{"": {}}', 'function(x) x', 'function(x, y) x', 'function() 1', 'std',
    'std.range(0, 300)', 'std.repeat("ab", 200)', '{[std.toString(i)]: i for i in std.range(0, 40)}', 'error "arg"',
]
# composite values of mixed shape (tables inside arrays after scalars and the reverse, empty containers inside):
# every parameter of every function of std gets each of them at least once, in both tiers
NESTED = ['{a: [{b: 1}, 2]}', '[{b: 1}, 2]', '{t: {a: [{}, [3]]}}', '[[1], {a: 1}]', '{a: [[{b: 1}], {c: null}]}', '{a: {b: {c: [1, {d: 2}]}}}',
          '[2, {b: 1}]', '{a: [], b: {}, c: [{}], d: [[]]}', '{a: [{b: 1}, {c: [{d: 1}, 3]}]}']
CALLBACKS = ['function(x) x', 'function(x, y) x + y', 'function() 1', 'function(x, y, z) z', 'function(x, y=1) y', 'std.pow', 'std.length']
CONTAINERS = ['[1, 2]', '["a", "b"]', '"ab"', '{a: 1, b: 2}', '[[1], [2]]', '[]', '""', '{}', '2', '0']
SMALL = ['null', 'true', '0', '-1', '1.5', '1e308', '5e-324', '9007199254740992', '""', '"a"', '"é😀"', '[]', '[1, "a"]', '{}', '{a: 1}',
         'function(x) x', 'error "arg"']


def is_alloc_failure(ans):
    if not ans.startswith('crash'):
        return False
    try:
        txt = vlib.unhx(ans.split(' ')[-1]).decode('utf-8', 'replace')
    except Exception:
        txt = ''
    return 'memory allocation' in txt or 'capacity overflow' in txt or 'rc=timeout' in ans


def classify(ans):
    w = ans.split(' ')
    if w[0] == 'ok':
        return 'ok'
    if w[0] == 'err':
        return 'err:' + w[1]
    if w[0] == 'panic':
        return 'PANIC'
    if w[0] == 'crash':
        return 'OOM-or-timeout' if is_alloc_failure(ans) else 'CRASH'
    return 'other'


def mutate_bytes(rng, b):
    b = bytearray(b)
    for _ in range(rng.randrange(1, 4)):
        if not b:
            b.append(rng.randrange(256))
            continue
        k = rng.random()
        i = rng.randrange(len(b))
        if k < 0.25:
            del b[i:i + rng.randrange(1, 4)]
        elif k < 0.5:
            b[i:i] = bytes(rng.randrange(256) for _ in range(rng.randrange(1, 3)))
        elif k < 0.7:
            b[i] = rng.randrange(256)
        elif k < 0.85:
            j = rng.randrange(len(b))
            b[i:i] = b[j:j + rng.randrange(1, 12)]
        else:
            del b[i:]
    return bytes(b)


def utf8_grid():
    """Every lead byte x boundary second bytes x continuation tails, in each place where the lexer decodes characters."""
    seconds = [None, 0x00, 0x22, 0x41, 0x7F, 0x80, 0x8F, 0x90, 0x9F, 0xA0, 0xBF, 0xC0, 0xF4, 0xFF]
    tails = [b'', b'\x80', b'\x80\x80', b'\xbf\xbf', b'\x80\x80\x80']
    frames = [(b'', b''), (b'"', b'"'), (b"'", b"'"), (b'@"', b'"'), (b'|||\n ', b'\n|||'), (b'"\\', b'"'), (b'/* ', b' */ 1'), (b'# ', b'\n1'), (b'x', b'')]
    out = []
    for lead in range(0x80, 0x100):
        for sec in seconds:
            for tail in tails:
                if sec is None and tail:
                    continue
                seq = bytes([lead]) + (bytes([sec]) if sec is not None else b'') + tail
                for pre, post in frames:
                    out.append(pre + seq + post)
    return out


def format_grid(rng, quick):
    """Every conversion x width x precision x argument form, at top level and nested inside other expressions."""
    convs = list('diouxXeEfFgGcs%') + ['r', 'z', '', 'é', '€', '😀']       # incl. non-ASCII characters in conversion position
    widths = ['', '5', '*', '0']
    precs = ['', '.3', '.*', '.', '.0']
    flags = ['', '-', '0', '+', ' ', '#', '-0+ #']
    vals = ['1', '-1.5', '"ab"', '"é"', 'null', '[1]', '{a: 1}', 'true', '65', '1e300', '""']
    frames = ['%s', '"a" + (%s)', '[(%s), 1]', '{k: (%s)}', 'std.length(%s)', '[1, 2, (%s)][2]', '(%s) + "z"', 'std.join(",", ["q", (%s)])']
    out = []
    for c in convs:
        for w in widths:
            for pr in precs:
                for fl in (flags if not quick else rng.sample(flags, 2)):
                    nstar = (w == '*') + (pr == '.*')
                    code = '%' + fl + w + pr + c
                    forms = []
                    args = [rng.choice(['3', '0', '-2', '"x"', '2.5']) for _ in range(nstar)] + [rng.choice(vals)]
                    forms.append('"%s" %% [%s]' % (code, ', '.join(args)))
                    forms.append('"<%s|%s>" %% [%s]' % (code, code, ', '.join(args + args)))
                    forms.append('"%s" %% [%s]' % (code, ', '.join(args[:-1])))            # one argument short
                    forms.append('"%s" %% [%s, 7]' % (code, ', '.join(args)))               # one too many
                    if nstar == 0:
                        forms.append('"%s" %% %s' % (code, rng.choice(vals)))             # single non-array value
                        forms.append('"%%(k)%s" %% {k: %s}' % (code[1:], rng.choice(vals)))
                        forms.append('std.format("%%(k)%s %%(j)%s", {k: %s, j: %s})' % (code[1:], code[1:], rng.choice(vals), rng.choice(vals)))
                    else:
                        forms.append('"%%(k)%s" %% {k: 1}' % code[1:])
                    for f in (forms if not quick else rng.sample(forms, 3)):
                        out.append(rng.choice(frames) % f)
                        out.append(f)
    return sorted(set(out))


def object_algebra(rng, n):
    """Objects built by inheritance chains over literals (three visibilities, `+:`, super, locals, asserts, computed
    names), comprehensions and the object-producing builtins (objectRemoveKey also applied to composites), handed to
    every kind of consumer."""
    from checks import c07
    out = []
    for _ in range(n):
        k = rng.randrange(2, 5)
        atoms = [c07.rich_atom(rng) for _ in range(k)]
        e = c07.rich_expr(c07.random_tree(rng, 0, k), atoms)
        if rng.random() < 0.35:
            e = "std.objectRemoveKey(%s, '%s')" % (e, rng.choice(c07.POOL))
            if rng.random() < 0.5:
                e = "(%s + %s)" % (e, c07.rich_atom(rng)[0]) if rng.random() < 0.5 else "(%s + %s)" % (c07.rich_atom(rng)[0], e)
        e2 = c07.rich_atom(rng)[0]
        key = rng.choice(c07.POOL)
        out.append(rng.choice([
            '%s', 'std.toString(%s)', '(%%s) == (%s)' % e2, 'std.objectValues(%s)', 'std.objectFieldsAll(%s)', 'std.objectValuesAll(%s)',
            'std.manifestJsonEx(%s, " ")', 'std.mergePatch(%%s, %s)' % e2, 'std.mergePatch(%s, %%s)' % e2, 'std.prune(%s)',
            "std.get(%%s, '%s', 0)" % key, "std.objectHas(%%s, '%s')" % key, 'std.length(%s)', 'std.manifestYamlDoc(%s)',
            "(%%s).%s" % key, "('%s' in (%%s))" % key, 'std.objectKeysValues(%s)', '[x for x in std.objectFields(%s)]',
            'std.manifestTomlEx(%s, " ")', 'std.manifestPython(%s)', "std.mapWithKey(function(k, v) v, %s)", '{ [k]: (%s)[k] for k in std.objectFields(%s) }',
        ]).replace('%s', e))
    return out


def run_panic_site_extractor(rep):
    """tools/extract_panic_sites.py lists every panic-capable construct of /repo's sources (unwrap / expect / panic! /
    unreachable! / assert! / indexing / slicing / division / panicking std APIs); tools/panic_sites.toml classifies each one
    (proved by a named theorem, guarded locally, explicit-stack discipline, ...). RsjModel/PanicSites.lean is regenerated
    from both on every run and RsjProps/C01.lean proves by `decide` that no site is unclassified and no entry is stale:
    a new unguarded unwrap breaks that proof. Here the same facts are recorded as a broken tie with the keys."""
    import os
    import sys
    sys.path.insert(0, os.path.join(vlib.VERIF, "tools"))
    try:
        import extract_panic_sites as ex
    except Exception as e:  # noqa
        rep.broken_tie("tools/extract_panic_sites.py cannot be imported", repr(e))
        return
    try:
        sites, unmapped, stale = ex.main_write()
    except ex.ExtractError as e:
        rep.broken_tie("extract_panic_sites: cannot list the panic-capable sites of /repo", str(e))
        return
    except Exception as e:  # noqa
        rep.broken_tie("extract_panic_sites crashed", repr(e))
        return
    rep.extra["panic_sites"] = len(sites)
    if unmapped:
        rep.broken_tie("panic-capable site(s) not classified (tools/panic_sites.toml): " + "; ".join(unmapped[:5]),
                       "C01_panic_sites_all_classified cannot hold: " + repr(unmapped))
    if stale:
        rep.broken_tie("tools/panic_sites.toml is stale (a classified site vanished or a bulk count changed): " + "; ".join(stale[:5]), repr(stale))


def run(rep):
    rep.rule = ("(a) random and mutated byte strings as source (ui-tests corpus, stdlib source, generated programs), "
                "(b) generated core programs, (c) every member of `std` (listed by the implementation itself) applied to a "
                "grid of boundary arguments of every type, a grid of every format directive (conversion x flags x width x precision x "
                "argument form, nested in other expressions), object-algebra expressions (inheritance chains over every kind of object constructor, under every consumer), every UTF-8 lead byte x boundary second byte x tail in every lexical context, (d) the real CLI on a sample incl. ext-var/TLA bindings, exit "
                "status and stderr inspected, (e) nesting-depth probes of every recursive syntactic form; non-trivial = the "
                "input reached the evaluator or produced a diagnosed error other than the first-byte lexical error; "
                "distinct by input text")
    rep.assumptions = ["allocator exhaustion (abort on a multi-gigabyte allocation, address space capped at 6 GiB) and the "
                       "time-out of a single request are recorded separately and are not counted as violations (out of scope per DESIGN.md C01)",
                       "native-stack overflow of the recursive parser/analyzer on deeply nested input is a known finding (c01:native-stack)"]
    run_panic_site_extractor(rep)
    vlib.prelude(rep, cli=True, extra_modules=['RsjProps.C04Eval', 'RsjProps.C09Eval', 'RsjProps.C01Eval', 'RsjProps.C01Pipeline2', 'RsjProps.C01Pipeline3', 'RsjProps.C01EvalNaN'])
    rng = rep.rng
    quick = rep.tier == 'quick'
    # ---- corpus
    corpus = []
    for f in sorted(glob.glob('/repo/ui-tests/**/*.jsonnet', recursive=True)):
        try:
            corpus.append(open(f, 'rb').read())
        except OSError:
            pass
    stdlib_src = open('/repo/rsjsonnet-lang/src/program/std.libsonnet', 'rb').read()
    gen = G.Gen(rng, max_depth=5, allow_tailstrict=True)
    progs = [G.to_jsonnet(gen.program(), rng, 0.05, rng.random() < 0.3).encode('utf-8') for _ in range(400 if quick else 15000)]
    inputs = []
    for _ in range(1200 if quick else 40000):
        k = rng.random()
        if k < 0.15:
            inputs.append(bytes(rng.randrange(256) for _ in range(rng.randrange(0, 40))))
        elif k < 0.3:
            alpha = b'{}[]()"\'|/*:;,.+-<>=!&^%~$ \n\tlocalifthenelsefunctionerrorassertimportselfsuper0123456789eE_x\\u@#\xc3\xa9\xf0\x9f'
            inputs.append(bytes(rng.choice(alpha) for _ in range(rng.randrange(1, 30))))
        elif k < 0.65 and corpus:
            inputs.append(mutate_bytes(rng, rng.choice(corpus)))
        elif k < 0.7:
            i = rng.randrange(len(stdlib_src))
            inputs.append(mutate_bytes(rng, stdlib_src[i:i + rng.randrange(50, 1500)]))
        else:
            inputs.append(mutate_bytes(rng, rng.choice(progs)))
    inputs += progs
    inputs += utf8_grid()
    lines = ['eval %s max_stack=200' % (b.hex() if b else '-') for b in inputs]
    outs = vlib.impl(lines, timeout=900, mem_limit=MEM_LIMIT)
    for b, a in zip(inputs, outs):
        cl = classify(a)
        rep.bump('src:' + cl)
        key = 'c01src:' + b.hex()
        rep.count(key, cl in ('ok', 'err:eval', 'err:analyze', 'err:parse'), sample={'src': b[:80].decode('utf-8', 'replace'), 'answer': a[:80]} if cl == 'err:eval' else None)
        if cl in ('PANIC', 'CRASH'):
            rep.violation(key, 'source text made the library panic/crash: ' + a[:200], {'op': 'eval %s max_stack=200' % b.hex(), 'impl': a})
    # ---- every builtin x boundary arguments
    listing = vlib.impl([vlib.eval_line('[[f, std.type(std[f]), if std.isFunction(std[f]) then std.length(std[f]) else -1] for f in std.objectFieldsAll(std)]')])[0]
    members = []
    if listing.startswith('ok'):
        members = json.loads(vlib.unhx(listing.split(' ')[1]).decode('utf-8'))
    else:
        rep.broken_tie('cannot list the members of std', listing[:300])
    rep.extra['std_members'] = len(members)
    calls = []
    for name, ty, arity in members:
        if ty != 'function':
            calls.append('std.%s' % name)
            continue
        arity = int(arity)
        if name in ('trace', 'native'):
            pass
        if arity == 0:
            calls.append('std.%s()' % name)
        elif arity == 1:
            for v in BOUNDARY:
                calls.append('std.%s(%s)' % (name, v))
        elif arity == 2:
            # callbacks of every arity and non-empty containers are always part of the grid
            vals1 = BOUNDARY if not quick else sorted(set(rng.sample(BOUNDARY, 5) + CALLBACKS + CONTAINERS[:5]))
            for v1 in vals1:
                vals2 = BOUNDARY if not quick else sorted(set(rng.sample(BOUNDARY, 4) + rng.sample(CALLBACKS, 3) + CONTAINERS[:5]))
                for v2 in vals2:
                    calls.append('std.%s(%s, %s)' % (name, v1, v2))
        else:
            n = 100 if quick else 2000
            for _ in range(n):
                pool = rng.choice([BOUNDARY, SMALL, CALLBACKS + CONTAINERS])
                calls.append('std.%s(%s)' % (name, ', '.join(rng.choice(pool if rng.random() < 0.7 else SMALL) for _ in range(arity))))
    for name, ty, arity in members:
        if ty == 'function' and int(arity) >= 1:
            for pos in range(int(arity)):
                for v in NESTED:
                    args = [rng.choice(SMALL + CONTAINERS) for _ in range(int(arity))]
                    args[pos] = v
                    calls.append('std.%s(%s)' % (name, ', '.join(args)))
    # operators on the same grid
    for op in ['+', '-', '*', '/', '%', '<<', '>>', '&', '|', '^', '<', '<=', '==', '!=', 'in', '&&', '||']:
        for _ in range(40 if quick else 600):
            calls.append('(%s) %s (%s)' % (rng.choice(BOUNDARY), op, rng.choice(BOUNDARY)))
    for _ in range(150 if quick else 3000):
        calls.append('(%s)[%s:%s:%s]' % (rng.choice(BOUNDARY), rng.choice(BOUNDARY + ['']), rng.choice(BOUNDARY + ['']), rng.choice(BOUNDARY + [''])))
        calls.append('(%s)[%s]' % (rng.choice(BOUNDARY), rng.choice(BOUNDARY)))
        calls.append('"%s" %% [%s, %s]' % (rng.choice(['%d', '%5.3f', '%s%s', '%*d', '%(a)s', '%c', '%x', '%e', '%g', '%%', '%', '%.70000f', '%-0+ #10.4d']),
                                          rng.choice(BOUNDARY), rng.choice(BOUNDARY)))
    fg = format_grid(rng, quick)
    rep.extra['format_grid'] = len(fg)
    calls += fg
    calls += object_algebra(rng, 700 if quick else 20000)
    # tokens and nodes of about 2^25 bytes (where the compact span encoding switches representation) in a few positions
    vlib.huge_token_probe(rep, ("parse",) if quick else ("lex", "parse", "diag"))
    lines = [vlib.eval_line('local r = (%s); if std.isFunction(r) then "function" else r' % c, max_stack=400) for c in calls]
    outs = vlib.impl(lines, timeout=1500, mem_limit=MEM_LIMIT)
    for c, a in zip(calls, outs):
        cl = classify(a)
        rep.bump('call:' + cl)
        rep.count('c01call:' + c, cl in ('ok', 'err:eval'))
        if cl in ('PANIC', 'CRASH'):
            rep.violation('c01call:' + c, 'builtin/operator call made the library panic/crash: ' + a[:200], {'src': c, 'impl': a})
    # ---- the real CLI: exit status, signals, stderr
    tmp = tempfile.mkdtemp(prefix='verif_c01_', dir='/tmp')
    try:
        env = dict(os.environ)
        env['NO_COLOR'] = '1'
        sample = [b for b in inputs if rng.random() < (0.06 if quick else 0.05)][: (150 if quick else 3000)]
        sample += [c.encode('utf-8') for c in rng.sample(calls, min(len(calls), 100 if quick else 3000))]
        for i, b in enumerate(sample):
            path = os.path.join(tmp, 'p%d.jsonnet' % (i % 16))
            open(path, 'wb').write(b)
            extra = []
            k = rng.random()
            if k < 0.2:
                extra = ['--ext-str', 'v=%s' % rng.choice(['', 'a=b', 'é', '"q"', '\n']), '--ext-code', 'c=%s' % rng.choice(BOUNDARY)]
            elif k < 0.35:
                extra = ['--tla-code', 'x=%s' % rng.choice(BOUNDARY), '--tla-str', 'y=%s' % rng.choice(['', 'z'])]
            elif k < 0.45:
                extra = [rng.choice(['-S', '-y', '--max-trace', '--no-trailing-newline', '--max-stack'])]
                if extra[0] in ('--max-trace', '--max-stack'):
                    extra.append(rng.choice(['0', '1', '7', 'x', '-1', '99999999999999999999']))
            cmd = [vlib.CLI_BIN, '--max-stack', '200'] + extra + [path]
            try:
                p = subprocess.run(cmd, stdout=subprocess.PIPE, stderr=subprocess.PIPE, env=env, timeout=120,
                                   preexec_fn=vlib._limit_mem(MEM_LIMIT))
            except subprocess.TimeoutExpired:
                rep.bump('cli:timeout')
                continue
            err = p.stderr.decode('utf-8', 'replace')
            rep.evaluations += 1
            rep.bump('cli:exit%s' % p.returncode)
            if p.returncode in (0, 1, 2) and 'panicked at' not in err and 'overflowed its stack' not in err and 'internal error' not in err.lower():
                continue
            if 'memory allocation' in err:
                rep.bump('cli:alloc-failure')
                continue
            rep.violation('c01cli:' + b.hex() + ' '.join(extra), 'CLI exit status %s / crash report on stderr' % p.returncode,
                          {'src': b.decode('utf-8', 'replace'), 'cmd': cmd[1:], 'exit': p.returncode, 'stderr': err[-600:]})
        # ---- nesting probes (native stack of the recursive parser / analyzer)
        forms = {
            'object': ('{a:', '1', '}'), 'array': ('[', '1', ']'), 'paren': ('(', '1', ')'), 'if': ('if true then ', '1', ''),
            'local': ('local a = 1; ', '1', ''), 'unary': ('-', '1', ''), 'call': ('std.id(', '1', ')'), 'function': ('function(x) ', '1', ''),
            'binary-right': ('1 + (', '1', ')'), 'index': ('[', '1', '][0]'), 'field-plus': ('{a+:', '1', '}'), 'comprehension': ('[', '1', ' for x in [1]]'),
            'assert': ('assert true; ', '1', ''), 'error': ('error ', '"x"', ''), 'string-concat': ('"a" + ', '"b"', ''),
        }
        depths = [100, 1000, 5000, 20000] if quick else [100, 1000, 5000, 20000, 100000, 400000]
        for name, (pre, mid, post) in forms.items():
            worst = None
            for d in depths:
                src = pre * d + mid + post * d
                path = os.path.join(tmp, 'nest.jsonnet')
                open(path, 'w').write(src)
                try:
                    p = subprocess.run([vlib.CLI_BIN, '--max-stack', '1000000', path], stdout=subprocess.PIPE, stderr=subprocess.PIPE,
                                       env=env, timeout=300, preexec_fn=vlib._limit_mem(MEM_LIMIT))
                except subprocess.TimeoutExpired:
                    rep.bump('nest:timeout')
                    break
                rep.evaluations += 1
                rep.count('c01nest:%s:%d' % (name, d), True)
                if p.returncode not in (0, 1):
                    worst = (d, p.returncode, p.stderr.decode('utf-8', 'replace')[-200:])
                    break
            rep.bump('nest:%s:%s' % (name, 'overflow@%d' % worst[0] if worst else 'ok'))
            if worst:
                rep.violation('c01:native-stack', 'deeply nested `%s` (depth %d) kills the process (status %s): the parser/analyzer recurse on the native stack'
                              % (name, worst[0], worst[1]), {'form': name, 'depth': worst[0], 'exit': worst[1], 'stderr': worst[2]})
    finally:
        shutil.rmtree(tmp, ignore_errors=True)


def replay(r):
    vlib.build_harness()
    rp = r['replay']
    if 'op' in rp:
        a = vlib.impl([rp['op']], mem_limit=MEM_LIMIT)[0]
    elif 'src' in rp and 'cmd' not in rp:
        a = vlib.impl([vlib.eval_line('local r = (%s); if std.isFunction(r) then "function" else r' % rp['src'], max_stack=400)], mem_limit=MEM_LIMIT)[0]
    else:
        print(rp)
        return 1
    print('impl:', a)
    return 1 if classify(a) in ('PANIC', 'CRASH') else 0
