"""C14 — lexing tiles the input and decodes literals exactly.

Driver op: `lex <hexbytes> <0|1>` (flag = whitespaces_and_comments).
Answer: tokens `kind:start:end[:payload]` joined by ';' or one error `E<Kind>:start:end[:detail]`.

Direct oracles on the implementation (independent of the Lean model):
  * spans tile the input from 0 to an EndOfFile token at (n, n); non-EOF tokens non-empty
  * one located error otherwise (0 <= start <= end <= n)
  * flag=0 answer = flag=1 answer minus Whitespace/Comment (same error otherwise)
  * String / TextBlock values recomputed in Python from the token's source bytes
    (escapes, surrogate pairs, `bytes.decode('utf-8', 'replace')` for raw bytes, ||| stripping)
  * Number tokens: digits * 10^exp equals the exact value of the literal text
  * Ident / operator / keyword tokens carry the lexeme they span
Model vs implementation: answers compared verbatim for both flags.
"""
import glob
import itertools
import os
import re

import vlib

OPCH = b"!$:~+-&|^=<>*/%"
WS = b" \t\n\r"

KEYWORDS = {
    b"assert": "Assert", b"else": "Else", b"error": "Error", b"false": "False", b"for": "For",
    b"function": "Function", b"if": "If", b"import": "Import", b"importstr": "Importstr",
    b"importbin": "Importbin", b"in": "In", b"local": "Local", b"null": "Null",
    b"tailstrict": "Tailstrict", b"then": "Then", b"self": "Self_", b"super": "Super", b"true": "True",
}
SYMBOLS = {
    b"{": "LeftBrace", b"}": "RightBrace", b"[": "LeftBracket", b"]": "RightBracket", b",": "Comma",
    b".": "Dot", b"(": "LeftParen", b")": "RightParen", b";": "Semicolon",
    b":": "Colon", b"::": "ColonColon", b":::": "ColonColonColon", b"+:": "PlusColon",
    b"+::": "PlusColonColon", b"+:::": "PlusColonColonColon", b"=": "Eq", b"$": "Dollar",
    b"*": "Asterisk", b"/": "Slash", b"%": "Percent", b"+": "Plus", b"-": "Minus", b"<<": "LtLt",
    b">>": "GtGt", b"<": "Lt", b"<=": "LtEq", b">": "Gt", b">=": "GtEq", b"==": "EqEq",
    b"!=": "ExclamEq", b"&": "Amp", b"^": "Hat", b"|": "Pipe", b"&&": "AmpAmp", b"||": "PipePipe",
    b"!": "Exclam", b"~": "Tilde",
}
NAME2LEX = {v: k for k, v in list(KEYWORDS.items()) + list(SYMBOLS.items())}

NUM_RE = re.compile(rb"^(0|[1-9][0-9_]*)(?:\.([0-9][0-9_]*))?(?:[eE]([+-]?)([0-9][0-9_]*))?$")
# `1_.5`, `1_e5` and `1.5_e3` are accepted by the lexer (underscore directly before '.'/'e'):
NUM_RE_LOOSE = re.compile(rb"^([0-9][0-9_]*)(?:\.([0-9][0-9_]*))?(?:[eE]([+-]?)([0-9][0-9_]*))?$")


# ---------------------------------------------------------------- oracles

def parse_answer(ans):
    """-> ('ok', [(kind, s, e, payload)]) | ('err', kind, s, e, detail) | ('bad', text)"""
    if ans.startswith("E") and ";" not in ans and not ans.startswith("EndOfFile"):
        p = ans.split(":")
        if len(p) < 3:
            return ("bad", ans)
        return ("err", p[0][1:], int(p[1]), int(p[2]), p[3] if len(p) > 3 else None)
    toks = []
    for it in ans.split(";"):
        p = it.split(":")
        if len(p) < 3 or not p[1].isdigit() or not p[2].isdigit():
            return ("bad", ans[:200])
        toks.append((p[0], int(p[1]), int(p[2]), p[3] if len(p) > 3 else None))
    return ("ok", toks)


def norm10(m, e):
    if m == 0:
        return (0, 0)
    while m % 10 == 0:
        m //= 10
        e += 1
    return (m, e)


def literal_value(text):
    """Exact value (m, e) = m * 10^e of a Jsonnet number literal; None if not of the literal shape."""
    mt = NUM_RE_LOOSE.match(text)
    if not mt:
        return None
    ip, fp, sg, ex = mt.groups()
    ip = ip.replace(b"_", b"")
    fp = (fp or b"").replace(b"_", b"")
    e = int((ex or b"0").replace(b"_", b""))
    if sg == b"-":
        e = -e
    return norm10(int(ip + fp), e - len(fp))


def unescape_quoted(body):
    """Jsonnet quoted-string body (between the delimiters) -> str, or None if it has a bad escape."""
    out = []
    i, n = 0, len(body)
    raw = bytearray()

    def flush():
        if raw:
            out.append(bytes(raw).decode("utf-8", errors="replace"))
            raw.clear()

    simple = {ord('"'): '"', ord("'"): "'", ord("\\"): "\\", ord("/"): "/", ord("b"): "\b",
              ord("f"): "\f", ord("n"): "\n", ord("r"): "\r", ord("t"): "\t"}
    while i < n:
        b = body[i]
        if b != 0x5C:
            raw.append(b)
            i += 1
            continue
        flush()
        if i + 1 >= n:
            return None
        c = body[i + 1]
        if c in simple:
            out.append(simple[c])
            i += 2
        elif c == ord("u"):
            h = body[i + 2:i + 6]
            if len(h) != 4 or not re.match(rb"^[0-9a-fA-F]{4}$", h):
                return None
            cu = int(h, 16)
            i += 6
            if 0xD800 <= cu <= 0xDFFF:
                if body[i:i + 2] != b"\\u":
                    return None
                h2 = body[i + 2:i + 6]
                if len(h2) != 4 or not re.match(rb"^[0-9a-fA-F]{4}$", h2):
                    return None
                cu2 = int(h2, 16)
                if not (cu <= 0xDBFF and 0xDC00 <= cu2 <= 0xDFFF):
                    return None
                out.append(chr(0x10000 + ((cu - 0xD800) << 10) + (cu2 - 0xDC00)))
                i += 6
            else:
                out.append(chr(cu))
        else:
            return None
    flush()
    return "".join(out)


def text_block_value(text):
    """Value of a text-block token (source bytes `text`), per the Jsonnet spec with the CR LF reading that
    `C14_textblock_strip` states: lines end at LF; the header may hold spaces, tabs and CR; a line that is empty
    or a lone CR is an empty line and keeps its bytes; every other line starts with the first content line's
    run of spaces/tabs, which is removed.  None if this oracle does not apply."""
    assert text.startswith(b"|||")
    i = 3
    strip = False
    if text[i:i + 1] == b"-":
        strip = True
        i += 1
    while text[i:i + 1] in (b" ", b"\t", b"\r"):
        i += 1
    if text[i:i + 1] != b"\n":
        return None
    i += 1
    lines = text[i:].split(b"\n")  # last element = terminator line (no trailing '\n')
    if len(lines) < 2:
        return None
    body, term = lines[:-1], lines[-1]
    if term.lstrip(b" \t") != b"|||":
        return None
    k = 0
    while k < len(body) and body[k] in (b"", b"\r"):
        k += 1
    if k == len(body):
        return None
    first = body[k]
    w = first[:len(first) - len(first.lstrip(b" \t"))]
    if not w:
        return None
    out = [ln + b"\n" for ln in body[:k]]
    for ln in body[k:]:
        if ln in (b"", b"\r"):
            out.append(ln + b"\n")
        elif ln.startswith(w):
            out.append(ln[len(w):] + b"\n")
        else:
            return ("bad", "body line without the first line's prefix")
    if term.startswith(w):
        return ("bad", "terminator line begins with the prefix (is body text)")
    val = b"".join(out)
    if strip:
        if not val.endswith(b"\n"):
            return ("bad", "no final newline to strip")
        val = val[:-1]
    return val.decode("utf-8", errors="replace")


def oracle_tokens(data, toks):
    """Checks on a successful flag=1 answer. Returns an error description or None."""
    n = len(data)
    if not toks:
        return "no tokens"
    pos = 0
    for idx, (k, s, e, p) in enumerate(toks):
        if s != pos:
            return "token %d (%s) starts at %d, previous ended at %d" % (idx, k, s, pos)
        if e < s or e > n:
            return "token %d (%s) span %d..%d outside input of %d bytes" % (idx, k, s, e, n)
        last = idx == len(toks) - 1
        if (k == "EndOfFile") != last:
            return "EndOfFile token misplaced (index %d of %d)" % (idx, len(toks))
        if not last and e == s:
            return "empty non-EOF token %d (%s) at %d" % (idx, k, s)
        pos = e
        text = data[s:e]
        if k == "EndOfFile":
            if (s, e) != (n, n):
                return "EndOfFile at %d..%d, input has %d bytes" % (s, e, n)
        elif k == "Whitespace":
            if text.strip(WS) != b"":
                return "Whitespace token spans non-whitespace %r" % text[:20]
        elif k == "Comment":
            if not (text.startswith(b"#") or text.startswith(b"//") or
                    (text.startswith(b"/*") and text.endswith(b"*/") and len(text) >= 4)):
                return "Comment token spans %r" % text[:20]
        elif k == "Simple":
            if NAME2LEX.get(p) != text:
                return "Simple(%s) spans %r" % (p, text[:20])
        elif k == "Ident":
            if vlib.unhx(p) != text or not re.match(rb"^[A-Za-z_][A-Za-z0-9_]*$", text) or text in KEYWORDS:
                return "Ident payload %r for lexeme %r" % (p, text[:30])
        elif k == "OtherOp":
            if vlib.unhx(p) != text or text in SYMBOLS or text.strip(OPCH) != b"":
                return "OtherOp payload %r for lexeme %r" % (p, text[:30])
        elif k == "Number":
            digits, exp = p.split(",")
            if not digits.isdigit():
                return "Number digits %r" % digits
            want = literal_value(text)
            if want is None:
                return "Number token spans non-literal %r" % text[:40]
            if norm10(int(digits), int(exp)) != want:
                return "Number %r lexed as %s*10^%s" % (text[:40], digits, exp)
        elif k == "String":
            val = vlib.unhx(p).decode("utf-8")
            if text[:1] == b"@":
                d = text[1:2]
                if d not in (b"'", b'"') or text[-1:] != d or len(text) < 3:
                    return "verbatim String spans %r" % text[:30]
                body = text[2:-1]
                # doubled delimiters only; a single delimiter would have ended the token
                if body.replace(d + d, b"").find(d) >= 0:
                    return "verbatim String body contains a lone delimiter: %r" % text[:30]
                want = body.replace(d + d, d).decode("utf-8", errors="replace")
            else:
                d = text[:1]
                if d not in (b"'", b'"') or text[-1:] != d or len(text) < 2:
                    return "String spans %r" % text[:30]
                want = unescape_quoted(text[1:-1])
                if want is None:
                    return "String token with an invalid escape accepted: %r" % text[:40]
            if val != want:
                return "String %r has value %r, expected %r" % (text[:40], val[:40], want[:40])
        elif k == "TextBlock":
            val = vlib.unhx(p).decode("utf-8")
            want = text_block_value(text)
            if isinstance(want, tuple):
                return "TextBlock token %r: %s" % (text[:60], want[1])
            if want is not None and val != want:
                return "TextBlock %r has value %r, expected %r" % (text[:60], val[:60], want[:60])
        else:
            return "unknown token kind " + k
    return None


def oracle(data, a1, a0):
    """Full direct oracle on the two implementation answers. Returns description or None."""
    n = len(data)
    for a in (a1, a0):
        if a.startswith("panic") or a.startswith("crash") or a in ("bad-op", "badspan"):
            return "implementation failure: " + a[:120]
    r1, r0 = parse_answer(a1), parse_answer(a0)
    if r1[0] == "bad" or r0[0] == "bad":
        return "unparsable answer " + a1[:100]
    if r1[0] == "err":
        _, k, s, e, d = r1
        if not (0 <= s <= e <= n):
            return "error %s span %d..%d not inside input of %d bytes" % (k, s, e, n)
        if a0 != a1:
            return "error differs between flags: %s vs %s" % (a1[:80], a0[:80])
        return None
    bad = oracle_tokens(data, r1[1])
    if bad:
        return bad
    if r0[0] != "ok":
        return "flag=1 lexes, flag=0 fails: " + a0[:80]
    want0 = [t for t in r1[1] if t[0] not in ("Whitespace", "Comment")]
    if r0[1] != want0:
        return "dropping whitespace/comments changes the other tokens"
    return None


# ---------------------------------------------------------------- generators

SCALAR_EDGES = [0x00, 0x01, 0x7F, 0x80, 0x7FF, 0x800, 0xFFF, 0x1000, 0xCFFF, 0xD000, 0xD7FF, 0xE000,
                0xFFFD, 0xFFFE, 0xFFFF, 0x10000, 0x3FFFF, 0x40000, 0xFFFFF, 0x100000, 0x10FFFF,
                0xE9, 0x20AC, 0x1F600]

INVALID_SEQS = [
    b"\x80", b"\xBF", b"\xC0\x80", b"\xC1\x81", b"\xC1\xBF", b"\xC2", b"\xC2\x20", b"\xC2\xC2\x80",
    b"\xDF", b"\xE0\x80\x80", b"\xE0\x9F\xBF", b"\xE0\xA0", b"\xE0\xA0\x20", b"\xE0", b"\xE1\x80",
    b"\xE1\x80\xC0", b"\xED\xA0\x80", b"\xED\xBF\xBF", b"\xED\x9F", b"\xEF\xBF", b"\xF0\x80\x80\x80",
    b"\xF0\x8F\xBF\xBF", b"\xF0\x90", b"\xF0\x90\x80", b"\xF0\x90\x80\x20", b"\xF1", b"\xF1\x80",
    b"\xF1\x80\x80", b"\xF3\xBF\xBF", b"\xF4\x90\x80\x80", b"\xF4\x8F\xBF", b"\xF4\x8F", b"\xF5\x80\x80\x80",
    b"\xF7\xBF\xBF\xBF", b"\xF8\x88\x80\x80\x80", b"\xFC", b"\xFE", b"\xFF", b"\xE0\xA0\xE0\xA0\x80",
    b"\xF0\x90\x80\xF0\x90\x80\x80", b"\xC2\xE0\xA0\xF0\x90\x80",
]


def enc(cp):
    return chr(cp).encode("utf-8", errors="surrogatepass")


def wrap_bodies(body):
    """A raw byte body inside every context where the lexer decodes or skips bytes."""
    outs = []
    safe = body.replace(b"\\", b"").replace(b"'", b"").replace(b'"', b"")
    outs.append(b"'" + safe + b"'")
    outs.append(b'"' + safe + b'"')
    outs.append(b"@'" + safe + b"'")
    outs.append(b'@"' + safe + b'"')
    outs.append(b"'" + safe)              # truncated at EOF
    outs.append(b"@\"" + safe)
    nl = safe.replace(b"\n", b"").replace(b"\r", b"")
    outs.append(b"|||\n  " + nl + b"\n  x" + nl + b"\n|||")
    outs.append(b"|||-\n\t" + nl + b"\n|||")
    outs.append(b"|||\n " + nl)           # truncated
    outs.append(b"// " + nl + b"\nx")
    outs.append(b"# " + nl)
    outs.append(b"/* " + safe.replace(b"*/", b"") + b" */ y")
    outs.append(b"/* " + safe)
    outs.append(b"x " + body)             # outside strings: InvalidChar / InvalidUtf8
    outs.append(b"'\\" + body)            # invalid escape character
    return outs


def gen_number(rng):
    r = rng.random()

    def digs(k, lead_nonzero=False):
        s = "".join(rng.choice("0123456789") for _ in range(k))
        if lead_nonzero and s[0] == "0":
            s = rng.choice("123456789") + s[1:]
        if rng.random() < 0.3 and k > 1:
            j = rng.randrange(1, k)
            s = s[:j] + "_" + s[j:]
        return s
    ip = "0" if r < 0.2 else digs(rng.randrange(1, 8), True)
    s = ip
    if rng.random() < 0.5:
        s += "." + digs(rng.randrange(1, 8))
    if rng.random() < 0.5:
        s += rng.choice("eE") + rng.choice(["", "+", "-"]) + digs(rng.choice([1, 1, 2, 3, 19, 20, 21]))
    if rng.random() < 0.15:
        # malformed variants
        s = rng.choice([s + "_", s + ".", s + "e", s + "e+", "0" + s, s.replace("_", "__", 1), s + "_.5",
                        s + "_e5", s + "e9223372036854775807", s + "e-9223372036854775808",
                        "1." + "0" * rng.randrange(1, 4) + "e-9223372036854775807",
                        s + "e18446744073709551615", s + "e18446744073709551616", s + "e1_0", s + "e_1"])
    return s.encode()


def gen_quoted(rng):
    d = rng.choice("'\"")
    parts = []
    for _ in range(rng.randrange(0, 8)):
        r = rng.random()
        if r < 0.3:
            parts.append(bytes(rng.choice(b"abc xyz09,.{}|/#@") for _ in range(rng.randrange(1, 5))))
        elif r < 0.45:
            parts.append(b"\\" + bytes([rng.choice(b"\"'\\/bfnrt")]))
        elif r < 0.6:
            parts.append(b"\\u%04x" % rng.choice(SCALAR_EDGES[:15] + [0xD7FF, 0xE000, 0x41, 0x0]))
        elif r < 0.7:
            hi = rng.choice([0xD800, 0xDBFF, 0xD83D])
            lo = rng.choice([0xDC00, 0xDFFF, 0xDE00])
            parts.append(b"\\u%04X\\u%04x" % (hi, lo))
        elif r < 0.78:
            parts.append(rng.choice([b"\\uD800", b"\\uDC00\\uD800", b"\\uD800\\u0041", b"\\uD800\\uD800",
                                     b"\\uDFFF\\uDC00", b"\\u12", b"\\uD800\\u12", b"\\u12G4", b"\\x41",
                                     b"\\\xc3\xa9", b"\\\xff", b"\\uD83D\\n", b"\\", b"\\u", b"\\uD800\\"]))
        elif r < 0.9:
            parts.append(enc(rng.choice(SCALAR_EDGES[:1] * 0 + [c for c in SCALAR_EDGES if not 0xD800 <= c <= 0xDFFF])))
        else:
            parts.append(rng.choice(INVALID_SEQS))
    body = b"".join(parts)
    if d == "'":
        body = body.replace(b"'", b"\\'") if rng.random() < 0.9 else body
    else:
        body = body.replace(b'"', b'\\"') if rng.random() < 0.9 else body
    close = d.encode() if rng.random() < 0.93 else b""
    return d.encode() + body + close


def gen_verbatim(rng):
    d = rng.choice([b"'", b'"'])
    parts = []
    for _ in range(rng.randrange(0, 6)):
        r = rng.random()
        if r < 0.4:
            parts.append(bytes(rng.choice(b"abc \\n\n\t09") for _ in range(rng.randrange(1, 5))))
        elif r < 0.6:
            parts.append(d + d)
        elif r < 0.7:
            parts.append(b"'" if d == b'"' else b'"')
        elif r < 0.9:
            parts.append(enc(rng.choice([c for c in SCALAR_EDGES if not 0xD800 <= c <= 0xDFFF])))
        else:
            parts.append(rng.choice(INVALID_SEQS))
    return b"@" + d + b"".join(parts) + (d if rng.random() < 0.93 else b"")


def gen_textblock(rng):
    nl = rng.choice([b"\n", b"\n", b"\n", b"\r\n"])
    pfx = rng.choice([b" ", b"  ", b"\t", b" \t", b"\t ", b"    ", b""])
    s = b"|||" + (b"-" if rng.random() < 0.35 else b"") + rng.choice([b"", b" ", b"\t", b" \r", b"x", b"\r"]) + nl
    for _ in range(rng.choice([0, 0, 0, 1, 2])):
        s += rng.choice([nl, b"\n", b"\r\n"])           # fully empty first lines
    for i in range(rng.randrange(0, 5)):
        r = rng.random()
        if r < 0.2:
            s += rng.choice([nl, b"\n", b"\r\n"])
            continue
        line = bytes(rng.choice(b"ab |'\"\\\t{}") for _ in range(rng.randrange(0, 6)))
        if rng.random() < 0.15:
            line += rng.choice(INVALID_SEQS + [enc(0x10FFFF), enc(0x800), b"|||", b"\r"])
        p = pfx
        if rng.random() < 0.15:
            p = rng.choice([pfx + b" ", pfx[:-1], b"\t", b" ", b""])
        s += p + line + rng.choice([nl, nl, nl, b"\n", b"\r\n"])
    r = rng.random()
    if r < 0.8:
        s += rng.choice([b"", b"", pfx[:-1], b" ", b"\t", pfx]) + b"|||"
    elif r < 0.9:
        s += rng.choice([b"||", b"x", b"  x|||", b""])
    return s


IDENTS = [b"x", b"_", b"_a1", b"local", b"locals", b"self", b"Self", b"importstr", b"importstrx", b"import",
          b"importbin", b"tailstrict", b"e1", b"E", b"a_b_c", b"Z9", b"nul", b"nullx", b"true", b"iff"]


def gen_piece(rng):
    r = rng.random()
    if r < 0.12:
        return rng.choice(IDENTS)
    if r < 0.26:
        return gen_number(rng)
    if r < 0.40:
        return gen_quoted(rng)
    if r < 0.47:
        return gen_verbatim(rng)
    if r < 0.57:
        return gen_textblock(rng)
    if r < 0.65:
        return rng.choice([b"//", b"#", b"// c\n", b"# x\r\n", b"/**/", b"/* a */", b"/* * / */", b"/*/", b"/*",
                           b"/* \xff\xc2 */", b"// \xe0\xa0\n"])
    if r < 0.75:
        return bytes(rng.choice(WS) for _ in range(rng.randrange(1, 4)))
    if r < 0.93:
        return bytes(rng.choice(OPCH) for _ in range(rng.randrange(1, 6)))
    if r < 0.97:
        return bytes([rng.choice(b"{}[],.();")])
    return rng.choice([b"@", b"`", b"?", b"\\", b"\x00", b"\x7f", b"\xc3\xa9", b"\xff", b"\xe2\x82", b"\xf0\x9f\x98\x80"])


def gen_grammar(rng):
    parts = []
    for _ in range(rng.randrange(1, 9)):
        parts.append(gen_piece(rng))
        if rng.random() < 0.45:
            parts.append(rng.choice([b" ", b"\n", b"\t", b" ", b"\r\n"]))
    return b"".join(parts)


def mutate(rng, data):
    data = bytearray(data)
    if len(data) > 600:
        a = rng.randrange(0, len(data) - 400)
        data = data[a:a + rng.randrange(50, 600)]
    for _ in range(rng.randrange(1, 5)):
        r = rng.random()
        if not data:
            data = bytearray(b"x")
        i = rng.randrange(len(data))
        if r < 0.25:
            data[i] = rng.randrange(256)
        elif r < 0.45:
            del data[i:i + rng.randrange(1, 4)]
        elif r < 0.7:
            ins = rng.choice([b"'", b'"', b"\\", b"|||", b"|||-", b"/*", b"*/", b"//", b"\n", b"\r\n", b"\xff",
                              b"\xc2", b"\xe0\xa0", b"\\u", b"\\uD800", b"_", b".", b"e", b"0", b"@", b"+", b"-"])
            data[i:i] = ins
        elif r < 0.85:
            data = data[:i]
        else:
            j = rng.randrange(len(data))
            data[i:i] = data[j:j + rng.randrange(1, 8)]
    return bytes(data)


def corpus_files():
    fs = sorted(glob.glob(os.path.join(vlib.REPO, "ui-tests", "**", "*.jsonnet"), recursive=True))
    fs.append(os.path.join(vlib.REPO, "rsjsonnet-lang", "src", "program", "std.libsonnet"))
    return fs


HAND = [
    b"", b"local add_one(x) = x + 1; add_one(2)", b"'\xc1\x81'", b"\"\xc0\x80\"", b"'\xed\xa0\x80'",
    b"'\xf4\x90\x80\x80'", b"1.5e3 0.5 1_000 1e-2 1E+2 0 10 1_0.2_5e1_0", b"01", b"1._5", b"1.", b"1e", b"1e+", b"1__0",
    b"0_1", b"1_", b"1.2_", b"1e5_", b"1_.5", b"1_e5", b"1e99999999999999999999", b"1e9223372036854775807",
    b"0.1e-9223372036854775808", b"0.01e-9223372036854775807", b"1e-9223372036854775808", b"1e9223372036854775808",
    b"a|||b", b"x+|||\n a\n|||", b"1-//c\n2", b"1+/*c*/2", b"a<=-b", b"a==!b", b"x:::+y", b"a||-b", b"a&&~b", b"a<<=b",
    b"a||||b", b"a|||", b"|||\n a\n|||", b"|||-\n a\n|||", b"|||-\n a\n\n|||", b"|||\n\n\n  a\n\n  b\n |||",
    b"|||\r\n  a\r\n  b\r\n|||", b"|||\n  a\r\n  b\n|||", b"|||\n\r\n  a\n|||", b"|||\n  \r\n  a\n|||", b"|||\n\ta\n\t\tb\n \t|||",
    b"|||\n a\n b|||\n|||", b"|||\n a\n |||\n|||", b"|||\na\n|||", b"||| x\n a\n|||", b"|||\n a\n  x", b"|||\n a", b"|||", b"|||-",
    b"|||\n a\n\r|||", b"|||\n a\r\n\r\n\r\n|||", b"|||-\n \r\n|||", b"|||\n \r|||",
    b"'\\ud83d\\ude00'", b"'\\uD800'", b"'\\uD800\\u0041'", b"'\\uDC00\\uDC00'", b"'\\ud800\\udc00'", b"'\\udbff\\udfff'",
    b"'\\ud800x'", b"'\\ud800\\ud'", b"'\\u00e9\\n\\t\\\\\\/\\b\\f\\r\\\"\\''", b"'\\q'", b"'\\\xc3\xa9'", b"'\\\xff'", b"'\\",
    b"@'a''b'", b'@"a""b"', b"@'", b"@x", b"@", b"@'\xff''", b"'a\nb'", b"/* unterminated", b"/*/", b"/**/", b"#", b"//",
    b"\xff", b"\xc3\xa9", b"\xe2\x82", b"\xf0\x9f\x98\x80", b"\xc2", b"`", b"\x00", b"a\x7fb", b"$$", b"$", b"+-", b"-+", b"!~!",
    b"a.b.c", b"{a:1,b::2,c:::3,d+:4,e+::5,f+:::6}", b"[1,2][0:1:2]", b"x=//\n1", b"x=/*c*/1", b"a/b", b"a/ /b", b"a%b",
    b"|| |", b"||\n", b"| ||", b"||x",
]


def run(rep):
    rep.rule = ("byte strings: hand corpus, every operator-alphabet string up to length 4 (quick) / 5 (thorough) bare and "
                "embedded, ui-tests + std.libsonnet whole and mutated, grammar-generated token sequences (all literal "
                "forms incl. malformed), scalar-boundary and invalid-UTF-8 bodies in every string/comment context, "
                "random bytes; each lexed with both flags; non-trivial = >=2 non-EOF tokens or an error; "
                "distinct by input bytes")
    rep.assumptions = ["fewer than 2^63 fractional digits (isize implicit exponent modelled as Int)",
                       "span offsets modelled as Nat (SpanManager encoding is property C16)",
                       "text-block value oracle in Python: CR LF forms read as C14_textblock_strip states them (a lone CR is an "
                       "empty line and keeps its bytes)"]
    vlib.prelude(rep, extra_modules=())
    rng = rep.rng
    thorough = rep.tier != "quick"
    inputs = []

    def add(b, tag):
        inputs.append((bytes(b), tag))

    for h in HAND:
        add(h, "hand")
    # operator clusters (maximal munch)
    maxlen = 5 if thorough else 4
    for L in range(1, maxlen + 1):
        for tup in itertools.product(OPCH, repeat=L):
            add(bytes(tup), "opcluster")
    nctx = 40000 if thorough else 4000
    for _ in range(nctx):
        L = rng.randrange(1, 7)
        op = bytes(rng.choice(b"|/*" if rng.random() < 0.35 else OPCH) for _ in range(L))
        add(rng.choice([b"a", b"1", b"", b"x ", b"'s'"]) + op + rng.choice([b"b", b"2", b"", b" y", b"\n a\n|||", b"c*/"]),
            "opcluster-ctx")
    # scalar boundaries and invalid prefixes in every context
    bodies = [enc(c) for c in SCALAR_EDGES] + INVALID_SEQS
    bodies += [b"a" + x + b"b" for x in INVALID_SEQS] + [x + y for x in INVALID_SEQS[:12] for y in INVALID_SEQS[:12]]
    bodies += [enc(a) + enc(b) for a in (0x7F, 0x80, 0x7FF, 0x800, 0xFFFF, 0x10000, 0x10FFFF) for b in (0x80, 0x800, 0x10000)]
    for b in bodies:
        for w in wrap_bodies(b):
            add(w, "utf8-body")
    if thorough:
        # every Unicode scalar value (and every surrogate code point's would-be encoding) inside a string body
        chunk = []
        for cp in range(0, 0x110000):
            if cp in (0x27, 0x5C):
                continue
            chunk.append(enc(cp))
            if len(chunk) == 512:
                add(b"'" + b"".join(chunk) + b"'", "all-scalars")
                chunk = []
        if chunk:
            add(b"'" + b"".join(chunk) + b"'", "all-scalars")
        # every 2-byte sequence with a non-ASCII lead, and 3-byte sequences on the table edges
        for b0 in range(0x80, 0x100):
            add(b"'" + b"".join(bytes([b0, b1]) + b" " for b1 in range(0x100) if b1 not in (0x27, 0x5C)) + b"'", "all-2byte")
            add(b"@\"" + bytes([b0]), "trunc")
        edges = [0x00, 0x20, 0x7F, 0x80, 0x8F, 0x90, 0x9F, 0xA0, 0xBF, 0xC0, 0xC2, 0xE0, 0xED, 0xF0, 0xF4, 0xFF]
        for b0 in range(0xE0, 0xF8):
            for b1 in edges:
                add(b"'" + b"".join(bytes([b0, b1, b2]) + b" " + bytes([b0, b1, b2, b3]) + b" "
                                    for b2 in edges for b3 in (0x7F, 0x80, 0xBF, 0xC0)) + b"'", "all-3/4byte")
    # corpus
    files = corpus_files()
    datas = [open(f, "rb").read() for f in files]
    pick = datas if thorough else [datas[-1]] + rng.sample(datas[:-1], 120)
    for d in pick:
        add(d, "corpus")
    for _ in range(80000 if thorough else 3000):
        add(mutate(rng, rng.choice(datas)), "corpus-mut")
    for _ in range(200000 if thorough else 8000):
        add(gen_grammar(rng), "grammar")
    for _ in range(60000 if thorough else 2500):
        add(gen_number(rng) + rng.choice([b"", b" ", b"x", b".", b"e", b"_", b"+1"]), "number")
    for _ in range(80000 if thorough else 2500):
        add(gen_textblock(rng) + rng.choice([b"", b"", b" x", b"\n"]), "textblock")
    alph = bytes(range(256))
    lex_alph = b"'\"\\|/*-+.e_0189 \n\r\t@#ux:=<" + bytes([0x80, 0xBF, 0xC2, 0xE0, 0xA0, 0xED, 0xF0, 0x90, 0xF4, 0xFF])
    for _ in range(100000 if thorough else 5000):
        a = alph if rng.random() < 0.3 else lex_alph
        add(bytes(rng.choice(a) for _ in range(rng.randrange(0, 24))), "random")
    if thorough:
        small = b"'\"\\|/*-+.e_019 \t\n\r@#ux:=<a{" + bytes([0x80, 0xA0, 0xBF, 0xC2, 0xE0, 0xED, 0xF0, 0x90, 0xF4, 0xFF, 0x7F, 0x00])
        for L in range(1, 4):
            for tup in itertools.product(small, repeat=L):
                add(bytes(tup), "exhaustive-small")
        tiny = b"'\\|-\n \r\tu0\xc2"
        for tup in itertools.product(tiny, repeat=4):
            add(bytes(tup), "exhaustive-small4")
            add(b"|||\n " + bytes(tup), "exhaustive-tb")

    # dedupe, keep order
    seen = set()
    cases = []
    for b, tag in inputs:
        if b in seen:
            continue
        seen.add(b)
        cases.append({"key": vlib.hx(b), "tag": tag})
    lines = []
    for c in cases:
        lines.append("lex %s 1" % c["key"])
        lines.append("lex %s 0" % c["key"])
    io = vlib.impl(lines)
    mo = vlib.model(lines)
    canon = lambda s: "panic" if s.startswith("panic") else s
    for i, c in enumerate(cases):
        data = vlib.unhx(c["key"])
        a1, a0 = io[2 * i], io[2 * i + 1]
        m1, m0 = mo[2 * i], mo[2 * i + 1]
        r1 = parse_answer(a1)
        if r1[0] == "ok":
            nontriv = len(r1[1]) >= 3
            for t in r1[1]:
                rep.bump("tok-" + t[0])
            rep.bump("lexed-ok")
        else:
            nontriv = r1[0] == "err"
            rep.bump("err-" + (r1[1] if r1[0] == "err" else "bad"))
        rep.bump("gen-" + c["tag"])
        rep.count(c["key"], nontriv,
                  sample={"input": c["key"][:120], "impl": a1[:200]} if nontriv and rng.random() < 0.01 else None)
        bad = oracle(data, a1, a0)
        if bad:
            rep.violation("lex:" + c["key"][:400], bad, {"input": c["key"], "impl1": a1[:2000], "impl0": a0[:2000]})
        if canon(a1) != canon(m1) or canon(a0) != canon(m0):
            rep.disagreement("lex:" + c["key"][:400], "lexer implementation and model differ",
                             {"input": c["key"], "impl1": a1[:2000], "model1": m1[:2000],
                              "impl0": a0[:2000], "model0": m0[:2000]})
    vlib.huge_token_probe(rep, ("lex",))


def replay(r):
    h = r["replay"].get("input") or r["replay"]["case"]["key"]
    vlib.build_harness()
    lines = ["lex %s 1" % h, "lex %s 0" % h]
    a = vlib.impl(lines)
    b = vlib.model(lines)
    print("input:", vlib.unhx(h)[:200])
    print("impl  flag=1:", a[0][:1000])
    print("model flag=1:", b[0][:1000])
    print("impl  flag=0:", a[1][:1000])
    print("model flag=0:", b[1][:1000])
    bad = oracle(vlib.unhx(h), a[0], a[1])
    print("oracle:", bad)
    return 1 if bad or a != b else 0
