"""C17 — sorting and set functions meet their mathematical contracts.

Three comparisons per case:
  * direct oracle (Python definitions, independent of the Lean model) on the
    implementation's answer                                   -> rep.violation
  * Lean model (RsjModel/Sort.lean, op `sort`) vs implementation -> rep.disagreement
  * additional direct oracle with string / array / float keys, projecting and
    identity key functions, through the generic `eval` op     -> rep.violation
The merge/quick threshold is extracted from stdlib.rs and handed to the model.
"""
import json
import re
import subprocess

import vlib

STDLIB_RS = vlib.REPO + "/rsjsonnet-lang/src/program/eval/stdlib.rs"


# ---------------------------------------------------------------- guarded runner

def _run_once(lines, timeout):
    """Answers of the harness for `lines`, or None when it does not finish in time."""
    data = ("\n".join(lines) + "\n").encode("utf-8")
    try:
        p = subprocess.run([vlib.HARNESS_BIN], input=data, stdout=subprocess.PIPE,
                           stderr=subprocess.PIPE, timeout=timeout)
    except subprocess.TimeoutExpired:
        return None
    got = p.stdout.decode("utf-8", "replace").split("\n")
    if got and got[-1] == "":
        got.pop()
    if len(got) != len(lines):          # the driver died: let vlib locate the line
        return vlib.run_lines(vlib.HARNESS_BIN, lines, timeout=timeout)
    return got


HANGS = [0]   # hangs seen in this run (all sections)


def impl_guarded(lines, chunk=400, timeout=30):
    """Like vlib.impl, but a non-terminating evaluation (the harness only flushes at
    exit) costs one time-out instead of one per line: the hanging line answers
    `timeout`, lines not run answer `skipped`; after two hangs nothing more is run."""
    out = []
    for c in range(0, len(lines), chunk):
        part = lines[c:c + chunk]
        if HANGS[0] >= 2:
            out += ["skipped"] * len(part)
            continue
        res = _run_once(part, timeout)
        if res is not None:
            out += res
            continue
        HANGS[0] += 1
        done = 0
        for l in part:
            r = _run_once([l], 10)
            done += 1
            if r is None:
                out.append("timeout")
                break
            out += r
        out += ["skipped"] * (len(part) - done)
    return out


# ---------------------------------------------------------------- threshold

def extract_threshold():
    """`if len > N` inside `do_std_sort_slice` -> N (None if the shape changed)."""
    src = open(STDLIB_RS, encoding="utf-8").read()
    m = re.search(r"fn do_std_sort_slice\b(.*?)\n    }\n", src, re.S)
    if not m:
        return None
    body = m.group(1)
    c = re.findall(r"if\s+len\s*>\s*(\d+)\s*\{", body)
    if len(c) != 1:
        return None
    return int(c[0])


# ---------------------------------------------------------------- int cases (op `sort`)

def ks_str(ks):
    return ",".join(str(k) for k in ks) if ks else "-"


def parse_ks(s):
    return [] if s == "-" else [int(x) for x in s.split(",")]


def is_set(ks):
    return all(ks[i] < ks[i + 1] for i in range(len(ks) - 1))


def tags(l):
    return ",".join(l) if l else "-"


def oracle(line):
    """Expected answer of a `sort ...` line from the definitions; None = no oracle
    (set operation on an array that is not a set)."""
    w = line.split(" ")
    assert w[0] == "sort"
    sub = w[1]
    if sub == "sort":
        ks = parse_ks(w[3])
        return tags([str(i) for i in sorted(range(len(ks)), key=lambda i: ks[i])])
    if sub == "uniq":
        ks = parse_ks(w[2])
        return tags([str(i) for i in range(len(ks)) if i == 0 or ks[i] != ks[i - 1]])
    if sub == "set":
        ks = parse_ks(w[3])
        s = sorted(range(len(ks)), key=lambda i: ks[i])
        return tags([str(s[p]) for p in range(len(s)) if p == 0 or ks[s[p]] != ks[s[p - 1]]])
    if sub in ("union", "inter", "diff"):
        a, b = parse_ks(w[2]), parse_ks(w[3])
        if not (is_set(a) and is_set(b)):
            return None
        if sub == "inter":
            return tags(["a%d" % i for i, k in enumerate(a) if k in b])
        if sub == "diff":
            return tags(["a%d" % i for i, k in enumerate(a) if k not in b])
        out = []
        for k in sorted(set(a) | set(b)):
            out.append("a%d" % a.index(k) if k in a else "b%d" % b.index(k))
        return tags(out)
    if sub == "member":
        x, ks = int(w[2]), parse_ks(w[3])
        if not all(ks[i] <= ks[i + 1] for i in range(len(ks) - 1)):
            return None
        return "true" if x in ks else "false"
    if sub in ("min", "max"):
        ks = parse_ks(w[2])
        if not ks:
            return "empty"
        return str(ks.index(min(ks) if sub == "min" else max(ks)))
    raise ValueError(line)


def nontrivial(line):
    w = line.split(" ")
    sub = w[1]
    if sub in ("sort", "set"):
        ks = parse_ks(w[3])
        return len(ks) >= 2 and len(set(ks)) < len(ks)
    if sub in ("uniq", "min", "max"):
        ks = parse_ks(w[2])
        return len(ks) >= 2 and len(set(ks)) < len(ks)
    if sub in ("union", "inter", "diff"):
        a, b = set(parse_ks(w[2])), set(parse_ks(w[3]))
        return bool(a) and bool(b) and bool(a & b) and bool(a ^ b)
    if sub == "member":
        return len(parse_ks(w[3])) >= 1
    return False


def lengths(thr, tier, rng):
    """(length, repetitions): every length 0..200 (0..400 thorough); more repetitions at the
    boundaries: 0..12 and around every multiple / power-of-two multiple of the threshold."""
    top = 200 if tier == "quick" else 400
    base, boost = (2, 8) if tier == "quick" else (8, 30)
    special = set(range(0, 13))
    for m in (1, 2, 3, 4, 5, 6, 8):
        for d in (-1, 0, 1, 2):
            special.add(max(0, m * thr + d))
    special.update([2 * thr + 3, 4 * thr + 3, 127, 128, 129, top - 1, top])
    out = []
    for n in range(0, top + 1):
        out.append((n, boost if n in special else base))
    for n in sorted(special):
        if n > top and n <= 8 * thr + 2 and n < 480:
            out.append((n, boost))
    return out


def gen_keys(rng, n, style):
    if style == "few":
        m = rng.choice([1, 2, 3])
        return [rng.randrange(0, m) for _ in range(n)]
    if style == "dups":
        m = max(1, n // rng.choice([2, 4, 8]))
        return [rng.randrange(-m, m + 1) for _ in range(n)]
    if style == "asc":
        return sorted(rng.randrange(0, max(1, n // 3) + 1) for _ in range(n))
    if style == "desc":
        return sorted((rng.randrange(0, max(1, n // 3) + 1) for _ in range(n)), reverse=True)
    if style == "runs":
        out = []
        while len(out) < n:
            out += [rng.randrange(0, 6)] * rng.randrange(1, 5)
        return out[:n]
    if style == "wide":
        return [rng.randrange(-10 ** 6, 10 ** 6) for _ in range(n)]
    raise ValueError(style)


def subsets(universe):
    out = [[]]
    for x in universe:
        out += [s + [x] for s in out]
    return [sorted(s) for s in out]


def gen_int_lines(rep, thr):
    rng = rep.rng
    lines = []
    # corpus: hand-picked boundary cases
    corpus = [
        "sort sort %d -" % thr, "sort sort %d 5" % thr, "sort sort %d 2,1" % thr, "sort sort %d 1,1" % thr,
        "sort sort %d 3,1,2,1,3,1" % thr, "sort set %d 3,1,2,1,3,1" % thr, "sort set %d -" % thr,
        "sort set %d 7" % thr, "sort uniq 1,1,2,2,2,1,3", "sort uniq -", "sort uniq 4", "sort uniq 1,2,1,2",
        "sort union - -", "sort union - 1,2", "sort union 1,2 -", "sort union 1,3,5 2,3,6",
        "sort inter 1,3,5 2,3,5", "sort inter - 1", "sort inter 1 -", "sort diff 1,3,5 2,3,6",
        "sort diff - 1", "sort diff 1,2 -", "sort diff 1,2 1,2", "sort member 3 -", "sort member 3 3",
        "sort member 2 3", "sort member 4 3", "sort member 0 1,2", "sort member 3 1,2", "sort member 1 1,2",
        "sort member 2 1,2", "sort min -", "sort max -", "sort min 4", "sort max 4", "sort min 2,1,1,2",
        "sort max 1,2,2,1", "sort min 1,1,1", "sort max 1,1,1",
    ]
    lines += corpus
    styles = ["few", "dups", "asc", "desc", "runs", "wide"]
    for n, reps in lengths(thr, rep.tier, rng):
        for _ in range(reps):
            ks = gen_keys(rng, n, rng.choice(styles))
            s = ks_str(ks)
            lines.append("sort sort %d %s" % (thr, s))
            lines.append("sort set %d %s" % (thr, s))
            lines.append("sort uniq %s" % s)
            lines.append("sort min %s" % s)
            lines.append("sort max %s" % s)
    # exhaustive small scope for sort/uniq/min/max: all key vectors over {0,1,2} up to length 5 (6 in thorough)
    top = 5 if rep.tier == "quick" else 7
    for n in range(0, top + 1):
        for code in range(3 ** n):
            ks = [(code // 3 ** p) % 3 for p in range(n)]
            s = ks_str(ks)
            lines.append("sort sort %d %s" % (thr, s))
            lines.append("sort set %d %s" % (thr, s))
            lines.append("sort uniq %s" % s)
            lines.append("sort min %s" % s)
            lines.append("sort max %s" % s)
    # set operations: every overlap pattern = all pairs of subsets of a small universe
    uni = [0, 1, 2, 3] if rep.tier == "quick" else [0, 1, 2, 3, 4, 5]
    subs = subsets(uni)
    for a in subs:
        for b in subs:
            for op in ("union", "inter", "diff"):
                lines.append("sort %s %s %s" % (op, ks_str(a), ks_str(b)))
    # binary search: every set over a small universe, every probe incl. below / above
    uni2 = list(range(0, 12, 2)) if rep.tier == "quick" else list(range(0, 20, 2))
    msubs = subsets(uni2[:6]) if rep.tier == "quick" else subsets(uni2[:9])
    for a in msubs:
        for x in range(-1, (max(a) if a else 0) + 2):
            lines.append("sort member %d %s" % (x, ks_str(a)))
    # larger random sets with controlled overlap
    nbig = 400 if rep.tier == "quick" else 8000
    for _ in range(nbig):
        u = rng.randrange(2, 90)
        pool = rng.sample(range(-u, 2 * u), u)
        pa, pb = rng.random(), rng.random()
        shape = rng.choice(["mix", "mix", "sub", "sup", "same", "disj-lo", "disj-hi"])
        a = sorted(k for k in pool if rng.random() < pa)
        b = sorted(k for k in pool if rng.random() < pb)
        if shape == "sub":
            a = [k for k in a if k in b]
        elif shape == "sup":
            b = [k for k in b if k in a]
        elif shape == "same":
            b = list(a)
        elif shape == "disj-lo" and a and b:
            b = [k for k in b if k < a[0]]
        elif shape == "disj-hi" and a and b:
            b = [k for k in b if k > a[-1]]
        for op in ("union", "inter", "diff"):
            lines.append("sort %s %s %s" % (op, ks_str(a), ks_str(b)))
        for x in rng.sample(range(-u - 1, 2 * u + 1), min(6, 3 * u)):
            lines.append("sort member %d %s" % (x, ks_str(a)))
        # sorted with duplicates is still a valid input of the binary search
        d = sorted(a + [k for k in a if rng.random() < 0.3])
        lines.append("sort member %d %s" % (rng.choice(d) if d else 0, ks_str(d)))
    # malformed stream: the walks on arrays that are not sets (no oracle; model must still agree)
    nbad = 100 if rep.tier == "quick" else 5000
    for _ in range(nbad):
        a = [rng.randrange(0, 6) for _ in range(rng.randrange(0, 9))]
        b = [rng.randrange(0, 6) for _ in range(rng.randrange(0, 9))]
        op = rng.choice(["union", "inter", "diff"])
        lines.append("sort %s %s %s" % (op, ks_str(a), ks_str(b)))
        lines.append("sort member %d %s" % (rng.randrange(0, 6), ks_str(a)))
    # de-duplicate, keep order
    seen = set()
    out = []
    for l in lines:
        if l not in seen:
            seen.add(l)
            out.append(l)
    return out


# ---------------------------------------------------------------- other key kinds (op `eval`)

STR_ALPHA = ["", "a", "b", "B", "ab", "aB", "b ", "é", "ü", "z", "ÿ", "Ā", "\U0001F600", "￿", "aa", "~"]


def key_pool(rng, kind, m):
    """m distinct (under ==) comparable Python values of one kind."""
    pool = []

    def add(v):
        if all(v != p for p in pool):
            pool.append(v)

    tries = 0
    while len(pool) < m and tries < 50 * m + 50:
        tries += 1
        if kind == "str":
            add("".join(rng.choice(STR_ALPHA) for _ in range(rng.randrange(0, 3))))
        elif kind == "float":
            add(rng.choice([rng.randrange(-6, 7) / 2.0, rng.randrange(-3, 4) * 1.0, -0.0, 0.0, 1e10, -1e-3, 0.1]))
        elif kind == "arr":
            add([rng.randrange(0, 3) for _ in range(rng.randrange(0, 4))])
        elif kind == "nest":
            add([rng.choice([[], [0], [0, 0], [1], [0, 1]]) for _ in range(rng.randrange(0, 3))])
    return pool


def jlit(v):
    if isinstance(v, str):
        return vlib.jsonnet_str(v)
    if isinstance(v, float):
        return repr(v)
    if isinstance(v, int):
        return str(v)
    return "[" + ", ".join(jlit(x) for x in v) + "]"


def norm(v):
    """JSON-comparable form (numbers as floats)."""
    if isinstance(v, bool) or v is None or isinstance(v, str):
        return v
    if isinstance(v, (int, float)):
        return float(v) + 0.0
    if isinstance(v, list):
        return [norm(x) for x in v]
    if isinstance(v, dict):
        return {k: norm(x) for k, x in v.items()}
    return v


def py_uniq(seq, key):
    return [x for i, x in enumerate(seq) if i == 0 or key(seq[i - 1]) != key(x)]


def first_min(seq, key):
    best = 0
    for i in range(1, len(seq)):
        if key(seq[i]) < key(seq[best]):
            best = i
    return best


def first_max(seq, key):
    best = 0
    for i in range(1, len(seq)):
        if key(seq[i]) > key(seq[best]):
            best = i
    return best


def gen_generic_case(rng, kind, n, m):
    """One Jsonnet program evaluating every function on keys of `kind`, with a
    projecting keyF (objects {k, t}) and with the identity keyF; plus expectations."""
    pool = key_pool(rng, kind, max(1, m))
    ks = [rng.choice(pool) for _ in range(n)]
    spool = sorted(pool)
    sa = [k for k in spool if rng.random() < 0.6]
    sb = [k for k in spool if rng.random() < 0.6]
    probes = [rng.choice(pool) for _ in range(3)]

    def objs(keys, p):
        return "[" + ", ".join("{k: %s, t: \"%s%d\"}" % (jlit(k), p, i) for i, k in enumerate(keys)) + "]"

    def vals(keys):
        return "[" + ", ".join(jlit(k) for k in keys) + "]"

    # the same key, also computed through re-entrant library calls and lazily evaluated array elements
    # (a comparison that forces an element may itself run a sort / set / min)
    kf = rng.choice(["function(x) x.k", "function(x) x.k", "function(x) std.sort([x.k, x.k])[0]", "function(x) [std.sort([x.k])[0]]",
                     "function(x) [std.set([x.k, x.k])[0], std.minArray([1, 2])]", "function(x) std.maxArray([x.k])",
                     "function(x) [[std.sort([x.k, x.k])[1]], std.uniq([0, 0])]"])
    src = [
        "local A = %s;" % objs(ks, ""),
        "local K = %s;" % vals(ks),
        "local SA = %s;" % objs(sa, "a"),
        "local SB = %s;" % objs(sb, "b"),
        "local KA = %s;" % vals(sa),
        "local KB = %s;" % vals(sb),
        "local kf = %s;" % kf,
        "local T(r) = [x.t for x in r];",
        "{",
        " sortP: T(std.sort(A, kf)), sortI: std.sort(K),",
        " uniqP: T(std.uniq(A, kf)), uniqI: std.uniq(K),",
        " setP: T(std.set(A, kf)), setI: std.set(K),",
        " minP: std.minArray(A, kf, {t: \"empty\"}).t, maxP: std.maxArray(A, kf, {t: \"empty\"}).t,",
        " minI: std.minArray(K, onEmpty=\"empty\"), maxI: std.maxArray(K, onEmpty=\"empty\"),",
        " unionP: T(std.setUnion(SA, SB, kf)), unionI: std.setUnion(KA, KB),",
        " interP: T(std.setInter(SA, SB, kf)), interI: std.setInter(KA, KB),",
        " diffP: T(std.setDiff(SA, SB, kf)), diffI: std.setDiff(KA, KB),",
        " memP: [std.setMember({k: p}, SA, kf) for p in %s]," % vals(probes),
        " memI: [std.setMember(p, KA) for p in %s]," % vals(probes),
        "}",
    ]
    idx = list(range(n))
    sidx = sorted(idx, key=lambda i: ks[i])

    def in_(k, s):
        return any(k == y for y in s)

    union_keys = sorted(sa + [k for k in sb if not in_(k, sa)])
    exp = {
        "sortP": [str(i) for i in sidx],
        "sortI": sorted(ks),
        "uniqP": [str(i) for i in py_uniq(idx, lambda i: ks[i])],
        "uniqI": py_uniq(ks, lambda k: k),
        "setP": [str(i) for i in py_uniq(sidx, lambda i: ks[i])],
        "setI": py_uniq(sorted(ks), lambda k: k),
        "minP": str(first_min(idx, lambda i: ks[i])) if n else "empty",
        "maxP": str(first_max(idx, lambda i: ks[i])) if n else "empty",
        "minI": ks[first_min(idx, lambda i: ks[i])] if n else "empty",
        "maxI": ks[first_max(idx, lambda i: ks[i])] if n else "empty",
        "unionP": [("a%d" % sa.index(k)) if in_(k, sa) else ("b%d" % sb.index(k)) for k in union_keys],
        "unionI": union_keys,
        "interP": ["a%d" % i for i, k in enumerate(sa) if in_(k, sb)],
        "interI": [k for k in sa if in_(k, sb)],
        "diffP": ["a%d" % i for i, k in enumerate(sa) if not in_(k, sb)],
        "diffI": [k for k in sa if not in_(k, sb)],
        "memP": [in_(p, sa) for p in probes],
        "memI": [in_(p, sa) for p in probes],
    }
    nontriv = (n >= 2 and len(py_uniq(sorted(ks), lambda k: k)) < n and bool(sa) and bool(sb)
               and any(in_(k, sb) for k in sa) and (any(not in_(k, sb) for k in sa) or any(not in_(k, sa) for k in sb)))
    return "\n".join(src), exp, nontriv


def check_generic(src, exp, out):
    """None or a description of the first mismatch."""
    r = vlib.parse_eval(out)
    if r[0] != "ok":
        return "evaluation failed: %r" % (r,)
    try:
        got = json.loads(r[1])
    except Exception as e:  # noqa
        return "unparsable manifest: %s" % e
    for k in sorted(exp):
        if norm(got.get(k)) != norm(exp[k]):
            return "%s: implementation %r, definition %r" % (k, got.get(k), exp[k])
    return None


# ---------------------------------------------------------------- run / replay

def run(rep):
    rep.rule = ("integer-key arrays (many duplicates; styles few/dups/asc/desc/runs/wide) of every length 0..200 "
                "(0..400 thorough), with more repetitions at 0..12 and around every multiple of the extracted "
                "merge/quick threshold (k*thr-1..k*thr+2, k=1..6,8); all key vectors over {0,1,2} up to length 5 (7 thorough); "
                "set operations on all pairs of subsets of a 4 (6) element universe + random larger sets with "
                "sub/super/equal/disjoint/mixed overlap; binary search on all subsets with every probe; "
                "plus string / float / array / nested-array keys with projecting and identity keyF. "
                "non-trivial = sort/uniq/set/min/max: length>=2 with a duplicated key; set ops: both sets "
                "non-empty with a common and a non-common key; member: non-empty array. distinct by request line")
    rep.assumptions = [
        "keys are mutually comparable values (numbers, strings, arrays): CompareValue is a total preorder and "
        "EqualsValue agrees with it (structure Lawful; C08 is the property about CompareValue itself)",
        "keyF is pure (its result is cached once per element by the code, once per element in the model)",
        "threshold >= 1 (extracted from do_std_sort_slice; with 0 the code would not terminate)",
        "array length + call depth < max_stack (default 500): do_std_sort / do_std_set push one keyF call per "
        "element up front, so ~499+ elements report a clean StackOverflow error with the default limit; section 3 "
        "checks that this is the only effect (correct with a larger max_stack, never a wrong answer)",
        "set operations / setMember are specified on arrays that are sets (strictly key-sorted); on other "
        "arrays only model = implementation is checked",
    ]
    vlib.prelude(rep, extra_modules=['RsjProps.C17Eval'])
    HANGS[0] = 0
    thr = extract_threshold()
    rep.extra["extracted_threshold"] = thr
    if thr is None:
        rep.broken_tie("threshold extractor: `if len > N` not found exactly once in do_std_sort_slice",
                       "the shape of do_std_sort_slice changed; the model no longer corresponds")
        thr = 30
    elif thr < 1:
        rep.broken_tie("extracted merge/quick threshold is %d; the theorems need threshold >= 1" % thr,
                       "with threshold 0 do_std_sort_slice splits a one-element slice for ever")
    if thr != 30:
        rep.extra["threshold_changed_from"] = 30

    # 1. integer keys: oracle + model
    lines = gen_int_lines(rep, thr)
    io = impl_guarded(lines)
    mo = vlib.model(lines)
    for line, a in zip(lines, io):
        w = line.split(" ")
        sub = w[1]
        nt = nontrivial(line)
        rep.count(line, nt, sample={"op": line[:200], "impl": a[:200]} if nt and len(line) < 120 else None)
        rep.bump(sub)
        if sub in ("sort", "set"):
            n = len(parse_ks(w[3]))
            rep.bump("sort-path-merge" if n > thr else ("sort-path-quick" if n >= 2 else "sort-path-trivial"))
        exp = oracle(line)
        if a == "skipped":
            rep.bump("skipped-after-hang")
        elif a == "timeout":
            rep.violation("c17:" + line, "std.%s does not terminate (no answer within 10 s)" % sub,
                          {"op": line, "impl": a, "expected": exp})
        elif exp is None:
            rep.bump("no-oracle(not-a-set)")
        elif a != exp:
            rep.violation("c17:" + line, "std.%s: implementation answers %s, definition gives %s"
                          % (sub, a[:300], exp[:300]), {"op": line, "impl": a[:2000], "expected": exp[:2000]})
    for line, a, b in zip(lines, io, mo):
        if a not in ("skipped", "timeout") and a != b:
            rep.disagreement(line, "sort op: implementation and model differ",
                             {"case": {"key": line}, "impl": a[:2000], "model": b[:2000]})

    # 2. other key kinds through `eval` (direct oracle only)
    ngen = 600 if rep.tier == "quick" else 12000
    gsrc, gexp, gnt = [], [], []
    shapes = [0, 1, 2, 3, 5, 8, thr - 1, thr, thr + 1, 2 * thr + 1, 3 * thr + 5]
    for i in range(ngen):
        kind = ["str", "float", "arr", "nest"][i % 4]
        n = rep.rng.choice(shapes) if rep.rng.random() < 0.7 else rep.rng.randrange(0, 130)
        m = rep.rng.choice([1, 2, 3, 5, 8, 12])
        s, e, nt = gen_generic_case(rep.rng, kind, max(0, n), m)
        gsrc.append(s)
        gexp.append(e)
        gnt.append((kind, nt))
    gout = impl_guarded([vlib.eval_line(s) for s in gsrc])
    for s, e, (kind, nt), o in zip(gsrc, gexp, gnt, gout):
        rep.count("generic:" + s, nt)
        rep.bump("generic-" + kind)
        if o == "skipped":
            continue
        bad = "does not terminate (no answer within 10 s)" if o == "timeout" else check_generic(s, e, o)
        if bad:
            rep.violation("c17-generic:" + s[:400], "keys of kind %s: %s" % (kind, bad[:400]),
                          {"eval": s, "expected": e, "impl": o[:2000]})

    # 3. beyond the default stack budget
    run_big(rep)


def big_src(fn, ks):
    arr = "[" + ", ".join("[%d, \"%d\"]" % (k, i) for i, k in enumerate(ks)) + "]"
    return "std.join(\",\", [x[1] for x in std.%s(%s, function(x) x[0])])" % (fn, arr)


def run_big(rep):
    """3. lengths beyond the default stack budget: correct with a large max_stack; with the
    default max_stack either correct or a clean StackOverflow error."""
    ns = [300, 450, 497, 498, 499, 500, 501, 640, 1000] + ([2000, 5000] if rep.tier != "quick" else [])
    items = []
    for n in ns:
        for fn in ("sort", "set"):
            ks = gen_keys(rep.rng, n, rep.rng.choice(["dups", "runs", "few", "wide"]))
            line = "sort %s 30 %s" % (fn, ks_str(ks))
            items.append((n, fn, big_src(fn, ks), oracle(line)))
    big = impl_guarded([vlib.eval_line(src, mode="str", max_stack=1000000) for _, _, src, _ in items])
    dfl = impl_guarded([vlib.eval_line(src, mode="str") for _, _, src, _ in items])
    first_overflow = None
    for (n, fn, src, exp), ob, od in zip(items, big, dfl):
        rep.count("big:%s:%d:%s" % (fn, n, src[-200:]), True)
        rep.bump("big-" + fn)
        if "skipped" in (ob, od) or "timeout" in (ob, od):
            if "timeout" in (ob, od):
                rep.violation("c17-big:%s:%d" % (fn, n), "std.%s on %d elements does not terminate" % (fn, n),
                              {"eval": src, "opts": {"mode": "str"}, "expected_str": exp, "impl": "timeout"})
            continue
        rb, rd = vlib.parse_eval(ob), vlib.parse_eval(od)
        got_b = (rb[1] or "-") if rb[0] == "ok" else repr(rb)
        if got_b != exp:
            rep.violation("c17-big:%s:%d" % (fn, n), "std.%s on %d elements with max_stack=1000000: %s, definition %s"
                          % (fn, n, got_b[:200], exp[:200]), {"eval": src, "opts": {"mode": "str", "max_stack": 1000000},
                                                              "expected_str": exp, "impl": ob[:2000]})
        if rd[0] == "ok":
            if (rd[1] or "-") != exp:
                rep.violation("c17-big-default:%s:%d" % (fn, n), "std.%s on %d elements (default stack): wrong answer"
                              % (fn, n), {"eval": src, "opts": {"mode": "str"}, "expected_str": exp, "impl": od[:2000]})
        elif rd[0] == "err" and rd[2] == "StackOverflow":
            rep.bump("default-stack-overflow")
            first_overflow = n if first_overflow is None else min(first_overflow, n)
        else:
            rep.violation("c17-big-default:%s:%d" % (fn, n), "std.%s on %d elements (default stack): %r"
                          % (fn, n, rd), {"eval": src, "opts": {"mode": "str"}, "expected_str": exp, "impl": od[:2000]})
    rep.extra["smallest_length_with_default_stack_overflow"] = first_overflow


def replay(r):
    rp = r["replay"]
    vlib.build_harness()
    if "expected_str" in rp:
        out = vlib.impl([vlib.eval_line(rp["eval"], **rp["opts"])])[0]
        res = vlib.parse_eval(out)
        print("impl  :", res)
        print("oracle:", rp["expected_str"][:2000])
        return 0 if res[0] == "ok" and (res[1] or "-") == rp["expected_str"] else 1
    if "eval" in rp:
        out = vlib.impl([vlib.eval_line(rp["eval"])])[0]
        print("impl :", vlib.parse_eval(out))
        bad = check_generic(rp["eval"], rp["expected"], out)
        print("oracle:", bad)
        return 1 if bad else 0
    line = rp.get("op") or rp["case"]["key"]
    a = vlib.impl([line])[0]
    b = vlib.model([line])[0]
    exp = oracle(line)
    print("impl  :", a)
    print("model :", b)
    print("oracle:", exp)
    return 1 if (exp is not None and a != exp) or a != b else 0
